// Package lenflow is engine E1: a forward dataflow on SSA computing, for every
// slice-typed value, a lower bound of its length at every program point.
//
// Facts come from comparisons of len(L) (possibly offset by constants) with
// integer constants on branch edges, from callee summaries ("on every normal
// return len(param k) >= n", computed context-sensitively for constant integer
// arguments, which is how slip.CheckArgCount(s, d, f, args, 2, 3) is
// understood without naming it), and from caller guarantees (minimum over all
// static call sites) for functions that are never called dynamically. Blocks
// following a call to a function that cannot return normally are pruned.
package lenflow

import (
	"fmt"
	"go/constant"
	"go/token"
	"go/types"
	"sort"
	"strings"

	"golang.org/x/tools/go/ssa"

	"slipcheck/core"
)

// Inf is the bound of an unreachable point.
const Inf = 1 << 30

// State maps a root value (slice: lower bound of len; int: lower bound of the
// value) to its bound. Missing = 0 for slices; ints missing = unknown.
type State map[ssa.Value]int

func (s State) clone() State {
	n := make(State, len(s)+2)
	for k, v := range s {
		n[k] = v
	}
	return n
}

// Analyzer holds program-wide summaries.
type Analyzer struct {
	C *core.Ctx

	noret      map[*ssa.Function]int // 0 unknown, 1 returns, 2 no-return, 3 in progress
	ensures    map[string][]int
	returns    map[string][]int
	ensuresIP  map[string]bool
	entry      map[*ssa.Function][]int
	entryIP    map[*ssa.Function]bool
	results    map[string]*Result
	callers    map[*ssa.Function][]*ssa.Call // static call sites (ssa.Call and Defer/Go excluded)
	valueUse   map[*ssa.Function]bool        // function used as a value (not in call position) anywhere
	ifaceNames map[string]bool               // method names declared by any interface in the program
	indexed    bool
	// MaxDepth bounds summary recursion.
	MaxDepth int
	relInts  map[*ssa.Function][]bool
	// cut is set whenever a summary request was answered with "unknown" because of the bound or a cycle
	cut bool
	// Stats
	Contexts int
}

func New(c *core.Ctx) *Analyzer {
	c.BuildSSA()
	return &Analyzer{C: c, noret: map[*ssa.Function]int{}, ensures: map[string][]int{}, returns: map[string][]int{}, ensuresIP: map[string]bool{},
		entry: map[*ssa.Function][]int{}, entryIP: map[*ssa.Function]bool{}, results: map[string]*Result{}, MaxDepth: 6}
}

func (a *Analyzer) index() {
	if a.indexed {
		return
	}
	a.indexed = true
	a.callers = map[*ssa.Function][]*ssa.Call{}
	a.valueUse = map[*ssa.Function]bool{}
	a.ifaceNames = map[string]bool{}
	for _, f := range a.C.AllFuncs() {
		for _, b := range f.Blocks {
			for _, in := range b.Instrs {
				var rands [16]*ssa.Value
				ops := in.Operands(rands[:0])
				var calleeOp *ssa.Value
				switch c := in.(type) {
				case *ssa.Call:
					if !c.Call.IsInvoke() {
						calleeOp = &c.Call.Value
						if g := c.Call.StaticCallee(); g != nil {
							a.callers[g] = append(a.callers[g], c)
						}
					}
				case *ssa.Defer:
					if !c.Call.IsInvoke() {
						calleeOp = &c.Call.Value
						if g := c.Call.StaticCallee(); g != nil {
							a.valueUse[g] = true // deferred: arguments evaluated at defer time; treat as unknown caller
						}
					}
				case *ssa.Go:
					if !c.Call.IsInvoke() {
						calleeOp = &c.Call.Value
						if g := c.Call.StaticCallee(); g != nil {
							a.valueUse[g] = true
						}
					}
				}
				for _, op := range ops {
					if op == nil || *op == nil || op == calleeOp {
						continue
					}
					switch v := (*op).(type) {
					case *ssa.Function:
						a.valueUse[v] = true
					case *ssa.MakeClosure:
						// the closure value itself is tracked at its MakeClosure instr
						_ = v
					}
				}
				if mc, ok := in.(*ssa.MakeClosure); ok {
					// a closure that is only called directly is rare; treat as value use unless immediately called
					fn := mc.Fn.(*ssa.Function)
					direct := true
					for _, r := range *mc.Referrers() {
						if c, ok := r.(*ssa.Call); ok && c.Call.Value == mc {
							continue
						}
						direct = false
					}
					if !direct {
						a.valueUse[fn] = true
					}
				}
			}
		}
	}
	// interface method names
	for _, p := range a.C.All {
		if p.Types == nil {
			continue
		}
		sc := p.Types.Scope()
		for _, n := range sc.Names() {
			tn, ok := sc.Lookup(n).(*types.TypeName)
			if !ok {
				continue
			}
			if it, ok := tn.Type().Underlying().(*types.Interface); ok {
				for i := 0; i < it.NumMethods(); i++ {
					a.ifaceNames[it.Method(i).Name()] = true
				}
			}
		}
	}
	// anonymous interfaces in module signatures are rare; add the well-known ones
	for _, n := range []string{"Error", "String", "Read", "Write", "Close"} {
		a.ifaceNames[n] = true
	}
}

// Dynamic reports whether f may be called through an interface, a function
// value, defer or go, i.e. by callers the analysis does not see as static calls.
func (a *Analyzer) Dynamic(f *ssa.Function) bool {
	a.index()
	if a.valueUse[f] {
		return true
	}
	if f.Signature.Recv() != nil && a.ifaceNames[f.Name()] {
		return true
	}
	if f.Parent() != nil {
		// anonymous function: callers are its direct calls only if never escaping (valueUse handled above)
		return false
	}
	return false
}

// StaticCallers returns the static call sites of f.
func (a *Analyzer) StaticCallers(f *ssa.Function) []*ssa.Call {
	a.index()
	return a.callers[f]
}

var noReturnStd = map[string]bool{
	"os.Exit": true, "runtime.Goexit": true, "log.Fatal": true, "log.Fatalf": true, "log.Fatalln": true,
	"log.Panic": true, "log.Panicf": true, "log.Panicln": true,
}

// NoReturn reports whether f can never return normally (every path ends in a
// panic or in a call to such a function).
func (a *Analyzer) NoReturn(f *ssa.Function) bool {
	if f == nil {
		return false
	}
	switch a.noret[f] {
	case 1, 3:
		return false
	case 2:
		return true
	}
	if f.Blocks == nil {
		r := noReturnStd[f.String()]
		if r {
			a.noret[f] = 2
		} else {
			a.noret[f] = 1
		}
		return r
	}
	if noReturnStd[f.String()] {
		a.noret[f] = 2
		return true
	}
	a.noret[f] = 3
	// a deferred function that may recover lets the function return normally
	for _, b := range f.Blocks {
		for _, in := range b.Instrs {
			if d, ok := in.(*ssa.Defer); ok {
				if a.mayRecover(d.Call.StaticCallee(), 0) {
					a.noret[f] = 1
					return false
				}
			}
		}
	}
	seen := map[*ssa.BasicBlock]bool{}
	var stack []*ssa.BasicBlock
	stack = append(stack, f.Blocks[0])
	returns := false
	for len(stack) > 0 && !returns {
		b := stack[len(stack)-1]
		stack = stack[:len(stack)-1]
		if seen[b] {
			continue
		}
		seen[b] = true
		cut := false
		for _, in := range b.Instrs {
			switch x := in.(type) {
			case *ssa.Call:
				if g := x.Call.StaticCallee(); g != nil && a.NoReturn(g) {
					cut = true
				}
			case *ssa.Return:
				returns = true
			}
			if cut || returns {
				break
			}
		}
		if !cut {
			stack = append(stack, b.Succs...)
		}
	}
	if returns {
		a.noret[f] = 1
		return false
	}
	a.noret[f] = 2
	return true
}

func (a *Analyzer) mayRecover(f *ssa.Function, depth int) bool {
	if f == nil {
		return true // dynamic deferred call: assume it may recover
	}
	if f.Blocks == nil {
		return false
	}
	if depth > 3 {
		return true
	}
	for _, b := range f.Blocks {
		for _, in := range b.Instrs {
			if c, ok := in.(*ssa.Call); ok {
				if bi, ok := c.Call.Value.(*ssa.Builtin); ok && bi.Name() == "recover" {
					return true
				}
			}
		}
	}
	return false
}

// ---------------------------------------------------------------- resolution

// Ref is a value expressed relative to a root: for slices len(v) = len(Root) -
// Off; for ints v = len(Root) - Off (IsLen) or v = Root - Off (plain int root).
type Ref struct {
	Root ssa.Value
	Off  int
}

// Bind is what a context knows about an int parameter: its exact value, or
// only a lower bound.
type Bind struct {
	V     int
	Exact bool
}

type fctx struct {
	fn    *ssa.Function
	binds map[*ssa.Parameter]Bind // int bindings of parameters in this context
	// closure support: the MakeClosure that created fn (nil for declared functions)
	mk          *ssa.MakeClosure
	parent      *fctx
	lbMemo      map[ssa.Value][2]int
	fieldCanon  map[string]ssa.Value
	fieldStored map[string]bool
	fieldStores map[string][]*ssa.Store
	fieldLoads  map[string][]*ssa.UnOp
	budget      int
}

func isSliceT(t types.Type) bool {
	if _, ok := t.Underlying().(*types.Slice); ok {
		return true
	}
	// strings (and named string types: Symbol, String) have a length that the same comparisons bound
	b, ok := t.Underlying().(*types.Basic)
	return ok && b.Info()&types.IsString != 0
}

// IntConst folds v to an integer constant if possible.
func (fc *fctx) IntConst(v ssa.Value) (int, bool) {
	switch x := v.(type) {
	case *ssa.Const:
		if x.Value != nil && x.Value.Kind() == constant.Int {
			if i, ok := constant.Int64Val(x.Value); ok {
				return int(i), true
			}
		}
	case *ssa.Parameter:
		if fc.binds != nil {
			if c, ok := fc.binds[x]; ok && c.Exact {
				return c.V, true
			}
		}
	case *ssa.BinOp:
		a, ok1 := fc.IntConst(x.X)
		b, ok2 := fc.IntConst(x.Y)
		if ok1 && ok2 {
			switch x.Op {
			case token.ADD:
				return a + b, true
			case token.SUB:
				return a - b, true
			case token.MUL:
				return a * b, true
			}
		}
	case *ssa.Convert:
		if _, ok := x.Type().Underlying().(*types.Basic); ok {
			return fc.IntConst(x.X)
		}
	case *ssa.ChangeType:
		return fc.IntConst(x.X)
	}
	return 0, false
}

// IntLB returns a lower bound of an int value known without any state: a
// constant, a bound parameter, a phi of such (minimum), or those plus/minus
// constants.
func (fc *fctx) IntLB(v ssa.Value, depth int) (int, bool) {
	if fc.lbMemo == nil {
		fc.lbMemo = map[ssa.Value][2]int{}
	}
	if m, ok := fc.lbMemo[v]; ok {
		return m[0], m[1] == 1
	}
	fc.budget = 3000
	c, ok := fc.intLB(v, depth, map[*ssa.Phi]bool{})
	if fc.budget <= 0 {
		c, ok = 0, false
	}
	if ok {
		fc.lbMemo[v] = [2]int{c, 1}
	} else {
		fc.lbMemo[v] = [2]int{0, 0}
	}
	return c, ok
}

// intLB: a phi that is being visited contributes the neutral element Inf, which
// is sound for edges of the form phi+c with c >= 0 (induction on iterations)
// and is rejected for any other use of the cyclic value.
func (fc *fctx) intLB(v ssa.Value, depth int, visiting map[*ssa.Phi]bool) (int, bool) {
	if c, ok := fc.IntConst(v); ok {
		return c, true
	}
	fc.budget--
	if depth > 8 || fc.budget <= 0 {
		return 0, false
	}
	switch x := v.(type) {
	case *ssa.Parameter:
		if c, ok := fc.binds[x]; ok {
			return c.V, true
		}
	case *ssa.Phi:
		if visiting[x] {
			return Inf, true
		}
		visiting[x] = true
		defer delete(visiting, x)
		m := Inf
		for _, e := range x.Edges {
			c, ok := fc.intLB(e, depth+1, visiting)
			if !ok {
				return 0, false
			}
			if c < m {
				m = c
			}
		}
		if m != Inf {
			return m, true
		}
		if len(visiting) > 1 {
			// every edge leads back to an enclosing phi being visited: neutral
			return Inf, true
		}
	case *ssa.BinOp:
		switch x.Op {
		case token.ADD:
			a, ok1 := fc.intLB(x.X, depth+1, visiting)
			b, ok2 := fc.intLB(x.Y, depth+1, visiting)
			if ok1 && ok2 {
				if a == Inf || b == Inf {
					// cyclic value plus something: sound only if the other operand is >= 0
					o := a
					if a == Inf {
						o = b
					}
					if o == Inf || o < 0 {
						return 0, false
					}
					return Inf, true
				}
				return a + b, true
			}
		case token.SUB:
			a, ok1 := fc.intLB(x.X, depth+1, visiting)
			b, ok2 := fc.IntConst(x.Y)
			if ok1 && ok2 && a != Inf {
				return a - b, true
			}
		}
	case *ssa.Call:
		if bi, ok := x.Call.Value.(*ssa.Builtin); ok && bi.Name() == "len" {
			return 0, true
		}
	}
	return 0, false
}

// singleStore returns the only value ever stored into alloc (including stores
// from closures), provided that the store is in the entry block of the
// allocating function.
func singleStore(al *ssa.Alloc) ssa.Value {
	if st := singleStoreInstr(al); st != nil {
		return st.Val
	}
	return nil
}

// storeBefore reports whether st is executed before instruction in on every
// path reaching in (block dominance, or earlier in the same block).
func storeBefore(st *ssa.Store, in ssa.Instruction) bool {
	if st == nil || in == nil || st.Parent() != in.Parent() {
		return false
	}
	if st.Block() == in.Block() {
		for _, x := range st.Block().Instrs {
			if x == ssa.Instruction(st) {
				return true
			}
			if x == in {
				return false
			}
		}
		return false
	}
	return st.Block().Dominates(in.Block())
}

func singleStoreInstr(al *ssa.Alloc) *ssa.Store {
	var stored *ssa.Store
	n := 0
	var visit func(v ssa.Value) bool
	visit = func(v ssa.Value) bool {
		refs := v.Referrers()
		if refs == nil {
			return false
		}
		for _, r := range *refs {
			switch x := r.(type) {
			case *ssa.Store:
				if x.Addr == v {
					n++
					stored = x
					if x.Parent() != al.Parent() {
						return false
					}
				} else {
					return false // address escapes as a value
				}
			case *ssa.UnOp:
				// load
			case *ssa.MakeClosure:
				fn := x.Fn.(*ssa.Function)
				for i, b := range x.Bindings {
					if b == v {
						if !visit(fn.FreeVars[i]) {
							return false
						}
					}
				}
			case *ssa.DebugRef:
			default:
				return false
			}
		}
		return true
	}
	if !visit(al) || n != 1 {
		return nil
	}
	return stored
}

// ResolveSlice expresses a slice-typed value relative to a root.
func (fc *fctx) ResolveSlice(v ssa.Value) Ref {
	off := 0
	for i := 0; i < 50; i++ {
		switch x := v.(type) {
		case *ssa.Slice:
			if !isSliceT(x.X.Type()) {
				return Ref{v, off}
			}
			if x.High != nil || x.Max != nil {
				// x[a:b]: the result is a root of its own; its length is decided at the instruction
				return Ref{v, off}
			}
			if x.Low == nil {
				v = x.X
				continue
			}
			if k, ok := fc.IntConst(x.Low); ok && k >= 0 {
				off += k
				v = x.X
				continue
			}
			return Ref{v, off}
		case *ssa.ChangeType:
			if isSliceT(x.X.Type()) {
				v = x.X
				continue
			}
			return Ref{v, off}
		case *ssa.UnOp:
			if x.Op == token.MUL {
				if al, ok := x.X.(*ssa.Alloc); ok {
					if st := singleStoreInstr(al); st != nil && storeBefore(st, x) {
						v = st.Val
						continue
					}
				}
				if fv, ok := x.X.(*ssa.FreeVar); ok {
					if sv := fc.freeVarValue(fv); sv != nil {
						v = sv
						continue
					}
				}
				if _, ok := x.X.(*ssa.FieldAddr); ok {
					if sv := fc.storedFieldValue(x); sv != nil {
						v = sv
						continue
					}
					if cv := fc.canonicalFieldLoad(x); cv != nil {
						return Ref{cv, off}
					}
				}
			}
			return Ref{v, off}
		default:
			return Ref{v, off}
		}
	}
	return Ref{v, off}
}

// pathKey renders a pure access path (parameter/free variable, field
// selections, loads of such) as a string; "" if v is anything else.
func pathKey(v ssa.Value, depth int) string {
	if depth > 8 {
		return ""
	}
	switch x := v.(type) {
	case *ssa.Parameter:
		return fmt.Sprintf("P%p", x)
	case *ssa.FreeVar:
		return fmt.Sprintf("F%p", x)
	case *ssa.FieldAddr:
		b := pathKey(x.X, depth+1)
		if b == "" {
			return ""
		}
		return fmt.Sprintf("%s.%d", b, x.Field)
	case *ssa.UnOp:
		if x.Op != token.MUL {
			return ""
		}
		if _, isElem := x.X.(*ssa.IndexAddr); isElem && depth > 0 {
			// a pointer loaded from a slice element (`for _, da := range fd.Args`): the SSA value is fixed
			if _, ok := v.Type().Underlying().(*types.Pointer); ok {
				return fmt.Sprintf("V%p", v)
			}
		}
		b := pathKey(x.X, depth+1)
		if b == "" {
			return ""
		}
		return "*" + b
	case *ssa.Lookup, *ssa.Extract, *ssa.Call, *ssa.TypeAssert, *ssa.Phi:
		// an SSA value of pointer type never changes: the fields reached from it are as stable a path as
		// those reached from a parameter (`xlam := m[name]; if len(xlam.Forms) != 1 {return}; xlam.Forms[0]`)
		if _, ok := v.Type().Underlying().(*types.Pointer); ok && depth > 0 {
			return fmt.Sprintf("V%p", v)
		}
	}
	return ""
}

// canonicalFieldLoad maps every load of the same field path (no CSE in go/ssa:
// `if 0 < len(f.Args) { f.Args[0] }` loads f.Args twice) to one representative,
// provided the function and its closures never assign that field. Calls made
// between the guard and the use are assumed not to shrink the field.
func (fc *fctx) canonicalFieldLoad(u *ssa.UnOp) ssa.Value {
	if fc.fieldCanon == nil {
		fc.fieldCanon = map[string]ssa.Value{}
		fc.fieldStored = map[string]bool{}
		fc.fieldStores = map[string][]*ssa.Store{}
		fc.fieldLoads = map[string][]*ssa.UnOp{}
		var scan func(f *ssa.Function)
		scan = func(f *ssa.Function) {
			for _, b := range f.Blocks {
				for _, in := range b.Instrs {
					switch x := in.(type) {
					case *ssa.Store:
						if fa, ok := x.Addr.(*ssa.FieldAddr); ok {
							if f == fc.fn {
								fc.fieldStores[fieldID(fa)] = append(fc.fieldStores[fieldID(fa)], x)
							} else {
								fc.fieldStored[fieldID(fa)] = true // assigned by a closure: at an unknown time
							}
						}
					case *ssa.UnOp:
						if x.Op == token.MUL && f == fc.fn {
							if _, ok := x.X.(*ssa.FieldAddr); ok {
								if k := pathKey(x.X, 0); k != "" {
									if _, has := fc.fieldCanon[k]; !has {
										fc.fieldCanon[k] = x
									}
									fc.fieldLoads[k] = append(fc.fieldLoads[k], x)
								}
							}
						}
					}
				}
			}
			for _, af := range f.AnonFuncs {
				scan(af)
			}
		}
		scan(fc.fn)
	}
	fa := u.X.(*ssa.FieldAddr)
	if fc.fieldStored[fieldID(fa)] {
		return nil
	}
	k := pathKey(fa, 0)
	if k == "" {
		return nil
	}
	rep := fc.fieldCanon[k]
	if rep == nil {
		return nil
	}
	// the earliest load of the path that reaches this one with no store to the field possible in between:
	// loads after `x.f = x.f[:n]` form their own group, so a guard on one of them covers the others
	if len(fc.fieldStores[fieldID(fa)]) > 0 {
		for _, l := range fc.fieldLoads[k] {
			if l == u {
				break
			}
			if !instrReaches(l, u) {
				continue
			}
			separated := false
			for _, st := range fc.fieldStores[fieldID(fa)] {
				if instrReaches(l, st) && instrReaches(st, u) {
					separated = true
					break
				}
			}
			if !separated {
				// l itself must not be re-reached through a store (loop)
				loop := false
				for _, st := range fc.fieldStores[fieldID(fa)] {
					if instrReaches(l, st) && instrReaches(st, l) {
						loop = true
					}
				}
				if !loop {
					return l
				}
			}
		}
	}
	// A store to the field (through any pointer of the type) that can execute between the representative
	// load and this one separates them. A store after both, or before both, does not.
	if ri, ok := rep.(ssa.Instruction); ok && rep != ssa.Value(u) {
		for _, st := range fc.fieldStores[fieldID(fa)] {
			if instrReaches(ri, st) && instrReaches(st, u) {
				return nil
			}
		}
	} else if ok {
		// the representative itself: only a loop through a store brings a different value back here
		for _, st := range fc.fieldStores[fieldID(fa)] {
			if instrReaches(ri, st) && instrReaches(st, ri) {
				return nil
			}
		}
	}
	return rep
}

// storedFieldValue: the load u of a field path is dominated by a store to the same path and no other store to
// that field (through any pointer of the type) can execute between the two: the load yields the stored value
// (`c.prec = append(c.prec, x); ... c.prec[len(c.prec)-1]`).
func (fc *fctx) storedFieldValue(u *ssa.UnOp) ssa.Value {
	fa, ok := u.X.(*ssa.FieldAddr)
	if !ok {
		return nil
	}
	k := pathKey(fa, 0)
	if k == "" {
		return nil
	}
	if fc.fieldCanon == nil {
		_ = fc.canonicalFieldLoad(u) // builds the tables
	}
	if fc.fieldStored[fieldID(fa)] {
		return nil
	}
	var best *ssa.Store
	for _, st := range fc.fieldStores[fieldID(fa)] {
		sfa, ok := st.Addr.(*ssa.FieldAddr)
		if !ok || pathKey(sfa, 0) != k {
			continue
		}
		if !storeBefore(st, u) {
			continue
		}
		if best == nil || storeBefore(best, st) {
			best = st
		}
	}
	if best == nil {
		return nil
	}
	for _, st := range fc.fieldStores[fieldID(fa)] {
		if st == best {
			continue
		}
		if instrReaches(best, st) && instrReaches(st, u) {
			return nil
		}
	}
	// a loop from the store back to itself before the load re-executes the store: still the stored value
	return best.Val
}

// instrReaches: can control flow from just after a to b (same function)?
func instrReaches(a, b ssa.Instruction) bool {
	if a.Parent() != b.Parent() {
		return false
	}
	if a.Block() == b.Block() {
		ia, ib := -1, -1
		for i, in := range a.Block().Instrs {
			if in == a {
				ia = i
			}
			if in == b {
				ib = i
			}
		}
		if ia < ib {
			return true
		}
	}
	seen := map[*ssa.BasicBlock]bool{}
	stack := append([]*ssa.BasicBlock(nil), a.Block().Succs...)
	for len(stack) > 0 {
		blk := stack[len(stack)-1]
		stack = stack[:len(stack)-1]
		if seen[blk] {
			continue
		}
		seen[blk] = true
		if blk == b.Block() {
			return true
		}
		stack = append(stack, blk.Succs...)
	}
	return false
}

func fieldID(fa *ssa.FieldAddr) string {
	t := fa.X.Type().Underlying().(*types.Pointer).Elem()
	return fmt.Sprintf("%s#%d", t.String(), fa.Field)
}

// freeVarValue resolves a captured variable to the single value ever stored
// in it (a value of the enclosing function), if there is exactly one.
func (fc *fctx) freeVarValue(fv *ssa.FreeVar) ssa.Value {
	if fc.mk == nil {
		return nil
	}
	for i, f := range fc.fn.FreeVars {
		if f == fv && i < len(fc.mk.Bindings) {
			if al, ok := fc.mk.Bindings[i].(*ssa.Alloc); ok {
				if st := singleStoreInstr(al); st != nil && storeBefore(st, fc.mk) {
					return st.Val
				}
			}
			if pfv, ok := fc.mk.Bindings[i].(*ssa.FreeVar); ok && fc.parent != nil {
				// captured through an enclosing closure
				return fc.parent.freeVarValue(pfv)
			}
		}
	}
	return nil
}

// ResolveInt expresses an int value as len(Root)-Off (isLen) or as a plain
// int root minus Off; ok=false when it is neither.
func (fc *fctx) ResolveInt(v ssa.Value) (r Ref, isLen bool, ok bool) {
	off := 0
	for i := 0; i < 50; i++ {
		switch x := v.(type) {
		case *ssa.Call:
			if bi, okb := x.Call.Value.(*ssa.Builtin); okb && bi.Name() == "len" && len(x.Call.Args) == 1 && isSliceT(x.Call.Args[0].Type()) {
				sr := fc.ResolveSlice(x.Call.Args[0])
				return Ref{sr.Root, sr.Off + off}, true, true
			}
			return Ref{v, off}, false, true
		case *ssa.BinOp:
			if x.Op == token.SUB {
				if c, okc := fc.IntConst(x.Y); okc {
					off += c
					v = x.X
					continue
				}
			}
			if x.Op == token.ADD {
				if c, okc := fc.IntConst(x.Y); okc {
					off -= c
					v = x.X
					continue
				}
				if c, okc := fc.IntConst(x.X); okc {
					off -= c
					v = x.Y
					continue
				}
			}
			return Ref{v, off}, false, true
		case *ssa.Parameter, *ssa.Phi:
			return Ref{v, off}, false, true
		case *ssa.UnOp:
			if x.Op == token.MUL {
				if al, oka := x.X.(*ssa.Alloc); oka {
					if st := singleStoreInstr(al); st != nil && storeBefore(st, x) {
						v = st.Val
						continue
					}
				}
			}
			return Ref{v, off}, false, true
		case *ssa.Convert:
			v = x.X
			continue
		default:
			return Ref{v, off}, false, true
		}
	}
	return Ref{v, off}, false, true
}

// ---------------------------------------------------------------- dataflow

// Result is the fixpoint of one function in one context.
type Result struct {
	fc  *fctx
	in  map[*ssa.BasicBlock]State // nil = unreachable
	an  *Analyzer
	dep int
	// truncated: a summary was skipped because of the recursion bound or a cycle;
	// the result is sound but must not be reused at a shallower depth
	truncated bool
	guards    *core.Guards
}

func ctxKey(f *ssa.Function, binds map[*ssa.Parameter]Bind, entry []int) string {
	var sb strings.Builder
	fmt.Fprintf(&sb, "%p", f)
	if len(binds) > 0 {
		idx := make([]int, 0, len(binds))
		m := map[int]Bind{}
		for p, v := range binds {
			for i, q := range f.Params {
				if q == p {
					idx = append(idx, i)
					m[i] = v
				}
			}
		}
		sort.Ints(idx)
		for _, i := range idx {
			fmt.Fprintf(&sb, "|%d=%d%v", i, m[i].V, m[i].Exact)
		}
	}
	sb.WriteString("|e")
	for _, e := range entry {
		fmt.Fprintf(&sb, ",%d", e)
	}
	return sb.String()
}

// lb returns the lower bound of a root in a state, combining facts with
// bounds that are intrinsic to the defining instruction.
func (r *Result) lb(st State, root ssa.Value) int {
	if v, ok := st[root]; ok {
		return v
	}
	return r.intrinsic(st, root)
}

// intrinsic lower bound of len(root) known from its definition alone.
func (r *Result) intrinsic(st State, root ssa.Value) int {
	switch x := root.(type) {
	case *ssa.Slice:
		if pt, ok := x.X.Type().Underlying().(*types.Pointer); ok {
			if at, ok := pt.Elem().Underlying().(*types.Array); ok {
				lo, hi := 0, int(at.Len())
				if x.Low != nil {
					if c, ok := r.fc.IntConst(x.Low); ok {
						lo = c
					} else {
						return 0
					}
				}
				if x.High != nil {
					if c, ok := r.fc.IntConst(x.High); ok {
						hi = c
					} else {
						return 0
					}
				}
				if hi >= lo {
					return hi - lo
				}
			}
			return 0
		}
		if x.High != nil {
			hi, ok := r.fc.IntConst(x.High)
			if !ok {
				// x[a:len(y)-c] and friends: unknown
				return 0
			}
			lo := 0
			if x.Low != nil {
				c, ok := r.fc.IntConst(x.Low)
				if !ok {
					return 0
				}
				lo = c
			}
			if hi >= lo {
				return hi - lo
			}
		}
	case *ssa.MakeSlice:
		if c, ok := r.fc.IntConst(x.Len); ok {
			return c
		}
		// make(T, len(y)+c): SSA values are immutable, so len(x) = len(y)+c wherever both are visible
		if ref, isLen, ok := r.fc.ResolveInt(x.Len); ok {
			if isLen {
				if n := r.lb(st, ref.Root) - ref.Off; n > 0 {
					return n
				}
			} else if v, has := st[ref.Root]; has {
				if n := v - ref.Off; n > 0 {
					return n
				}
			} else if -ref.Off > 0 {
				// make(T, n+c) succeeded, so n+c >= 0; nothing more is known about n
				_ = v
			}
		}
	case *ssa.Const:
		return 0
	}
	return 0
}

// LBSlice returns the lower bound of len(v) in state st.
func (r *Result) LBSlice(st State, v ssa.Value) int {
	ref := r.fc.ResolveSlice(v)
	n := r.lb(st, ref.Root) - ref.Off
	if n < 0 {
		n = 0
	}
	return n
}

// Analyze runs the dataflow for f with the given constant bindings and entry
// bounds of its parameters (nil = use caller guarantees).
func (a *Analyzer) Analyze(f *ssa.Function, binds map[*ssa.Parameter]Bind, entry []int, depth int) *Result {
	entryCut := false
	if entry == nil {
		a.cut = false
		entry = a.EntryBounds(f, depth)
		entryCut = a.cut
	}
	key := ctxKey(f, binds, entry)
	if r, ok := a.results[key]; ok && (!r.truncated || depth >= r.dep) {
		return r
	}
	a.Contexts++
	r := &Result{fc: &fctx{fn: f, binds: binds}, in: map[*ssa.BasicBlock]State{}, an: a, dep: depth, truncated: entryCut}
	a.results[key] = r
	if len(f.Blocks) == 0 {
		return r
	}
	st0 := State{}
	if f.Parent() != nil && depth < a.MaxDepth {
		if mk := findMakeClosure(f); mk != nil {
			r.fc.mk = mk
			pres := a.Analyze(f.Parent(), nil, nil, depth+1)
			r.fc.parent = pres.fc
			pres.Visit(func(in ssa.Instruction, st State) {
				if in == ssa.Instruction(mk) {
					// facts about immutable SSA values of the parent that held when the closure was made hold whenever it runs
					for k, v := range st {
						st0[k] = v
					}
				}
			})
		}
	}
	for i, p := range f.Params {
		if i < len(entry) && entry[i] > 0 {
			st0[p] = entry[i]
		}
	}
	r.in[f.Blocks[0]] = st0
	work := []*ssa.BasicBlock{f.Blocks[0]}
	inWork := map[*ssa.BasicBlock]bool{f.Blocks[0]: true}
	iter := 0
	for len(work) > 0 {
		iter++
		if iter > 20000 {
			break
		}
		b := work[0]
		work = work[1:]
		inWork[b] = false
		out, live := r.transferBlock(b, r.in[b].clone(), nil)
		if !live {
			continue
		}
		for si, s := range b.Succs {
			es := out.clone()
			if ifi, ok := b.Instrs[len(b.Instrs)-1].(*ssa.If); ok {
				r.applyCond(es, ifi.Cond, si == 0)
			}
			// phis of the successor, evaluated in the state of this edge (after the branch condition)
			out := es.clone()
			pi := predIndex(s, b)
			for _, in := range s.Instrs {
				phi, ok := in.(*ssa.Phi)
				if !ok {
					break
				}
				if pi < 0 || pi >= len(phi.Edges) {
					continue
				}
				e := phi.Edges[pi]
				if isSliceT(phi.Type()) {
					es[phi] = r.LBSlice(out, e)
				} else if isIntT(phi.Type()) {
					if c, ok := r.fc.IntConst(e); ok {
						es[phi] = c
					} else if ref, isLen, ok := r.fc.ResolveInt(e); ok {
						if isLen {
							// phi = len(root) - off: only a lower bound of the int value is kept
							es[phi] = r.lb(out, ref.Root) - ref.Off
						} else if v, has := out[ref.Root]; has {
							es[phi] = v - ref.Off
						} else {
							delete(es, phi)
						}
					} else {
						delete(es, phi)
					}
				}
			}
			old, seen := r.in[s]
			var nw State
			if !seen || old == nil {
				nw = es
			} else {
				nw = join(old, es)
			}
			if !seen || old == nil || !equal(old, nw) {
				r.in[s] = nw
				if !inWork[s] {
					work = append(work, s)
					inWork[s] = true
				}
			}
		}
	}
	return r
}

func findMakeClosure(f *ssa.Function) *ssa.MakeClosure {
	p := f.Parent()
	if p == nil {
		return nil
	}
	var found *ssa.MakeClosure
	for _, b := range p.Blocks {
		for _, in := range b.Instrs {
			if mk, ok := in.(*ssa.MakeClosure); ok && mk.Fn == ssa.Value(f) {
				if found != nil {
					return nil
				}
				found = mk
			}
		}
	}
	return found
}

func isIntT(t types.Type) bool {
	b, ok := t.Underlying().(*types.Basic)
	return ok && b.Info()&types.IsInteger != 0
}

func predIndex(s, b *ssa.BasicBlock) int {
	for i, p := range s.Preds {
		if p == b {
			return i
		}
	}
	return -1
}

func join(a, b State) State {
	n := State{}
	for k, v := range a {
		if w, ok := b[k]; ok {
			if w < v {
				v = w
			}
			n[k] = v
		}
	}
	return n
}

func equal(a, b State) bool {
	if len(a) != len(b) {
		return false
	}
	for k, v := range a {
		if w, ok := b[k]; !ok || w != v {
			return false
		}
	}
	return true
}

// Visitor is called for every instruction of reachable code with the state
// holding immediately before it.
type Visitor func(in ssa.Instruction, st State)

// Visit walks all reachable instructions with their pre-states.
func (r *Result) Visit(v Visitor) {
	for _, b := range r.fc.fn.Blocks {
		st, ok := r.in[b]
		if !ok || st == nil {
			continue
		}
		r.transferBlock(b, st.clone(), v)
	}
}

// Reachable reports whether block b was reached by the dataflow.
func (r *Result) Reachable(b *ssa.BasicBlock) bool {
	st, ok := r.in[b]
	return ok && st != nil
}

// ReturnStates returns the states at every reachable normal return.
func (r *Result) ReturnStates() []State {
	var out []State
	r.Visit(func(in ssa.Instruction, st State) {
		if _, ok := in.(*ssa.Return); ok {
			out = append(out, st.clone())
		}
	})
	return out
}

func (r *Result) raise(st State, root ssa.Value, n int) {
	if n <= 0 {
		return
	}
	if cur := r.lb(st, root); n > cur {
		st[root] = n
	} else if _, ok := st[root]; !ok && cur > 0 {
		st[root] = cur
	}
}

// transferBlock applies the instructions of b to st; live=false if the block
// ends in a no-return call or panic.
func (r *Result) transferBlock(b *ssa.BasicBlock, st State, v Visitor) (State, bool) {
	for _, in := range b.Instrs {
		if v != nil {
			v(in, st)
		}
		switch x := in.(type) {
		case *ssa.Call:
			if live := r.transferCall(st, x); !live {
				return st, false
			}
		case *ssa.Panic:
			return st, false
		case *ssa.IndexAddr:
			// a successful constant index is itself a fact on the paths that continue
			if isSliceT(x.X.Type()) {
				if k, ok := r.fc.IntConst(x.Index); ok && k >= 0 {
					ref := r.fc.ResolveSlice(x.X)
					r.raise(st, ref.Root, k+1+ref.Off)
				} else if ir, isLen, ok := r.fc.ResolveInt(x.Index); ok && isLen && ir.Off > 0 {
					// x[len(y)-c] succeeded: len(y) >= c
					r.raise(st, ir.Root, ir.Off)
				}
			}
		case *ssa.Slice:
			if isSliceT(x.X.Type()) && x.Low != nil && x.High == nil {
				if k, ok := r.fc.IntConst(x.Low); ok && k > 0 {
					ref := r.fc.ResolveSlice(x.X)
					r.raise(st, ref.Root, k+ref.Off)
				}
			}
		}
	}
	return st, true
}

func (r *Result) transferCall(st State, c *ssa.Call) bool {
	if bi, ok := c.Call.Value.(*ssa.Builtin); ok {
		if bi.Name() == "append" && len(c.Call.Args) == 2 {
			n := r.LBSlice(st, c.Call.Args[0])
			if isSliceT(c.Call.Args[1].Type()) {
				n += r.LBSlice(st, c.Call.Args[1])
			}
			if n > 0 {
				st[c] = n
			}
		}
		return true
	}
	g := c.Call.StaticCallee()
	if g == nil {
		return true
	}
	if r.an.NoReturn(g) {
		return false
	}
	if g.Blocks == nil || !core.InModule(pkgOf(g)) {
		return true
	}
	if r.dep >= r.an.MaxDepth {
		r.truncated = true
		return true
	}
	// callee summary: only worth computing when a slice or len() is passed
	interesting := false
	for _, arg := range c.Call.Args {
		if isSliceT(arg.Type()) {
			interesting = true
		} else if isIntT(arg.Type()) {
			if _, isLen, ok := r.fc.ResolveInt(arg); ok && isLen {
				interesting = true
			}
		}
	}
	if rt := c.Type(); isSliceT(rt) {
		interesting = true
	} else if tup, ok := rt.(*types.Tuple); ok {
		for i := 0; i < tup.Len(); i++ {
			if isSliceT(tup.At(i).Type()) {
				interesting = true
			}
		}
	}
	if !interesting {
		return true
	}
	binds := map[*ssa.Parameter]Bind{}
	rel := r.an.relevantInts(g)
	for i, arg := range c.Call.Args {
		if i < len(g.Params) && isIntT(g.Params[i].Type()) && rel[i] {
			if k, ok := r.fc.IntConst(arg); ok {
				binds[g.Params[i]] = Bind{k, true}
			} else if k, ok := r.fc.IntLB(arg, 0); ok {
				binds[g.Params[i]] = Bind{k, false}
			}
		}
	}
	r.an.cut = false
	ens := r.an.Ensures(g, binds, r.dep+1)
	if r.an.cut {
		r.truncated = true
	}
	if rets := r.an.returns[ctxKey(g, binds, make([]int, len(g.Params)))]; len(rets) == 1 && rets[0] > 0 && isSliceT(c.Type()) {
		st[c] = rets[0]
	} else if len(rets) > 1 {
		if refs := c.Referrers(); refs != nil {
			for _, rf := range *refs {
				if ex, ok := rf.(*ssa.Extract); ok && ex.Index < len(rets) && rets[ex.Index] > 0 && isSliceT(ex.Type()) {
					st[ex] = rets[ex.Index]
				}
			}
		}
	}
	for i, arg := range c.Call.Args {
		if i >= len(ens) || ens[i] <= 0 {
			continue
		}
		if isSliceT(arg.Type()) {
			ref := r.fc.ResolveSlice(arg)
			r.raise(st, ref.Root, ens[i]+ref.Off)
		} else if isIntT(arg.Type()) {
			if ref, isLen, ok := r.fc.ResolveInt(arg); ok && isLen {
				r.raise(st, ref.Root, ens[i]+ref.Off)
			}
		}
	}
	return true
}

func pkgOf(f *ssa.Function) *types.Package {
	for f.Parent() != nil {
		f = f.Parent()
	}
	if f.Pkg != nil {
		return f.Pkg.Pkg
	}
	if o := f.Object(); o != nil {
		return o.Pkg()
	}
	return nil
}

// relevantInts reports which int parameters of g can influence a length
// fact: they are compared (possibly after +/- constants) with a len()-derived
// value, or handed to such a parameter of another module function. Only those
// are bound in contexts; binding e.g. a recursion depth counter would create
// unboundedly many contexts.
func (a *Analyzer) relevantInts(g *ssa.Function) []bool {
	if a.relInts == nil {
		a.relInts = map[*ssa.Function][]bool{}
	}
	if r, ok := a.relInts[g]; ok {
		return r
	}
	out := make([]bool, len(g.Params))
	a.relInts[g] = out // cycle cut: not relevant while in progress
	fc := &fctx{fn: g}
	derives := func(v ssa.Value) int {
		for i := 0; i < 10; i++ {
			switch x := v.(type) {
			case *ssa.Parameter:
				for pi, p := range g.Params {
					if p == x {
						return pi
					}
				}
				return -1
			case *ssa.BinOp:
				if _, ok := fc.IntConst(x.Y); ok {
					v = x.X
					continue
				}
				if _, ok := fc.IntConst(x.X); ok {
					v = x.Y
					continue
				}
				return -1
			case *ssa.Phi:
				// min := 2; if c { min-- }: any edge deriving from a param makes it relevant
				for _, e := range x.Edges {
					if p, ok := e.(*ssa.Parameter); ok {
						for pi, q := range g.Params {
							if q == p {
								return pi
							}
						}
					}
				}
				return -1
			case *ssa.Convert:
				v = x.X
				continue
			default:
				return -1
			}
		}
		return -1
	}
	for _, b := range g.Blocks {
		for _, in := range b.Instrs {
			switch x := in.(type) {
			case *ssa.BinOp:
				switch x.Op {
				case token.LSS, token.LEQ, token.GTR, token.GEQ, token.EQL, token.NEQ:
					if !isIntT(x.X.Type()) {
						continue
					}
					_, lx, _ := fc.ResolveInt(x.X)
					_, ly, _ := fc.ResolveInt(x.Y)
					px, py := derives(x.X), derives(x.Y)
					if px >= 0 && isIntT(g.Params[px].Type()) && (ly || py >= 0) {
						out[px] = true
					}
					if py >= 0 && isIntT(g.Params[py].Type()) && (lx || px >= 0) {
						out[py] = true
					}
				}
			case *ssa.Call:
				h := x.Call.StaticCallee()
				if h == nil || h.Blocks == nil || !core.InModule(pkgOf(h)) {
					continue
				}
				hr := a.relevantInts(h)
				for ai, arg := range x.Call.Args {
					if ai < len(hr) && hr[ai] {
						if pi := derives(arg); pi >= 0 && isIntT(g.Params[pi].Type()) {
							out[pi] = true
						}
					}
				}
			case *ssa.MakeSlice:
				if pi := derives(x.Len); pi >= 0 && isIntT(g.Params[pi].Type()) {
					out[pi] = true
				}
			}
		}
	}
	return out
}

// Ensures returns, per parameter of g, the lower bound (of len for slices, of
// the value for ints) that holds on every normal return of g in the context of
// the given constant bindings, for any entry state.
func (a *Analyzer) Ensures(g *ssa.Function, binds map[*ssa.Parameter]Bind, depth int) []int {
	zero := make([]int, len(g.Params))
	key := ctxKey(g, binds, zero)
	if e, ok := a.ensures[key]; ok {
		return e
	}
	if a.ensuresIP[key] || depth > a.MaxDepth {
		a.cut = true
		return zero
	}
	a.ensuresIP[key] = true
	defer delete(a.ensuresIP, key)
	res := a.Analyze(g, binds, zero, depth)
	out := make([]int, len(g.Params))
	for i := range out {
		out[i] = Inf
	}
	nret := 0
	nres := g.Signature.Results().Len()
	rets := make([]int, nres)
	for i := range rets {
		rets[i] = Inf
	}
	res.Visit(func(in ssa.Instruction, st State) {
		ret, ok := in.(*ssa.Return)
		if !ok {
			return
		}
		for i, rv := range ret.Results {
			n := 0
			if isSliceT(rv.Type()) {
				n = res.LBSlice(st, rv)
			}
			if i < nres && n < rets[i] {
				rets[i] = n
			}
		}
	})
	for i := range rets {
		if rets[i] == Inf {
			rets[i] = 0
		}
	}
	a.returns[key] = rets
	for _, st := range res.ReturnStates() {
		nret++
		for i, p := range g.Params {
			n := 0
			if isSliceT(p.Type()) {
				// a parameter spilled to an alloc is resolved by ResolveSlice at uses; here the param itself is the root
				n = res.lb(st, p)
			} else if isIntT(p.Type()) {
				if v, ok := st[p]; ok {
					n = v
				}
			}
			if n < out[i] {
				out[i] = n
			}
		}
	}
	if nret == 0 {
		for i := range out {
			out[i] = 0
		}
	}
	if !res.truncated {
		a.ensures[key] = out
	} else {
		delete(a.returns, key)
	}
	return out
}

// EntryBounds returns, per parameter of f, the bound guaranteed by all of its
// callers; zero for functions that may be called dynamically.
func (a *Analyzer) EntryBounds(f *ssa.Function, depth int) []int {
	if e, ok := a.entry[f]; ok {
		return e
	}
	zero := make([]int, len(f.Params))
	if a.Dynamic(f) {
		a.entry[f] = zero
		return zero
	}
	if a.entryIP[f] || depth > a.MaxDepth {
		a.cut = true
		return zero
	}
	callers := a.StaticCallers(f)
	if len(callers) == 0 {
		a.entry[f] = zero
		return zero
	}
	any := false
	for _, p := range f.Params {
		if isSliceT(p.Type()) {
			any = true
		}
	}
	if !any {
		a.entry[f] = zero
		return zero
	}
	a.entryIP[f] = true
	trunc := false
	out := make([]int, len(f.Params))
	for i := range out {
		out[i] = Inf
	}
	for _, cs := range callers {
		caller := cs.Parent()
		res := a.Analyze(caller, nil, nil, depth+1)
		if res.truncated {
			trunc = true
		}
		found := false
		res.Visit(func(in ssa.Instruction, st State) {
			if in != ssa.Instruction(cs) {
				return
			}
			found = true
			for i, p := range f.Params {
				n := 0
				if i < len(cs.Call.Args) && isSliceT(p.Type()) {
					n = res.LBSlice(st, cs.Call.Args[i])
				}
				if n < out[i] {
					out[i] = n
				}
			}
		})
		if !found {
			// call site unreachable in its caller: contributes nothing
			continue
		}
	}
	for i := range out {
		if out[i] == Inf {
			out[i] = 0
		}
	}
	delete(a.entryIP, f)
	if !trunc {
		a.entry[f] = out
	}
	return out
}

// ---------------------------------------------------------------- guarded int bounds

// guardsOf computes (once per result) the must-facts of branch conditions of the function.
func (r *Result) guardsOf() *core.Guards {
	if r.guards == nil {
		r.guards = core.ComputeGuards(r.fc.fn, r.an.NoReturn)
	}
	return r.guards
}

// lbFromFacts: the best lower bound of int value v implied by comparisons of v with constants
// among the given facts (v >= c, v > c, c <= v, c < v, v == c and their negations).
func (r *Result) lbFromFacts(v ssa.Value, facts map[core.EdgeFact]bool, extra *core.EdgeFact) (int, bool) {
	best, found := 0, false
	try := func(f core.EdgeFact) {
		bo, ok := f.If.Cond.(*ssa.BinOp)
		if !ok {
			return
		}
		op := bo.Op
		var c int
		switch {
		case r.sameInt(bo.X, v):
			k, ok := r.fc.IntConst(bo.Y)
			if !ok {
				return
			}
			c = k
		case r.sameInt(bo.Y, v):
			k, ok := r.fc.IntConst(bo.X)
			if !ok {
				return
			}
			c = k
			op = mirror(op)
		default:
			return
		}
		if !f.Branch {
			op = negate(op)
		}
		lb := 0
		switch op {
		case token.GEQ, token.EQL:
			lb = c
		case token.GTR:
			lb = c + 1
		default:
			return
		}
		if !found || lb > best {
			best, found = lb, true
		}
	}
	for f := range facts {
		try(f)
	}
	if extra != nil {
		try(*extra)
	}
	return best, found
}

// sameInt: the two are one SSA value, or two loads of one field path that the function does not assign
// between them (go/ssa has no CSE: `if 0 < s.pos { buf[s.pos-1] }` loads s.pos twice).
func (r *Result) sameInt(a, b ssa.Value) bool {
	if a == b {
		return true
	}
	ua, ok1 := a.(*ssa.UnOp)
	ub, ok2 := b.(*ssa.UnOp)
	if !ok1 || !ok2 || ua.Op != token.MUL || ub.Op != token.MUL {
		return false
	}
	if _, ok := ua.X.(*ssa.FieldAddr); !ok {
		return false
	}
	if _, ok := ub.X.(*ssa.FieldAddr); !ok {
		return false
	}
	ca, cb := r.fc.canonicalFieldLoad(ua), r.fc.canonicalFieldLoad(ub)
	return ca != nil && ca == cb
}

// IntLBAt returns a lower bound of int value v that holds whenever control is at the start of
// block blk: the stateless bound, or a bound implied by the branch conditions that hold on every
// path to blk; a phi is bounded by the minimum over its edges, each evaluated with the facts that
// hold at the end of the corresponding predecessor. SSA values are immutable, so a comparison that
// held on the way still holds.
func (r *Result) IntLBAt(v ssa.Value, blk *ssa.BasicBlock) (int, bool) {
	return r.intLBAt(v, blk, nil, 0)
}

func (r *Result) intLBAt(v ssa.Value, blk *ssa.BasicBlock, extra *core.EdgeFact, depth int) (int, bool) {
	if b, ok := r.fc.IntLB(v, 0); ok && b != Inf {
		return b, true
	}
	if depth > 4 || blk == nil {
		return 0, false
	}
	g := r.guardsOf()
	if b, ok := r.lbFromFacts(v, g.Facts(blk), extra); ok {
		return b, true
	}
	switch x := v.(type) {
	case *ssa.Phi:
		pb := x.Block()
		m, any := Inf, false
		for i, e := range x.Edges {
			if i >= len(pb.Preds) {
				return 0, false
			}
			pred := pb.Preds[i]
			if g.Facts(pred) == nil || g.Dead[pred] {
				continue // predecessor unreachable, or it raises and never continues
			}
			var ef *core.EdgeFact
			if ifi, ok := pred.Instrs[len(pred.Instrs)-1].(*ssa.If); ok && len(pred.Succs) == 2 && pred.Succs[0] != pred.Succs[1] {
				ef = &core.EdgeFact{If: ifi, Branch: pred.Succs[0] == pb}
			}
			if e == ssa.Value(x) {
				continue
			}
			b, ok := r.intLBAtEnd(e, pred, ef, depth+1)
			if !ok {
				return 0, false
			}
			any = true
			if b < m {
				m = b
			}
		}
		if any && m != Inf {
			return m, true
		}
	case *ssa.Convert:
		// int64 -> int and the like: value preserving on the 64-bit targets the module builds for
		if isIntT(x.X.Type()) && isIntT(x.Type()) && sameWidthSigned(x.X.Type(), x.Type()) {
			return r.intLBAt(x.X, blk, extra, depth+1)
		}
	case *ssa.ChangeType:
		return r.intLBAt(x.X, blk, extra, depth+1)
	}
	return 0, false
}

// intLBAtEnd: bound of v at the end of block pred when leaving it along the edge described by ef.
func (r *Result) intLBAtEnd(v ssa.Value, pred *ssa.BasicBlock, ef *core.EdgeFact, depth int) (int, bool) {
	return r.intLBAt(v, pred, ef, depth)
}

func sameWidthSigned(a, b types.Type) bool {
	ba, ok1 := a.Underlying().(*types.Basic)
	bb, ok2 := b.Underlying().(*types.Basic)
	if !ok1 || !ok2 {
		return false
	}
	signed64 := func(k types.BasicKind) bool { return k == types.Int || k == types.Int64 }
	return signed64(ba.Kind()) && signed64(bb.Kind())
}

// ---------------------------------------------------------------- conditions

func (r *Result) applyCond(st State, cond ssa.Value, branch bool) {
	switch x := cond.(type) {
	case *ssa.UnOp:
		if x.Op == token.NOT {
			r.applyCond(st, x.X, !branch)
		}
	case *ssa.BinOp:
		op := x.Op
		lhs, rhs := x.X, x.Y
		// s == "const" (or the false edge of s != "const"): len(s) is the constant's length. A switch on a
		// string compiles to a chain of these.
		if (op == token.EQL && branch) || (op == token.NEQ && !branch) {
			for _, pair := range [][2]ssa.Value{{lhs, rhs}, {rhs, lhs}} {
				k, ok := pair[1].(*ssa.Const)
				if !ok || k.Value == nil || k.Value.Kind() != constant.String {
					continue
				}
				if _, isC := pair[0].(*ssa.Const); isC {
					continue
				}
				ref := r.fc.ResolveSlice(pair[0])
				r.raise(st, ref.Root, len(constant.StringVal(k.Value))+ref.Off)
				return
			}
		}
		cR, okR := r.fc.IntConst(rhs)
		cL, okL := r.fc.IntConst(lhs)
		var ref Ref
		var c int
		var isLen bool
		switch {
		case okR && !okL:
			rr, il, ok := r.fc.ResolveInt(lhs)
			if !ok {
				return
			}
			ref, c, isLen = rr, cR, il
		case okL && !okR:
			rr, il, ok := r.fc.ResolveInt(rhs)
			if !ok {
				return
			}
			ref, c, isLen = rr, cL, il
			op = mirror(op)
		default:
			// neither side constant: len-ref against an int with a known lower bound
			if !isIntT(lhs.Type()) {
				return
			}
			if !branch {
				op = negate(op)
			}
			if rr, il, ok := r.fc.ResolveInt(lhs); ok && il {
				if b, ok := r.IntLBAt(rhs, x.Block()); ok {
					switch op {
					case token.GTR:
						r.raise(st, rr.Root, b+1+rr.Off)
					case token.GEQ, token.EQL:
						r.raise(st, rr.Root, b+rr.Off)
					}
				}
			}
			if rr, il, ok := r.fc.ResolveInt(rhs); ok && il {
				if b, ok := r.IntLBAt(lhs, x.Block()); ok {
					switch op {
					case token.LSS:
						r.raise(st, rr.Root, b+1+rr.Off)
					case token.LEQ, token.EQL:
						r.raise(st, rr.Root, b+rr.Off)
					}
				}
			}
			return
		}
		if !isIntT(lhs.Type()) {
			return
		}
		if !branch {
			op = negate(op)
		}
		// (root - off) op c  =>  root op c+off
		k := c + ref.Off
		switch op {
		case token.GTR:
			r.raise(st, ref.Root, k+1)
		case token.GEQ:
			r.raise(st, ref.Root, k)
		case token.EQL:
			r.raise(st, ref.Root, k)
		case token.NEQ:
			if _, has := st[ref.Root]; (isLen || has) && r.lb(st, ref.Root) == k {
				r.raise(st, ref.Root, k+1)
			}
		}
	}
}

func mirror(op token.Token) token.Token {
	switch op {
	case token.LSS:
		return token.GTR
	case token.GTR:
		return token.LSS
	case token.LEQ:
		return token.GEQ
	case token.GEQ:
		return token.LEQ
	}
	return op
}

func negate(op token.Token) token.Token {
	switch op {
	case token.LSS:
		return token.GEQ
	case token.GTR:
		return token.LEQ
	case token.LEQ:
		return token.GTR
	case token.GEQ:
		return token.LSS
	case token.EQL:
		return token.NEQ
	case token.NEQ:
		return token.EQL
	}
	return op
}

// Ctx exposes the resolution helpers of a result.
func (r *Result) ResolveSlice(v ssa.Value) Ref             { return r.fc.ResolveSlice(v) }
func (r *Result) ResolveInt(v ssa.Value) (Ref, bool, bool) { return r.fc.ResolveInt(v) }
func (r *Result) IntConst(v ssa.Value) (int, bool)         { return r.fc.IntConst(v) }
func (r *Result) LBRoot(st State, root ssa.Value) int      { return r.lb(st, root) }
func (r *Result) Func() *ssa.Function                      { return r.fc.fn }
