// Package own is engine E2: a flow-insensitive origin analysis on SSA. For
// every pointer-like value it computes where the object may come from:
// allocated in this activation (Fresh), reachable from parameter k (Param), or
// from anywhere else (Shared). Function summaries (which parameters' objects
// a function may mutate at a rule-specific sink, and where its results come
// from) make the analysis interprocedural: a helper that mutates its second
// parameter is harmless for a caller that passes a fresh accumulator and a
// violation for one that passes the user's operand.
package own

import (
	"fmt"
	"go/token"
	"go/types"
	"sort"
	"strings"

	"golang.org/x/tools/go/ssa"

	"slipcheck/core"
)

// Origin kinds.
const (
	Fresh = iota
	Param
	Shared
)

// Origin is one possible source of an object.
type Origin struct {
	Kind  int
	Param int
	Desc  string
	// Elem: the object was reached through an element or field load from the parameter (an argument object),
	// not the parameter value itself (e.g. the argument slice of a Call, which is private to the call)
	Elem bool
}

func (o Origin) String() string {
	switch o.Kind {
	case Fresh:
		return "fresh"
	case Param:
		if o.Elem {
			return fmt.Sprintf("param#%d.elem", o.Param)
		}
		return fmt.Sprintf("param#%d", o.Param)
	}
	return "shared:" + o.Desc
}

// OSet is a set of origins.
type OSet map[Origin]bool

func (s OSet) add(o Origin) { s[o] = true }
func (s OSet) addAll(t OSet) {
	for o := range t {
		s[o] = true
	}
}

// OnlyFresh reports whether every origin is Fresh.
func (s OSet) OnlyFresh() bool {
	for o := range s {
		if o.Kind != Fresh {
			return false
		}
	}
	return true
}

// Params returns the parameter indexes among the origins.
func (s OSet) Params() []int {
	seen := map[int]bool{}
	var out []int
	for o := range s {
		if o.Kind == Param && !seen[o.Param] {
			seen[o.Param] = true
			out = append(out, o.Param)
		}
	}
	sort.Ints(out)
	return out
}

// ElemParams returns the parameters from which an argument object (element/field) is reached.
func (s OSet) ElemParams() []int {
	seen := map[int]bool{}
	var out []int
	for o := range s {
		if o.Kind == Param && o.Elem && !seen[o.Param] {
			seen[o.Param] = true
			out = append(out, o.Param)
		}
	}
	sort.Ints(out)
	return out
}

// DirectParams returns the parameters whose own value (not an element of it) is an origin.
func (s OSet) DirectParams() []int {
	seen := map[int]bool{}
	var out []int
	for o := range s {
		if o.Kind == Param && !o.Elem && !seen[o.Param] {
			seen[o.Param] = true
			out = append(out, o.Param)
		}
	}
	sort.Ints(out)
	return out
}

// HasShared reports a non-parameter, non-fresh origin.
func (s OSet) HasShared() (string, bool) {
	var ds []string
	for o := range s {
		if o.Kind == Shared {
			ds = append(ds, o.Desc)
		}
	}
	sort.Strings(ds)
	if len(ds) > 0 {
		return strings.Join(ds, ","), true
	}
	return "", false
}

func (s OSet) String() string {
	var xs []string
	for o := range s {
		xs = append(xs, o.String())
	}
	sort.Strings(xs)
	return "{" + strings.Join(xs, " ") + "}"
}

// SinkFunc says whether an instruction is a mutation sink and returns the
// values whose objects it mutates.
type SinkFunc func(in ssa.Instruction) []ssa.Value

// Summary of a function.
type Summary struct {
	// Ret[j]: origins of result j expressed with Param origins of the function itself.
	Ret []OSet
	// Mutates: parameter indexes whose objects reach a sink (directly or through callees), with a witness.
	Mutates map[int]string
}

// Analyzer computes origins and summaries.
type Analyzer struct {
	C        *core.Ctx
	Sink     SinkFunc
	sums     map[*ssa.Function]*Summary
	inProg   map[*ssa.Function]bool
	memo     map[ssa.Value]OSet
	visiting map[ssa.Value]bool
	// ElemOfFreshIsFresh: elements loaded from a slice allocated in this activation are treated as the values stored into it.
}

func New(c *core.Ctx, sink SinkFunc) *Analyzer {
	c.BuildSSA()
	return &Analyzer{C: c, Sink: sink, sums: map[*ssa.Function]*Summary{}, inProg: map[*ssa.Function]bool{}, memo: map[ssa.Value]OSet{}, visiting: map[ssa.Value]bool{}}
}

func pointerLike(t types.Type) bool {
	switch t.Underlying().(type) {
	case *types.Pointer, *types.Slice, *types.Map, *types.Interface, *types.Chan, *types.Signature:
		return true
	}
	return false
}

func paramIndex(fn *ssa.Function, p *ssa.Parameter) int {
	for i, q := range fn.Params {
		if q == p {
			return i
		}
	}
	return -1
}

func isBigPkg(f *ssa.Function) bool {
	return f != nil && f.Pkg != nil && f.Pkg.Pkg.Path() == "math/big"
}

// BigMutator: a math/big method that sets (and returns) its receiver.
func BigMutator(f *ssa.Function) bool {
	if !isBigPkg(f) || f.Signature.Recv() == nil {
		return false
	}
	rt := f.Signature.Recv().Type()
	if _, ok := rt.(*types.Pointer); !ok {
		return false
	}
	if strings.HasPrefix(f.Name(), "Set") || f.Name() == "Scan" || strings.HasPrefix(f.Name(), "Unmarshal") || f.Name() == "GobDecode" {
		return true
	}
	res := f.Signature.Results()
	return res.Len() >= 1 && types.Identical(res.At(0).Type(), rt)
}

// Origins of a value.
func (a *Analyzer) Origins(v ssa.Value) OSet {
	if v == nil {
		return OSet{}
	}
	if s, ok := a.memo[v]; ok {
		return s
	}
	if a.visiting[v] {
		return OSet{} // cycle: contributes nothing new
	}
	a.visiting[v] = true
	s := a.origins(v)
	delete(a.visiting, v)
	if len(a.visiting) == 0 {
		// results computed inside a cycle cut may be partial: only top-level results are kept
		a.memo[v] = s
	}
	return s
}

func (a *Analyzer) origins(v ssa.Value) OSet {
	out := OSet{}
	switch x := v.(type) {
	case *ssa.Parameter:
		if pointerLike(x.Type()) {
			out.add(Origin{Kind: Param, Param: paramIndex(x.Parent(), x)})
		} else {
			out.add(Origin{Kind: Fresh})
		}
	case *ssa.FreeVar:
		out.add(Origin{Kind: Shared, Desc: "captured " + x.Name()})
	case *ssa.Const, *ssa.MakeSlice, *ssa.MakeMap, *ssa.MakeChan, *ssa.MakeClosure, *ssa.Function, *ssa.Builtin:
		out.add(Origin{Kind: Fresh})
	case *ssa.Alloc:
		out.add(Origin{Kind: Fresh})
	case *ssa.Global:
		out.add(Origin{Kind: Shared, Desc: "global " + x.Name()})
	case *ssa.MakeInterface:
		if pointerLike(x.X.Type()) {
			out.addAll(a.Origins(x.X))
		} else {
			out.add(Origin{Kind: Fresh}) // boxing a value type copies it
		}
	case *ssa.ChangeInterface:
		out.addAll(a.Origins(x.X))
	case *ssa.ChangeType:
		out.addAll(a.Origins(x.X))
	case *ssa.Convert:
		if pointerLike(x.X.Type()) && pointerLike(x.Type()) {
			out.addAll(a.Origins(x.X))
		} else {
			out.add(Origin{Kind: Fresh})
		}
	case *ssa.TypeAssert:
		if x.CommaOk {
			out.addAll(a.Origins(x.X))
		} else if pointerLike(x.AssertedType) {
			out.addAll(a.Origins(x.X))
		} else {
			out.add(Origin{Kind: Fresh})
		}
	case *ssa.Extract:
		switch t := x.Tuple.(type) {
		case *ssa.TypeAssert:
			if x.Index == 0 {
				if pointerLike(t.AssertedType) {
					out.addAll(a.Origins(t.X))
				} else {
					out.add(Origin{Kind: Fresh})
				}
			} else {
				out.add(Origin{Kind: Fresh})
			}
		case *ssa.Call:
			out.addAll(a.callResult(t, x.Index))
		case *ssa.Lookup:
			if x.Index == 0 {
				out.add(Origin{Kind: Shared, Desc: "map element"})
			} else {
				out.add(Origin{Kind: Fresh})
			}
		case *ssa.Next:
			out.add(Origin{Kind: Shared, Desc: "range element"})
		default:
			out.add(Origin{Kind: Shared, Desc: "tuple"})
		}
	case *ssa.Phi:
		for _, e := range x.Edges {
			out.addAll(a.Origins(e))
		}
	case *ssa.Slice:
		out.addAll(a.Origins(x.X))
	case *ssa.FieldAddr:
		out.addAll(a.Origins(x.X))
	case *ssa.IndexAddr:
		out.addAll(a.Origins(x.X))
	case *ssa.Field:
		out.addAll(a.Origins(x.X))
	case *ssa.Index:
		out.addAll(a.Origins(x.X))
	case *ssa.UnOp:
		if x.Op != token.MUL {
			out.add(Origin{Kind: Fresh})
			break
		}
		if !pointerLike(x.Type()) {
			out.add(Origin{Kind: Fresh}) // loading a value type copies it
			break
		}
		switch ad := x.X.(type) {
		case *ssa.Alloc:
			// a local variable: whatever was stored into it
			a.storedInto(ad, out)
		case *ssa.IndexAddr:
			base := a.Origins(ad.X)
			for o := range base {
				switch o.Kind {
				case Param:
					o.Elem = true
					out.add(o) // element of an argument list: the user's object
				case Fresh:
					// element of a slice built here: the values stored into it
					a.elementsOf(ad.X, out)
				default:
					out.add(o)
				}
			}
		case *ssa.FieldAddr:
			base := a.Origins(ad.X)
			for o := range base {
				switch o.Kind {
				case Param:
					o.Elem = true
					out.add(o)
				case Fresh:
					a.fieldStores(ad, out)
				default:
					out.add(o)
				}
			}
		case *ssa.Global:
			out.add(Origin{Kind: Shared, Desc: "global " + ad.Name()})
		case *ssa.FreeVar:
			out.add(Origin{Kind: Shared, Desc: "captured " + ad.Name()})
		default:
			out.addAll(a.Origins(x.X))
		}
	case *ssa.Lookup:
		if pointerLike(x.Type()) {
			out.add(Origin{Kind: Shared, Desc: "map element"})
		} else {
			out.add(Origin{Kind: Fresh})
		}
	case *ssa.Call:
		out.addAll(a.callResult(x, 0))
	case *ssa.BinOp:
		out.add(Origin{Kind: Fresh})
	default:
		out.add(Origin{Kind: Shared, Desc: fmt.Sprintf("%T", v)})
	}
	return out
}

func (a *Analyzer) storedInto(al *ssa.Alloc, out OSet) {
	n := 0
	var visit func(v ssa.Value)
	visit = func(v ssa.Value) {
		refs := v.Referrers()
		if refs == nil {
			return
		}
		for _, rf := range *refs {
			switch y := rf.(type) {
			case *ssa.Store:
				if y.Addr == v {
					n++
					out.addAll(a.Origins(y.Val))
				}
			case *ssa.MakeClosure:
				for i, b := range y.Bindings {
					if b == v {
						visit(y.Fn.(*ssa.Function).FreeVars[i])
					}
				}
			}
		}
	}
	visit(al)
	if n == 0 {
		out.add(Origin{Kind: Fresh}) // zero value
	}
}

// elementsOf: origins of the values stored into a slice that was allocated in this function.
func (a *Analyzer) elementsOf(sl ssa.Value, out OSet) {
	root := sl
	for i := 0; i < 8; i++ {
		switch x := root.(type) {
		case *ssa.Slice:
			root = x.X
			continue
		case *ssa.ChangeType:
			root = x.X
			continue
		}
		break
	}
	found := false
	var scan func(v ssa.Value, depth int)
	scan = func(v ssa.Value, depth int) {
		if depth > 4 {
			return
		}
		refs := v.Referrers()
		if refs == nil {
			return
		}
		for _, rf := range *refs {
			switch y := rf.(type) {
			case *ssa.IndexAddr:
				if y.X == v {
					for _, r2 := range *y.Referrers() {
						if st, ok := r2.(*ssa.Store); ok && st.Addr == y {
							found = true
							out.addAll(a.Origins(st.Val))
						}
					}
				}
			case *ssa.Slice:
				if y.X == v {
					scan(y, depth+1)
				}
			case *ssa.ChangeType:
				scan(y, depth+1)
			case *ssa.Call:
				if bi, ok := y.Call.Value.(*ssa.Builtin); ok {
					switch bi.Name() {
					case "copy":
						if len(y.Call.Args) == 2 && y.Call.Args[0] == v {
							found = true
							// copies the elements (object references) of the source
							src := a.Origins(y.Call.Args[1])
							for o := range src {
								if o.Kind == Fresh {
									a.elementsOf(y.Call.Args[1], out)
								} else {
									out.add(o)
								}
							}
						}
					case "append":
						if len(y.Call.Args) == 2 && y.Call.Args[0] == v {
							found = true
							src := a.Origins(y.Call.Args[1])
							for o := range src {
								if o.Kind == Fresh {
									a.elementsOf(y.Call.Args[1], out)
								} else {
									out.add(o)
								}
							}
							scan(y, depth+1)
						}
					}
				}
			}
		}
	}
	scan(root, 0)
	if !found {
		out.add(Origin{Kind: Fresh})
	}
}

func (a *Analyzer) fieldStores(fa *ssa.FieldAddr, out OSet) {
	found := false
	base := fa.X
	if refs := base.Referrers(); refs != nil {
		for _, rf := range *refs {
			if f2, ok := rf.(*ssa.FieldAddr); ok && f2.Field == fa.Field {
				for _, r2 := range *f2.Referrers() {
					if st, ok := r2.(*ssa.Store); ok && st.Addr == f2 {
						found = true
						out.addAll(a.Origins(st.Val))
					}
				}
			}
		}
	}
	if !found {
		out.add(Origin{Kind: Fresh})
	}
}

func (a *Analyzer) callResult(c *ssa.Call, idx int) OSet {
	out := OSet{}
	var rt types.Type
	if tup, ok := c.Type().(*types.Tuple); ok {
		if idx < tup.Len() {
			rt = tup.At(idx).Type()
		}
	} else {
		rt = c.Type()
	}
	if rt != nil && !pointerLike(rt) {
		out.add(Origin{Kind: Fresh})
		return out
	}
	if bi, ok := c.Call.Value.(*ssa.Builtin); ok {
		switch bi.Name() {
		case "append":
			out.addAll(a.Origins(c.Call.Args[0])) // may extend in place
			out.add(Origin{Kind: Fresh})
		default:
			out.add(Origin{Kind: Fresh})
		}
		return out
	}
	g := c.Call.StaticCallee()
	if g == nil {
		name := "dynamic call"
		if c.Call.IsInvoke() {
			name = "result of " + c.Call.Method.Name()
		}
		out.add(Origin{Kind: Shared, Desc: name})
		return out
	}
	if isBigPkg(g) {
		if g.Signature.Recv() == nil {
			out.add(Origin{Kind: Fresh}) // NewInt, NewRat, NewFloat, ParseFloat ...
			return out
		}
		if BigMutator(g) && idx == 0 {
			out.addAll(a.Origins(c.Call.Args[0])) // returns the receiver
			return out
		}
		switch g.Name() {
		case "Num", "Denom":
			out.addAll(a.Origins(c.Call.Args[0])) // reference into the receiver
			return out
		}
		out.add(Origin{Kind: Fresh})
		return out
	}
	if g.Blocks == nil || !core.InModule(pkgOf(g)) {
		out.add(Origin{Kind: Shared, Desc: "result of " + g.Name()})
		return out
	}
	sum := a.Summary(g)
	if idx < len(sum.Ret) {
		for o := range sum.Ret[idx] {
			switch o.Kind {
			case Param:
				if o.Param < len(c.Call.Args) {
					for ao := range a.Origins(c.Call.Args[o.Param]) {
						if o.Elem && ao.Kind == Param {
							ao.Elem = true
						}
						out.add(ao)
					}
				}
			default:
				out.add(o)
			}
		}
	}
	if len(out) == 0 {
		out.add(Origin{Kind: Fresh})
	}
	return out
}

func pkgOf(f *ssa.Function) *types.Package {
	for f.Parent() != nil {
		f = f.Parent()
	}
	if f.Pkg != nil {
		return f.Pkg.Pkg
	}
	if o := f.Object(); o != nil {
		return o.Pkg()
	}
	return nil
}

// Summary computes (memoised) the summary of a module function.
func (a *Analyzer) Summary(fn *ssa.Function) *Summary {
	if s, ok := a.sums[fn]; ok {
		return s
	}
	nres := fn.Signature.Results().Len()
	s := &Summary{Ret: make([]OSet, nres), Mutates: map[int]string{}}
	for i := range s.Ret {
		s.Ret[i] = OSet{}
	}
	if a.inProg[fn] || fn.Blocks == nil {
		return s // recursion: optimistic, completed by the outer computation
	}
	a.inProg[fn] = true
	a.sums[fn] = s
	for _, b := range fn.Blocks {
		for _, in := range b.Instrs {
			switch x := in.(type) {
			case *ssa.Return:
				for i, rv := range x.Results {
					if i < nres {
						s.Ret[i].addAll(a.Origins(rv))
					}
				}
			case *ssa.Call:
				// mutation through a callee
				if g := x.Call.StaticCallee(); g != nil && g.Blocks != nil && core.InModule(pkgOf(g)) && g != fn {
					gs := a.Summary(g)
					for pi, why := range gs.Mutates {
						if pi < len(x.Call.Args) {
							for _, p := range a.Origins(x.Call.Args[pi]).Params() {
								if _, has := s.Mutates[p]; !has {
									s.Mutates[p] = fmt.Sprintf("%s -> %s", a.C.Pos(x.Pos()), why)
								}
							}
						}
					}
				}
			}
			if a.Sink != nil {
				for _, v := range a.Sink(in) {
					for _, p := range a.Origins(v).Params() {
						if _, has := s.Mutates[p]; !has {
							s.Mutates[p] = a.C.Pos(in.Pos())
						}
					}
				}
			}
		}
	}
	delete(a.inProg, fn)
	return s
}
