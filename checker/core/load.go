// Package core holds the shared machinery of slipcheck: loading the resolved
// program of /repo, the built-in registry, and obligation reporting.
package core

import (
	"fmt"
	"go/ast"
	"go/constant"
	"go/token"
	"go/types"
	"os"
	"sort"
	"strings"
	"sync"

	"golang.org/x/tools/go/callgraph"
	"golang.org/x/tools/go/callgraph/cha"
	"golang.org/x/tools/go/callgraph/vta"
	"golang.org/x/tools/go/packages"
	"golang.org/x/tools/go/ssa"
	"golang.org/x/tools/go/ssa/ssautil"
)

// SlipPath is the import path of the root package of the analysed module.
const SlipPath = "github.com/ohler55/slip"

// Ctx is the loaded, type-checked program plus lazily built derived forms.
type Ctx struct {
	Repo  string
	Tier  string
	Pkgs  []*packages.Package // root packages of the module, sorted by path
	All   map[string]*packages.Package
	Fset  *token.FileSet
	Decls map[*types.Func]*ast.FuncDecl
	// DeclPkg maps a function to the package whose syntax holds its declaration.
	DeclPkg map[*types.Func]*packages.Package

	ssaOnce sync.Once
	Prog    *ssa.Program
	SSAPkgs []*ssa.Package

	cgOnce sync.Once
	cg     *callgraph.Graph

	regOnce sync.Once
	reg     []*Builtin

	allFnOnce sync.Once
	allFns    []*ssa.Function
}

// Load type-checks every package of the module rooted at repo. Any load or
// type error is an infrastructure failure (exit 2), never a verdict.
func Load(repo, tier string) (*Ctx, error) {
	os.Unsetenv("GOWORK")
	env := append(os.Environ(), "GOWORK=off")
	if goos := os.Getenv("SLIPCHECK_GOOS"); goos != "" {
		// cross type-check the files guarded by build tags for another platform (no cgo needed)
		env = append(env, "GOOS="+goos, "CGO_ENABLED=0")
	}
	cfg := &packages.Config{
		Mode:  packages.LoadAllSyntax,
		Dir:   repo,
		Tests: false,
		Env:   env,
	}
	pkgs, err := packages.Load(cfg, "./...")
	if err != nil {
		return nil, err
	}
	if len(pkgs) == 0 {
		return nil, fmt.Errorf("no packages loaded from %s", repo)
	}
	c := &Ctx{Repo: repo, Tier: tier, All: map[string]*packages.Package{},
		Decls: map[*types.Func]*ast.FuncDecl{}, DeclPkg: map[*types.Func]*packages.Package{}}
	var errs []string
	packages.Visit(pkgs, nil, func(p *packages.Package) {
		c.All[p.PkgPath] = p
		for _, e := range p.Errors {
			// plugin test packages have no main by construction; the baseline build has the same two errors.
			if strings.Contains(e.Msg, "function main is undeclared in the main package") {
				continue
			}
			errs = append(errs, e.Error())
		}
	})
	if len(errs) > 0 {
		sort.Strings(errs)
		if len(errs) > 10 {
			errs = errs[:10]
		}
		return nil, fmt.Errorf("load/type errors: %s", strings.Join(errs, "; "))
	}
	sort.Slice(pkgs, func(i, j int) bool { return pkgs[i].PkgPath < pkgs[j].PkgPath })
	c.Pkgs = pkgs
	c.Fset = pkgs[0].Fset
	for _, p := range pkgs {
		for _, f := range p.Syntax {
			for _, d := range f.Decls {
				if fd, ok := d.(*ast.FuncDecl); ok {
					if obj, ok := p.TypesInfo.Defs[fd.Name].(*types.Func); ok {
						c.Decls[obj] = fd
						c.DeclPkg[obj] = p
					}
				}
			}
		}
	}
	if c.All[SlipPath] == nil {
		return nil, fmt.Errorf("root package %s not found under %s", SlipPath, repo)
	}
	return c, nil
}

// Pkg returns the module package with the given path relative to the module
// root ("" for the root, "pkg/cl", ...).
func (c *Ctx) Pkg(rel string) *packages.Package {
	if rel == "" {
		return c.All[SlipPath]
	}
	return c.All[SlipPath+"/"+rel]
}

// InModule reports whether pkg belongs to the analysed module.
func InModule(pkg *types.Package) bool {
	return pkg != nil && (pkg.Path() == SlipPath || strings.HasPrefix(pkg.Path(), SlipPath+"/"))
}

// BuildSSA builds SSA for the whole program once.
func (c *Ctx) BuildSSA() {
	c.ssaOnce.Do(func() {
		prog, spkgs := ssautil.AllPackages(c.Pkgs, ssa.InstantiateGenerics)
		prog.Build()
		c.Prog = prog
		c.SSAPkgs = spkgs
	})
}

// SSAFunc returns the SSA function of a declared function or method.
func (c *Ctx) SSAFunc(fn *types.Func) *ssa.Function {
	c.BuildSSA()
	return c.Prog.FuncValue(fn)
}

// AllFuncs returns every SSA function of the program (including anonymous
// ones), sorted for determinism.
func (c *Ctx) AllFuncs() []*ssa.Function {
	c.allFnOnce.Do(func() {
		c.BuildSSA()
		m := ssautil.AllFunctions(c.Prog)
		for f := range m {
			c.allFns = append(c.allFns, f)
		}
		sort.Slice(c.allFns, func(i, j int) bool {
			a, b := c.allFns[i], c.allFns[j]
			if a.String() != b.String() {
				return a.String() < b.String()
			}
			return a.Pos() < b.Pos()
		})
	})
	return c.allFns
}

// ModuleFuncs returns the SSA functions whose source lies in the module
// (declared functions, methods and their anonymous functions), skipping
// synthetic wrappers.
func (c *Ctx) ModuleFuncs() []*ssa.Function {
	var out []*ssa.Function
	for _, f := range c.AllFuncs() {
		if f.Synthetic != "" && f.Syntax() == nil {
			continue
		}
		if f.Blocks == nil {
			continue
		}
		p := f.Pkg
		if p == nil && f.Parent() != nil {
			p = f.Parent().Pkg
		}
		if p == nil || !InModule(p.Pkg) {
			continue
		}
		if f.Origin() != nil && f.Origin() != f {
			// instantiation of a generic: keep (bodies are instantiated) only when from the module
		}
		out = append(out, f)
	}
	return out
}

// CallGraph returns the CHA graph (quick) or the VTA refinement (thorough).
func (c *Ctx) CallGraph() *callgraph.Graph {
	c.cgOnce.Do(func() {
		c.BuildSSA()
		g := cha.CallGraph(c.Prog)
		if c.Tier == "thorough" {
			g = vta.CallGraph(ssautil.AllFunctions(c.Prog), g)
		}
		c.cg = g
	})
	return c.cg
}

// Pos formats a position relative to the repository root.
func (c *Ctx) Pos(p token.Pos) string {
	if !p.IsValid() {
		return "-"
	}
	pos := c.Fset.Position(p)
	f := strings.TrimPrefix(pos.Filename, c.Repo+"/")
	return fmt.Sprintf("%s:%d", f, pos.Line)
}

// File returns the repo-relative file name of a position.
func (c *Ctx) File(p token.Pos) string {
	if !p.IsValid() {
		return "-"
	}
	pos := c.Fset.Position(p)
	return strings.TrimPrefix(pos.Filename, c.Repo+"/")
}

// Callee resolves the static callee of a call expression through the type
// information (never by name).
func Callee(info *types.Info, ce *ast.CallExpr) *types.Func {
	var id *ast.Ident
	switch f := ast.Unparen(ce.Fun).(type) {
	case *ast.Ident:
		id = f
	case *ast.SelectorExpr:
		id = f.Sel
	case *ast.IndexExpr:
		switch g := f.X.(type) {
		case *ast.Ident:
			id = g
		case *ast.SelectorExpr:
			id = g.Sel
		}
	}
	if id == nil {
		return nil
	}
	fn, _ := info.Uses[id].(*types.Func)
	return fn
}

// IsFunc reports whether fn is the named function/method of the given package
// path; recv is "" for package-level functions or the receiver type name.
func IsFunc(fn *types.Func, pkgPath, recv, name string) bool {
	if fn == nil || fn.Pkg() == nil || fn.Pkg().Path() != pkgPath || fn.Name() != name {
		return false
	}
	sig := fn.Type().(*types.Signature)
	if recv == "" {
		return sig.Recv() == nil
	}
	if sig.Recv() == nil {
		return false
	}
	return RecvName(fn) == recv
}

// RecvName returns the name of the receiver's named type ("" if none).
func RecvName(fn *types.Func) string {
	sig, _ := fn.Type().(*types.Signature)
	if sig == nil || sig.Recv() == nil {
		return ""
	}
	t := sig.Recv().Type()
	if p, ok := t.(*types.Pointer); ok {
		t = p.Elem()
	}
	if n, ok := t.(*types.Named); ok {
		return n.Obj().Name()
	}
	return ""
}

// FuncName is a stable, position-free name for a declared function:
// "pkg/cl.(*Car).Call" or "slip.CheckArgCount".
func FuncName(fn *types.Func) string {
	if fn == nil {
		return "?"
	}
	pp := "?"
	if fn.Pkg() != nil {
		pp = RelPkg(fn.Pkg().Path())
	}
	if r := RecvName(fn); r != "" {
		return pp + ".(" + r + ")." + fn.Name()
	}
	return pp + "." + fn.Name()
}

// SSAName is a stable name for an SSA function (anonymous functions get
// parent$N).
func SSAName(f *ssa.Function) string {
	if f == nil {
		return "?"
	}
	if f.Parent() != nil {
		return SSAName(f.Parent()) + "$" + strings.TrimPrefix(f.Name(), f.Parent().Name()+"$")
	}
	if o, ok := f.Object().(*types.Func); ok && o != nil {
		return FuncName(o)
	}
	return f.String()
}

// RelPkg strips the module prefix from an import path ("slip" for the root).
func RelPkg(path string) string {
	if path == SlipPath {
		return "slip"
	}
	return strings.TrimPrefix(path, SlipPath+"/")
}

// ConstString returns the constant string value of an expression.
func ConstString(info *types.Info, e ast.Expr) (string, bool) {
	if tv, ok := info.Types[e]; ok && tv.Value != nil && tv.Value.Kind() == constant.String {
		return constant.StringVal(tv.Value), true
	}
	return "", false
}

// ConstInt returns the constant integer value of an expression.
func ConstInt(info *types.Info, e ast.Expr) (int64, bool) {
	if tv, ok := info.Types[e]; ok && tv.Value != nil {
		if v, ok := constant.Int64Val(constant.ToInt(tv.Value)); ok {
			return v, true
		}
	}
	return 0, false
}

// ConstBool returns the constant boolean value of an expression.
func ConstBool(info *types.Info, e ast.Expr) (bool, bool) {
	if tv, ok := info.Types[e]; ok && tv.Value != nil && tv.Value.Kind() == constant.Bool {
		return constant.BoolVal(tv.Value), true
	}
	return false, false
}

// IsNamed reports whether t (after removing one pointer) is the named type
// pkgPath.name.
func IsNamed(t types.Type, pkgPath, name string) bool {
	if t == nil {
		return false
	}
	if p, ok := t.(*types.Pointer); ok {
		t = p.Elem()
	}
	t = types.Unalias(t)
	n, ok := t.(*types.Named)
	if !ok {
		return false
	}
	o := n.Obj()
	return o.Name() == name && o.Pkg() != nil && o.Pkg().Path() == pkgPath
}

// LookupFunc finds a package-level function or a method "Type.Method" in a
// module package by name. It is used only to *address* anchors; an anchor that
// does not resolve is reported as unresolved by the caller.
func (c *Ctx) LookupFunc(rel, name string) *types.Func {
	p := c.Pkg(rel)
	if p == nil {
		return nil
	}
	if i := strings.Index(name, "."); i >= 0 {
		tn, _ := p.Types.Scope().Lookup(name[:i]).(*types.TypeName)
		if tn == nil {
			return nil
		}
		obj, _, _ := types.LookupFieldOrMethod(types.NewPointer(tn.Type()), true, p.Types, name[i+1:])
		fn, _ := obj.(*types.Func)
		return fn
	}
	fn, _ := p.Types.Scope().Lookup(name).(*types.Func)
	return fn
}

// LookupType returns the named type rel.name.
func (c *Ctx) LookupType(rel, name string) *types.Named {
	p := c.Pkg(rel)
	if p == nil {
		return nil
	}
	tn, _ := p.Types.Scope().Lookup(name).(*types.TypeName)
	if tn == nil {
		return nil
	}
	n, _ := types.Unalias(tn.Type()).(*types.Named)
	return n
}

// ModuleInits returns the synthetic package initialisers of the module's packages (the code that evaluates
// package-level variable initialisers), which ModuleFuncs skips.
func (c *Ctx) ModuleInits() []*ssa.Function {
	c.BuildSSA()
	var out []*ssa.Function
	for _, p := range c.Prog.AllPackages() {
		if p.Pkg == nil || !InModule(p.Pkg) {
			continue
		}
		if f := p.Func("init"); f != nil && f.Blocks != nil {
			out = append(out, f)
		}
	}
	sort.Slice(out, func(i, j int) bool { return out[i].Pkg.Pkg.Path() < out[j].Pkg.Pkg.Path() })
	return out
}
