package core

import (
	"go/ast"
	"go/token"
	"go/types"
	"sort"
	"strings"

	"golang.org/x/tools/go/packages"
)

// Builtin is one registration of a Lisp function: a call of slip.Define or
// (*slip.Package).Define.
type Builtin struct {
	Pkg      *packages.Package
	Site     *ast.CallExpr
	Pos      token.Pos
	Name     string // Lisp name from the FuncDoc literal ("" when not literal)
	Kind     string
	DocLit   bool     // the FuncDoc is a composite literal
	DocArgs  []string // names from FuncDoc.Args, "?" for non-literal entries
	ArgsLit  bool
	DocText  string
	Examples int          // number of entries of a literal FuncDoc.Examples, -1 when not a literal
	Type     *types.Named // struct type embedding slip.Function built by the creator
	Creator  *ast.FuncLit
	// CreatorName: the constant Name given to the slip.Function the creator builds ("" when absent or not constant)
	CreatorName    string
	CreatorNameSet bool
	CreatorF       *types.Func // creator given as a named function
	HasSkip        bool
	SkipEval       []bool
	SkipLit        bool
	// ArgsFlows: the creator's List parameter is stored into Function.Args
	ArgsFlows bool
	Call      *types.Func
	Place     *types.Func
	InInit    bool // registered from an init function (static built-in)
}

// Registry enumerates every registration in the module.
func (c *Ctx) Registry() []*Builtin {
	c.regOnce.Do(func() { c.reg = c.buildRegistry() })
	return c.reg
}

// embedsFunction: the struct embeds slip.Function directly or through other
// embedded structs (WithOpenFile embeds Open embeds Function).
func embedsFunction(nt *types.Named) bool {
	return embedsFunctionDepth(nt, 0)
}

func embedsFunctionDepth(nt *types.Named, depth int) bool {
	st, ok := nt.Underlying().(*types.Struct)
	if !ok || depth > 4 {
		return false
	}
	for i := 0; i < st.NumFields(); i++ {
		f := st.Field(i)
		if !f.Embedded() {
			continue
		}
		if IsNamed(f.Type(), SlipPath, "Function") {
			return true
		}
		ft := f.Type()
		if p, ok := ft.(*types.Pointer); ok {
			ft = p.Elem()
		}
		if n, ok := types.Unalias(ft).(*types.Named); ok && embedsFunctionDepth(n, depth+1) {
			return true
		}
	}
	return false
}

func (c *Ctx) buildRegistry() []*Builtin {
	var out []*Builtin
	for _, p := range c.Pkgs {
		for _, f := range p.Syntax {
			for _, d := range f.Decls {
				fd, ok := d.(*ast.FuncDecl)
				if !ok || fd.Body == nil {
					continue
				}
				inInit := fd.Recv == nil && fd.Name.Name == "init"
				ast.Inspect(fd.Body, func(n ast.Node) bool {
					ce, ok := n.(*ast.CallExpr)
					if !ok {
						return true
					}
					fn := Callee(p.TypesInfo, ce)
					if !(IsFunc(fn, SlipPath, "", "Define") || IsFunc(fn, SlipPath, "Package", "Define")) {
						return true
					}
					if len(ce.Args) < 2 {
						return true
					}
					// the wrapper slip.Define forwards its own parameters: not a registration
					if id, ok := ce.Args[0].(*ast.Ident); ok {
						if v, ok := p.TypesInfo.Uses[id].(*types.Var); ok && isParamOf(v, fd, p.TypesInfo) {
							return true
						}
					}
					b := &Builtin{Pkg: p, Site: ce, Pos: ce.Pos(), InInit: inInit}
					c.fillCreator(b, ce.Args[0])
					c.fillDoc(b, ce.Args[1])
					if b.Type != nil {
						if obj, _, _ := types.LookupFieldOrMethod(types.NewPointer(b.Type), true, b.Type.Obj().Pkg(), "Call"); obj != nil {
							if fo, ok := obj.(*types.Func); ok && c.Decls[fo] != nil {
								b.Call = fo
							}
						}
						if obj, _, _ := types.LookupFieldOrMethod(types.NewPointer(b.Type), true, b.Type.Obj().Pkg(), "Place"); obj != nil {
							if fo, ok := obj.(*types.Func); ok && c.Decls[fo] != nil {
								b.Place = fo
							}
						}
					}
					out = append(out, b)
					return true
				})
			}
		}
	}
	sort.SliceStable(out, func(i, j int) bool {
		if out[i].Pkg.PkgPath != out[j].Pkg.PkgPath {
			return out[i].Pkg.PkgPath < out[j].Pkg.PkgPath
		}
		if out[i].Name != out[j].Name {
			return out[i].Name < out[j].Name
		}
		return out[i].Pos < out[j].Pos
	})
	return out
}

func isParamOf(v *types.Var, fd *ast.FuncDecl, info *types.Info) bool {
	if fd.Type.Params == nil {
		return false
	}
	for _, fl := range fd.Type.Params.List {
		for _, nm := range fl.Names {
			if info.Defs[nm] == v {
				return true
			}
		}
	}
	return false
}

func (c *Ctx) fillCreator(b *Builtin, e ast.Expr) {
	p := b.Pkg
	fl, ok := ast.Unparen(e).(*ast.FuncLit)
	if !ok {
		if id, ok := ast.Unparen(e).(*ast.Ident); ok {
			if fn, ok := p.TypesInfo.Uses[id].(*types.Func); ok {
				b.CreatorF = fn
			}
		}
		return
	}
	b.Creator = fl
	var param *types.Var
	if fl.Type.Params != nil && len(fl.Type.Params.List) > 0 && len(fl.Type.Params.List[0].Names) > 0 {
		param, _ = p.TypesInfo.Defs[fl.Type.Params.List[0].Names[0]].(*types.Var)
	}
	ast.Inspect(fl.Body, func(m ast.Node) bool {
		cl, ok := m.(*ast.CompositeLit)
		if !ok {
			return true
		}
		t := p.TypesInfo.TypeOf(cl)
		if t == nil {
			return true
		}
		nt, ok := types.Unalias(t).(*types.Named)
		if !ok {
			return true
		}
		if IsNamed(nt, SlipPath, "Function") {
			for _, el := range cl.Elts {
				kv, ok := el.(*ast.KeyValueExpr)
				if !ok {
					continue
				}
				k, _ := kv.Key.(*ast.Ident)
				if k == nil {
					continue
				}
				switch k.Name {
				case "Name":
					if nm, ok := ConstString(p.TypesInfo, kv.Value); ok {
						b.CreatorName, b.CreatorNameSet = nm, true
					}
				case "Args":
					if id, ok := ast.Unparen(kv.Value).(*ast.Ident); ok && param != nil && p.TypesInfo.Uses[id] == param {
						b.ArgsFlows = true
					}
				case "SkipEval":
					b.HasSkip = true
					if scl, ok := kv.Value.(*ast.CompositeLit); ok {
						b.SkipLit = true
						for _, e := range scl.Elts {
							if v, ok := ConstBool(p.TypesInfo, e); ok {
								b.SkipEval = append(b.SkipEval, v)
							} else {
								b.SkipLit = false
							}
						}
					}
				}
			}
			return true
		}
		if b.Type == nil && embedsFunction(nt) {
			b.Type = nt
		}
		return true
	})
	// Args assigned after construction: f.Args = args
	if !b.ArgsFlows && param != nil {
		ast.Inspect(fl.Body, func(m ast.Node) bool {
			as, ok := m.(*ast.AssignStmt)
			if !ok {
				return true
			}
			for i, l := range as.Lhs {
				se, ok := l.(*ast.SelectorExpr)
				if !ok || se.Sel.Name != "Args" || i >= len(as.Rhs) {
					continue
				}
				if fv, ok := p.TypesInfo.Uses[se.Sel].(*types.Var); ok && fv.IsField() {
					if id, ok := ast.Unparen(as.Rhs[i]).(*ast.Ident); ok && p.TypesInfo.Uses[id] == param {
						b.ArgsFlows = true
					}
				}
			}
			return true
		})
	}
}

func (c *Ctx) fillDoc(b *Builtin, e ast.Expr) {
	p := b.Pkg
	doc := ast.Unparen(e)
	if ue, ok := doc.(*ast.UnaryExpr); ok && ue.Op == token.AND {
		doc = ue.X
	}
	cl, ok := doc.(*ast.CompositeLit)
	if !ok || !IsNamed(p.TypesInfo.TypeOf(cl), SlipPath, "FuncDoc") {
		return
	}
	b.DocLit = true
	for _, el := range cl.Elts {
		kv, ok := el.(*ast.KeyValueExpr)
		if !ok {
			continue
		}
		k, _ := kv.Key.(*ast.Ident)
		if k == nil {
			continue
		}
		switch k.Name {
		case "Name":
			b.Name, _ = ConstString(p.TypesInfo, kv.Value)
		case "Kind":
			b.Kind, _ = ConstString(p.TypesInfo, kv.Value)
		case "Text":
			b.DocText, _ = ConstString(p.TypesInfo, kv.Value)
		case "Examples":
			if ecl, ok := kv.Value.(*ast.CompositeLit); ok {
				b.Examples = len(ecl.Elts)
			} else {
				b.Examples = -1
			}
		case "Args":
			acl, ok := kv.Value.(*ast.CompositeLit)
			if !ok {
				continue
			}
			b.ArgsLit = true
			for _, ae := range acl.Elts {
				if ue, ok := ae.(*ast.UnaryExpr); ok {
					ae = ue.X
				}
				dcl, ok := ae.(*ast.CompositeLit)
				nm := "?"
				if ok {
					for _, del := range dcl.Elts {
						if dkv, ok := del.(*ast.KeyValueExpr); ok {
							if id, _ := dkv.Key.(*ast.Ident); id != nil && id.Name == "Name" {
								if s, ok := ConstString(p.TypesInfo, dkv.Value); ok {
									nm = s
								}
							}
						}
					}
				}
				if nm == "?" {
					b.ArgsLit = false
				}
				b.DocArgs = append(b.DocArgs, nm)
			}
		}
	}
	if !hasKey(cl, "Args") {
		b.ArgsLit = true // no Args field: documented as taking no arguments
	}
}

func hasKey(cl *ast.CompositeLit, name string) bool {
	for _, el := range cl.Elts {
		if kv, ok := el.(*ast.KeyValueExpr); ok {
			if id, _ := kv.Key.(*ast.Ident); id != nil && id.Name == name {
				return true
			}
		}
	}
	return false
}

// Key is the stable key of a registration: package + Lisp name.
func (b *Builtin) Key() string {
	n := b.Name
	if n == "" {
		n = "?"
	}
	return RelPkg(b.Pkg.PkgPath) + ":" + strings.ToLower(n)
}

// ByName finds a registration by Lisp name in a package ("" = any).
func (c *Ctx) ByName(rel, name string) *Builtin {
	for _, b := range c.Registry() {
		if strings.EqualFold(b.Name, name) && (rel == "" || RelPkg(b.Pkg.PkgPath) == rel) {
			return b
		}
	}
	return nil
}
