package core

import (
	"bufio"
	"crypto/sha1"
	"encoding/hex"
	"encoding/json"
	"fmt"
	"os"
	"path/filepath"
	"sort"
	"strings"
	"time"
)

// Verdict of one obligation.
type Verdict int

const (
	Holds Verdict = iota
	Violated
	Undecided
)

func (v Verdict) String() string {
	switch v {
	case Holds:
		return "holds"
	case Violated:
		return "violated"
	}
	return "undecided"
}

// Obligation is one decided construct. Key never contains a line number.
type Obligation struct {
	Rule    string  `json:"rule"`
	Key     string  `json:"key"`
	Pos     string  `json:"pos"`
	Verdict Verdict `json:"-"`
	V       string  `json:"verdict"`
	Detail  string  `json:"detail,omitempty"`
	Witness string  `json:"witness,omitempty"`
	Trivial bool    `json:"-"`
}

// RuleInfo describes a rule for the evidence file.
type RuleInfo struct {
	ID    string `json:"id"`
	Text  string `json:"text"`
	Floor int    `json:"floor"`
	Count int    `json:"count"`
}

// Reporter collects the obligations of one property.
type Reporter struct {
	Prop     string
	Obls     []*Obligation
	Rules    map[string]*RuleInfo
	Analysed map[string]int
	Notes    []string
	Info     []string // informational cross-reference lines, never deciding
	seen     map[string]int
}

func NewReporter(prop string) *Reporter {
	return &Reporter{Prop: prop, Rules: map[string]*RuleInfo{}, Analysed: map[string]int{}, seen: map[string]int{}}
}

// Rule registers a rule's text and the hand-confirmed floor on its instance count.
func (r *Reporter) Rule(id, text string, floor int) {
	r.Rules[id] = &RuleInfo{ID: id, Text: text, Floor: floor}
}

func (r *Reporter) add(rule, key, pos string, v Verdict, detail string) *Obligation {
	full := rule + "|" + key
	if n := r.seen[full]; n > 0 {
		// the same construct key twice (e.g. two identical expressions in one function): disambiguate by ordinal, not by line
		r.seen[full] = n + 1
		key = fmt.Sprintf("%s#%d", key, n+1)
	} else {
		r.seen[full] = 1
	}
	o := &Obligation{Rule: rule, Key: key, Pos: pos, Verdict: v, V: v.String(), Detail: detail}
	r.Obls = append(r.Obls, o)
	if ri := r.Rules[rule]; ri != nil {
		ri.Count++
	} else {
		r.Rules[rule] = &RuleInfo{ID: rule, Count: 1}
	}
	return o
}

func (r *Reporter) Hold(rule, key, pos, detail string) *Obligation {
	return r.add(rule, key, pos, Holds, detail)
}
func (r *Reporter) Violate(rule, key, pos, detail string) *Obligation {
	return r.add(rule, key, pos, Violated, detail)
}
func (r *Reporter) Undecided(rule, key, pos, detail string) *Obligation {
	return r.add(rule, key, pos, Undecided, detail)
}

// Decide adds holds/violated according to ok.
func (r *Reporter) Decide(ok bool, rule, key, pos, detail string) *Obligation {
	if ok {
		return r.Hold(rule, key, pos, detail)
	}
	return r.Violate(rule, key, pos, detail)
}

func (r *Reporter) Count(what string, n int) { r.Analysed[what] += n }
func (r *Reporter) Note(s string)            { r.Notes = append(r.Notes, s) }
func (r *Reporter) Infof(f string, a ...any) { r.Info = append(r.Info, fmt.Sprintf(f, a...)) }

// KnownFinding is one line of known_findings.jsonl.
type KnownFinding struct {
	Property string `json:"property"`
	Rule     string `json:"rule"`
	Key      string `json:"key"`
	Status   string `json:"status"` // open | fixed
	Commit   string `json:"commit,omitempty"`
	What     string `json:"what"`
	Repro    string `json:"repro,omitempty"`
}

// LoadKnown reads the known-findings file. It is never written at run time.
func LoadKnown(path string) ([]KnownFinding, error) {
	f, err := os.Open(path)
	if err != nil {
		if os.IsNotExist(err) {
			return nil, nil
		}
		return nil, err
	}
	defer f.Close()
	var out []KnownFinding
	sc := bufio.NewScanner(f)
	sc.Buffer(make([]byte, 1<<20), 1<<24)
	ln := 0
	for sc.Scan() {
		ln++
		line := strings.TrimSpace(sc.Text())
		if line == "" || strings.HasPrefix(line, "#") {
			continue
		}
		var k KnownFinding
		if err := json.Unmarshal([]byte(line), &k); err != nil {
			return nil, fmt.Errorf("%s:%d: %v", path, ln, err)
		}
		out = append(out, k)
	}
	return out, sc.Err()
}

// Outcome of finishing a property.
type Outcome struct {
	Violations int
	Known      int
	Lines      []string
}

// Finish applies floors and known findings, prints the verdict lines, writes
// evidence and replay files, and returns the number of unlisted violations.
func (r *Reporter) Finish(verifDir, tier string, seed int64, known []KnownFinding, start time.Time, technique string, trusted []string, explanation string, notCovered string) Outcome {
	var out Outcome
	kmap := map[string]*KnownFinding{}
	for i := range known {
		k := &known[i]
		if k.Property == r.Prop && k.Status == "open" {
			kmap[k.Rule+"|"+k.Key] = k
		}
	}
	usedKnown := map[string]bool{}
	// floors
	ruleIDs := make([]string, 0, len(r.Rules))
	for id := range r.Rules {
		ruleIDs = append(ruleIDs, id)
	}
	sort.Strings(ruleIDs)
	for _, id := range ruleIDs {
		ri := r.Rules[id]
		if ri.Count < ri.Floor {
			r.add(id, "@floor", "-", Violated, fmt.Sprintf("rule matched %d constructs, below the hand-confirmed floor %d: the code moved out of the shape the rule recognises (a rule must not pass vacuously)", ri.Count, ri.Floor))
		}
	}
	sort.SliceStable(r.Obls, func(i, j int) bool {
		a, b := r.Obls[i], r.Obls[j]
		if a.Rule != b.Rule {
			return a.Rule < b.Rule
		}
		return a.Key < b.Key
	})
	replayDir := filepath.Join(verifDir, "replay", r.Prop)
	os.RemoveAll(replayDir)
	var discharged, knownN, viol, undec int
	distinct := map[string]bool{}
	var knownLines []string
	for _, o := range r.Obls {
		if !o.Trivial {
			distinct[o.Rule+"|"+o.Key] = true
		}
		if o.Verdict == Holds {
			discharged++
			continue
		}
		full := o.Rule + "|" + o.Key
		if k := kmap[full]; k != nil && o.Verdict == Violated {
			knownN++
			usedKnown[full] = true
			knownLines = append(knownLines, fmt.Sprintf("KNOWN-FINDING: property=%s %s [%s %s] %s", r.Prop, k.What, o.Rule, o.Key, o.Pos))
			continue
		}
		if o.Verdict == Undecided {
			undec++
		}
		viol++
		h := sha1.Sum([]byte(full))
		os.MkdirAll(replayDir, 0o755)
		rp := filepath.Join(replayDir, hex.EncodeToString(h[:6])+".json")
		rt := ""
		if ri := r.Rules[o.Rule]; ri != nil {
			rt = ri.Text
		}
		rb, _ := json.MarshalIndent(map[string]any{
			"property": r.Prop, "rule": o.Rule, "key": o.Key, "pos": o.Pos, "verdict": o.V,
			"detail": o.Detail, "witness": o.Witness, "rule_text": rt,
			"rerun": fmt.Sprintf("./bin/check --replay %s", strings.TrimPrefix(rp, verifDir+"/")),
		}, "", " ")
		os.WriteFile(rp, append(rb, '\n'), 0o644)
		out.Lines = append(out.Lines, fmt.Sprintf("VIOLATION property=%s replay=%s", r.Prop, strings.TrimPrefix(rp, verifDir+"/")))
		out.Lines = append(out.Lines, fmt.Sprintf("  %s %s %s [%s]: %s", o.V, o.Rule, o.Pos, o.Key, o.Detail))
	}
	// stale known findings are information, not failures (a fixed defect must not break the check)
	var stale []string
	for full, k := range kmap {
		if !usedKnown[full] {
			stale = append(stale, fmt.Sprintf("note: known finding no longer reproduced by the rule (fixed or moved?): %s %s", k.Rule, k.Key))
		}
	}
	sort.Strings(stale)
	out.Lines = append(knownLines, out.Lines...)
	out.Lines = append(out.Lines, stale...)
	out.Violations = viol
	out.Known = knownN

	// evidence
	samples := r.samples(seed)
	rules := []*RuleInfo{}
	for _, id := range ruleIDs {
		rules = append(rules, r.Rules[id])
	}
	cov := map[string]any{
		"explanation":         explanation,
		"obligations":         len(r.Obls),
		"discharged":          discharged,
		"known_findings":      knownN,
		"undecided":           undec,
		"evaluations":         len(r.Obls),
		"distinct_nontrivial": len(distinct),
		"rule":                "one obligation per construct enumerated from the resolved program (type-checked AST / SSA / constant tables); distinct = distinct rule+construct keys; non-trivial = the rule had a real construct to examine (floor/unresolved markers excluded)",
		"rules":               rules,
		"samples":             samples,
		"analysed":            r.Analysed,
		"checker_cmd":         fmt.Sprintf("./bin/check %s %s", r.Prop, tier),
		"trusted_base":        trusted,
		"technique":           technique,
		"not_covered":         notCovered,
		"exhaustive":          true,
		"notes":               r.Notes,
		"information_only":    r.Info,
	}
	ev := map[string]any{
		"property_id": r.Prop,
		"tier":        tier,
		"seed":        seed,
		"level":       "other",
		"coverage":    cov,
		"assumptions": trusted,
		"wall_s":      time.Since(start).Seconds(),
		"violations":  viol,
	}
	eb, _ := json.MarshalIndent(ev, "", " ")
	os.MkdirAll(filepath.Join(verifDir, "evidence"), 0o755)
	os.WriteFile(filepath.Join(verifDir, "evidence", r.Prop+".json"), append(eb, '\n'), 0o644)
	return out
}

// samples picks a few obligations of every rule and verdict; the seed only
// rotates which ones are shown.
func (r *Reporter) samples(seed int64) []any {
	type bucket struct{ obls []*Obligation }
	b := map[string]*bucket{}
	var keys []string
	for _, o := range r.Obls {
		k := o.Rule + "/" + o.V
		if b[k] == nil {
			b[k] = &bucket{}
			keys = append(keys, k)
		}
		b[k].obls = append(b[k].obls, o)
	}
	sort.Strings(keys)
	var out []any
	for _, k := range keys {
		obls := b[k].obls
		n := 3
		if len(obls) < n {
			n = len(obls)
		}
		off := 0
		if len(obls) > 0 {
			off = int(uint64(seed) % uint64(len(obls)))
		}
		for i := 0; i < n; i++ {
			out = append(out, obls[(off+i)%len(obls)])
		}
	}
	return out
}
