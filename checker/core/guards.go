package core

import (
	"golang.org/x/tools/go/ssa"
)

// EdgeFact says: the condition of If was true (Branch) or false on the way here.
type EdgeFact struct {
	If     *ssa.If
	Branch bool
}

// Guards is a must-analysis of branch conditions: for every block, the set of
// (If, outcome) pairs that hold on every path from the entry to the block.
// Blocks after a call to a no-return function produce no outgoing paths, so
// `if bad { raise() }; use` makes !bad a fact at use.
type Guards struct {
	In map[*ssa.BasicBlock]map[EdgeFact]bool
	// Dead: the block ends in a raise (panic or a call of a no-return function); control never
	// continues to its successors
	Dead map[*ssa.BasicBlock]bool
}

// ComputeGuards runs the analysis. noReturn may be nil.
func ComputeGuards(fn *ssa.Function, noReturn func(*ssa.Function) bool) *Guards {
	dead := map[*ssa.BasicBlock]bool{} // block does not continue to its successors
	g := &Guards{In: map[*ssa.BasicBlock]map[EdgeFact]bool{}, Dead: dead}
	if len(fn.Blocks) == 0 {
		return g
	}
	for _, b := range fn.Blocks {
		for _, in := range b.Instrs {
			switch x := in.(type) {
			case *ssa.Panic:
				dead[b] = true
			case *ssa.Call:
				if noReturn != nil {
					if callee := x.Call.StaticCallee(); callee != nil && noReturn(callee) {
						dead[b] = true
					}
				}
			}
		}
	}
	g.In[fn.Blocks[0]] = map[EdgeFact]bool{}
	changed := true
	for iter := 0; changed && iter < 200; iter++ {
		changed = false
		for _, b := range fn.Blocks {
			if b == fn.Blocks[0] {
				continue
			}
			var acc map[EdgeFact]bool
			first := true
			for _, p := range b.Preds {
				pin, ok := g.In[p]
				if !ok || dead[p] {
					continue
				}
				out := map[EdgeFact]bool{}
				for f := range pin {
					out[f] = true
				}
				if ifi, ok := p.Instrs[len(p.Instrs)-1].(*ssa.If); ok {
					if p.Succs[0] == b && p.Succs[1] != b {
						out[EdgeFact{ifi, true}] = true
					} else if p.Succs[1] == b && p.Succs[0] != b {
						out[EdgeFact{ifi, false}] = true
					}
				}
				if first {
					acc, first = out, false
				} else {
					for f := range acc {
						if !out[f] {
							delete(acc, f)
						}
					}
				}
			}
			if first {
				continue // unreachable so far
			}
			old, had := g.In[b]
			if !had || len(old) != len(acc) {
				g.In[b] = acc
				changed = true
				continue
			}
			for f := range acc {
				if !old[f] {
					g.In[b] = acc
					changed = true
					break
				}
			}
		}
	}
	return g
}

// Facts returns the facts holding at the start of block b (nil if unreachable).
func (g *Guards) Facts(b *ssa.BasicBlock) map[EdgeFact]bool { return g.In[b] }

// Reachable reports whether b is reachable with no-return pruning.
func (g *Guards) Reachable(b *ssa.BasicBlock) bool { _, ok := g.In[b]; return ok }

// Separates reports whether every path from the entry of fn to block target
// crosses at least one branch edge accepted by accept (the edge leaving an If
// with the given outcome). Paths through blocks that end in a no-return call
// do not count.
func Separates(fn *ssa.Function, target *ssa.BasicBlock, noReturn func(*ssa.Function) bool, accept func(ifi *ssa.If, branch bool) bool) bool {
	if len(fn.Blocks) == 0 {
		return false
	}
	dead := func(b *ssa.BasicBlock) bool {
		for _, in := range b.Instrs {
			switch x := in.(type) {
			case *ssa.Panic:
				return true
			case *ssa.Call:
				if noReturn != nil {
					if callee := x.Call.StaticCallee(); callee != nil && noReturn(callee) {
						return true
					}
				}
			}
		}
		return false
	}
	seen := map[*ssa.BasicBlock]bool{}
	stack := []*ssa.BasicBlock{fn.Blocks[0]}
	for len(stack) > 0 {
		b := stack[len(stack)-1]
		stack = stack[:len(stack)-1]
		if seen[b] {
			continue
		}
		seen[b] = true
		if b == target {
			return false
		}
		if dead(b) {
			continue
		}
		ifi, isIf := b.Instrs[len(b.Instrs)-1].(*ssa.If)
		for i, s := range b.Succs {
			if isIf && b.Succs[0] != b.Succs[1] && accept(ifi, i == 0) {
				continue
			}
			stack = append(stack, s)
		}
	}
	return true
}
