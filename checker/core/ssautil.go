package core

import (
	"go/constant"
	"go/types"
	"sort"

	"golang.org/x/tools/go/ssa"
)

// Loop is a natural loop of an SSA function.
type Loop struct {
	Header *ssa.BasicBlock
	Blocks map[*ssa.BasicBlock]bool
	Parent *Loop
}

// Loops returns the natural loops of fn (merged per header), sorted by header
// index, with Parent set to the innermost enclosing loop.
func Loops(fn *ssa.Function) []*Loop {
	byHeader := map[*ssa.BasicBlock]*Loop{}
	for _, b := range fn.Blocks {
		for _, s := range b.Succs {
			if s.Dominates(b) { // back edge b -> s
				l := byHeader[s]
				if l == nil {
					l = &Loop{Header: s, Blocks: map[*ssa.BasicBlock]bool{s: true}}
					byHeader[s] = l
				}
				// collect blocks that reach b without passing through s
				stack := []*ssa.BasicBlock{b}
				for len(stack) > 0 {
					x := stack[len(stack)-1]
					stack = stack[:len(stack)-1]
					if l.Blocks[x] {
						continue
					}
					l.Blocks[x] = true
					stack = append(stack, x.Preds...)
				}
			}
		}
	}
	var out []*Loop
	for _, l := range byHeader {
		out = append(out, l)
	}
	sort.Slice(out, func(i, j int) bool { return out[i].Header.Index < out[j].Header.Index })
	for _, l := range out {
		for _, m := range out {
			if m == l || !m.Blocks[l.Header] || len(m.Blocks) <= len(l.Blocks) {
				continue
			}
			if l.Parent == nil || len(m.Blocks) < len(l.Parent.Blocks) {
				l.Parent = m
			}
		}
	}
	return out
}

// InnermostLoop returns the innermost loop containing b (nil if none).
func InnermostLoop(loops []*Loop, b *ssa.BasicBlock) *Loop {
	var best *Loop
	for _, l := range loops {
		if l.Blocks[b] && (best == nil || len(l.Blocks) < len(best.Blocks)) {
			best = l
		}
	}
	return best
}

// Outermost returns the outermost loop enclosing l.
func (l *Loop) Outermost() *Loop {
	for l.Parent != nil {
		l = l.Parent
	}
	return l
}

// StringConst returns the string value of an SSA constant.
func StringConst(v ssa.Value) (string, bool) {
	switch x := v.(type) {
	case *ssa.Const:
		if x.Value != nil && x.Value.Kind() == constant.String {
			return constant.StringVal(x.Value), true
		}
	case *ssa.ChangeType:
		return StringConst(x.X)
	case *ssa.Convert:
		return StringConst(x.X)
	}
	return "", false
}

// StaticCalleeOf returns the static callee of an instruction if it is a call.
func StaticCalleeOf(in ssa.Instruction) *ssa.Function {
	switch x := in.(type) {
	case *ssa.Call:
		return x.Call.StaticCallee()
	case *ssa.Defer:
		return x.Call.StaticCallee()
	case *ssa.Go:
		return x.Call.StaticCallee()
	}
	return nil
}

// IsSSAFunc reports whether f is the given declared function/method.
func IsSSAFunc(f *ssa.Function, pkgPath, recv, name string) bool {
	if f == nil {
		return false
	}
	if o := f.Origin(); o != nil {
		f = o
	}
	fn, _ := f.Object().(*types.Func)
	return IsFunc(fn, pkgPath, recv, name)
}

// ReachableBlocks returns blocks reachable from 'from' (inclusive) following
// successor edges, never entering blocks for which stop returns true.
func ReachableBlocks(from *ssa.BasicBlock, stop func(*ssa.BasicBlock) bool) map[*ssa.BasicBlock]bool {
	seen := map[*ssa.BasicBlock]bool{}
	stack := []*ssa.BasicBlock{from}
	for len(stack) > 0 {
		b := stack[len(stack)-1]
		stack = stack[:len(stack)-1]
		if seen[b] || (stop != nil && stop(b)) {
			continue
		}
		seen[b] = true
		stack = append(stack, b.Succs...)
	}
	return seen
}
