package rules

import (
	"fmt"
	"go/constant"
	"go/token"
	"sort"
	"strings"

	"golang.org/x/tools/go/ssa"

	"slipcheck/core"
)

func init() {
	register(&Prop{
		ID:        "C01",
		Technique: "SSA reachability between evaluation sites (no sub-form evaluated twice, only the selected branch evaluated), value-role tracing of scopes (parallel vs sequential binding), agreement of the SkipEval literals with the forms a Call evaluates itself, no state kept in function objects",
		Explanation: "The value semantics of arbitrary programs is not statically decidable; shape clauses are. Decided for the core forms named by the property (found through the registry by their Lisp names): (C01.once) no two evaluation sites with the same (list, index) operands lie on one path within an activation or loop iteration, so no sub-form is evaluated twice; " +
			"(C01.branch) in if, the then- and else-evaluations are mutually unreachable; in cond, case and their variants, once a clause body has been evaluated control leaves the clause loop; (C01.scope) let and do evaluate every init form in the outer scope and bind in the new scope, let* and do* evaluate init forms in the new scope, all evaluate their bodies in the new scope, and do evaluates all step forms before assigning any; " +
			"(C01.skip) every argument position that a Call evaluates itself is marked in the registration's SkipEval literal (otherwise the generic argument loop evaluates it as well); (C01.fresh) no Call keeps state in its function object, so each evaluation of a lambda expression creates an independent closure. That the right value is computed is not decided.",
		NotCovered: "the values computed (closure contents, multiple-values truncation, quote identity), left-to-right order inside Function.Eval beyond the loop direction",
		Trusted:    commonTrusted,
		Run:        runC01,
	})
}

var coreForms = []string{"if", "when", "unless", "cond", "case", "ecase", "typecase", "etypecase", "and", "or", "let", "let*", "setq", "progn", "prog1", "prog2",
	"dolist", "dotimes", "do", "do*", "lambda", "defun", "funcall", "apply", "mapcar", "multiple-value-bind", "values", "block", "tagbody", "unwind-protect"}

func foldInt(v ssa.Value, depth int) (int, bool) {
	if depth > 6 {
		return 0, false
	}
	switch x := v.(type) {
	case *ssa.Const:
		if x.Value != nil && x.Value.Kind() == constant.Int {
			n, ok := constant.Int64Val(x.Value)
			return int(n), ok
		}
	case *ssa.BinOp:
		a, ok1 := foldInt(x.X, depth+1)
		b, ok2 := foldInt(x.Y, depth+1)
		if ok1 && ok2 {
			switch x.Op {
			case token.ADD:
				return a + b, true
			case token.SUB:
				return a - b, true
			}
		}
	}
	return 0, false
}

type evalSite struct {
	call  *ssa.Call
	list  ssa.Value
	idx   ssa.Value
	cidx  int
	isC   bool
	form  ssa.Value
	scope ssa.Value
}

func evalSitesOf(fn *ssa.Function) []*evalSite {
	var out []*evalSite
	for _, b := range fn.Blocks {
		for _, in := range b.Instrs {
			call, ok := in.(*ssa.Call)
			if !ok {
				continue
			}
			form, list, idx, ok := isEvalSite(call)
			if !ok {
				continue
			}
			es := &evalSite{call: call, list: list, idx: idx, form: form}
			if idx != nil {
				es.cidx, es.isC = foldInt(idx, 0)
			}
			if !call.Call.IsInvoke() && len(call.Call.Args) > 0 {
				es.scope = call.Call.Args[0]
			}
			out = append(out, es)
		}
	}
	return out
}

// reaches: b2 is reachable from b1 by at least one edge, not passing through blocks in `stop`.
func reachesBlock(from, to *ssa.BasicBlock, stop map[*ssa.BasicBlock]bool) bool {
	seen := map[*ssa.BasicBlock]bool{}
	stack := append([]*ssa.BasicBlock{}, from.Succs...)
	for len(stack) > 0 {
		b := stack[len(stack)-1]
		stack = stack[:len(stack)-1]
		if seen[b] || stop[b] {
			continue
		}
		if b == to {
			return true
		}
		seen[b] = true
		stack = append(stack, b.Succs...)
	}
	return false
}

// exclusive: the two sites are guarded by opposite outcomes of one condition value, so no execution runs both.
func exclusive(a, b *evalSite) bool {
	fn := a.call.Parent()
	g := guardCache[fn]
	if g == nil {
		g = core.ComputeGuards(fn, nil)
		guardCache[fn] = g
	}
	fa, fb := g.Facts(a.call.Block()), g.Facts(b.call.Block())
	for x := range fa {
		for y := range fb {
			if x.If.Cond == y.If.Cond && x.Branch != y.Branch {
				return true
			}
		}
	}
	return false
}

var guardCache = map[*ssa.Function]*core.Guards{}

func siteReaches(a, b *evalSite, loops []*core.Loop) bool {
	if exclusive(a, b) {
		return false
	}
	if a.call.Block() == b.call.Block() {
		return instrDominates(a.call, b.call) && a.call != b.call
	}
	// within one iteration: do not cross the header of the innermost loop containing both
	stop := map[*ssa.BasicBlock]bool{}
	for _, l := range loops {
		if l.Blocks[a.call.Block()] && l.Blocks[b.call.Block()] {
			stop[l.Header] = true
		}
	}
	return reachesBlock(a.call.Block(), b.call.Block(), stop)
}

func runC01(c *core.Ctx, r *core.Reporter) {
	c.BuildSSA()
	// "quoting a datum of any kind yields exactly that datum": the reader applies the quote marker to every kind of object
	c02deliver(c, r, "C01.quote")
	c01testvalue(c, r)
	c01kwself(c, r)
	c01emptynil(c, r)
	c01parents(c, r)
	c01dotest(c, r)
	c01values(c, r)
	const once = "C01.once"
	const branch = "C01.branch"
	r.Rule(once, "in the Call method of each core form (and the helpers in its package that it calls statically), no two distinct evaluation sites with the same list operand and the same index (constants folded; or the same SSA index value inside one loop iteration) lie on one path", 25)
	r.Rule(branch, "if: evaluation sites other than the test are pairwise mutually unreachable; cond/case/ecase/typecase/etypecase: after an evaluation inside the clause-body loop the test evaluation of the clause loop is not reachable again", 4)
	for _, name := range coreForms {
		b := c.ByName("pkg/cl", name)
		if b == nil || b.Call == nil {
			r.Undecided(once, "pkg/cl:"+name, "-", "core form not found in the registry")
			continue
		}
		fn := c.SSAFunc(b.Call)
		fns := []*ssa.Function{fn}
		for _, bb := range fn.Blocks {
			for _, in := range bb.Instrs {
				if call, ok := in.(*ssa.Call); ok {
					if g := call.Call.StaticCallee(); g != nil && g.Pkg == fn.Pkg && g.Blocks != nil && g != fn {
						fns = append(fns, g)
					}
				}
			}
		}
		dup := ""
		nSites := 0
		for _, f := range fns {
			sites := evalSitesOf(f)
			nSites += len(sites)
			loops := core.Loops(f)
			for i, a := range sites {
				for j, bsite := range sites {
					if i == j || a.list == nil || bsite.list == nil {
						continue
					}
					if !sameList(a.list, bsite.list) {
						continue
					}
					same := false
					if a.isC && bsite.isC {
						same = a.cidx == bsite.cidx
					} else if !a.isC && !bsite.isC {
						same = a.idx == bsite.idx
					}
					if same && siteReaches(a, bsite, loops) {
						dup = fmt.Sprintf("%s and %s evaluate the same element", c.Pos(a.call.Pos()), c.Pos(bsite.call.Pos()))
					}
				}
			}
		}
		r.Decide(dup == "", once, "pkg/cl:"+name, c.Pos(fn.Pos()), fmt.Sprintf("%d evaluation sites; %s", nSites, orOKs(dup, "no element evaluated twice on one path")))

		switch name {
		case "if":
			sites := evalSitesOf(fn)
			loops := core.Loops(fn)
			bad := ""
			var rest []*evalSite
			for _, s := range sites {
				if s.isC && s.cidx == 0 {
					continue
				}
				rest = append(rest, s)
			}
			for i, a := range rest {
				for j, bs := range rest {
					if i != j && siteReaches(a, bs, loops) {
						bad = fmt.Sprintf("the evaluation at %s can be followed by the one at %s", c.Pos(a.call.Pos()), c.Pos(bs.call.Pos()))
					}
				}
			}
			r.Decide(bad == "" && len(rest) >= 2, branch, "pkg/cl:if", c.Pos(fn.Pos()), fmt.Sprintf("%d branch evaluations; %s", len(rest), orOKs(bad, "mutually unreachable")))
		case "cond", "case", "ecase", "typecase", "etypecase":
			// the clause loop: a loop that directly contains an evaluation site (the clause test); a body loop: another
			// loop with evaluation sites whose header is dominated by the clause loop's header
			loops := core.Loops(fn)
			sites := evalSitesOf(fn)
			direct := map[*core.Loop][]*evalSite{}
			for _, es := range sites {
				if il := core.InnermostLoop(loops, es.call.Block()); il != nil {
					direct[il] = append(direct[il], es)
				}
			}
			bad := ""
			nBody := 0
			for _, lt := range loops {
				for lb, bodySites := range direct {
					if lb == lt || !lt.Header.Dominates(lb.Header) {
						continue
					}
					nBody++
					if !lt.Blocks[lb.Header] {
						continue // the body loop is not part of the clause loop: control cannot come back to the next clause
					}
					for blk := range lb.Blocks {
						for _, sx := range blk.Succs {
							if lb.Blocks[sx] {
								continue
							}
							if lt.Blocks[sx] && !leavesLoop(sx, lt) {
								bad = fmt.Sprintf("after the clause body evaluated at %s the clause loop continues with the next clause", c.Pos(bodySites[0].call.Pos()))
							}
						}
					}
				}
			}
			if nBody == 0 {
				r.Undecided(branch, "pkg/cl:"+name, c.Pos(fn.Pos()), "no clause-body loop recognised")
			} else {
				r.Decide(bad == "", branch, "pkg/cl:"+name, c.Pos(fn.Pos()), orOKs(bad, "control leaves the clause loop after a clause body"))
			}
		}
	}
	c01scope(c, r)
	c01skip(c, r)
	c01fresh(c, r)
}

func sameList(a, b ssa.Value) bool {
	if a == b {
		return true
	}
	return sameSliceBase(a, b)
}

// scopeRole traces a *Scope value to "outer" (the Call's scope parameter), "inner" (the result of outer.NewScope())
// or "?"; ctx maps the parameters of a helper to the roles of the actuals at its call site.
func scopeRole(v ssa.Value, call *ssa.Function, ctx map[*ssa.Parameter]string, depth int) string {
	if depth > 6 || v == nil {
		return "?"
	}
	switch x := v.(type) {
	case *ssa.Parameter:
		if r, ok := ctx[x]; ok {
			return r
		}
		if x.Parent() == call && core.IsNamed(x.Type(), core.SlipPath, "Scope") {
			return "outer"
		}
	case *ssa.Call:
		if g := x.Call.StaticCallee(); g != nil && core.IsSSAFunc(g, core.SlipPath, "Scope", "NewScope") && len(x.Call.Args) > 0 {
			if scopeRole(x.Call.Args[0], call, ctx, depth+1) == "outer" {
				return "inner"
			}
			return "inner?"
		}
	case *ssa.Phi:
		role := ""
		for _, e := range x.Edges {
			r := scopeRole(e, call, ctx, depth+1)
			if role == "" {
				role = r
			} else if role != r {
				return "?"
			}
		}
		return role
	case *ssa.UnOp:
		if al, ok := x.X.(*ssa.Alloc); ok {
			if st := onlyStore(al); st != nil {
				return scopeRole(st, call, ctx, depth+1)
			}
		}
	}
	return "?"
}

func c01scope(c *core.Ctx, r *core.Reporter) {
	const rule = "C01.scope"
	r.Rule(rule, "let and do: the value bound by each Let/UnsafeLet of the binding list is evaluated in the outer scope and bound in the new scope (parallel binding); let* and do*: it is evaluated in the new scope (sequential binding); every other evaluation of the form (body, test, result and step forms) uses the new scope; do evaluates all step forms before assigning any", 5)
	want := map[string]string{"let": "outer", "do": "outer", "let*": "inner", "do*": "inner"}
	for _, name := range []string{"let", "let*", "do", "do*"} {
		b := c.ByName("pkg/cl", name)
		if b == nil || b.Call == nil {
			r.Undecided(rule, "pkg/cl:"+name, "-", "form not found")
			continue
		}
		fn := c.SSAFunc(b.Call)
		type ctxFn struct {
			fn  *ssa.Function
			ctx map[*ssa.Parameter]string
		}
		work := []ctxFn{{fn, map[*ssa.Parameter]string{}}}
		for _, bb := range fn.Blocks {
			for _, in := range bb.Instrs {
				call, ok := in.(*ssa.Call)
				if !ok {
					continue
				}
				g := call.Call.StaticCallee()
				if g == nil || g.Pkg != fn.Pkg || g.Blocks == nil {
					continue
				}
				ctx := map[*ssa.Parameter]string{}
				any := false
				for i, a := range call.Call.Args {
					if i < len(g.Params) && core.IsNamed(a.Type(), core.SlipPath, "Scope") {
						ctx[g.Params[i]] = scopeRole(a, fn, map[*ssa.Parameter]string{}, 0)
						any = true
					}
				}
				if any {
					work = append(work, ctxFn{g, ctx})
				}
			}
		}
		nInit, nOther := 0, 0
		var bad []string
		for _, w := range work {
			for _, es := range evalSitesOf(w.fn) {
				if es.scope == nil {
					continue
				}
				role := scopeRole(es.scope, fn, w.ctx, 0)
				// init-form evaluation: the value flows straight into Let/UnsafeLet
				var letRecv ssa.Value
				for _, rf := range *es.call.Referrers() {
					if lc, ok := rf.(*ssa.Call); ok {
						if g := lc.Call.StaticCallee(); g != nil && (core.IsSSAFunc(g, core.SlipPath, "Scope", "Let") || core.IsSSAFunc(g, core.SlipPath, "Scope", "UnsafeLet")) {
							letRecv = lc.Call.Args[0]
						}
					}
				}
				// do*'s step form: UnsafeLet(sym, ns.Eval(step)) counts as a sequential (re)binding: same expectation as init forms
				if letRecv != nil {
					nInit++
					if role != want[name] {
						bad = append(bad, fmt.Sprintf("%s: init/step form evaluated in the %s scope, %s requires the %s scope", c.Pos(es.call.Pos()), role, name, want[name]))
					}
					if lr := scopeRole(letRecv, fn, w.ctx, 0); lr != "inner" {
						bad = append(bad, fmt.Sprintf("%s: binding made in the %s scope instead of the new scope", c.Pos(es.call.Pos()), lr))
					}
					continue
				}
				nOther++
				if role != "inner" {
					bad = append(bad, fmt.Sprintf("%s: body/test/step form evaluated in the %s scope instead of the new scope", c.Pos(es.call.Pos()), role))
				}
			}
		}
		if nInit == 0 {
			r.Undecided(rule, "pkg/cl:"+name, c.Pos(fn.Pos()), "no init-form evaluation feeding a Let was recognised")
			continue
		}
		sort.Strings(bad)
		r.Decide(len(bad) == 0, rule, "pkg/cl:"+name, c.Pos(fn.Pos()), fmt.Sprintf("%d init-form and %d other evaluation sites; %s", nInit, nOther, orOKs(strings.Join(bad, "; "), "scopes as required")))
	}
	// do: parallel stepping = no loop both evaluates a step and assigns
	if b := c.ByName("pkg/cl", "do"); b != nil && b.Call != nil {
		fn := c.SSAFunc(b.Call)
		loops := core.Loops(fn)
		bad := ""
		for _, l := range loops {
			hasEval, hasLet := false, false
			for blk := range l.Blocks {
				if core.InnermostLoop(loops, blk) != l {
					continue
				}
				for _, in := range blk.Instrs {
					if call, ok := in.(*ssa.Call); ok {
						if form, _, _, ok := isEvalSite(call); ok && form != nil && loadsField(form, clPath, "stepBind", "step") {
							hasEval = true
						}
						if g := call.Call.StaticCallee(); g != nil && (core.IsSSAFunc(g, core.SlipPath, "Scope", "Let") || core.IsSSAFunc(g, core.SlipPath, "Scope", "UnsafeLet")) {
							hasLet = true
						}
					}
				}
			}
			if hasEval && hasLet {
				bad = "a step form is evaluated in the same loop that assigns the variables: later steps see earlier assignments"
			}
		}
		r.Decide(bad == "", rule, "pkg/cl:do|steps evaluated before assignment", c.Pos(fn.Pos()), orOKs(bad, "step evaluation and assignment are separate loops"))
	}
}

func c01skip(c *core.Ctx, r *core.Reporter) {
	const rule = "C01.skip"
	r.Rule(rule, "for every registered built-in, each position of its own argument list that its Call evaluates itself (EvalArg on the Call's argument slice with a constant index, or with a loop index) is marked true in the SkipEval literal of the registration (a trailing element covers the rest): otherwise Function.Eval evaluates the argument and the form evaluates the result again", 40)
	for _, b := range c.Registry() {
		if b.Call == nil || b.Name == "" {
			continue
		}
		fn := c.SSAFunc(b.Call)
		if fn == nil {
			continue
		}
		var argsP *ssa.Parameter
		for _, p := range fn.Params {
			if core.IsNamed(p.Type(), core.SlipPath, "List") {
				argsP = p
			}
		}
		if argsP == nil {
			continue
		}
		skipAt := func(i int) bool {
			if !b.HasSkip || len(b.SkipEval) == 0 {
				return false
			}
			if i < len(b.SkipEval) {
				return b.SkipEval[i]
			}
			return b.SkipEval[len(b.SkipEval)-1]
		}
		var bad []string
		n := 0
		for _, es := range evalSitesOf(fn) {
			if es.list == nil {
				continue
			}
			// the Call's own argument slice (possibly re-sliced from a constant offset)
			base, off := es.list, 0
			for i := 0; i < 4; i++ {
				if sl, ok := base.(*ssa.Slice); ok && sl.High == nil {
					if sl.Low != nil {
						k, ok := foldInt(sl.Low, 0)
						if !ok {
							break
						}
						off += k
					}
					base = sl.X
					continue
				}
				break
			}
			if base != ssa.Value(argsP) {
				continue
			}
			n++
			if !b.SkipLit && b.HasSkip {
				continue // SkipEval not a literal: not decidable here
			}
			if es.isC {
				if !skipAt(es.cidx + off) {
					bad = append(bad, fmt.Sprintf("position %d evaluated at %s is not marked in SkipEval %v", es.cidx+off, c.Pos(es.call.Pos()), b.SkipEval))
				}
			} else {
				// loop over the rest: the trailing SkipEval element must be true
				if !b.HasSkip || len(b.SkipEval) == 0 || !b.SkipEval[len(b.SkipEval)-1] {
					bad = append(bad, fmt.Sprintf("the argument loop at %s evaluates positions that SkipEval %v leaves to Function.Eval", c.Pos(es.call.Pos()), b.SkipEval))
				}
			}
		}
		// positions evaluated by a helper that evaluates a list from a start index on (cl.EvalTagBody)
		for _, blk := range fn.Blocks {
			for _, in := range blk.Instrs {
				call, ok := in.(*ssa.Call)
				if !ok {
					continue
				}
				g := call.Call.StaticCallee()
				li, si, ok := listEvaluator(g)
				if !ok || li >= len(call.Call.Args) {
					continue
				}
				base, off := call.Call.Args[li], 0
				for i := 0; i < 4; i++ {
					if sl, ok := base.(*ssa.Slice); ok && sl.High == nil {
						if sl.Low != nil {
							k, ok := foldInt(sl.Low, 0)
							if !ok {
								break
							}
							off += k
						}
						base = sl.X
						continue
					}
					break
				}
				if base != ssa.Value(argsP) {
					continue
				}
				n++
				if !b.SkipLit && b.HasSkip {
					continue
				}
				start, isC := 0, si < 0
				if si >= 0 && si < len(call.Call.Args) {
					start, isC = foldInt(call.Call.Args[si], 0)
				}
				okSkip := b.HasSkip && len(b.SkipEval) > 0 && b.SkipEval[len(b.SkipEval)-1]
				if okSkip && isC {
					for i := start + off; i < len(b.SkipEval); i++ {
						if !b.SkipEval[i] {
							okSkip = false
						}
					}
				}
				if !okSkip {
					bad = append(bad, fmt.Sprintf("%s at %s evaluates the positions from %d on, which SkipEval %v leaves to Function.Eval", g.Name(), c.Pos(call.Pos()), start+off, b.SkipEval))
				}
			}
		}
		if n == 0 {
			continue
		}
		sort.Strings(bad)
		if len(bad) > 2 {
			bad = bad[:2]
		}
		r.Decide(len(bad) == 0, rule, b.Key(), c.Pos(b.Pos), fmt.Sprintf("%d self-evaluated positions; %s", n, orOKs(strings.Join(bad, "; "), "all marked in SkipEval")))
	}
}

// listEvaluator: g (not a Call method) evaluates the elements of its list parameter li in a loop whose index
// starts at its int parameter si (-1: at a constant).
var listEvalMemo = map[*ssa.Function][3]int{}

func listEvaluator(g *ssa.Function) (li, si int, ok bool) {
	if g == nil || len(g.Blocks) == 0 || g.Pkg == nil || !core.InModule(g.Pkg.Pkg) || g.Signature.Recv() != nil {
		return 0, 0, false
	}
	if m, seen := listEvalMemo[g]; seen {
		return m[0], m[1], m[2] == 1
	}
	res := [3]int{0, -1, 0}
	loops := core.Loops(g)
	for _, es := range evalSitesOf(g) {
		if es.list == nil || es.isC {
			continue
		}
		for i, p := range g.Params {
			if es.list != ssa.Value(p) {
				continue
			}
			l := core.InnermostLoop(loops, es.call.Block())
			for ; l != nil; l = l.Parent {
				if dependsOnLoopVar(es.idx, l, 0) {
					break
				}
			}
			if l == nil {
				continue
			}
			res[0], res[2] = i, 1
			for _, in := range l.Header.Instrs {
				phi, isPhi := in.(*ssa.Phi)
				if !isPhi {
					continue
				}
				for k, e := range phi.Edges {
					if l.Blocks[l.Header.Preds[k]] {
						continue
					}
					for j, q := range g.Params {
						if e == ssa.Value(q) {
							res[1] = j
						}
					}
				}
			}
		}
	}
	listEvalMemo[g] = res
	return res[0], res[1], res[2] == 1
}

// c01fresh shares the implementation of C08.nostate for the core forms.
func c01fresh(c *core.Ctx, r *core.Reporter) {
	const rule = "C01.fresh"
	r.Rule(rule, "the Call method of each core form (with the closures it creates and the methods it calls on itself) stores nothing into its own function object: in particular every evaluation of a lambda expression builds a new closure object", 25)
	for _, name := range coreForms {
		b := c.ByName("pkg/cl", name)
		if b == nil || b.Call == nil {
			continue
		}
		fn := c.SSAFunc(b.Call)
		if fn == nil || len(fn.Params) == 0 {
			continue
		}
		bad, _ := selfStores(fn)
		r.Decide(len(bad) == 0, rule, "pkg/cl:"+name, c.Pos(fn.Pos()), fmt.Sprintf("fields of the function object written during Call: %v", bad))
	}
}

// c01testvalue: cond and or return the value of the test that selected the outcome: (cond (5)) => 5,
// (or nil 2) => 2. In their Call methods the result of every evaluation (slip.EvalArg) can reach the returned
// value; an evaluation whose result is only compared with nil loses the value. Before 260682b the test of a
// cond clause was only compared: (cond (nil 1) (5) (t 3)) => nil.
func c01testvalue(c *core.Ctx, r *core.Reporter) {
	const rule = "C01.testvalue"
	r.Rule(rule, "in the Call methods of cond and or, the value of every evaluation can flow to the returned result (a test whose value is only compared with nil cannot be returned by a test-only clause)", 3)
	for _, name := range []string{"cond", "or"} {
		b := c.ByName("pkg/cl", name)
		if b == nil || b.Call == nil {
			r.Undecided(rule, "pkg/cl:"+name, "-", "form not found in the registry")
			continue
		}
		fn := c.SSAFunc(b.Call)
		n := 0
		for _, blk := range fn.Blocks {
			for _, in := range blk.Instrs {
				call, ok := in.(*ssa.Call)
				if !ok {
					continue
				}
				cal := call.Call.StaticCallee()
				if cal == nil || cal.Name() != "EvalArg" || cal.Pkg == nil || cal.Pkg.Pkg.Path() != core.SlipPath {
					continue
				}
				n++
				reaches := false
				seen := map[ssa.Value]bool{}
				var visit func(v ssa.Value, depth int)
				visit = func(v ssa.Value, depth int) {
					if depth > 6 || seen[v] || v.Referrers() == nil {
						return
					}
					seen[v] = true
					for _, ref := range *v.Referrers() {
						switch x := ref.(type) {
						case *ssa.Return:
							reaches = true
						case *ssa.Phi:
							visit(x, depth+1)
						case *ssa.Store:
							if al, ok := x.Addr.(*ssa.Alloc); ok && x.Val == v {
								// the named result: loaded at the return
								for _, r2 := range *al.Referrers() {
									if ld, ok := r2.(*ssa.UnOp); ok {
										visit(ld, depth+1)
									}
								}
							}
						}
					}
				}
				visit(call, 0)
				r.Decide(reaches, rule, fmt.Sprintf("pkg/cl:%s|evaluation #%d", name, n), c.Pos(call.Pos()), fmt.Sprintf("the evaluated value can reach the result of the form: %v", reaches))
			}
		}
	}
}
