package rules

import (
	"fmt"
	"go/constant"
	"go/token"
	"go/types"
	"sort"

	"golang.org/x/tools/go/ssa"

	"slipcheck/core"
	"slipcheck/lenflow"
)

// c09sub (rule C09.minus): x[v-k] and x[:v-k] where v is an integer that is not a length (a stream position, a counter, a
// column): the expression is negative when v < k, and a negative index is a Go runtime panic, not a Lisp
// condition. The rule asks for a proven lower bound v >= k at the site: a dominating comparison (0 < v,
// k <= v, v != 0 of an unsigned or of a value proven non-negative), or a value whose construction gives it
// (a loop counter that starts at k and only grows, a sum with a positive constant).
func c09sub(c *core.Ctx, r *core.Reporter) {
	const rule = "C09.minus"
	r.Rule(rule, "every index or slice bound of the form v-k (constant k >= 1, v an integer that is not a length) is reached only with v >= k proven by a dominating comparison or by the construction of v", 20)
	an := lenflow.New(c)
	type site struct {
		fn   *ssa.Function
		in   ssa.Instruction
		v    ssa.Value
		k    int
		have int
		ok   bool
		what string
	}
	var sites []*site
	notJudged := 0
	subOf := func(v ssa.Value) (ssa.Value, int, bool) {
		for i := 0; i < 3; i++ {
			switch x := v.(type) {
			case *ssa.Convert:
				v = x.X
				continue
			case *ssa.BinOp:
				if x.Op != token.SUB {
					return nil, 0, false
				}
				cst, ok := x.Y.(*ssa.Const)
				if !ok || cst.Value == nil || cst.Value.Kind() != constant.Int {
					return nil, 0, false
				}
				k, ok := constant.Int64Val(cst.Value)
				if !ok || k < 1 {
					return nil, 0, false
				}
				return x.X, int(k), true
			}
			break
		}
		return nil, 0, false
	}
	for _, fn := range c.ModuleFuncs() {
		if takesTestingT(fn) {
			continue
		}
		var cand []struct {
			in   ssa.Instruction
			idx  ssa.Value
			what string
		}
		for _, b := range fn.Blocks {
			for _, in := range b.Instrs {
				switch x := in.(type) {
				case *ssa.IndexAddr:
					cand = append(cand, struct {
						in   ssa.Instruction
						idx  ssa.Value
						what string
					}{in, x.Index, "index"})
				case *ssa.Index:
					cand = append(cand, struct {
						in   ssa.Instruction
						idx  ssa.Value
						what string
					}{in, x.Index, "index"})
				case *ssa.Lookup:
					if _, isStr := x.X.Type().Underlying().(*types.Basic); isStr {
						cand = append(cand, struct {
							in   ssa.Instruction
							idx  ssa.Value
							what string
						}{in, x.Index, "index"})
					}
				case *ssa.Slice:
					if x.High != nil {
						cand = append(cand, struct {
							in   ssa.Instruction
							idx  ssa.Value
							what string
						}{in, x.High, "high"})
					}
					if x.Low != nil {
						cand = append(cand, struct {
							in   ssa.Instruction
							idx  ssa.Value
							what string
						}{in, x.Low, "low"})
					}
				}
			}
		}
		var res *lenflow.Result
		for _, cd := range cand {
			v, k, ok := subOf(cd.idx)
			if !ok {
				continue
			}
			if res == nil {
				res = an.Analyze(fn, nil, nil, 0)
			}
			if _, isLen, ok := res.ResolveInt(v); ok && isLen {
				continue // len(x)-k: C09.rel and C09.idx
			}
			if b, ok := v.Type().Underlying().(*types.Basic); !ok || b.Info()&types.IsUnsigned != 0 {
				continue // unsigned arithmetic wraps upward: an upper-bound question, not a negative index
			}
			if ilb, ok := res.IntLBAt(cd.idx, cd.in.Block()); ok && ilb >= 0 {
				sites = append(sites, &site{fn: fn, in: cd.in, v: v, k: k, have: ilb + k, ok: true, what: cd.what})
				continue // the difference itself was tested: `pos--; if 0 <= pos { line[pos] }`
			}
			switch v.(type) {
			case *ssa.BinOp:
				notJudged++
				continue // a compound expression (len(x)-i-1, a+b-1): relational, beyond constant bounds
			}
			lb, has := res.IntLBAt(v, cd.in.Block())
			sites = append(sites, &site{fn: fn, in: cd.in, v: v, k: k, have: lb, ok: has && lb >= k, what: cd.what})
		}
	}
	sort.SliceStable(sites, func(i, j int) bool {
		if core.SSAName(sites[i].fn) != core.SSAName(sites[j].fn) {
			return core.SSAName(sites[i].fn) < core.SSAName(sites[j].fn)
		}
		return sites[i].in.Pos() < sites[j].in.Pos()
	})
	r.Count("sub_compound_not_judged", notJudged)
	seen := map[string]int{}
	for _, s := range sites {
		key := fmt.Sprintf("%s|%s %s-%d", core.SSAName(s.fn), s.what, valDesc(s.v), s.k)
		seen[key]++
		if seen[key] > 1 {
			key = fmt.Sprintf("%s #%d", key, seen[key])
		}
		detail := fmt.Sprintf("need %s >= %d, proven >= %d", valDesc(s.v), s.k, s.have)
		if s.ok {
			r.Hold(rule, key, c.Pos(s.in.Pos()), detail)
			continue
		}
		if why, ok := subExceptions[key]; ok {
			r.Hold(rule, key, c.Pos(s.in.Pos()), "accepted by reading: "+why+" ("+detail+")")
			continue
		}
		r.Violate(rule, key, c.Pos(s.in.Pos()), detail+": no dominating comparison gives the lower bound")
	}
}

func valDesc(v ssa.Value) string {
	switch x := v.(type) {
	case *ssa.UnOp:
		if fa, ok := x.X.(*ssa.FieldAddr); ok {
			return "." + fieldNameOf(fa)
		}
		if al, ok := x.X.(*ssa.Alloc); ok && al.Comment != "" {
			return al.Comment
		}
	case *ssa.Parameter:
		return x.Name()
	case *ssa.Phi:
		if x.Comment != "" {
			return x.Comment
		}
	case *ssa.Call:
		if f := x.Call.StaticCallee(); f != nil {
			return f.Name() + "()"
		}
	}
	if v.Name() != "" {
		return "value"
	}
	return "?"
}

func fieldNameOf(fa *ssa.FieldAddr) string {
	t := fa.X.Type()
	if p, ok := t.Underlying().(*types.Pointer); ok {
		t = p.Elem()
	}
	if st, ok := t.Underlying().(*types.Struct); ok && fa.Field < st.NumFields() {
		return st.Field(fa.Field).Name()
	}
	return "?"
}

var subExceptions = map[string]string{
	"pkg/swank.parseTraceSpec|high value-1":  "the string was just tested to begin with \"(\" and to end with \")\": two different characters, so its length is at least 2",
	"pkg/swank.truncateString|high maxLen-3": "unexported helper of the inspector; both callers pass the constant 60",
	"pkg/repl.(editor).addRune|low .pos-1":   "ed.pos was incremented three statements earlier and the cursor column is never negative",
	"pkg/repl.nl|index .line-1":              "ed.line was incremented two statements earlier and the cursor line is never negative",
	"pkg/cl.(control).dirCall|high .pos-1":   "c.pos was incremented in the statement before and the format position is never negative",
	"pkg/cl.(control).readDir|index .pos-2":  "readDir starts after the tilde (pos >= 1) and the loop has consumed the comma being handled (pos++ before the switch): pos >= 2",
}
