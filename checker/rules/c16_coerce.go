package rules

import (
	"fmt"
	"go/token"
	"go/types"
	"sort"
	"strings"

	"golang.org/x/tools/go/ssa"

	"slipcheck/core"
)

// C16.coerce: coerce returns an object of the requested type. For every arm of the coerce dispatcher that
// handles a type symbol naming a class, the static types of everything the arm can return - concrete types
// built with a conversion, or an interface type when the argument is handed back under a type-switch case -
// are types whose Hierarchy() lists the requested symbol.

// resultTypes collects the static types of the values a function returns (first result), looking through
// phis and conversions to the interface; unknown when the value is an interface of type Object itself.
func resultTypes(fn *ssa.Function) (ts []types.Type, unknown bool) {
	seen := map[ssa.Value]bool{}
	var walk func(v ssa.Value, d int)
	walk = func(v ssa.Value, d int) {
		if v == nil || seen[v] || d > 10 {
			return
		}
		seen[v] = true
		switch x := v.(type) {
		case *ssa.Phi:
			for _, e := range x.Edges {
				walk(e, d+1)
			}
		case *ssa.MakeInterface:
			ts = append(ts, x.X.Type())
		case *ssa.ChangeInterface:
			if core.IsNamed(x.X.Type(), core.SlipPath, "Object") {
				walk(x.X, d+1)
			} else {
				ts = append(ts, x.X.Type())
			}
		case *ssa.Const:
			// nil result
		case *ssa.Call:
			if g := x.Call.StaticCallee(); g != nil && g.Blocks != nil && g.Pkg != nil && core.InModule(g.Pkg.Pkg) && d < 6 {
				sub, unk := resultTypes(g)
				ts = append(ts, sub...)
				if unk {
					unknown = true
				}
			} else {
				unknown = true
			}
		case *ssa.UnOp:
			if al, ok := x.X.(*ssa.Alloc); ok && x.Op == token.MUL {
				for _, rf := range *al.Referrers() {
					if st, ok := rf.(*ssa.Store); ok && st.Addr == ssa.Value(al) {
						walk(st.Val, d+1)
					}
				}
				return
			}
			unknown = true
		default:
			unknown = true
		}
	}
	for _, b := range fn.Blocks {
		if ret, ok := b.Instrs[len(b.Instrs)-1].(*ssa.Return); ok && len(ret.Results) > 0 {
			walk(ret.Results[0], 0)
		}
	}
	return
}

// implementers: the concrete types of the module's package slip that implement interface it.
func implementers(c *core.Ctx, it *types.Interface) []types.Type {
	var out []types.Type
	p := c.Pkg("")
	if p == nil {
		return nil
	}
	sc := p.Types.Scope()
	for _, n := range sc.Names() {
		tn, ok := sc.Lookup(n).(*types.TypeName)
		if !ok {
			continue
		}
		t := tn.Type()
		if _, isI := t.Underlying().(*types.Interface); isI {
			continue
		}
		if types.Implements(t, it) {
			out = append(out, t)
		} else if types.Implements(types.NewPointer(t), it) {
			out = append(out, types.NewPointer(t))
		}
	}
	return out
}

func c16coerce(c *core.Ctx, r *core.Reporter) {
	const rule = "C16.coerce"
	r.Rule(rule, "for every arm of the coerce dispatcher that handles a type symbol naming a built-in class, every type the arm can return (a concrete type it builds, or the interface under which it hands its argument back) lists that symbol in its Hierarchy(): (coerce x 'double-float) must not return a float of another format", 15)
	obj := c.LookupFunc("", "Coerce")
	if obj == nil {
		r.Undecided(rule, "slip.Coerce", "-", "anchor does not resolve")
		return
	}
	fn := c.SSAFunc(obj)
	// type names the type system knows: every symbol that occurs in the Hierarchy() literal of some type
	classNames := map[string]bool{}
	for _, pk := range c.Pkgs {
		sc := pk.Types.Scope()
		for _, n := range sc.Names() {
			tn, ok := sc.Lookup(n).(*types.TypeName)
			if !ok {
				continue
			}
			for _, t := range []types.Type{tn.Type(), types.NewPointer(tn.Type())} {
				for _, lit := range hierarchyLiterals(c, t) {
					for _, sname := range lit {
						classNames[strings.ToLower(sname)] = true
					}
				}
			}
		}
	}
	seen := map[string]int{}
	for _, b := range fn.Blocks {
		ifi, ok := b.Instrs[len(b.Instrs)-1].(*ssa.If)
		if !ok {
			continue
		}
		bo, ok := ifi.Cond.(*ssa.BinOp)
		if !ok || bo.Op != token.EQL {
			continue
		}
		var sym string
		for _, op := range []ssa.Value{bo.X, bo.Y} {
			if s, ok := core.StringConst(op); ok && core.IsNamed(op.Type(), core.SlipPath, "Symbol") {
				sym = strings.ToLower(s)
			}
		}
		if sym == "" || sym == "t" || !classNames[sym] {
			continue // not a type name the type system knows (coerce also accepts aliases such as bytes, assoc)
		}
		// the arm: blocks reached from the true edge up to the next comparison; its calls to converters
		arm := b.Succs[0]
		var callee *ssa.Function
		for _, in := range arm.Instrs {
			if call, ok := in.(*ssa.Call); ok {
				if g := call.Call.StaticCallee(); g != nil && g.Pkg != nil && g.Pkg.Pkg.Path() == core.SlipPath && g.Blocks != nil {
					callee = g
				}
			}
		}
		if callee == nil {
			continue
		}
		ts, unknown := resultTypes(callee)
		var bad, okTypes []string
		judged := 0
		check := func(t types.Type) {
			lits := hierarchyLiterals(c, t)
			if len(lits) == 0 {
				return
			}
			judged++
			has := false
			for _, lit := range lits {
				for _, s := range lit {
					if strings.ToLower(s) == sym {
						has = true
					}
				}
			}
			name := types.TypeString(t, func(p *types.Package) string { return "" })
			if has {
				okTypes = append(okTypes, name)
			} else {
				bad = append(bad, name)
			}
		}
		for _, t := range ts {
			if it, isI := t.Underlying().(*types.Interface); isI {
				for _, ct := range implementers(c, it) {
					check(ct)
				}
				continue
			}
			check(t)
		}
		if judged == 0 {
			continue
		}
		sort.Strings(bad)
		sort.Strings(okTypes)
		key := fmt.Sprintf("slip.Coerce|%s -> %s", sym, callee.Name())
		seen[key]++
		if n := seen[key]; n > 1 {
			key = fmt.Sprintf("%s#%d", key, n)
		}
		detail := fmt.Sprintf("returns %v", okTypes)
		if len(bad) > 0 {
			detail = fmt.Sprintf("can return %v, whose hierarchy does not list %s", bad, sym)
		}
		if unknown {
			detail += " (some results are not statically typed and are not judged)"
		}
		r.Decide(len(bad) == 0, rule, key, c.Pos(bo.Pos()), detail)
	}
}
