package rules

import (
	"go/constant"
	"go/token"
	"go/types"

	"golang.org/x/tools/go/ssa"

	"slipcheck/core"
)

// Hashability guards (C16.key). A key is also accepted when, on every path to the map operation,
//   - the true outcome of a *hashability predicate* applied to the same value was taken, or
//   - a call of an *ensuring function* on the same value was passed (a function every normal return
//     of which is reached only through the true outcome of the predicate on its parameter).
// Both are found by structure, not by name: a predicate is a module function with one bool result
// all of whose returned values are the result of (reflect.Value).Comparable on reflect.ValueOf of
// its parameter, or the constant true on an edge where the parameter was found nil.

type hashGuards struct {
	noReturn func(*ssa.Function) bool
	pred     map[*ssa.Function]int // predicate -> index of the tested parameter
	ensure   map[*ssa.Function]int // ensuring function -> index of the ensured parameter
}

func newHashGuards(c *core.Ctx, noReturn func(*ssa.Function) bool) *hashGuards {
	h := &hashGuards{noReturn: noReturn, pred: map[*ssa.Function]int{}, ensure: map[*ssa.Function]int{}}
	fns := c.ModuleFuncs()
	for _, fn := range fns {
		if i, ok := h.isPredicate(fn); ok {
			h.pred[fn] = i
		}
	}
	if len(h.pred) == 0 {
		return h
	}
	for _, fn := range fns {
		if _, ok := h.pred[fn]; ok || len(fn.Blocks) == 0 {
			continue
		}
		for i, p := range fn.Params {
			if !isObjectType(p.Type()) {
				continue
			}
			uses := false
			for _, b := range fn.Blocks {
				for _, in := range b.Instrs {
					if call, ok := in.(*ssa.Call); ok && h.predCallOn(call, p) {
						uses = true
					}
				}
			}
			if !uses {
				continue
			}
			all := true
			nret := 0
			for _, b := range fn.Blocks {
				if _, ok := b.Instrs[len(b.Instrs)-1].(*ssa.Return); !ok {
					continue
				}
				nret++
				if !core.Separates(fn, b, noReturn, func(ifi *ssa.If, br bool) bool { return h.edgeProves(ifi, br, p) }) {
					all = false
				}
			}
			if all && nret > 0 {
				h.ensure[fn] = i
			}
		}
	}
	return h
}

func isObjectType(t types.Type) bool {
	return core.IsNamed(t, core.SlipPath, "Object")
}

// predCallOn: call is predicate(v) for the given value (same value up to interface conversion).
func (h *hashGuards) predCallOn(call *ssa.Call, v ssa.Value) bool {
	g := call.Call.StaticCallee()
	if g == nil {
		return false
	}
	i, ok := h.pred[g]
	if !ok || i >= len(call.Call.Args) {
		return false
	}
	return sameKeyValue(call.Call.Args[i], v)
}

// edgeProves: leaving ifi with outcome br establishes predicate(v).
func (h *hashGuards) edgeProves(ifi *ssa.If, br bool, v ssa.Value) bool {
	cond := ifi.Cond
	want := true
	for {
		if u, ok := cond.(*ssa.UnOp); ok && u.Op == token.NOT {
			cond, want = u.X, !want
			continue
		}
		break
	}
	call, ok := cond.(*ssa.Call)
	return ok && br == want && h.predCallOn(call, v)
}

func (h *hashGuards) isPredicate(fn *ssa.Function) (int, bool) {
	if len(fn.Blocks) == 0 || fn.Signature.Results().Len() != 1 {
		return 0, false
	}
	if bt, ok := fn.Signature.Results().At(0).Type().Underlying().(*types.Basic); !ok || bt.Kind() != types.Bool {
		return 0, false
	}
	param := -1
	g := core.ComputeGuards(fn, h.noReturn)
	// comparableOf(v): v is reflect.ValueOf(param).Comparable()
	comparableOf := func(v ssa.Value) (int, bool) {
		call, ok := v.(*ssa.Call)
		if !ok {
			return 0, false
		}
		cg := call.Call.StaticCallee()
		if cg == nil || cg.Name() != "Comparable" || cg.Pkg == nil || cg.Pkg.Pkg.Path() != "reflect" || len(call.Call.Args) != 1 {
			return 0, false
		}
		vo, ok := call.Call.Args[0].(*ssa.Call)
		if !ok {
			return 0, false
		}
		vg := vo.Call.StaticCallee()
		if vg == nil || vg.Name() != "ValueOf" || vg.Pkg == nil || vg.Pkg.Pkg.Path() != "reflect" || len(vo.Call.Args) != 1 {
			return 0, false
		}
		a := vo.Call.Args[0]
		for {
			switch x := a.(type) {
			case *ssa.ChangeInterface:
				a = x.X
				continue
			case *ssa.MakeInterface:
				a = x.X
				continue
			}
			break
		}
		for i, p := range fn.Params {
			if a == p {
				return i, true
			}
		}
		return 0, false
	}
	nilEdge := func(pred, succ *ssa.BasicBlock, p int) bool {
		isNilTest := func(ifi *ssa.If, br bool) bool {
			bo, ok := ifi.Cond.(*ssa.BinOp)
			if !ok {
				return false
			}
			var other ssa.Value
			if bo.X == fn.Params[p] {
				other = bo.Y
			} else if bo.Y == fn.Params[p] {
				other = bo.X
			} else {
				return false
			}
			cst, ok := other.(*ssa.Const)
			if !ok || !cst.IsNil() {
				return false
			}
			return (bo.Op == token.EQL && br) || (bo.Op == token.NEQ && !br)
		}
		for f := range g.Facts(pred) {
			if isNilTest(f.If, f.Branch) {
				return true
			}
		}
		if ifi, ok := pred.Instrs[len(pred.Instrs)-1].(*ssa.If); ok && pred.Succs[0] != pred.Succs[1] {
			if pred.Succs[0] == succ && isNilTest(ifi, true) {
				return true
			}
			if pred.Succs[1] == succ && isNilTest(ifi, false) {
				return true
			}
		}
		return false
	}
	seen := map[ssa.Value]bool{}
	var ok func(v ssa.Value, depth int) bool
	ok = func(v ssa.Value, depth int) bool {
		if depth > 6 {
			return false
		}
		if i, is := comparableOf(v); is {
			if param >= 0 && param != i {
				return false
			}
			param = i
			return true
		}
		if phi, is := v.(*ssa.Phi); is {
			if seen[phi] {
				return true
			}
			seen[phi] = true
			// first the non-constant edges (they fix the parameter), then the constant ones
			for _, e := range phi.Edges {
				if _, isC := e.(*ssa.Const); !isC && !ok(e, depth+1) {
					return false
				}
			}
			for k, e := range phi.Edges {
				cst, isC := e.(*ssa.Const)
				if !isC {
					continue
				}
				if cst.Value == nil || cst.Value.Kind() != constant.Bool {
					return false
				}
				if !constant.BoolVal(cst.Value) {
					continue // answering false is always safe
				}
				if param < 0 || !nilEdge(phi.Block().Preds[k], phi.Block(), param) {
					return false
				}
			}
			return true
		}
		if cst, is := v.(*ssa.Const); is && cst.Value != nil && cst.Value.Kind() == constant.Bool && !constant.BoolVal(cst.Value) {
			return true
		}
		return false
	}
	nret := 0
	for _, b := range fn.Blocks {
		ret, is := b.Instrs[len(b.Instrs)-1].(*ssa.Return)
		if !is {
			continue
		}
		nret++
		if len(ret.Results) != 1 || !ok(ret.Results[0], 0) {
			return 0, false
		}
	}
	return param, nret > 0 && param >= 0
}

// sameKeyValue: a and b denote the same Object: identical values, or interface conversions of one,
// or two loads of the same constant element of one slice value (args[0] evaluated twice).
func sameKeyValue(a, b ssa.Value) bool {
	strip := func(v ssa.Value) ssa.Value {
		for {
			if ci, ok := v.(*ssa.ChangeInterface); ok {
				v = ci.X
				continue
			}
			return v
		}
	}
	a, b = strip(a), strip(b)
	if a == b {
		return true
	}
	la, ok1 := a.(*ssa.UnOp)
	lb, ok2 := b.(*ssa.UnOp)
	if !ok1 || !ok2 || la.Op != token.MUL || lb.Op != token.MUL {
		return false
	}
	ia, ok1 := la.X.(*ssa.IndexAddr)
	ib, ok2 := lb.X.(*ssa.IndexAddr)
	if !ok1 || !ok2 || ia.X != ib.X {
		return false
	}
	ca, ok1 := ia.Index.(*ssa.Const)
	cb, ok2 := ib.Index.(*ssa.Const)
	if !ok1 || !ok2 || ca.Value == nil || cb.Value == nil || !constant.Compare(ca.Value, token.EQL, cb.Value) {
		return false
	}
	// no store into an element of that slice anywhere in the function
	for _, blk := range la.Parent().Blocks {
		for _, in := range blk.Instrs {
			if st, ok := in.(*ssa.Store); ok {
				if ix, ok := st.Addr.(*ssa.IndexAddr); ok && ix.X == ia.X {
					return false
				}
			}
		}
	}
	return true
}

// guarded: the instruction at is reached only with predicate(k) established.
func (h *hashGuards) guarded(at ssa.Instruction, k ssa.Value) (bool, string) {
	if len(h.pred) == 0 {
		return false, ""
	}
	fn := at.Parent()
	blk := at.Block()
	// an ensuring call earlier in the same block, or in a block every path crosses
	ensuredIn := func(b *ssa.BasicBlock, before ssa.Instruction) bool {
		for _, in := range b.Instrs {
			if in == before {
				return false
			}
			call, ok := in.(*ssa.Call)
			if !ok {
				continue
			}
			g := call.Call.StaticCallee()
			if g == nil {
				continue
			}
			if i, ok := h.ensure[g]; ok && i < len(call.Call.Args) && sameKeyValue(call.Call.Args[i], k) {
				return true
			}
		}
		return false
	}
	if ensuredIn(blk, at) {
		return true, "an ensuring call on the key precedes the operation (raises unless the key is hashable)"
	}
	for _, b := range fn.Blocks {
		if b != blk && b.Dominates(blk) && ensuredIn(b, nil) {
			return true, "an ensuring call on the key dominates the operation (raises unless the key is hashable)"
		}
	}
	if core.Separates(fn, blk, h.noReturn, func(ifi *ssa.If, br bool) bool { return h.edgeProves(ifi, br, k) }) {
		return true, "every path crosses the true outcome of the hashability predicate on the key"
	}
	return false, ""
}
