package rules

import (
	"fmt"
	"go/constant"
	"go/token"
	"go/types"
	"slipcheck/lenflow"
	"sort"

	"golang.org/x/tools/go/ssa"

	"slipcheck/core"
)

// c19callhead: code is written back (print, pretty-print, load form, function-lambda-expression, snapshot) from
// compiled function objects. The head of a call is the function's name, and the bare name reads back as the same
// function only where it is visible: (defun calls-pa () (pa::f2)) in common-lisp-user was saved as (defun calls-pa
// () (f2)), which names nothing on reload (cbd8400, 2ae68db). slip.FuncPrintName decides between name, pkg:name
// and pkg::name. The rule: no function of the module turns the bare name of a function object — the result of
// Funky.GetName or a load of Function.Name — into a Symbol or appends it to a byte buffer; every writer of a call
// head calls FuncPrintName. FuncPrintName itself is the one place that may read the bare name for writing.
func c19callhead(c *core.Ctx, r *core.Reporter) {
	const rule = "C19.callhead"
	r.Rule(rule, "the head of a written call comes from slip.FuncPrintName: the bare name of a function object (Funky.GetName, Function.Name) is never converted to a Symbol or appended to a byte buffer", 6)
	fpn := c.LookupFunc("", "FuncPrintName")
	symT := c.LookupType("", "Symbol")
	if fpn == nil || symT == nil {
		r.Undecided(rule, "slip.FuncPrintName / slip.Symbol", "-", "anchor does not resolve")
		return
	}
	fpnFn := c.SSAFunc(fpn)
	isSym := func(t types.Type) bool {
		nt, ok := types.Unalias(t).(*types.Named)
		return ok && nt.Obj() == symT.Obj()
	}
	bareName := func(v ssa.Value) bool {
		switch x := v.(type) {
		case *ssa.Call:
			if x.Call.IsInvoke() && x.Call.Method.Name() == "GetName" && core.IsNamed(x.Call.Value.Type(), core.SlipPath, "Funky") {
				return true
			}
			if callee := x.Call.StaticCallee(); callee != nil && callee.Name() == "GetName" && callee.Signature.Recv() != nil {
				rt := callee.Signature.Recv().Type()
				if p, ok := rt.(*types.Pointer); ok {
					rt = p.Elem()
				}
				return core.IsNamed(rt, core.SlipPath, "Function")
			}
		case *ssa.UnOp:
			if fa, ok := x.X.(*ssa.FieldAddr); ok {
				owner, field := fieldOwnerName(fa)
				return owner == "Function" && field == "Name"
			}
		}
		return false
	}
	type site struct {
		key, pos, msg string
		ok            bool
	}
	var sites []site
	for _, fn := range c.ModuleFuncs() {
		if fn.Blocks == nil || fn == fpnFn || takesTestingT(fn) {
			continue
		}
		uses, bad := 0, 0
		pos := ""
		for _, b := range fn.Blocks {
			for _, in := range b.Instrs {
				switch x := in.(type) {
				case *ssa.ChangeType:
					if isSym(x.Type()) && bareName(x.X) {
						bad++
						if pos == "" {
							pos = c.Pos(x.Pos())
						}
					}
				case *ssa.Call:
					if x.Call.StaticCallee() == fpnFn {
						uses++
					}
					if bi, ok := x.Call.Value.(*ssa.Builtin); ok && bi.Name() == "append" && len(x.Call.Args) == 2 && bareName(x.Call.Args[1]) {
						bad++
						if pos == "" {
							pos = c.Pos(x.Pos())
						}
					}
				}
			}
		}
		switch {
		case bad > 0:
			sites = append(sites, site{core.SSAName(fn), pos, "writes the bare name of a function object: a call of a function not visible from the current package is saved as a call of nothing", false})
		case uses > 0:
			sites = append(sites, site{core.SSAName(fn), c.Pos(fn.Pos()), "call head taken from FuncPrintName", true})
		}
	}
	sort.Slice(sites, func(i, j int) bool { return sites[i].key < sites[j].key })
	for _, s := range sites {
		r.Decide(s.ok, rule, s.key, s.pos, s.msg)
	}
}

// c19callpkg: FuncPrintName can qualify a name only if the call object knows the package of its function. The
// makers of call objects in the root package (NewFunc for evaluated lists, CompileList for compiled bodies) look
// a FuncInfo up and call its Create field; the object they hand out has had setPkg called on it. CompileList did
// not, so every compiled body lost the packages of the functions it calls.
func c19callpkg(c *core.Ctx, r *core.Reporter) {
	const rule = "C19.callpkg"
	r.Rule(rule, "a call object made from a looked-up FuncInfo (FuncInfo.Create) and handed out by a function of the root package has its package recorded with setPkg", 3)
	for _, fn := range c.ModuleFuncs() {
		if fn.Blocks == nil || fn.Pkg == nil || fn.Pkg.Pkg.Path() != core.SlipPath || takesTestingT(fn) {
			continue
		}
		n := 0
		for _, b := range fn.Blocks {
			for _, in := range b.Instrs {
				call, ok := in.(*ssa.Call)
				if !ok || call.Call.IsInvoke() {
					continue
				}
				ld, ok := call.Call.Value.(*ssa.UnOp)
				if !ok {
					continue
				}
				fa, ok := ld.X.(*ssa.FieldAddr)
				if !ok {
					continue
				}
				if owner, field := fieldOwnerName(fa); owner != "FuncInfo" || field != "Create" {
					continue
				}
				// forward closure of the created object
				derived := map[ssa.Value]bool{call: true}
				work := []ssa.Value{call}
				returned, recorded := false, false
				for len(work) > 0 {
					v := work[len(work)-1]
					work = work[:len(work)-1]
					if v.Referrers() == nil {
						continue
					}
					for _, rf := range *v.Referrers() {
						switch x := rf.(type) {
						case *ssa.Return:
							returned = true
						case *ssa.TypeAssert, *ssa.Extract, *ssa.Phi, *ssa.ChangeInterface, *ssa.MakeInterface:
							if xv := x.(ssa.Value); !derived[xv] {
								derived[xv] = true
								work = append(work, xv)
							}
						case *ssa.Call:
							if x.Call.IsInvoke() && x.Call.Method.Name() == "setPkg" && derived[x.Call.Value] {
								recorded = true
							}
						}
					}
				}
				if !returned {
					continue // evaluated on the spot, never written
				}
				n++
				key := core.SSAName(fn)
				if n > 1 {
					key += "#" + string(rune('0'+n))
				}
				r.Decide(recorded, rule, key, c.Pos(call.Pos()), "call object handed out; setPkg called on it: "+boolStr(recorded))
			}
		}
	}
}

// c19snappkg: the snapshot writes the functions of every user package, package by package. The definitions land in
// the right package on reload only if each group is preceded by a form that makes that package current. The writer
// emitted (use-package "pa") instead of (in-package "pa"): every function of every package was redefined in the
// package the load started in (dfdf674). The rule: a function of pkg/gi that enumerates the functions of packages
// (Package.EachFuncInfo) and writes forms (pp.Append) builds the symbol in-package and does not build use-package.
func c19snappkg(c *core.Ctx, r *core.Reporter) {
	const rule = "C19.snappkg"
	r.Rule(rule, "the snapshot writer that groups functions by package switches package with in-package (never use-package) before each group", 1)
	each := c.SSAFunc(c.LookupFunc("", "Package.EachFuncInfo"))
	if each == nil {
		r.Undecided(rule, "slip.Package.EachFuncInfo", "-", "anchor does not resolve")
		return
	}
	for _, fn := range c.ModuleFuncs() {
		if fn.Blocks == nil || fn.Pkg == nil || core.RelPkg(fn.Pkg.Pkg.Path()) != "pkg/gi" || takesTestingT(fn) || fn.Parent() != nil {
			continue
		}
		enumerates, writes, in, use := false, false, false, false
		pos := c.Pos(fn.Pos())
		var scan func(f *ssa.Function)
		scan = func(f *ssa.Function) {
			for _, b := range f.Blocks {
				for _, ins := range b.Instrs {
					if call, ok := ins.(*ssa.Call); ok {
						if callee := call.Call.StaticCallee(); callee != nil {
							if callee == each {
								enumerates = true
							}
							if callee.Name() == "Append" && callee.Pkg != nil && core.RelPkg(callee.Pkg.Pkg.Path()) == "pp" {
								writes = true
							}
						}
					}
					for _, op := range ins.Operands(nil) {
						if k, ok := (*op).(*ssa.Const); ok && k.Value != nil && core.IsNamed(k.Type(), core.SlipPath, "Symbol") {
							switch constString(k) {
							case "in-package":
								in = true
							case "use-package":
								use = true
								pos = c.Pos(ins.Pos())
							}
						}
					}
				}
			}
			for _, af := range f.AnonFuncs {
				scan(af)
			}
		}
		scan(fn)
		if !enumerates || !writes {
			continue
		}
		r.Decide(in && !use, rule, core.SSAName(fn), pos, "writes the functions of each package; in-package built: "+boolStr(in)+", use-package built: "+boolStr(use))
	}
}

func constString(k *ssa.Const) string {
	if k.Value == nil || k.Value.Kind() != constant.String {
		return ""
	}
	return constant.StringVal(k.Value)
}

// c19spectype: the load forms of generic functions and methods write a specialised parameter as (name type). An
// unspecialised parameter has the empty string as DocArg.Type; converted to a Symbol and written it is ||, and
// (b ||) is rejected by defgeneric on reload (4e97747). The rule: a load of DocArg.Type is converted to a Symbol
// only where a test of len(<same arg>.Type) against zero holds with the non-empty outcome.
func c19spectype(c *core.Ctx, r *core.Reporter) {
	const rule = "C19.spectype"
	r.Rule(rule, "a parameter's type specialiser (DocArg.Type) becomes a Symbol of a written form only where the type was tested non-empty", 2)
	symT := c.LookupType("", "Symbol")
	if symT == nil {
		r.Undecided(rule, "slip.Symbol", "-", "anchor does not resolve")
		return
	}
	typeLoad := func(v ssa.Value) (ssa.Value, bool) {
		u, ok := v.(*ssa.UnOp)
		if !ok {
			return nil, false
		}
		fa, ok := u.X.(*ssa.FieldAddr)
		if !ok {
			return nil, false
		}
		if owner, field := fieldOwnerName(fa); owner != "DocArg" || field != "Type" {
			return nil, false
		}
		return fa.X, true
	}
	for _, fn := range c.ModuleFuncs() {
		if fn.Blocks == nil || takesTestingT(fn) {
			continue
		}
		var g *core.Guards
		n := 0
		for _, b := range fn.Blocks {
			for _, in := range b.Instrs {
				ct, ok := in.(*ssa.ChangeType)
				if !ok {
					continue
				}
				if nt, isN := types.Unalias(ct.Type()).(*types.Named); !isN || nt.Obj() != symT.Obj() {
					continue
				}
				base, ok := typeLoad(ct.X)
				if !ok {
					continue
				}
				if g == nil {
					g = core.ComputeGuards(fn, func(*ssa.Function) bool { return false })
				}
				nonEmpty := false
				for f := range g.Facts(b) {
					bo, isBo := f.If.Cond.(*ssa.BinOp)
					if !isBo {
						continue
					}
					// len(x.Type) OP 0 / 0 OP len(x.Type) / x.Type != ""
					for side, opnd := range []ssa.Value{bo.X, bo.Y} {
						other := bo.Y
						if side == 1 {
							other = bo.X
						}
						k, isK := other.(*ssa.Const)
						if !isK || k.Value == nil {
							continue
						}
						var tested ssa.Value
						isLen := false
						if call, isCall := opnd.(*ssa.Call); isCall {
							if bi, isBi := call.Call.Value.(*ssa.Builtin); isBi && bi.Name() == "len" && len(call.Call.Args) == 1 {
								tested, isLen = call.Call.Args[0], true
							}
						} else {
							tested = opnd
						}
						tb, isT := typeLoad(tested)
						if !isT || tb != base {
							continue
						}
						op := bo.Op
						if side == 1 {
							op = mirrorOp(op)
						}
						// outcome that means non-empty
						switch {
						case isLen && k.Int64() == 0 && (op == token.GTR || op == token.NEQ) && f.Branch,
							isLen && k.Int64() == 0 && (op == token.EQL || op == token.LEQ) && !f.Branch,
							isLen && k.Int64() == 1 && op == token.GEQ && f.Branch,
							isLen && k.Int64() == 1 && op == token.LSS && !f.Branch,
							!isLen && constString(k) == "" && k.Value.Kind() == constant.String && op == token.NEQ && f.Branch,
							!isLen && constString(k) == "" && k.Value.Kind() == constant.String && op == token.EQL && !f.Branch:
							nonEmpty = true
						}
					}
				}
				n++
				key := core.SSAName(fn)
				if n > 1 {
					key += "#" + string(rune('0'+n))
				}
				r.Decide(nonEmpty, rule, key, c.Pos(ct.Pos()), "DocArg.Type converted to a Symbol; tested non-empty on every path: "+boolStr(nonEmpty))
			}
		}
	}
}

// c19docescape: documentation strings of defun, defmacro, defvar, defclass and method forms are written by package
// pp through slip.AppendDoc, which wraps the text but knows nothing of string syntax; the quotes around it are
// added by the caller. A docstring holding a quote or a backslash was written unescaped and the saved form could
// not be read (da0d68f). The rule: in package pp the text handed to slip.AppendDoc is the result of an escaping
// call ((*strings.Replacer).Replace), never the stored text itself.
func c19docescape(c *core.Ctx, r *core.Reporter) {
	const rule = "C19.docescape"
	r.Rule(rule, "in the code writer the text given to slip.AppendDoc between quotes is the result of an escaping call, not the raw documentation text", 1)
	ad := c.SSAFunc(c.LookupFunc("", "AppendDoc"))
	if ad == nil {
		r.Undecided(rule, "slip.AppendDoc", "-", "anchor does not resolve")
		return
	}
	for _, fn := range c.ModuleFuncs() {
		if fn.Blocks == nil || fn.Pkg == nil || core.RelPkg(fn.Pkg.Pkg.Path()) != "pp" || takesTestingT(fn) {
			continue
		}
		n := 0
		for _, b := range fn.Blocks {
			for _, in := range b.Instrs {
				call, ok := in.(*ssa.Call)
				if !ok || call.Call.StaticCallee() != ad || len(call.Call.Args) < 2 {
					continue
				}
				escaped := false
				if ec, isCall := call.Call.Args[1].(*ssa.Call); isCall {
					if callee := ec.Call.StaticCallee(); callee != nil && callee.Name() == "Replace" && callee.Pkg != nil && callee.Pkg.Pkg.Path() == "strings" {
						escaped = true
					}
				}
				n++
				key := core.SSAName(fn)
				if n > 1 {
					key += "#" + string(rune('0'+n))
				}
				r.Decide(escaped, rule, key, c.Pos(call.Pos()), "documentation text written between quotes; escaped first: "+boolStr(escaped))
			}
		}
	}
}

// c19valueform: defflavor evaluates the default of an instance variable and the flavor keeps the value. Its load
// form is read and evaluated again, so a value that does not evaluate to itself (a symbol, a list) must be written
// quoted: (defflavor f ((y 'sym) (w (list 1 2))) ()) was saved as ((w (1 2)) (y sym)) (f101459). The rule: in the
// LoadForm methods of pkg/flavors a value looked up in Flavor.defaultVars reaches the form only as the argument of a
// call (the quoting helper), never by being stored into the list under construction.
func c19valueform(c *core.Ctx, r *core.Reporter) {
	const rule = "C19.valueform"
	r.Rule(rule, "the stored default value of a flavor's instance variable enters the load form through the quoting helper, not as it is", 1)
	for _, fn := range c.ModuleFuncs() {
		if fn.Blocks == nil || fn.Pkg == nil || core.RelPkg(fn.Pkg.Pkg.Path()) != "pkg/flavors" || fn.Name() != "LoadForm" || takesTestingT(fn) {
			continue
		}
		n := 0
		for _, b := range fn.Blocks {
			for _, in := range b.Instrs {
				lk, ok := in.(*ssa.Lookup)
				if !ok {
					continue
				}
				ld, ok := lk.X.(*ssa.UnOp)
				if !ok {
					continue
				}
				fa, ok := ld.X.(*ssa.FieldAddr)
				if !ok {
					continue
				}
				if _, field := fieldOwnerNameAny(fa); field != "defaultVars" {
					continue
				}
				// where does the value go
				vals := []ssa.Value{lk}
				if lk.CommaOk {
					vals = nil
					for _, rf := range *lk.Referrers() {
						if ex, isEx := rf.(*ssa.Extract); isEx && ex.Index == 0 {
							vals = append(vals, ex)
						}
					}
				}
				stored, called := false, false
				for _, v := range vals {
					if v.Referrers() == nil {
						continue
					}
					for _, rf := range *v.Referrers() {
						switch x := rf.(type) {
						case *ssa.Store:
							if x.Val == v {
								stored = true
							}
						case *ssa.Call:
							if x.Call.StaticCallee() != nil {
								called = true
							}
						}
					}
				}
				if !stored && !called {
					continue // only tested (nil check, presence)
				}
				n++
				key := core.SSAName(fn)
				if n > 1 {
					key += "#" + string(rune('0'+n))
				}
				r.Decide(!stored, rule, key, c.Pos(lk.Pos()), "default value read for the load form; stored into the form as it is: "+boolStr(stored))
			}
		}
	}
}

// c19headidentity: when may a call be written with the bare name? Only when reading the bare name back in the
// current package finds the very function being called. In slip.FuncPrintName every return of the bare name
// (the value of Funky.GetName as it is) is reached only through one of these outcomes: the function has no
// package; its package is the current one (comparison of two packages); the home package has no entry of
// that name; the entry the current package resolves the name to IS the entry of the function (comparison of
// two *FuncInfo values, neither a constant). That the current package merely has *some* function of that name
// is not among them: (pa::helper x) written from a package with its own helper must stay qualified.
func c19headidentity(c *core.Ctx, r *core.Reporter) {
	const rule = "C19.headidentity"
	r.Rule(rule, "slip.FuncPrintName returns the bare name only where the function has no package, its package is the current package, its home package has no such entry, or the entry the name resolves to in the current package is identical (pointer comparison of two FuncInfo values) to the function's own entry", 1)
	fpn := c.LookupFunc("", "FuncPrintName")
	if fpn == nil {
		r.Undecided(rule, "slip.FuncPrintName", "-", "anchor does not resolve")
		return
	}
	fn := c.SSAFunc(fpn)
	an := lenflow.New(c)
	var name ssa.Value
	for _, b := range fn.Blocks {
		for _, in := range b.Instrs {
			if call, ok := in.(*ssa.Call); ok && call.Call.IsInvoke() && call.Call.Method.Name() == "GetName" {
				name = call
			}
		}
	}
	if name == nil {
		r.Undecided(rule, "slip.FuncPrintName", c.Pos(fn.Pos()), "the bare name (Funky.GetName) is not read")
		return
	}
	isPtrTo := func(t types.Type, n string) bool {
		pt, ok := t.Underlying().(*types.Pointer)
		return ok && core.IsNamed(pt.Elem(), core.SlipPath, n)
	}
	isNilC := func(v ssa.Value) bool {
		k, ok := v.(*ssa.Const)
		return ok && k.IsNil()
	}
	accept := func(ifi *ssa.If, br bool) bool {
		bo, ok := ifi.Cond.(*ssa.BinOp)
		if !ok || (bo.Op != token.EQL && bo.Op != token.NEQ) {
			return false
		}
		if (bo.Op == token.EQL) != br {
			return false // need the "equal" outcome
		}
		x, y := bo.X, bo.Y
		switch {
		case isPtrTo(x.Type(), "Package") || isPtrTo(y.Type(), "Package"):
			return true // no package, or the current package
		case isPtrTo(x.Type(), "FuncInfo") || isPtrTo(y.Type(), "FuncInfo"):
			if isNilC(x) || isNilC(y) {
				// "no entry": only for the lookup in the function's own package, i.e. a GetFunc whose
				// receiver is not the current package
				v := x
				if isNilC(x) {
					v = y
				}
				if call, ok := v.(*ssa.Call); ok && len(call.Call.Args) > 0 {
					if u, ok := call.Call.Args[0].(*ssa.UnOp); ok {
						if gl, ok := u.X.(*ssa.Global); ok && gl.Name() == "CurrentPackage" {
							return false
						}
					}
				}
				return true
			}
			return true // identity of two entries
		}
		return false
	}
	n := 0
	for _, b := range fn.Blocks {
		ret, ok := b.Instrs[len(b.Instrs)-1].(*ssa.Return)
		if !ok || len(ret.Results) != 1 {
			continue
		}
		// which predecessors deliver the bare name?
		var blocks []*ssa.BasicBlock
		if ret.Results[0] == name {
			blocks = []*ssa.BasicBlock{b}
		} else if phi, ok := ret.Results[0].(*ssa.Phi); ok {
			for i, e := range phi.Edges {
				if e == name {
					blocks = append(blocks, phi.Block().Preds[i])
				}
			}
		}
		for _, blk := range blocks {
			n++
			ok2 := core.Separates(fn, blk, an.NoReturn, accept)
			// the edge into the return block itself may be the accepting one
			if !ok2 && blk != b {
				if ifi, isIf := blk.Instrs[len(blk.Instrs)-1].(*ssa.If); isIf && blk.Succs[0] != blk.Succs[1] {
					if accept(ifi, blk.Succs[0] == b) {
						// every path to blk must then be fine up to this edge: accept
						ok2 = true
					}
				}
			}
			r.Decide(ok2, rule, fmt.Sprintf("slip.FuncPrintName|bare name return %d", n), c.Pos(ret.Pos()), fmt.Sprintf("reached only through: no package / current package / no entry at home / identical entry: %v", ok2))
		}
	}
	if n == 0 {
		r.Undecided(rule, "slip.FuncPrintName", c.Pos(fn.Pos()), "no return of the bare name found")
	}
}
