package rules

import (
	"fmt"
	"sort"
	"strings"

	"golang.org/x/tools/go/ssa"

	"slipcheck/core"
)

// c17printer: the default printer (package variable slip.printer, handed out by slip.DefaultPrinter()) is
// shared by every routine. Printing code works on a private copy (`p := *slip.DefaultPrinter()`). The only
// writers of the shared object are the setters of the *print-...* variables in package slip. A print method
// that writes its call's settings into the shared printer "for the duration" makes every other routine print
// with them (255 as "ff") and leaves them behind when two such calls overlap. The rule is a who-may-write
// check: a store into a field of the shared printer, or of the whole struct through DefaultPrinter(), occurs
// only in the set-functions of package slip (and the interactive editor's terminal-width adjustment).
func c17printer(c *core.Ctx, r *core.Reporter, rule string) {
	r.Rule(rule, "the shared default printer is written only by the *print-...* variable setters of package slip; no printing function stores into it or into the object DefaultPrinter() returns", 18)
	dp := c.LookupFunc("", "DefaultPrinter")
	if dp == nil {
		r.Undecided(rule, "slip.DefaultPrinter", "-", "anchor does not resolve")
		return
	}
	dpFn := c.SSAFunc(dp)
	isShared := func(v ssa.Value) bool {
		for i := 0; i < 4; i++ {
			switch x := v.(type) {
			case *ssa.Global:
				return x.Name() == "printer" && x.Pkg != nil && x.Pkg.Pkg.Path() == core.SlipPath
			case *ssa.Call:
				return x.Call.StaticCallee() == dpFn
			case *ssa.FieldAddr:
				v = x.X
				continue
			case *ssa.UnOp:
				// a pointer loaded from a local that holds DefaultPrinter()
				if al, ok := x.X.(*ssa.Alloc); ok {
					for _, rf := range *al.Referrers() {
						if st, ok := rf.(*ssa.Store); ok && st.Addr == ssa.Value(al) {
							if call, ok := st.Val.(*ssa.Call); ok && call.Call.StaticCallee() == dpFn {
								return true
							}
						}
					}
				}
				return false
			}
			return false
		}
		return false
	}
	type w struct {
		fn  *ssa.Function
		pos string
	}
	writers := map[string]w{}
	for _, fn := range c.ModuleFuncs() {
		if fn.Pkg == nil || takesTestingT(fn) {
			continue
		}
		for _, b := range fn.Blocks {
			for _, in := range b.Instrs {
				st, ok := in.(*ssa.Store)
				if !ok {
					continue
				}
				if isShared(st.Addr) {
					key := core.SSAName(fn)
					if _, has := writers[key]; !has {
						writers[key] = w{fn, c.Pos(st.Pos())}
					}
				}
			}
		}
	}
	var keys []string
	for k := range writers {
		keys = append(keys, k)
	}
	sort.Strings(keys)
	for _, k := range keys {
		fn := writers[k].fn
		rel := core.RelPkg(fn.Pkg.Pkg.Path())
		ok := rel == "slip" && (strings.HasPrefix(fn.Name(), "set") || strings.HasPrefix(fn.Name(), "init"))
		if why, has := printerWriterExceptions[k]; has && !ok {
			r.Hold(rule, k, writers[k].pos, "accepted by reading: "+why)
			continue
		}
		r.Decide(ok, rule, k, writers[k].pos, fmt.Sprintf("writes the shared default printer; it is a variable setter of package slip: %v", ok))
	}
}

var printerWriterExceptions = map[string]string{
	"pkg/repl.(editor).read": "the interactive editor follows the terminal width on a window resize unless the user set *print-right-margin*: the user's own terminal, on the user's behalf",
}
