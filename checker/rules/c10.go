package rules

import (
	"fmt"
	"go/constant"
	"go/token"
	"go/types"

	"golang.org/x/tools/go/ssa"

	"slipcheck/core"
)

const genericPath = core.SlipPath + "/pkg/generic"

func init() {
	register(&Prop{
		ID:        "C10",
		Technique: "SSA must-pass-through on every writer of the generic-function method table (cache flush and fast-path recomputation before the critical section ends) + lock-set guarded-by analysis of the Aux fields",
		Explanation: "The effective-method cache and the single-method fast path are functions of the method table. Decided statically: (C10.inval) every instruction that writes the method table of a generic function (map store/delete on Aux.methods, stores to the daemon fields or the combination list of a method taken from it) is followed on every path to the function's return by a flush of the whole cache (a fresh map or clear) and by the recomputation of the fast-path caller; " +
			"(C10.guard) every access to Aux.cache, Aux.methods and Aux.defaultCaller happens with Aux.moo of the same object held. A writer that skips the flush provably leaves a stale effective method for some argument classes after defmethod/remove-method. The applicable-method order itself is not decided.",
		NotCovered: "the applicable-method order (class precedence walk, call-next-method chain); schedules are covered only as lock discipline",
		Trusted:    commonTrusted,
		Run:        runC10,
	})
}

func runC10(c *core.Ctx, r *core.Reporter) {
	c.BuildSSA()
	c10inval(c, r)
	c10guard(c, r)
	// call-next-method and next-method-p walk the :around methods through the same location objects as whoppers
	c11walk(c, r, "C10.walk")
	c10shadow(c, r, "C10.shadow")
	c10wrapscope(c, r, "C10.wrapscope")
	c10nilprec(c, r, "C10.nilprec")
	pkgNoState(c, r, "C10.nostate", "the Call of every built-in of pkg/generic and pkg/clos stores nothing into its own function object: the call site of (call-next-method) is shared by every effective method that contains the method it stands in, so a remembered location or method list belongs to whichever argument classes came first", 25, "pkg/generic", "pkg/clos")
}

// fromMethodsLookup: v derives from a lookup in Aux.methods.
func fromMethodsLookup(v ssa.Value, depth int) bool {
	if depth > 8 || v == nil {
		return false
	}
	switch x := v.(type) {
	case *ssa.Lookup:
		return loadsField(x.X, genericPath, "Aux", "methods")
	case *ssa.Extract:
		return fromMethodsLookup(x.Tuple, depth+1)
	case *ssa.Phi:
		for _, e := range x.Edges {
			if fromMethodsLookup(e, depth+1) {
				return true
			}
		}
	case *ssa.UnOp:
		switch a := x.X.(type) {
		case *ssa.FieldAddr:
			return fromMethodsLookup(a.X, depth+1)
		case *ssa.IndexAddr:
			return fromMethodsLookup(a.X, depth+1)
		case *ssa.Alloc:
			for _, rf := range *a.Referrers() {
				if st, ok := rf.(*ssa.Store); ok && st.Addr == a && fromMethodsLookup(st.Val, depth+1) {
					return true
				}
			}
		}
	case *ssa.FieldAddr:
		return fromMethodsLookup(x.X, depth+1)
	case *ssa.IndexAddr:
		return fromMethodsLookup(x.X, depth+1)
	case *ssa.Slice:
		return fromMethodsLookup(x.X, depth+1)
	case *ssa.Next:
		if rg, ok := x.Iter.(*ssa.Range); ok {
			return loadsField(rg.X, genericPath, "Aux", "methods")
		}
	}
	return false
}

func isTableWriter(in ssa.Instruction) (bool, string) {
	switch x := in.(type) {
	case *ssa.MapUpdate:
		if loadsField(x.Map, genericPath, "Aux", "methods") {
			return true, "methods[k] = m"
		}
	case *ssa.Call:
		if bi, ok := x.Call.Value.(*ssa.Builtin); ok && bi.Name() == "delete" && len(x.Call.Args) == 2 && loadsField(x.Call.Args[0], genericPath, "Aux", "methods") {
			return true, "delete(methods, k)"
		}
	case *ssa.Store:
		fa, ok := x.Addr.(*ssa.FieldAddr)
		if !ok {
			return false, ""
		}
		fn := fieldName(fa)
		// the whole table replaced on an Aux that already exists (not the one being constructed here)
		if isFieldOf(fa, genericPath, "Aux", "methods") {
			if _, fresh := fa.X.(*ssa.Alloc); !fresh {
				return true, "methods = ..."
			}
		}
		if (isFieldOf(fa, core.SlipPath, "Combination", "Primary") || isFieldOf(fa, core.SlipPath, "Combination", "Before") ||
			isFieldOf(fa, core.SlipPath, "Combination", "After") || isFieldOf(fa, core.SlipPath, "Combination", "Wrap") ||
			isFieldOf(fa, core.SlipPath, "Method", "Combinations")) && fromMethodsLookup(fa.X, 0) {
			return true, "method." + fn + " = ..."
		}
	}
	return false, ""
}

func c10inval(c *core.Ctx, r *core.Reporter) {
	const rule = "C10.inval"
	r.Rule(rule, "every write to a generic function's method table (Aux.methods map store/delete; daemon fields or Combinations of a method looked up in it) is followed, on every path to the return of the function, by a flush of the whole cache (fresh map stored to Aux.cache, possibly under `if 0 < len(cache)`, or clear) and by the recomputation of Aux.defaultCaller", 5)
	// functions that (re)compute the fast path: store to Aux.defaultCaller
	recompute := map[*ssa.Function]bool{}
	for _, fn := range c.ModuleFuncs() {
		for _, b := range fn.Blocks {
			for _, in := range b.Instrs {
				if st, ok := in.(*ssa.Store); ok {
					if fa, ok := st.Addr.(*ssa.FieldAddr); ok && isFieldOf(fa, genericPath, "Aux", "defaultCaller") {
						recompute[fn] = true
					}
				}
			}
		}
	}
	nWriters := 0
	for _, fn := range c.ModuleFuncs() {
		if recompute[fn] && fn.Name() == "updateDefaultCaller" {
			// the recomputation itself
		}
		// classify blocks
		flush := map[*ssa.BasicBlock]int{} // index of the flushing instruction in the block (or len for If-guard blocks)
		recomp := map[*ssa.BasicBlock]int{}
		for _, b := range fn.Blocks {
			for i, in := range b.Instrs {
				switch x := in.(type) {
				case *ssa.Store:
					if fa, ok := x.Addr.(*ssa.FieldAddr); ok && isFieldOf(fa, genericPath, "Aux", "cache") {
						if _, ok := x.Val.(*ssa.MakeMap); ok {
							if _, has := flush[b]; !has {
								flush[b] = i
							}
						}
					}
					if fa, ok := x.Addr.(*ssa.FieldAddr); ok && isFieldOf(fa, genericPath, "Aux", "defaultCaller") && !recompute[fn] {
						recomp[b] = i
					}
				case *ssa.Call:
					if bi, ok := x.Call.Value.(*ssa.Builtin); ok && bi.Name() == "clear" && len(x.Call.Args) == 1 && loadsField(x.Call.Args[0], genericPath, "Aux", "cache") {
						if _, has := flush[b]; !has {
							flush[b] = i
						}
					}
					if g := x.Call.StaticCallee(); g != nil && recompute[g] {
						if _, has := recomp[b]; !has {
							recomp[b] = i
						}
					}
				}
			}
		}
		// `if 0 < len(aux.cache) { aux.cache = fresh }`: the guard block counts as the flush
		for _, b := range fn.Blocks {
			ifi, ok := b.Instrs[len(b.Instrs)-1].(*ssa.If)
			if !ok {
				continue
			}
			bo, ok := ifi.Cond.(*ssa.BinOp)
			if !ok {
				continue
			}
			isLenCache := func(v ssa.Value) bool {
				call, ok := v.(*ssa.Call)
				if !ok {
					return false
				}
				bi, ok := call.Call.Value.(*ssa.Builtin)
				return ok && bi.Name() == "len" && loadsField(call.Call.Args[0], genericPath, "Aux", "cache")
			}
			zero := func(v ssa.Value) bool {
				k, ok := v.(*ssa.Const)
				if !ok || k.Value == nil || k.Value.Kind() != constant.Int {
					return false
				}
				n, exact := constant.Int64Val(k.Value)
				return exact && n == 0
			}
			nonEmptyBranch := -1
			switch {
			case bo.Op == token.LSS && zero(bo.X) && isLenCache(bo.Y), bo.Op == token.GTR && isLenCache(bo.X) && zero(bo.Y), bo.Op == token.NEQ && (isLenCache(bo.X) && zero(bo.Y) || zero(bo.X) && isLenCache(bo.Y)):
				nonEmptyBranch = 0
			case bo.Op == token.EQL && (isLenCache(bo.X) && zero(bo.Y) || zero(bo.X) && isLenCache(bo.Y)):
				nonEmptyBranch = 1
			}
			if nonEmptyBranch >= 0 {
				if _, ok := flush[b.Succs[nonEmptyBranch]]; ok {
					if _, has := flush[b]; !has {
						flush[b] = len(b.Instrs) - 1
					}
				}
			}
		}
		for _, b := range fn.Blocks {
			for i, in := range b.Instrs {
				w, what := isTableWriter(in)
				if !w {
					continue
				}
				// construction of a new Aux is not a write to a published table
				nWriters++
				missF := escapes(b, i, flush)
				missR := escapes(b, i, recomp)
				key := fmt.Sprintf("%s|%s", core.SSAName(fn), what)
				r.Decide(!missF, rule, key+"|cache flushed", c.Pos(in.Pos()), fmt.Sprintf("every path from this write to a return flushes the whole cache: %v", !missF))
				r.Decide(!missR, rule, key+"|fast path recomputed", c.Pos(in.Pos()), fmt.Sprintf("every path from this write to a return recomputes Aux.defaultCaller: %v", !missR))
			}
		}
	}
	r.Count("inval.table_writers", nWriters)
}

// escapes: some path from instruction i of block b reaches a Return without
// passing an instruction marked in pass (block -> instruction index).
func escapes(b *ssa.BasicBlock, i int, pass map[*ssa.BasicBlock]int) bool {
	if idx, ok := pass[b]; ok && idx > i {
		return false
	}
	if _, ok := b.Instrs[len(b.Instrs)-1].(*ssa.Return); ok {
		return true
	}
	seen := map[*ssa.BasicBlock]bool{}
	stack := append([]*ssa.BasicBlock{}, b.Succs...)
	for len(stack) > 0 {
		x := stack[len(stack)-1]
		stack = stack[:len(stack)-1]
		if seen[x] {
			continue
		}
		seen[x] = true
		if _, ok := pass[x]; ok {
			continue
		}
		if _, ok := x.Instrs[len(x.Instrs)-1].(*ssa.Return); ok {
			return true
		}
		stack = append(stack, x.Succs...)
	}
	return false
}

var _ = types.Typ

func c10guard(c *core.Ctx, r *core.Reporter) {
	// implemented with the lock-set engine (c17.go)
	guardedBy(c, r, "C10.guard", genericPath, "Aux", []string{"cache", "methods", "defaultCaller"}, "moo",
		"every read or write of Aux.cache, Aux.methods and Aux.defaultCaller happens with Aux.moo of the same Aux value held (lock-set dataflow; construction of a not yet published Aux is exempt)", 8)
}
