package rules

import (
	"fmt"
	"go/types"
	"sort"
	"strings"

	"golang.org/x/tools/go/ssa"

	"slipcheck/core"
	"slipcheck/lenflow"
	"slipcheck/own"
)

func init() {
	register(&Prop{
		ID:        "C06",
		Technique: "interprocedural origin (ownership) analysis on SSA: every write into an Object list (append base, element store, copy destination, in-place sort) must hit a list allocated in the activation unless the built-in is documented as destructive; detection of in-place inserts that read what they overwrote",
		Explanation: "Lists are Go slices, so value semantics holds only if non-destructive functions never write into a list they were given. Decided: (C06.own) in every registered built-in's Call method and its helpers, each write into a list of Objects - the first argument of append (which writes into spare capacity), an element store, the destination of copy, an in-place sort - targets a list allocated in the current activation, or the built-in is one whose documentation says it is destructive; " +
			"(C06.insert) no nested append inserts in place by reading the suffix it has just overwritten. A violation is exactly 'modifying or extending one list changes another list'. Aliasing through spare capacity between results of different calls on fresh lists, and returning argument tails, are not decided.",
		NotCovered: "aliasing through spare capacity of fresh slices between results of different calls (needs capacity reasoning); which results may legitimately share tails (C06.result of DESIGN is not armed)",
		Trusted:    commonTrusted,
		Run:        runC06,
	})
}

func isObjList(t types.Type) bool {
	return isObjectSlice(t)
}

// listSink: writes into an Object list.
func listSink(in ssa.Instruction) []ssa.Value {
	switch x := in.(type) {
	case *ssa.Call:
		if bi, ok := x.Call.Value.(*ssa.Builtin); ok {
			switch bi.Name() {
			case "append":
				if len(x.Call.Args) == 2 && isObjList(x.Call.Args[0].Type()) {
					// appending nothing writes nothing; the written region is beyond len(base): harmful when base has spare capacity that another list shares
					return []ssa.Value{x.Call.Args[0]}
				}
			case "copy":
				if len(x.Call.Args) == 2 && isObjList(x.Call.Args[0].Type()) {
					return []ssa.Value{x.Call.Args[0]}
				}
			}
			return nil
		}
		if g := x.Call.StaticCallee(); g != nil && g.Pkg != nil {
			pp := g.Pkg.Pkg.Path()
			if (pp == "sort" && (g.Name() == "Slice" || g.Name() == "SliceStable" || g.Name() == "Sort" || g.Name() == "Stable")) || (pp == "slices" && strings.HasPrefix(g.Name(), "Sort")) || (pp == "slices" && g.Name() == "Reverse") {
				if len(x.Call.Args) > 0 {
					a := x.Call.Args[0]
					if mi, ok := a.(*ssa.MakeInterface); ok {
						a = mi.X
					}
					if isObjList(a.Type()) {
						return []ssa.Value{a}
					}
				}
			}
		}
	case *ssa.Store:
		if ia, ok := x.Addr.(*ssa.IndexAddr); ok && isObjList(ia.X.Type()) {
			return []ssa.Value{ia.X}
		}
	}
	return nil
}

func sinkKind(in ssa.Instruction) string {
	switch x := in.(type) {
	case *ssa.Call:
		if bi, ok := x.Call.Value.(*ssa.Builtin); ok {
			return bi.Name()
		}
		if g := x.Call.StaticCallee(); g != nil {
			return g.Pkg.Pkg.Name() + "." + g.Name()
		}
	case *ssa.Store:
		return "store"
	}
	return "write"
}

// destructiveDoc: the built-in's documentation or CL name says it may modify its argument.
func destructiveDoc(b *core.Builtin) bool {
	n := strings.ToLower(b.Name)
	t := strings.ToLower(b.DocText)
	if strings.Contains(t, "destructive") || strings.Contains(t, "modif") || strings.Contains(t, "in place") || strings.Contains(t, "in-place") || strings.Contains(t, "altered") || strings.Contains(t, "replaces") {
		return true
	}
	for _, p := range []string{"add", "delete", "nconc", "nreverse", "nsubst", "nsubstitute", "nunion", "nintersection", "nset-", "nstring", "nbutlast", "rplac", "sort", "stable-sort", "fill", "replace", "setf", "push", "pop", "incf", "decf", "psetf", "shiftf", "rotatef", "remf", "remprop", "map-into", "vector-push", "setq", "psetq", "pushnew", "mapcan", "mapcon", "merge", "revappend", "nreconc", "adjust-array", "read-sequence"} {
		if strings.HasPrefix(n, p) {
			return true
		}
	}
	return false
}

// rebindsOnly: the built-in gives its place a new value and has no licence to change the old value's cells.
func rebindsOnly(b *core.Builtin) bool {
	n := strings.ToLower(b.Name)
	for _, p := range []string{"pop", "push", "pushnew", "incf", "decf", "setq", "psetq"} {
		if n == p {
			return true
		}
	}
	return false
}

func runC06(c *core.Ctx, r *core.Reporter) {
	c.BuildSSA()
	c06place(c, r)
	c.BuildSSA()
	c06own(c, r)
	c06insert(c, r)
	c06result(c, r)
	c06argbuf(c, r)
	c06vecshare(c, r)
}

// alwaysFresh: sequence functions that Common Lisp defines as always returning a newly allocated sequence.
var alwaysFresh = []string{"reverse", "copy-list", "copy-seq", "copy-alist", "copy-tree", "subseq", "concatenate", "mapcar", "maplist", "butlast", "remove-duplicates",
	// the property asks for a result independent of the argument also where the language would let it share
	"remove", "remove-if", "remove-if-not", "substitute", "substitute-if", "substitute-if-not"}

// c06result: the result of an always-fresh function is never the argument object itself.
func c06result(c *core.Ctx, r *core.Reporter) {
	const rule = "C06.result"
	r.Rule(rule, "the functions that always return a newly allocated sequence (reverse, copy-list, copy-seq, copy-alist, copy-tree, subseq, concatenate, mapcar, maplist, butlast, remove-duplicates, and the remove and substitute families) never return one of their arguments itself: every returned list derives from an allocation in the activation, not from an element of the argument list (a one-element or empty argument handed back as is shares storage with the caller's list)", 6)
	an := own.New(c, listSink)
	for _, name := range alwaysFresh {
		b := c.ByName("pkg/cl", name)
		if b == nil || b.Call == nil {
			continue
		}
		fn := c.SSAFunc(b.Call)
		if fn == nil {
			continue
		}
		sum := an.Summary(fn)
		if sum == nil || len(sum.Ret) == 0 {
			continue
		}
		ret := sum.Ret[0]
		ep := ret.ElemParams()
		// only list-typed results matter: find whether a returned value of list type is the argument
		bad := len(ep) > 0 && returnsArgList(an, fn)
		r.Decide(!bad, rule, "pkg/cl:"+name, c.Pos(fn.Pos()), fmt.Sprintf("result origins: %s; an argument list can be returned as is: %v", ret.String(), bad))
	}
}

func containsFresh(os own.OSet) bool {
	return strings.Contains(os.String(), "fresh")
}

// returnsArgList: some returned value is (a type assertion or conversion of) an element of the argument
// list, of list type, without passing through an allocation.
func returnsArgList(an *own.Analyzer, fn *ssa.Function) bool {
	var argsP *ssa.Parameter
	for _, p := range fn.Params {
		if isObjectSlice(p.Type()) {
			argsP = p
		}
	}
	seen := map[ssa.Value]bool{}
	var isArg func(v ssa.Value, d int) bool
	isArg = func(v ssa.Value, d int) bool {
		if v == nil || seen[v] || d > 8 {
			return false
		}
		seen[v] = true
		switch x := v.(type) {
		case *ssa.UnOp:
			if ia, ok := x.X.(*ssa.IndexAddr); ok && ia.X == ssa.Value(argsP) {
				return true
			}
			if al, ok := x.X.(*ssa.Alloc); ok {
				for _, rf := range *al.Referrers() {
					if st, ok := rf.(*ssa.Store); ok && st.Addr == ssa.Value(al) && isArg(st.Val, d+1) {
						return true
					}
				}
			}
		case *ssa.Phi:
			for _, e := range x.Edges {
				if isArg(e, d+1) {
					return true
				}
			}
		case *ssa.MakeInterface:
			return isArg(x.X, d+1)
		case *ssa.ChangeInterface:
			return isArg(x.X, d+1)
		case *ssa.TypeAssert:
			return isArg(x.X, d+1)
		case *ssa.Extract:
			if call, ok := x.Tuple.(*ssa.Call); ok {
				if g := call.Call.StaticCallee(); g != nil && g.Pkg != nil && core.InModule(g.Pkg.Pkg) {
					// a helper that hands one of the arguments back (getArgs returns the sequence argument)
					os := an.Origins(x)
					return len(os.ElemParams()) > 0 && !os.OnlyFresh()
				}
			}
			return isArg(x.Tuple, d+1)
		case *ssa.Call:
			if g := x.Call.StaticCallee(); g != nil && g.Pkg != nil && core.InModule(g.Pkg.Pkg) {
				// a worker that can hand one of its own list parameters back as it is (return seq), called with
				// the argument list in that position
				for _, pi := range paramsReturnedAsIs(g, 0) {
					if pi < len(x.Call.Args) && isArg(x.Call.Args[pi], d+1) {
						return true
					}
				}
				os := an.Origins(x)
				if _, shared := os.HasShared(); !shared && len(os.ElemParams()) > 0 {
					for o := range os {
						_ = o
					}
					return !containsFresh(os)
				}
			}
		case *ssa.Slice:
			// a reslice shares the argument's storage
			return isArg(x.X, d+1)
		case *ssa.ChangeType:
			return isArg(x.X, d+1)
		}
		return false
	}
	for _, b := range fn.Blocks {
		if ret, ok := b.Instrs[len(b.Instrs)-1].(*ssa.Return); ok && len(ret.Results) > 0 {
			if isArg(ret.Results[0], 0) {
				return true
			}
		}
	}
	return false
}

// paramsReturnedAsIs: indexes of the parameters of g that some return statement of g returns unchanged (through
// phis, interface conversions, type changes and reslices), following workers it calls statically.
var paramsReturnedMemo = map[*ssa.Function][]int{}

func paramsReturnedAsIs(g *ssa.Function, depth int) []int {
	if g == nil || g.Blocks == nil || depth > 3 {
		return nil
	}
	if v, ok := paramsReturnedMemo[g]; ok {
		return v
	}
	paramsReturnedMemo[g] = nil
	found := map[int]bool{}
	seen := map[ssa.Value]bool{}
	var walk func(v ssa.Value, d int)
	walk = func(v ssa.Value, d int) {
		if v == nil || seen[v] || d > 8 {
			return
		}
		seen[v] = true
		switch x := v.(type) {
		case *ssa.Parameter:
			for i, p := range g.Params {
				if p == x && (isObjectSlice(p.Type()) || core.IsNamed(p.Type(), core.SlipPath, "List")) {
					found[i] = true
				}
			}
		case *ssa.Phi:
			for _, e := range x.Edges {
				walk(e, d+1)
			}
		case *ssa.MakeInterface:
			walk(x.X, d+1)
		case *ssa.ChangeInterface:
			walk(x.X, d+1)
		case *ssa.ChangeType:
			walk(x.X, d+1)
		case *ssa.Slice:
			walk(x.X, d+1)
		case *ssa.UnOp:
			if al, ok := x.X.(*ssa.Alloc); ok && al.Referrers() != nil {
				for _, rf := range *al.Referrers() {
					if st, ok := rf.(*ssa.Store); ok && st.Addr == ssa.Value(al) {
						walk(st.Val, d+1)
					}
				}
			}
		case *ssa.Call:
			if h := x.Call.StaticCallee(); h != nil && h.Pkg != nil && core.InModule(h.Pkg.Pkg) {
				for _, pi := range paramsReturnedAsIs(h, depth+1) {
					if pi < len(x.Call.Args) {
						walk(x.Call.Args[pi], d+1)
					}
				}
			}
		}
	}
	for _, b := range g.Blocks {
		if ret, ok := b.Instrs[len(b.Instrs)-1].(*ssa.Return); ok {
			for _, rv := range ret.Results {
				walk(rv, 0)
			}
		}
	}
	var out []int
	for i := range g.Params {
		if found[i] {
			out = append(out, i)
		}
	}
	paramsReturnedMemo[g] = out
	return out
}

func c06own(c *core.Ctx, r *core.Reporter) {
	const rule = "C06.own"
	r.Rule(rule, "in the Call method of every registered built-in that is not documented as destructive, and in the helpers it calls statically, the target of every write into an Object list (base of append, element store, destination of copy, in-place sort/reverse) is a list allocated in the current activation: never a list reached through an element of the argument list or loaded from shared storage; only lists that are Lisp objects (obtained by asserting an Object to a list type) are judged", 30)
	an := own.New(c, listSink)
	lf := lenflow.New(c)
	idx := buildCallSites(c)
	// entry points: Call methods of registrations, with their destructive flag
	type entry struct {
		b  *core.Builtin
		fn *ssa.Function
	}
	entries := map[*ssa.Function]*core.Builtin{}
	for _, b := range c.Registry() {
		if b.Call != nil {
			if fn := c.SSAFunc(b.Call); fn != nil {
				if old, ok := entries[fn]; !ok || (destructiveDoc(old) && !destructiveDoc(b)) {
					entries[fn] = b // a Call shared by several names is judged by its least destructive name
				}
			}
		}
	}
	// whoCalls: for a helper, the set of entry points that reach it statically (depth 3)
	reachedFrom := map[*ssa.Function]map[*ssa.Function]bool{}
	var walk func(root, fn *ssa.Function, depth int)
	walk = func(root, fn *ssa.Function, depth int) {
		if depth > 3 || fn == nil || fn.Blocks == nil {
			return
		}
		if reachedFrom[fn] == nil {
			reachedFrom[fn] = map[*ssa.Function]bool{}
		}
		if reachedFrom[fn][root] {
			return
		}
		reachedFrom[fn][root] = true
		for _, b := range fn.Blocks {
			for _, in := range b.Instrs {
				if call, ok := in.(*ssa.Call); ok {
					if g := call.Call.StaticCallee(); g != nil && g.Pkg != nil && core.InModule(g.Pkg.Pkg) {
						walk(root, g, depth+1)
					}
				}
			}
		}
		for _, af := range fn.AnonFuncs {
			walk(root, af, depth)
		}
	}
	for fn := range entries {
		walk(fn, fn, 0)
	}
	var fns []*ssa.Function
	for fn := range reachedFrom {
		fns = append(fns, fn)
	}
	sort.Slice(fns, func(i, j int) bool { return core.SSAName(fns[i]) < core.SSAName(fns[j]) })
	nSinks := 0
	for _, fn := range fns {
		// all roots destructive? then writes are licensed
		allDestr := true
		var nonDestr []string
		for root := range reachedFrom[fn] {
			if !destructiveDoc(entries[root]) {
				allDestr = false
				nonDestr = append(nonDestr, entries[root].Name)
			}
		}
		// the place macros that rebind a place (pop, push, pushnew, incf, decf, setq, psetq) are licensed to give
		// the place a new value, not to write into the cells of the list it held: other places share them
		allRebind := len(reachedFrom[fn]) > 0
		for root := range reachedFrom[fn] {
			if !rebindsOnly(entries[root]) {
				allRebind = false
			}
		}
		sort.Strings(nonDestr)
		if len(nonDestr) > 3 {
			nonDestr = nonDestr[:3]
		}
		for _, b := range fn.Blocks {
			for _, in := range b.Instrs {
				targets := listSink(in)
				if len(targets) == 0 {
					continue
				}
				// only lists that are Lisp objects: obtained by asserting an Object to a list type
				// ... or, in a helper, a list parameter (the callers decide whether what they pass is a Lisp object)
				_, isEntryFn := entries[fn]
				if !fromObjectAssert(targets[0], 0) && (isEntryFn || !fromListParam(targets[0], 0)) {
					continue
				}
				nSinks++
				os := an.Origins(targets[0])
				key := fmt.Sprintf("%s|%s into %s", core.SSAName(fn), sinkKind(in), rootDesc(rootOfList(targets[0])))
				if os.OnlyFresh() {
					r.Hold(rule, key, c.Pos(in.Pos()), "target list allocated in this activation")
					continue
				}
				if allDestr && !(allRebind && sinkKind(in) == "store") {
					r.Hold(rule, key, c.Pos(in.Pos()), "reached only from built-ins documented as destructive")
					continue
				}
				if allDestr && allRebind {
					r.Violate(rule, key, c.Pos(in.Pos()), "a place macro that rebinds its place (pop, push, incf, ...) stores into a cell of the list the place held: every other reference to that list sees the change")
					continue
				}
				if why, ok := ownExceptions[key]; ok {
					usedOwnEx[key] = true
					// an exception that rests on "the argument was copied first" is valid only while that copy exists
					if !needsCopyWitness[key] || copiesArgumentList(an, fn) {
						r.Hold(rule, key, c.Pos(in.Pos()), "accepted by reading: "+why)
						continue
					}
				}
				detail := ""
				bad := false
				if d, ok := os.HasShared(); ok {
					bad = true
					detail = "target may be a list from shared storage (" + d + ")"
				}
				if ep := os.ElemParams(); len(ep) > 0 && !bad {
					// an argument object: fine only in helpers whose callers pass fresh lists
					if _, isEntry := entries[fn]; isEntry {
						bad = true
						detail = fmt.Sprintf("target is a list reached through the argument list (parameter #%v) of a built-in not documented as destructive (%s)", ep, strings.Join(nonDestr, ","))
					} else {
						bad = true
						detail = fmt.Sprintf("target is reached through an element of parameter #%v of a helper of non-destructive built-ins (%s)", ep, strings.Join(nonDestr, ","))
					}
				}
				if dp := os.DirectParams(); len(dp) > 0 && !bad {
					if _, isEntry := entries[fn]; isEntry {
						// the argument slice itself: private to the call
						r.Hold(rule, key, c.Pos(in.Pos()), "target is the call's own argument slice")
						continue
					}
					for _, p := range dp {
						ok, w := checkListParamAtCallers(c, an, lf, idx, entries, fn, p, 0, map[string]bool{})
						if !ok {
							bad = true
							detail = fmt.Sprintf("target is parameter #%d: %s", p, w)
						}
					}
				}
				if bad {
					r.Violate(rule, key, c.Pos(in.Pos()), detail)
				} else {
					r.Hold(rule, key, c.Pos(in.Pos()), "target belongs to a parameter; every static caller passes a list it allocated or its own argument slice")
				}
			}
		}
	}
	r.Count("own.list_write_sites", nSinks)
	var stale []string
	for k := range ownExceptions {
		if !usedOwnEx[k] {
			stale = append(stale, k)
		}
	}
	sort.Strings(stale)
	for _, k := range stale {
		r.Infof("stale exception: %s", k)
	}
}

var usedOwnEx = map[string]bool{}

// needsCopyWitness: exceptions whose reason is "a private copy was made first".
var needsCopyWitness = map[string]bool{
	"pkg/cl.(Append).Call|append into extract#0(assert:slip.List)":   true,
	"pkg/cl.(Append).Call|append into extract#0(assert:slip.List)#2": true,
}

// copiesArgumentList: the function copies a list reached through its arguments into a list it allocated.
func copiesArgumentList(an *own.Analyzer, fn *ssa.Function) bool {
	for _, b := range fn.Blocks {
		for _, in := range b.Instrs {
			call, ok := in.(*ssa.Call)
			if !ok {
				continue
			}
			bi, ok := call.Call.Value.(*ssa.Builtin)
			if !ok || bi.Name() != "copy" || len(call.Call.Args) != 2 {
				continue
			}
			if _, isMake := rootOfList(call.Call.Args[0]).(*ssa.MakeSlice); !isMake {
				continue
			}
			if len(an.Origins(call.Call.Args[1]).ElemParams()) > 0 {
				return true
			}
		}
	}
	return false
}

var ownExceptions = map[string]string{
	"slip.EvalArg|store into param:args":                                 "replaces a form in a code list by its compiled function object (ListToFunc), the code-caching idiom decided by C08.cache, not a write into Lisp data",
	"pkg/cl.(Append).Call|append into extract#0(assert:slip.List)":       "the accumulator reaches this append only as the copy made when the first non-empty list was seen (make+copy a few lines above) or as the result of an earlier append onto that copy; the paths on which the accumulator is an argument itself have len 0 or are not lists and take the other branch (path reasoning beyond the flow-insensitive engine)",
	"pkg/cl.(Append).Call|append into extract#0(assert:slip.List)#2":     "as the first append in Append.Call: the accumulator is the private copy",
	"pkg/gi.(Select).prepClauses|store into extract#0(assert:slip.List)": "replaces the channel form of a select clause by its compiled function object (ListToFunc), the code-caching idiom of C08.cache, not a data write",
	"pkg/repl.(UseStash).Call|append into extract#0(assert:slip.List)":   "appends the default \".\" only when the load-path list is empty; nothing of a non-empty list is written",
	"slip.WrapError|append into phi:stack":                               "extends the condition object's own internal stack slot, which is then stored back into that slot",
	"slip.addFeature|append into assert:slip.List":                       "init-time registration on the *features* constant before any Lisp code runs",
}

// fromObjectAssert: the list value was obtained by a type assertion from an interface value (a Lisp object).
func fromObjectAssert(v ssa.Value, depth int) bool {
	if depth > 8 || v == nil {
		return false
	}
	switch x := v.(type) {
	case *ssa.TypeAssert:
		return true
	case *ssa.Extract:
		_, ok := x.Tuple.(*ssa.TypeAssert)
		return ok
	case *ssa.Slice:
		return fromObjectAssert(x.X, depth+1)
	case *ssa.ChangeType:
		return fromObjectAssert(x.X, depth+1)
	case *ssa.Phi:
		for _, e := range x.Edges {
			if fromObjectAssert(e, depth+1) {
				return true
			}
		}
	case *ssa.UnOp:
		if al, ok := x.X.(*ssa.Alloc); ok {
			for _, rf := range *al.Referrers() {
				if st, ok := rf.(*ssa.Store); ok && st.Addr == al && fromObjectAssert(st.Val, depth+1) {
					return true
				}
			}
		}
	case *ssa.Call:
		if bi, ok := x.Call.Value.(*ssa.Builtin); ok && bi.Name() == "append" {
			return fromObjectAssert(x.Call.Args[0], depth+1)
		}
	}
	return false
}

// fromListParam: the written list is (a reslice or append result of) a parameter of the function.
func fromListParam(v ssa.Value, depth int) bool {
	if depth > 8 || v == nil {
		return false
	}
	switch x := v.(type) {
	case *ssa.Parameter:
		return x.Parent().Signature.Recv() == nil || x != x.Parent().Params[0]
	case *ssa.Slice:
		return fromListParam(x.X, depth+1)
	case *ssa.ChangeType:
		return fromListParam(x.X, depth+1)
	case *ssa.Phi:
		for _, e := range x.Edges {
			if fromListParam(e, depth+1) {
				return true
			}
		}
	case *ssa.Call:
		if bi, ok := x.Call.Value.(*ssa.Builtin); ok && bi.Name() == "append" {
			return fromListParam(x.Call.Args[0], depth+1)
		}
	}
	return false
}

func rootOfList(v ssa.Value) ssa.Value {
	for i := 0; i < 8; i++ {
		switch x := v.(type) {
		case *ssa.Slice:
			v = x.X
			continue
		case *ssa.ChangeType:
			v = x.X
			continue
		}
		break
	}
	return v
}

// checkListParamAtCallers: every static caller passes, for parameter pi, a list that is fresh there or (for an
// entry point) its own argument slice.
func checkListParamAtCallers(c *core.Ctx, an *own.Analyzer, lf *lenflow.Analyzer, idx *callSiteIndex, entries map[*ssa.Function]*core.Builtin, fn *ssa.Function, pi int, depth int, seen map[string]bool) (bool, string) {
	key := fmt.Sprintf("%p/%d", fn, pi)
	if seen[key] {
		return true, ""
	}
	seen[key] = true
	if depth > 5 {
		return false, "call chain too deep"
	}
	if b, isEntry := entries[fn]; isEntry {
		if destructiveDoc(b) {
			return true, ""
		}
		return true, "" // the entry's own argument slice
	}
	if lf.Dynamic(fn) {
		return false, fmt.Sprintf("%s may be called through an interface or function value with a caller's list", core.SSAName(fn))
	}
	cs := idx.callers[fn]
	if len(cs) == 0 {
		return true, ""
	}
	for _, call := range cs {
		if pi >= len(call.Call.Args) {
			continue
		}
		os := an.Origins(call.Call.Args[pi])
		caller := call.Parent()
		if d, ok := os.HasShared(); ok {
			return false, fmt.Sprintf("%s passes a list from shared storage (%s) at %s", core.SSAName(caller), d, c.Pos(call.Pos()))
		}
		if ep := os.ElemParams(); len(ep) > 0 {
			if b, isEntry := entries[caller]; isEntry && destructiveDoc(b) {
				continue
			}
			return false, fmt.Sprintf("%s passes a list reached through its argument list at %s", core.SSAName(caller), c.Pos(call.Pos()))
		}
		for _, p := range os.DirectParams() {
			ok, w := checkListParamAtCallers(c, an, lf, idx, entries, caller, p, depth+1, seen)
			if !ok {
				return false, w
			}
		}
	}
	return true, ""
}

func c06insert(c *core.Ctx, r *core.Reporter) {
	const rule = "C06.insert"
	r.Rule(rule, "no expression append(append(X[:i], e...), X[i:]...) on one slice X anywhere in the module (the inner append overwrites what the outer one reads)", 0)
	n := 0
	for _, fn := range c.ModuleFuncs() {
		for _, b := range fn.Blocks {
			for _, in := range b.Instrs {
				outer, ok := in.(*ssa.Call)
				if !ok {
					continue
				}
				bi, ok := outer.Call.Value.(*ssa.Builtin)
				if !ok || bi.Name() != "append" || len(outer.Call.Args) != 2 {
					continue
				}
				inner, ok := outer.Call.Args[0].(*ssa.Call)
				if !ok {
					continue
				}
				bi2, ok := inner.Call.Value.(*ssa.Builtin)
				if !ok || bi2.Name() != "append" {
					continue
				}
				pre, ok1 := inner.Call.Args[0].(*ssa.Slice)
				suf, ok2 := outer.Call.Args[1].(*ssa.Slice)
				if !ok1 || !ok2 || pre.High == nil || suf.Low == nil || !sameSliceBase(pre.X, suf.X) {
					continue
				}
				n++
				r.Violate(rule, core.SSAName(fn)+"|append(append(X[:i], e), X[i:]...)", c.Pos(outer.Pos()), "in-place insert reads the suffix of the slice after the inner append may have overwritten it")
			}
		}
	}
	if n == 0 {
		r.Hold(rule, "module|no nested in-place insert", "-", "no append(append(X[:i], ...), X[j:]...) on one slice exists in the module")
	}
}

// c06place: rplaca and rplacd change the cons they are given: afterwards the argument and the result are the
// same list. A list is a slice passed by value, so that can only hold if the function returns the very slice it
// received (same backing array, same length). A result built by appending to a reslice of the argument has
// written into the caller's elements while the caller keeps its old length: (let ((a (list 1 2 3)))
// (rplacd a '(y)) a) => (1 y 3), neither unchanged nor (1 y).
func c06place(c *core.Ctx, r *core.Reporter) {
	const rule = "C06.place"
	r.Rule(rule, "rplaca and rplacd return the list value they were given (not a reslice of it or an append onto it): only then does the caller's list equal the result", 2)
	for _, name := range []string{"rplaca", "rplacd"} {
		b := c.ByName("pkg/cl", name)
		if b == nil || b.Call == nil {
			r.Undecided(rule, "pkg/cl:"+name, "-", "function not found in the registry")
			continue
		}
		fn := c.SSAFunc(b.Call)
		ok := true
		detail := "every returned list is the argument list itself"
		for _, blk := range fn.Blocks {
			ret, isRet := blk.Instrs[len(blk.Instrs)-1].(*ssa.Return)
			if !isRet {
				continue
			}
			for _, rv := range ret.Results {
				var visit func(v ssa.Value, depth int)
				seen := map[ssa.Value]bool{}
				visit = func(v ssa.Value, depth int) {
					if depth > 8 || seen[v] {
						return
					}
					seen[v] = true
					switch x := v.(type) {
					case *ssa.MakeInterface:
						visit(x.X, depth+1)
					case *ssa.Phi:
						for _, e := range x.Edges {
							visit(e, depth+1)
						}
					case *ssa.UnOp:
						if al, isAl := x.X.(*ssa.Alloc); isAl {
							for _, ref := range *al.Referrers() {
								if st, isSt := ref.(*ssa.Store); isSt && st.Addr == ssa.Value(al) {
									visit(st.Val, depth+1)
								}
							}
						}
					case *ssa.Slice:
						ok = false
						detail = "a returned list is a reslice of the argument at " + c.Pos(x.Pos())
					case *ssa.Call:
						if bi, isB := x.Call.Value.(*ssa.Builtin); isB && bi.Name() == "append" {
							ok = false
							detail = "a returned list is built by append at " + c.Pos(x.Pos())
						}
					}
				}
				visit(rv, 0)
			}
		}
		r.Decide(ok, rule, "pkg/cl:"+name, c.Pos(fn.Pos()), detail)
	}
}
