package rules

import (
	"fmt"
	"go/constant"
	"go/token"
	"go/types"
	"sort"
	"strings"

	"golang.org/x/tools/go/ssa"

	"slipcheck/core"
	"slipcheck/lenflow"
)

// c04lambda decides C04.few and C04.lam on (*slip.Lambda).Call.
func c04lambda(c *core.Ctx, r *core.Reporter) {
	const few = "C04.few"
	const lam = "C04.lam"
	r.Rule(few, "in (*Lambda).Call at least one condition-raising (no-return) site must be reachable when the argument list may be empty; if every raise site is reached only with len(args) >= 1, a call with too few arguments can never be rejected", 1)
	r.Rule(lam, "the two passes of (*Lambda).Call over the lambda list (binding pass, defaults pass) compare the parameter name against the same set of &-marker constants in every arm of the mode switch that both passes have (required, optional)", 1)
	fnObj := c.LookupFunc("", "Lambda.Call")
	if fnObj == nil {
		r.Undecided(few, "slip.(Lambda).Call", "-", "anchor (*Lambda).Call does not resolve")
		return
	}
	fn := c.SSAFunc(fnObj)
	an := lenflow.New(c)
	zero := make([]int, len(fn.Params))
	res := an.Analyze(fn, nil, zero, 0)
	var argsP *ssa.Parameter
	for _, p := range fn.Params {
		if core.IsNamed(p.Type(), core.SlipPath, "List") {
			argsP = p
		}
	}
	if argsP == nil {
		r.Undecided(few, "slip.(Lambda).Call", c.Pos(fn.Pos()), "no List parameter")
		return
	}
	nRaise, nZero := 0, 0
	var sites []string
	res.Visit(func(in ssa.Instruction, st lenflow.State) {
		raise := false
		switch x := in.(type) {
		case *ssa.Panic:
			raise = true
		case *ssa.Call:
			if g := x.Call.StaticCallee(); g != nil && an.NoReturn(g) {
				raise = true
			}
		}
		if !raise {
			return
		}
		nRaise++
		lb := res.LBRoot(st, argsP)
		sites = append(sites, fmt.Sprintf("%s(len>=%d)", c.Pos(in.Pos()), lb))
		if lb == 0 {
			nZero++
		}
	})
	r.Count("lambda.raise_sites", nRaise)
	sort.Strings(sites)
	r.Decide(nZero > 0, few, "slip.(Lambda).Call", c.Pos(fn.Pos()),
		fmt.Sprintf("%d raise sites, %d reachable with an empty argument list: %s", nRaise, nZero, strings.Join(sites, " ")))

	c04keyscan(c, r, fn)
	c04generic(c, r)
	c04keyfirst(c, r, fn)

	// C04.lam: marker constants compared per top-level loop and per arm of the mode switch
	loops := core.Loops(fn)
	type armKey struct {
		top *core.Loop
		arm string
	}
	sets := map[armKey]map[string]bool{}
	topSet := map[*core.Loop]bool{}
	for _, b := range fn.Blocks {
		l := core.InnermostLoop(loops, b)
		if l == nil {
			continue
		}
		top := l.Outermost()
		for _, in := range b.Instrs {
			bo, ok := in.(*ssa.BinOp)
			if !ok || (bo.Op != token.EQL && bo.Op != token.NEQ) {
				continue
			}
			for _, op := range []ssa.Value{bo.X, bo.Y} {
				if s, ok := core.StringConst(op); ok && strings.HasPrefix(s, "&") {
					k := armKey{top, modeArmOf(b)}
					if sets[k] == nil {
						sets[k] = map[string]bool{}
					}
					sets[k][s] = true
					topSet[top] = true
				}
			}
		}
	}
	var tops []*core.Loop
	for l := range topSet {
		tops = append(tops, l)
	}
	sort.Slice(tops, func(i, j int) bool { return tops[i].Header.Index < tops[j].Header.Index })
	if len(tops) < 2 {
		r.Undecided(lam, "slip.(Lambda).Call", c.Pos(fn.Pos()), fmt.Sprintf("expected two passes comparing &-markers, found %d", len(tops)))
		return
	}
	// arms (values of the mode variable) in which both passes walk the lambda list descriptor by descriptor
	arms := map[string]bool{}
	for k := range sets {
		arms[k.arm] = true
	}
	compared := 0
	for _, arm := range keys(arms) {
		ref, ok := sets[armKey{tops[0], arm}]
		if !ok {
			continue
		}
		for i, l := range tops[1:] {
			got, ok := sets[armKey{l, arm}]
			if !ok {
				continue
			}
			compared++
			rs, gs := keys(ref), keys(got)
			r.Decide(strings.Join(rs, " ") == strings.Join(gs, " "), lam, fmt.Sprintf("slip.(Lambda).Call|pass%d|mode %s", i+2, arm), c.Pos(l.Header.Instrs[0].Pos()),
				fmt.Sprintf("in mode %s the binding pass handles {%s}, pass %d handles {%s}", arm, strings.Join(rs, " "), i+2, strings.Join(gs, " ")))
		}
	}
	if compared < 2 {
		r.Undecided(lam, "slip.(Lambda).Call|arms", c.Pos(fn.Pos()), fmt.Sprintf("expected the required and optional arms of both passes to compare &-markers, found %d comparable arms", compared))
	}
}

// modeArmOf names the arm of the mode switch a block belongs to: the integer constant of the nearest
// dominating `mode == k` test taken on its true edge ("-" when there is none).
func modeArmOf(b *ssa.BasicBlock) string {
	for cur := b; cur.Idom() != nil; cur = cur.Idom() {
		d := cur.Idom()
		ifi, ok := d.Instrs[len(d.Instrs)-1].(*ssa.If)
		if !ok || len(d.Succs) != 2 || d.Succs[0] != cur || d.Succs[1] == cur {
			continue
		}
		bo, ok := ifi.Cond.(*ssa.BinOp)
		if !ok || bo.Op != token.EQL {
			continue
		}
		for _, op := range []ssa.Value{bo.X, bo.Y} {
			if k, ok := op.(*ssa.Const); ok && k.Value != nil && k.Value.Kind() == constant.Int {
				return k.Value.ExactString()
			}
		}
	}
	return "-"
}

func keys[V any](m map[string]V) []string {
	var out []string
	for k := range m {
		out = append(out, k)
	}
	sort.Strings(out)
	return out
}

// c04keyscan: while collecting &rest arguments, Lambda.Call looks ahead in the
// lambda list for a parameter named like a keyword argument to switch to key
// mode. The look-ahead must start strictly after the descriptor being
// processed, or the &rest parameter's own name is taken for a declared key.
func c04keyscan(c *core.Ctx, r *core.Reporter, fn *ssa.Function) {
	const rule = "C04.keyscan"
	r.Rule(rule, "in the binding pass of (*Lambda).Call every nested scan over the lambda list (lam.Doc.Args) starts strictly after the index of the descriptor being processed (i+1): starting at i lets the &rest parameter's own name match as a keyword", 1)
	loops := core.Loops(fn)
	isDocArgs := func(v ssa.Value) bool { return loadsField(v, core.SlipPath, "FuncDoc", "Args") }
	n := 0
	for _, inner := range loops {
		if inner.Parent == nil {
			continue
		}
		outer := inner.Outermost()
		// the outer loop must range over Doc.Args: its header has a rangeindex phi
		var outerIdx *ssa.Phi
		for _, in := range outer.Header.Instrs {
			if phi, ok := in.(*ssa.Phi); ok && phi.Comment == "rangeindex" {
				outerIdx = phi
			}
		}
		if outerIdx == nil {
			continue
		}
		// (a) index loop: a header phi j whose entry edge derives from the outer index, used to index Doc.Args
		// (b) range over Doc.Args[k:]: a Slice of Doc.Args with Low deriving from the outer index
		check := func(start ssa.Value, pos token.Pos, what string) {
			n++
			ok := startsAfter(start, outerIdx)
			r.Decide(ok, rule, fmt.Sprintf("slip.(Lambda).Call|look-ahead %d", n), c.Pos(pos), fmt.Sprintf("%s starts at outer index + 1 or later: %v", what, ok))
		}
		for _, in := range inner.Header.Instrs {
			phi, ok := in.(*ssa.Phi)
			if !ok {
				continue
			}
			usedOnArgs := false
			for _, rf := range *phi.Referrers() {
				if ia, ok := rf.(*ssa.IndexAddr); ok && isDocArgs(ia.X) {
					usedOnArgs = true
				}
			}
			if !usedOnArgs {
				continue
			}
			for ei, e := range phi.Edges {
				if !inner.Blocks[inner.Header.Preds[ei]] {
					check(e, phi.Pos(), "index loop over lam.Doc.Args")
				}
			}
		}
		for b := range inner.Blocks {
			_ = b
		}
		// range form: the ranged slice is computed before the inner loop
		for _, pred := range inner.Header.Preds {
			if inner.Blocks[pred] {
				continue
			}
			for _, in := range pred.Instrs {
				if sl, ok := in.(*ssa.Slice); ok && isDocArgs(sl.X) && sl.Low != nil && outer.Blocks[pred] {
					check(sl.Low, sl.Pos(), "range over lam.Doc.Args[k:]")
				}
			}
		}
	}
}

// startsAfter: v = outer rangeindex value + c with c >= 1 (the loop variable i is rangeindex+1 in go/ssa's rotated range loops).
func startsAfter(v ssa.Value, outerIdx *ssa.Phi) bool {
	off := 0
	for i := 0; i < 6; i++ {
		switch x := v.(type) {
		case *ssa.BinOp:
			if x.Op != token.ADD {
				return false
			}
			if k, ok := x.Y.(*ssa.Const); ok && k.Value != nil {
				off += int(k.Int64())
				v = x.X
				continue
			}
			return false
		case *ssa.Phi:
			// i itself is outerIdx+1 (t57 = t56 + 1): a plain use of the loop variable i has off 0 relative to i
			if x == outerIdx {
				// v = rangeindexphi + off, and i = rangeindexphi + 1
				return off >= 2
			}
			return false
		}
		break
	}
	return false
}

// c04generic: a generic function enforces the number of required arguments of its lambda list before any
// method runs (the methods themselves are lambdas, and Lambda.Call does not reject too few arguments).
func c04generic(c *core.Ctx, r *core.Reporter) {
	const rule = "C04.generic"
	r.Rule(rule, "in the dispatcher of generic functions ((*Aux).Call) every invocation of a method or caller is reached only after the comparison of len(args) with the generic function's required-argument count (Aux.reqCnt) came out sufficient: a fast path that runs a method before the check executes it with required parameters unbound", 2)
	var fn *ssa.Function
	for _, f := range c.ModuleFuncs() {
		if f.Name() == "Call" && f.Signature.Recv() != nil && f.Parent() == nil {
			rt := f.Signature.Recv().Type()
			if pt, ok := rt.(*types.Pointer); ok {
				rt = pt.Elem()
			}
			if core.IsNamed(rt, genericPath, "Aux") {
				fn = f
			}
		}
	}
	if fn == nil {
		r.Undecided(rule, "pkg/generic.(Aux).Call", "-", "anchor does not resolve")
		return
	}
	an := lenflow.New(c)
	g := core.ComputeGuards(fn, an.NoReturn)
	isLenArgs := func(v ssa.Value) bool {
		call, ok := v.(*ssa.Call)
		if !ok {
			return false
		}
		bi, ok := call.Call.Value.(*ssa.Builtin)
		if !ok || bi.Name() != "len" || len(call.Call.Args) != 1 {
			return false
		}
		_, isP := call.Call.Args[0].(*ssa.Parameter)
		return isP && isObjectSlice(call.Call.Args[0].Type())
	}
	isReqCnt := func(v ssa.Value) bool {
		u, ok := v.(*ssa.UnOp)
		if !ok || u.Op != token.MUL {
			return false
		}
		fa, ok := u.X.(*ssa.FieldAddr)
		return ok && fieldName(fa) == "reqCnt"
	}
	checked := func(b *ssa.BasicBlock) bool {
		for f := range g.Facts(b) {
			bo, ok := f.If.Cond.(*ssa.BinOp)
			if !ok {
				continue
			}
			// len(args) < reqCnt false, reqCnt > len(args) false, len(args) >= reqCnt true, reqCnt <= len(args) true
			switch {
			case isLenArgs(bo.X) && isReqCnt(bo.Y):
				if (bo.Op == token.LSS && !f.Branch) || (bo.Op == token.GEQ && f.Branch) {
					return true
				}
			case isReqCnt(bo.X) && isLenArgs(bo.Y):
				if (bo.Op == token.GTR && !f.Branch) || (bo.Op == token.LEQ && f.Branch) {
					return true
				}
			}
		}
		return false
	}
	n := 0
	for _, b := range fn.Blocks {
		for _, in := range b.Instrs {
			call, ok := in.(*ssa.Call)
			if !ok {
				continue
			}
			name := callMethodName(call)
			if name != "Call" && name != "BoundCall" && name != "Apply" {
				continue
			}
			n++
			key := fmt.Sprintf("pkg/generic.(Aux).Call|invocation %d (%s)", n, name)
			r.Decide(checked(b), rule, key, c.Pos(call.Pos()), fmt.Sprintf("reached only with the required-argument count checked: %v", checked(b)))
		}
	}
}

// c04keyfirst: of duplicate keyword arguments the leftmost binds (CLHS 3.4.1.4).
func c04keyfirst(c *core.Ctx, r *core.Reporter, lamCall *ssa.Function) {
	const rule = "C04.keyfirst"
	r.Rule(rule, "of duplicate keyword arguments the leftmost one binds: (a) the shared keyword lookup of the built-ins (GetArgsKeyValue) leaves its loop on the first match, and (b) the keyword pass of (*Lambda).Call binds a key only under a test that the new scope does not hold it yet", 2)
	// (a) GetArgsKeyValue
	if obj := c.LookupFunc("", "GetArgsKeyValue"); obj == nil {
		r.Undecided(rule, "slip.GetArgsKeyValue", "-", "anchor does not resolve")
	} else {
		fn := c.SSAFunc(obj)
		loops := core.Loops(fn)
		ok, seenMatch := true, false
		for _, b := range fn.Blocks {
			ifi, isIf := b.Instrs[len(b.Instrs)-1].(*ssa.If)
			if !isIf {
				continue
			}
			call, isCall := ifi.Cond.(*ssa.Call)
			if !isCall {
				continue
			}
			g := call.Call.StaticCallee()
			if g == nil || g.Pkg == nil || g.Pkg.Pkg.Path() != "strings" || g.Name() != "EqualFold" {
				continue
			}
			seenMatch = true
			l := core.InnermostLoop(loops, b)
			if l == nil {
				continue
			}
			// the matching branch must not come back to the loop header
			reach := core.ReachableBlocks(b.Succs[0], nil)
			if reach[l.Header] {
				ok = false
			}
		}
		if !seenMatch {
			r.Undecided(rule, "slip.GetArgsKeyValue", c.Pos(fn.Pos()), "the key comparison was not recognised")
		} else {
			r.Decide(ok, rule, "slip.GetArgsKeyValue", c.Pos(fn.Pos()), fmt.Sprintf("the loop is left on the first matching key: %v", ok))
		}
	}
	// (b) Lambda.Call: every Let whose value is an element of the argument list taken inside a loop over the
	// arguments (the keyword pass) is guarded by a lookup in the new scope's own table
	loops := core.Loops(lamCall)
	var argsP *ssa.Parameter
	for _, p := range lamCall.Params {
		if core.IsNamed(p.Type(), core.SlipPath, "List") {
			argsP = p
		}
	}
	an := lenflow.New(c)
	g := core.ComputeGuards(lamCall, an.NoReturn)
	n := 0
	for _, b := range lamCall.Blocks {
		for _, in := range b.Instrs {
			call, ok := in.(*ssa.Call)
			if !ok || callMethodName(call) != "Let" || len(call.Call.Args) < 3 {
				continue
			}
			// the bound name must come from the arguments (a keyword symbol), not from the lambda list
			nameFromArgs := false
			var walk func(v ssa.Value, d int)
			walk = func(v ssa.Value, d int) {
				if d > 6 || v == nil {
					return
				}
				switch x := v.(type) {
				case *ssa.UnOp:
					if ia, ok := x.X.(*ssa.IndexAddr); ok && ia.X == ssa.Value(argsP) {
						nameFromArgs = true
					}
				case *ssa.TypeAssert:
					walk(x.X, d+1)
				case *ssa.Extract:
					walk(x.Tuple, d+1)
				case *ssa.Slice:
					walk(x.X, d+1)
				case *ssa.Phi:
					for _, e := range x.Edges {
						walk(e, d+1)
					}
				case *ssa.ChangeType:
					walk(x.X, d+1)
				}
			}
			walk(call.Call.Args[1], 0)
			if !nameFromArgs || core.InnermostLoop(loops, b) == nil {
				continue
			}
			n++
			guarded := false
			for f := range g.Facts(b) {
				// v, dup := ss.Vars[name]; if !dup
				ex, ok := f.If.Cond.(*ssa.Extract)
				if !ok || ex.Index != 1 {
					continue
				}
				if lk, ok := ex.Tuple.(*ssa.Lookup); ok && lk.CommaOk && !f.Branch {
					if u, ok := lk.X.(*ssa.UnOp); ok {
						if fa, ok := u.X.(*ssa.FieldAddr); ok && fieldName(fa) == "Vars" {
							guarded = true
						}
					}
				}
			}
			r.Decide(guarded, rule, fmt.Sprintf("slip.(Lambda).Call|keyword binding %d", n), c.Pos(call.Pos()), fmt.Sprintf("bound only when the new scope does not hold the key yet: %v", guarded))
		}
	}
	if n == 0 {
		r.Undecided(rule, "slip.(Lambda).Call|keyword binding", c.Pos(lamCall.Pos()), "the keyword pass was not recognised")
	}
}
