package rules

import (
	"fmt"
	"go/token"
	"sort"
	"strings"

	"golang.org/x/tools/go/ssa"

	"slipcheck/core"
	"slipcheck/lenflow"
)

// c04lambda decides C04.few and C04.lam on (*slip.Lambda).Call.
func c04lambda(c *core.Ctx, r *core.Reporter) {
	const few = "C04.few"
	const lam = "C04.lam"
	r.Rule(few, "in (*Lambda).Call at least one condition-raising (no-return) site must be reachable when the argument list may be empty; if every raise site is reached only with len(args) >= 1, a call with too few arguments can never be rejected", 1)
	r.Rule(lam, "the two passes of (*Lambda).Call over the lambda list (binding pass, defaults pass) compare the parameter name against the same set of &-marker constants", 1)
	fnObj := c.LookupFunc("", "Lambda.Call")
	if fnObj == nil {
		r.Undecided(few, "slip.(Lambda).Call", "-", "anchor (*Lambda).Call does not resolve")
		return
	}
	fn := c.SSAFunc(fnObj)
	an := lenflow.New(c)
	zero := make([]int, len(fn.Params))
	res := an.Analyze(fn, nil, zero, 0)
	var argsP *ssa.Parameter
	for _, p := range fn.Params {
		if core.IsNamed(p.Type(), core.SlipPath, "List") {
			argsP = p
		}
	}
	if argsP == nil {
		r.Undecided(few, "slip.(Lambda).Call", c.Pos(fn.Pos()), "no List parameter")
		return
	}
	nRaise, nZero := 0, 0
	var sites []string
	res.Visit(func(in ssa.Instruction, st lenflow.State) {
		raise := false
		switch x := in.(type) {
		case *ssa.Panic:
			raise = true
		case *ssa.Call:
			if g := x.Call.StaticCallee(); g != nil && an.NoReturn(g) {
				raise = true
			}
		}
		if !raise {
			return
		}
		nRaise++
		lb := res.LBRoot(st, argsP)
		sites = append(sites, fmt.Sprintf("%s(len>=%d)", c.Pos(in.Pos()), lb))
		if lb == 0 {
			nZero++
		}
	})
	r.Count("lambda.raise_sites", nRaise)
	sort.Strings(sites)
	r.Decide(nZero > 0, few, "slip.(Lambda).Call", c.Pos(fn.Pos()),
		fmt.Sprintf("%d raise sites, %d reachable with an empty argument list: %s", nRaise, nZero, strings.Join(sites, " ")))

	// C04.lam: marker constants compared per top-level loop
	loops := core.Loops(fn)
	sets := map[*core.Loop]map[string]bool{}
	for _, b := range fn.Blocks {
		l := core.InnermostLoop(loops, b)
		if l == nil {
			continue
		}
		top := l.Outermost()
		for _, in := range b.Instrs {
			bo, ok := in.(*ssa.BinOp)
			if !ok || (bo.Op != token.EQL && bo.Op != token.NEQ) {
				continue
			}
			for _, op := range []ssa.Value{bo.X, bo.Y} {
				if s, ok := core.StringConst(op); ok && strings.HasPrefix(s, "&") {
					if sets[top] == nil {
						sets[top] = map[string]bool{}
					}
					sets[top][s] = true
				}
			}
		}
	}
	var tops []*core.Loop
	for l := range sets {
		tops = append(tops, l)
	}
	sort.Slice(tops, func(i, j int) bool { return tops[i].Header.Index < tops[j].Header.Index })
	if len(tops) < 2 {
		r.Undecided(lam, "slip.(Lambda).Call", c.Pos(fn.Pos()), fmt.Sprintf("expected two passes comparing &-markers, found %d", len(tops)))
		return
	}
	ref := keys(sets[tops[0]])
	for i, l := range tops[1:] {
		got := keys(sets[l])
		r.Decide(strings.Join(ref, " ") == strings.Join(got, " "), lam, fmt.Sprintf("slip.(Lambda).Call|pass%d", i+2), c.Pos(l.Header.Instrs[0].Pos()),
			fmt.Sprintf("binding pass handles {%s}, pass %d handles {%s}", strings.Join(ref, " "), i+2, strings.Join(got, " ")))
	}
}

func keys(m map[string]bool) []string {
	var out []string
	for k := range m {
		out = append(out, k)
	}
	sort.Strings(out)
	return out
}
