package rules

import (
	"fmt"
	"go/types"
	"sort"
	"strings"

	"golang.org/x/tools/go/ssa"

	"slipcheck/core"
)

// codeListBase classifies the base of an element store as a code list.
func codeListBase(v ssa.Value, fn *ssa.Function, depth int) string {
	if depth > 6 {
		return ""
	}
	switch x := v.(type) {
	case *ssa.UnOp:
		if fa, ok := x.X.(*ssa.FieldAddr); ok {
			st := fa.X.Type().Underlying().(*types.Pointer).Elem()
			if core.IsNamed(st, core.SlipPath, "Function") && fieldName(fa) == "Args" {
				return "Function.Args"
			}
			if core.IsNamed(st, core.SlipPath, "Lambda") && fieldName(fa) == "Forms" {
				return "Lambda.Forms"
			}
		}
	case *ssa.Parameter:
		if core.IsNamed(x.Type(), core.SlipPath, "Code") {
			return "Code"
		}
		if core.IsSSAFunc(fn, core.SlipPath, "", "EvalArg") && core.IsNamed(x.Type(), core.SlipPath, "List") {
			return "EvalArg.args"
		}
		// the argument slice of a Call method: Function.Eval copies every function object it finds there back
		// into the code (Function.Args), so a store of one is a store into the code
		if fn.Name() == "Call" && fn.Signature.Recv() != nil && core.IsNamed(x.Type(), core.SlipPath, "List") && builtinCallFns[fn] {
			return "Call.args"
		}
	case *ssa.ChangeType:
		return codeListBase(x.X, fn, depth+1)
	case *ssa.Slice:
		return codeListBase(x.X, fn, depth+1)
	case *ssa.Phi:
		for _, e := range x.Edges {
			if k := codeListBase(e, fn, depth+1); k != "" {
				return k
			}
		}
	}
	if core.IsNamed(v.Type(), core.SlipPath, "Code") {
		return "Code"
	}
	return ""
}

// provenance collects the kinds of sources a stored value derives from.
func provenance(v ssa.Value, seen map[ssa.Value]bool, out map[string]bool) {
	if seen[v] {
		return
	}
	seen[v] = true
	switch x := v.(type) {
	case *ssa.Call:
		if g := x.Call.StaticCallee(); g != nil {
			switch {
			case core.IsSSAFunc(g, core.SlipPath, "", "ListToFunc"), core.IsSSAFunc(g, core.SlipPath, "", "CompileList"):
				out["compile"] = true
				// compiling a value that was itself the result of an evaluation caches that value
				for _, a := range x.Call.Args {
					if isObjectSlice(a.Type()) {
						sub := map[string]bool{}
						provenance(a, seen, sub)
						for k := range sub {
							if strings.HasPrefix(k, "eval:") {
								out["eval:compiled value of "+strings.TrimPrefix(k, "eval:")] = true
							}
						}
					}
				}
			case g.Name() == "Eval" || g.Name() == "EvalArg" || g.Name() == "Call" || g.Name() == "Apply" || g.Name() == "BoundCall" || g.Name() == "Receive":
				out["eval:"+g.Name()] = true
			case strings.Contains(strings.ToLower(g.Name()), "varval") || g.Name() == "newUnboundVar":
				out["varval"] = true
			default:
				out["call:"+g.Name()] = true
			}
			return
		}
		if x.Call.IsInvoke() {
			switch x.Call.Method.Name() {
			case "Eval", "Call", "Apply", "BoundCall", "Receive":
				out["eval:"+x.Call.Method.Name()] = true
			default:
				out["invoke:"+x.Call.Method.Name()] = true
			}
			return
		}
		// dynamic call of a function value: FuncInfo.Create is the creator
		if u, ok := x.Call.Value.(*ssa.UnOp); ok {
			if fa, ok := u.X.(*ssa.FieldAddr); ok && fieldName(fa) == "Create" {
				out["compile"] = true
				return
			}
		}
		out["dyncall"] = true
	case *ssa.MakeInterface:
		provenance(x.X, seen, out)
	case *ssa.ChangeInterface:
		provenance(x.X, seen, out)
	case *ssa.ChangeType:
		provenance(x.X, seen, out)
	case *ssa.Phi:
		for _, e := range x.Edges {
			provenance(e, seen, out)
		}
	case *ssa.TypeAssert:
		if it, ok := x.AssertedType.Underlying().(*types.Interface); ok && it.NumMethods() > 0 && core.IsNamed(x.AssertedType, core.SlipPath, "Funky") {
			out["funky"] = true
			return
		}
		provenance(x.X, seen, out)
	case *ssa.Extract:
		provenance(x.Tuple, seen, out)
	case *ssa.UnOp:
		// load: element of a list, local, field
		switch a := x.X.(type) {
		case *ssa.IndexAddr:
			out["element"] = true
		case *ssa.Alloc:
			if refs := a.Referrers(); refs != nil {
				for _, rf := range *refs {
					if s, ok := rf.(*ssa.Store); ok && s.Addr == a {
						provenance(s.Val, seen, out)
					}
				}
			}
		case *ssa.FieldAddr:
			out["field:"+fieldName(a)] = true
		default:
			out["load"] = true
		}
	case *ssa.Lookup:
		out["maplookup"] = true
	case *ssa.Alloc:
		out["new:"+types.TypeString(x.Type(), func(p *types.Package) string { return p.Name() })] = true
	case *ssa.Const:
		out["const"] = true
	case *ssa.Parameter:
		out["param:"+x.Name()] = true
	case *ssa.MakeClosure, *ssa.Function:
		out["func"] = true
	case *ssa.Slice:
		out["slice"] = true
	default:
		out[fmt.Sprintf("%T", v)] = true
	}
}

// builtinCallFns: the Call methods of the registered built-ins.
var builtinCallFns = map[*ssa.Function]bool{}

func c08cacheImpl(c *core.Ctx, r *core.Reporter) {
	const rule = "C08.cache"
	for _, b := range c.Registry() {
		if b.Call != nil {
			if fn := c.SSAFunc(b.Call); fn != nil {
				builtinCallFns[fn] = true
			}
		}
	}
	r.Rule(rule, "every store into an element of a code list (Function.Args, Lambda.Forms, Code, EvalArg's list) stores a compiled equivalent of the element (result of ListToFunc/CompileList/a creator, a Funky taken from the evaluated copy, a variable cell) and never the result of an evaluation", 6)
	for _, fn := range c.ModuleFuncs() {
		for _, b := range fn.Blocks {
			for _, in := range b.Instrs {
				s, ok := in.(*ssa.Store)
				if !ok {
					continue
				}
				ia, ok := s.Addr.(*ssa.IndexAddr)
				if !ok {
					continue
				}
				kind := codeListBase(ia.X, fn, 0)
				if kind == "" {
					continue
				}
				src := map[string]bool{}
				provenance(s.Val, map[ssa.Value]bool{}, src)
				var ks []string
				evald := false
				for k := range src {
					ks = append(ks, k)
					if strings.HasPrefix(k, "eval:") {
						evald = true
					}
				}
				sort.Strings(ks)
				key := fmt.Sprintf("%s|%s<-%s", core.SSAName(fn), kind, strings.Join(ks, "+"))
				if ex, ok := cacheExceptions[key]; ok {
					r.Hold(rule, key, c.Pos(s.Pos()), "accepted by reading: "+ex)
					continue
				}
				if src["element"] && !evald {
					// an element of another list (the evaluated copy) may be cached only when it is known to be a function object
					if !guardedByFunky(s) {
						r.Violate(rule, key, c.Pos(s.Pos()), "an element of another list is stored into a code list without a dominating Funky type test of that value (it may be an evaluation result)")
						continue
					}
				}
				r.Decide(!evald, rule, key, c.Pos(s.Pos()), "stored value derives from: "+strings.Join(ks, ", "))
			}
		}
	}
}

// cacheExceptions: one named construct each, with the reason.
var cacheExceptions = map[string]string{}

// guardedByFunky: the stored value was tested with v.(Funky) (comma-ok) and the
// success edge dominates the store.
func guardedByFunky(s *ssa.Store) bool {
	v := s.Val
	refs := v.Referrers()
	if refs == nil {
		return false
	}
	for _, rf := range *refs {
		ta, ok := rf.(*ssa.TypeAssert)
		if !ok || !ta.CommaOk || !core.IsNamed(ta.AssertedType, core.SlipPath, "Funky") {
			continue
		}
		for _, er := range *ta.Referrers() {
			ex, ok := er.(*ssa.Extract)
			if !ok || ex.Index != 1 {
				continue
			}
			for _, ir := range *ex.Referrers() {
				if ifi, ok := ir.(*ssa.If); ok {
					if t := ifi.Block().Succs[0]; t.Dominates(s.Block()) && len(t.Preds) == 1 {
						return true
					}
				}
			}
		}
	}
	return false
}
