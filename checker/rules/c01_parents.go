package rules

import (
	"fmt"

	"golang.org/x/tools/go/ssa"

	"slipcheck/core"
)

// c01parents: a scope can have several parents - the scope of a call made from a closure has the caller's scope
// and the closure's defining scope. "A closure sees and updates the variables of the binding it was created in"
// needs every lookup of package slip's Scope to consult all of them. Sibling rule: every function that reads
// Scope.parents walks it (range, loop index, append, hand-on as a whole); none picks an element by a constant
// index, which silently drops the other parents (has() consulting parents[0] only made a nested closure lose its
// captured variable).
func c01parents(c *core.Ctx, r *core.Reporter) {
	const rule = "C01.parents"
	r.Rule(rule, "every function that reads Scope.parents uses the list as a whole (range, len, a loop index, append, return): no element is selected by a constant index, so every variable lookup consults every parent - the caller's scope and the closure's defining scope", 8)
	for _, fn := range c.ModuleFuncs() {
		if fn.Pkg == nil || fn.Pkg.Pkg.Path() != core.SlipPath || fn.Blocks == nil {
			continue
		}
		n := 0
		for _, b := range fn.Blocks {
			for _, in := range b.Instrs {
				u, ok := in.(*ssa.UnOp)
				if !ok {
					continue
				}
				fa, ok := u.X.(*ssa.FieldAddr)
				if !ok || fieldName(fa) != "parents" {
					continue
				}
				pt := fa.X.Type()
				if !core.IsNamed(pt, core.SlipPath, "Scope") {
					continue
				}
				n++
				bad := ""
				if u.Referrers() != nil {
					for _, rf := range *u.Referrers() {
						switch x := rf.(type) {
						case *ssa.IndexAddr:
							if _, isC := x.Index.(*ssa.Const); isC {
								bad = c.Pos(x.Pos())
							}
						case *ssa.Index:
							if _, isC := x.Index.(*ssa.Const); isC {
								bad = c.Pos(x.Pos())
							}
						}
					}
				}
				r.Decide(bad == "", rule, fmt.Sprintf("%s|read of parents #%d", core.SSAName(fn), n), c.Pos(u.Pos()), fmt.Sprintf("an element is selected by a constant index at %q", bad))
			}
		}
	}
}
