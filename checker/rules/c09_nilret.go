package rules

import (
	"fmt"
	"go/constant"
	"go/token"
	"go/types"
	"sort"
	"strings"

	"golang.org/x/tools/go/ssa"

	"slipcheck/core"
	"slipcheck/lenflow"
)

// c09nilret: look-ups return nil for "not there" (FindPackage, FindClass, FindFunc, GetMethod, ...). What is
// looked up is named by a Lisp argument, so "not there" is an ordinary input: (package-nicknames ""),
// (slot-value t 'foo), (remove-method 'foo nil) all died with a nil dereference. The rule: in the module's
// non-test code, the result of a call to a module function that has a `return nil` for that (pointer or
// interface) result is dereferenced (field access, method call, invoke) only where it is known to be non-nil.
func c09nilret(c *core.Ctx, r *core.Reporter) {
	const rule = "C09.nilret"
	r.Rule(rule, "the result of a module function that can return nil (a look-up by a name or key that may not exist) is dereferenced only under a nil test", 80)
	an := lenflow.New(c)
	// nilable[fn][i]: result i of fn can be the nil constant
	nilable := map[*ssa.Function]map[int]bool{}
	for round := 0; round < 3; round++ {
		nilableFns = nilable
		for _, fn := range c.ModuleFuncs() {
			if fn.Blocks == nil || fn.Parent() != nil || takesTestingT(fn) {
				continue
			}
			res := fn.Signature.Results()
			var dead *core.Guards
			for _, b := range fn.Blocks {
				ret, ok := b.Instrs[len(b.Instrs)-1].(*ssa.Return)
				if !ok {
					continue
				}
				// a return that only follows a raise (TypePanic(...); return) is never taken
				if dead == nil {
					dead = core.ComputeGuards(fn, an.NoReturn)
				}
				if dead.Dead[b] || blockRaises(b, an.NoReturn) {
					continue
				}
				for i, rv := range ret.Results {
					if i >= res.Len() {
						continue
					}
					switch res.At(i).Type().Underlying().(type) {
					case *types.Pointer, *types.Interface:
					default:
						continue
					}
					if !retNonNil(dead, rv, b, nil, an.NoReturn, 0) {
						if nilable[fn] == nil {
							nilable[fn] = map[int]bool{}
						}
						nilable[fn][i] = true
					}
				}
			}
		}
	}
	type site struct {
		fn    *ssa.Function
		call  *ssa.Call
		val   ssa.Value
		deref ssa.Instruction
		what  string
		ok    bool
	}
	var sites []site
	for _, fn := range c.ModuleFuncs() {
		if fn.Pkg == nil || fn.Blocks == nil || takesTestingT(fn) {
			continue
		}
		rel := core.RelPkg(fn.Pkg.Pkg.Path())
		if rel != "slip" && (len(rel) < 4 || rel[:4] != "pkg/") {
			continue
		}
		if rel == "pkg/swank" || rel == "pkg/repl" || rel == "pkg/watch" {
			continue // interactive front ends: their inputs are not Lisp arguments of a built-in
		}
		var g *core.Guards
		for _, b := range fn.Blocks {
			for _, in := range b.Instrs {
				call, ok := in.(*ssa.Call)
				if !ok {
					continue
				}
				cal := call.Call.StaticCallee()
				if cal == nil || nilable[cal] == nil {
					continue
				}
				// the nilable result value(s)
				var vals []ssa.Value
				if cal.Signature.Results().Len() == 1 {
					if nilable[cal][0] {
						vals = append(vals, call)
					}
				} else if call.Referrers() != nil {
					for _, rf := range *call.Referrers() {
						if ex, ok := rf.(*ssa.Extract); ok && nilable[cal][ex.Index] {
							vals = append(vals, ex)
						}
					}
				}
				for _, v := range vals {
					if v.Referrers() == nil {
						continue
					}
					for _, rf := range *v.Referrers() {
						deref := false
						switch x := rf.(type) {
						case *ssa.FieldAddr:
							deref = x.X == v
						case *ssa.Field:
							deref = x.X == v
						case *ssa.UnOp:
							deref = x.Op == token.MUL && x.X == v
						case *ssa.Call:
							if x.Call.IsInvoke() {
								deref = x.Call.Value == v
							} else if sc := x.Call.StaticCallee(); sc != nil && sc.Signature.Recv() != nil && len(x.Call.Args) > 0 && x.Call.Args[0] == v {
								// a method with a pointer receiver that tolerates nil is rare: count it as a dereference
								// unless the method itself starts with a nil test of its receiver
								deref = !receiverNilSafe(sc)
							}
						}
						if !deref {
							continue
						}
						if g == nil {
							g = core.ComputeGuards(fn, an.NoReturn)
						}
						guarded := nonNilAt(g, v, rf.Block(), nil, 0)
						sites = append(sites, site{fn, call, v, rf, cal.Name(), guarded})
					}
				}
			}
		}
	}
	// also count the guarded ones for the floor: every call of a nilable function whose result is dereferenced
	sort.SliceStable(sites, func(i, j int) bool {
		if core.SSAName(sites[i].fn) != core.SSAName(sites[j].fn) {
			return core.SSAName(sites[i].fn) < core.SSAName(sites[j].fn)
		}
		return sites[i].deref.Pos() < sites[j].deref.Pos()
	})
	// standard conditions: names given as constants to DefConditionClass in pkg/clos (registered at init, also in
	// common-lisp, which FindClass falls back to)
	stdCond := map[string]bool{}
	for _, fn := range c.ModuleFuncs() {
		if fn.Pkg == nil || core.RelPkg(fn.Pkg.Pkg.Path()) != "pkg/clos" {
			continue
		}
		for _, b := range fn.Blocks {
			for _, in := range b.Instrs {
				if call, ok := in.(*ssa.Call); ok {
					if cal := call.Call.StaticCallee(); cal != nil && cal.Name() == "DefConditionClass" && len(call.Call.Args) > 1 {
						if k, ok := call.Call.Args[1].(*ssa.Const); ok && k.Value != nil {
							stdCond[constant.StringVal(k.Value)] = true
						}
					}
				}
			}
		}
	}
	constArg := func(call *ssa.Call) (string, bool) {
		for _, a := range call.Call.Args {
			if k, ok := a.(*ssa.Const); ok && k.Value != nil && k.Value.Kind() == constant.String {
				return constant.StringVal(k.Value), true
			}
		}
		return "", false
	}
	seen := map[string]bool{}
	bad := map[string]bool{}
	pos := map[string]token.Pos{}
	what := map[string]string{}
	var keys []string
	r.Count("nilable_functions", len(nilable))
	for _, s := range sites {
		key := fmt.Sprintf("%s|result of %s", core.SSAName(s.fn), s.what)
		if name, ok := constArg(s.call); ok {
			key += "(" + name + ")"
		}
		if !seen[key] {
			seen[key] = true
			keys = append(keys, key)
			pos[key] = s.deref.Pos()
			what[key] = s.what
		}
		if !s.ok {
			// package initialisation looks its own, just defined, names up: not Lisp input
			if strings.HasPrefix(s.fn.Name(), "init") || (s.fn.Parent() != nil && strings.HasPrefix(s.fn.Parent().Name(), "init")) {
				continue
			}
			// every possible value of the name argument is a constant registered in common-lisp
			if names := constNamesOf(s.call); len(names) > 0 {
				all := true
				for _, nm := range names {
					if c.ByName("pkg/cl", nm) == nil {
						all = false
					}
				}
				if all && (s.what == "GetFunc" || s.what == "FindFunc" || s.what == "MustFindFunc") {
					continue
				}
			}
			// a constant name that is known to be registered
			if name, isC := constArg(s.call); isC {
				switch s.what {
				case "FindClass":
					if stdCond[name] {
						continue
					}
				case "GetFunc", "GetVarVal", "FindFunc":
					if c.ByName("pkg/cl", name) != nil || s.fn.Name() == "init" {
						continue
					}
				}
			}
			bad[key] = true
			pos[key] = s.deref.Pos()
		}
	}
	for _, key := range keys {
		if why, ok := nilretExceptions[key]; ok && bad[key] {
			r.Hold(rule, key, c.Pos(pos[key]), "accepted by reading: "+why)
			continue
		}
		r.Decide(!bad[key], rule, key, c.Pos(pos[key]), fmt.Sprintf("%s can return nil; every dereference of its result is under a nil test (or the name is a constant registered at start-up): %v", what[key], !bad[key]))
	}
}

// nilableFns: the table being built (module functions whose result i can be nil), read by canBeNil for calls.
var nilableFns map[*ssa.Function]map[int]bool

func canBeNil(v ssa.Value, depth int, seen map[ssa.Value]bool, noReturn func(*ssa.Function) bool) bool {
	if depth > 5 || seen[v] {
		return false
	}
	seen[v] = true
	switch x := v.(type) {
	case *ssa.Const:
		return x.IsNil()
	case *ssa.Phi:
		for i, e := range x.Edges {
			// the value a raising predecessor would have carried never arrives
			if i < len(x.Block().Preds) && blockRaises(x.Block().Preds[i], noReturn) {
				continue
			}
			if canBeNil(e, depth+1, seen, noReturn) {
				return true
			}
		}
	case *ssa.MakeInterface:
		return false
	case *ssa.Call:
		if cal := x.Call.StaticCallee(); cal != nil && nilableFns[cal] != nil && nilableFns[cal][0] && cal.Signature.Results().Len() == 1 {
			return true
		}
	case *ssa.UnOp:
		// a named result loaded at the return: any nil stored, or never stored on some path (zero value)
		if al, ok := x.X.(*ssa.Alloc); ok {
			for _, rf := range *al.Referrers() {
				if st, ok := rf.(*ssa.Store); ok && st.Addr == ssa.Value(al) && canBeNil(st.Val, depth+1, seen, noReturn) {
					return true
				}
			}
		}
	case *ssa.Lookup:
		return true // a map look-up yields the zero value when the key is absent
	case *ssa.Extract:
		if lk, ok := x.Tuple.(*ssa.Lookup); ok && x.Index == 0 {
			_ = lk
			return true
		}
	}
	return false
}

// receiverNilSafe: the method compares its receiver with nil before anything else can dereference it.
func receiverNilSafe(fn *ssa.Function) bool {
	if fn.Blocks == nil || len(fn.Params) == 0 {
		return false
	}
	recv := fn.Params[0]
	b := fn.Blocks[0]
	if ifi, ok := b.Instrs[len(b.Instrs)-1].(*ssa.If); ok {
		if bo, ok := ifi.Cond.(*ssa.BinOp); ok && (bo.X == ssa.Value(recv) || bo.Y == ssa.Value(recv)) {
			return true
		}
	}
	return false
}

var nilretExceptions = map[string]string{
	"slip.(List).Eval|result of ListToFunc":               "ListToFunc returns nil only for an empty list; the call is inside `if 0 < len(obj)`",
	"pkg/gi.(systemRunCaller).Call|result of CompileList": "not judged: CompileList returns nil for a list whose head is neither a symbol nor a lambda expression; no system definition reaching this with such a list was produced",
	"pkg/gi.fetchCall|result of CompileList":              "not judged: as systemRunCaller",
	"pkg/gi.loadCall|result of CompileList":               "not judged: as systemRunCaller",
	"pkg/bag.SetCompileScript$1|result of GetFunc":        "not judged: the name is that of a function object that was just resolved by name in the same package",
}

// blockRaises: the block calls a function that never returns before it ends.
func blockRaises(b *ssa.BasicBlock, noReturn func(*ssa.Function) bool) bool {
	for _, in := range b.Instrs {
		if call, ok := in.(*ssa.Call); ok {
			if cal := call.Call.StaticCallee(); cal != nil && noReturn(cal) {
				return true
			}
			if bi, ok := call.Call.Value.(*ssa.Builtin); ok && bi.Name() == "panic" {
				return true
			}
		}
	}
	return false
}

// retNonNil: the value returned from block b is known non-nil: it cannot be nil by construction, a nil test holds
// on every path, or it is a phi all of whose live incoming values are non-nil at the end of their predecessor.
func retNonNil(g *core.Guards, v ssa.Value, b *ssa.BasicBlock, extra *core.EdgeFact, noReturn func(*ssa.Function) bool, depth int) bool {
	if depth > 5 {
		return false
	}
	if !canBeNil(v, 0, map[ssa.Value]bool{}, noReturn) {
		return true
	}
	if nonNilAt(g, v, b, extra, 0) {
		return true
	}
	if x, ok := v.(*ssa.Phi); ok {
		pb := x.Block()
		for i, e := range x.Edges {
			if i >= len(pb.Preds) {
				return false
			}
			pred := pb.Preds[i]
			if g.Facts(pred) == nil || g.Dead[pred] || e == ssa.Value(x) {
				continue
			}
			var ef *core.EdgeFact
			if ifi, ok := pred.Instrs[len(pred.Instrs)-1].(*ssa.If); ok && len(pred.Succs) == 2 && pred.Succs[0] != pred.Succs[1] {
				ef = &core.EdgeFact{If: ifi, Branch: pred.Succs[0] == pb}
			}
			if !retNonNil(g, e, pred, ef, noReturn, depth+1) {
				return false
			}
		}
		return true
	}
	return false
}

// constNamesOf: the string constants a call's string argument can be (a constant, or a phi / single-store local of
// constants); empty when some possibility is not a constant.
func constNamesOf(call *ssa.Call) []string {
	for _, a := range call.Call.Args {
		if bt, ok := a.Type().Underlying().(*types.Basic); !ok || bt.Kind() != types.String {
			continue
		}
		var out []string
		okAll := true
		seen := map[ssa.Value]bool{}
		var walk func(v ssa.Value, d int)
		walk = func(v ssa.Value, d int) {
			if d > 4 || seen[v] {
				return
			}
			seen[v] = true
			switch x := v.(type) {
			case *ssa.Const:
				if x.Value != nil && x.Value.Kind() == constant.String {
					out = append(out, constant.StringVal(x.Value))
				} else {
					okAll = false
				}
			case *ssa.Phi:
				for _, e := range x.Edges {
					walk(e, d+1)
				}
			case *ssa.UnOp:
				if al, ok := x.X.(*ssa.Alloc); ok {
					n := 0
					for _, rf := range *al.Referrers() {
						if st, ok := rf.(*ssa.Store); ok && st.Addr == ssa.Value(al) {
							n++
							walk(st.Val, d+1)
						}
					}
					if n == 0 {
						okAll = false
					}
					return
				}
				okAll = false
			default:
				okAll = false
			}
		}
		walk(a, 0)
		if okAll && len(out) > 0 {
			return out
		}
	}
	return nil
}
