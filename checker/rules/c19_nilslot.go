package rules

import (
	"go/constant"
	"go/token"
	"sort"

	"golang.org/x/tools/go/ssa"

	"slipcheck/core"
)

// c19nilslot: the load form of an instance is (let ((inst (make-instance 'class))) (setf (slot-value inst 'slot)
// value) ... inst): make-instance gives every slot its initform or default, so every bound slot has to be
// restored, nil included - a slot whose default is 5 and whose value is nil reloads as 5 when the writer skips
// it "to keep the form short". Two independent seeded changes did exactly that, in the two writers. The rule:
// in a function that writes (setf (slot-value ...)) forms, the value read from a slot (SlotValue, LocalGet) is
// never compared with nil: the only value that may be skipped is the Unbound marker.
func c19nilslot(c *core.Ctx, r *core.Reporter) {
	const rule = "C19.nilslot"
	r.Rule(rule, "a function that writes (setf (slot-value ...)) restore forms never branches on a slot's value being nil: every bound slot, also one bound to nil, is restored", 2)
	var fns []*ssa.Function
	for _, fn := range c.ModuleFuncs() {
		if fn.Blocks == nil || fn.Pkg == nil || takesTestingT(fn) {
			continue
		}
		hasSlotValue, hasSetf := false, false
		for _, b := range fn.Blocks {
			for _, in := range b.Instrs {
				var ops [8]*ssa.Value
				for _, op := range in.Operands(ops[:0]) {
					if k, ok := (*op).(*ssa.Const); ok && k.Value != nil && k.Value.Kind() == constant.String {
						switch constant.StringVal(k.Value) {
						case "slot-value":
							hasSlotValue = true
						case "setf":
							hasSetf = true
						}
					}
				}
			}
		}
		if hasSlotValue && hasSetf {
			fns = append(fns, fn)
		}
	}
	sort.Slice(fns, func(i, j int) bool { return core.SSAName(fns[i]) < core.SSAName(fns[j]) })
	for _, fn := range fns {
		reads, bad := 0, ""
		for _, b := range fn.Blocks {
			for _, in := range b.Instrs {
				ex, ok := in.(*ssa.Extract)
				if !ok || ex.Index != 0 {
					continue
				}
				call, ok := ex.Tuple.(*ssa.Call)
				if !ok {
					continue
				}
				name := ""
				if call.Call.IsInvoke() {
					name = call.Call.Method.Name()
				} else if f := call.Call.StaticCallee(); f != nil {
					name = f.Name()
				}
				if name != "SlotValue" && name != "LocalGet" {
					continue
				}
				reads++
				if ex.Referrers() == nil {
					continue
				}
				for _, rf := range *ex.Referrers() {
					bo, ok := rf.(*ssa.BinOp)
					if !ok || (bo.Op != token.EQL && bo.Op != token.NEQ) {
						continue
					}
					for _, side := range []ssa.Value{bo.X, bo.Y} {
						if k, ok := side.(*ssa.Const); ok && k.IsNil() {
							bad = c.Pos(bo.Pos())
						}
					}
				}
			}
		}
		if reads == 0 {
			continue
		}
		r.Decide(bad == "", rule, core.SSAName(fn), c.Pos(fn.Pos()), orOKs(map[bool]string{true: "", false: "the value read from a slot is compared with nil at " + bad + ": a slot bound to nil is not restored"}[bad == ""], "slot values are written whatever they are; only the Unbound marker is skipped"))
	}
}
