package rules

import (
	"go/constant"
	"go/token"
	"sort"

	"golang.org/x/tools/go/ssa"

	"slipcheck/core"
)

// c19nilslot: the load form of an instance is (let ((inst (make-instance 'class))) (setf (slot-value inst 'slot)
// value) ... inst): make-instance gives every slot its initform or default, so every bound slot has to be
// restored, nil included - a slot whose default is 5 and whose value is nil reloads as 5 when the writer skips
// it "to keep the form short". Two independent seeded changes did exactly that, in the two writers. The rule:
// in a function that writes (setf (slot-value ...)) forms, the value read from a slot (SlotValue, LocalGet) is
// never compared with nil: the only value that may be skipped is the Unbound marker.
func c19nilslot(c *core.Ctx, r *core.Reporter) {
	const rule = "C19.nilslot"
	r.Rule(rule, "a function that writes (setf (slot-value ...)) restore forms never branches on a slot's value being nil: every bound slot, also one bound to nil, is restored", 2)
	var fns []*ssa.Function
	for _, fn := range c.ModuleFuncs() {
		if fn.Blocks == nil || fn.Pkg == nil || takesTestingT(fn) {
			continue
		}
		hasSlotValue, hasSetf := false, false
		for _, b := range fn.Blocks {
			for _, in := range b.Instrs {
				var ops [8]*ssa.Value
				for _, op := range in.Operands(ops[:0]) {
					if k, ok := (*op).(*ssa.Const); ok && k.Value != nil && k.Value.Kind() == constant.String {
						switch constant.StringVal(k.Value) {
						case "slot-value":
							hasSlotValue = true
						case "setf":
							hasSetf = true
						}
					}
				}
			}
		}
		if hasSlotValue && hasSetf {
			fns = append(fns, fn)
		}
	}
	sort.Slice(fns, func(i, j int) bool { return core.SSAName(fns[i]) < core.SSAName(fns[j]) })
	for _, fn := range fns {
		reads, bad := 0, ""
		for _, b := range fn.Blocks {
			for _, in := range b.Instrs {
				ex, ok := in.(*ssa.Extract)
				if !ok || ex.Index != 0 {
					continue
				}
				call, ok := ex.Tuple.(*ssa.Call)
				if !ok {
					continue
				}
				name := ""
				if call.Call.IsInvoke() {
					name = call.Call.Method.Name()
				} else if f := call.Call.StaticCallee(); f != nil {
					name = f.Name()
				}
				if name != "SlotValue" && name != "LocalGet" {
					continue
				}
				reads++
				if ex.Referrers() == nil {
					continue
				}
				for _, rf := range *ex.Referrers() {
					bo, ok := rf.(*ssa.BinOp)
					if !ok || (bo.Op != token.EQL && bo.Op != token.NEQ) {
						continue
					}
					for _, side := range []ssa.Value{bo.X, bo.Y} {
						if k, ok := side.(*ssa.Const); ok && k.IsNil() {
							bad = c.Pos(bo.Pos())
						}
					}
				}
			}
		}
		if reads == 0 {
			continue
		}
		r.Decide(bad == "", rule, core.SSAName(fn), c.Pos(fn.Pos()), orOKs(map[bool]string{true: "", false: "the value read from a slot is compared with nil at " + bad + ": a slot bound to nil is not restored"}[bad == ""], "slot values are written whatever they are; only the Unbound marker is skipped"))
	}
}

// c19nilinitform: :initform nil is an initform - a slot defined with it starts bound to nil. In the functions that
// write a definition back as source (LoadForm methods) the initform of a slot definition is never compared with
// nil to decide whether the option is written; "no initform" is the Unbound marker. A class saved without its
// :initform nil reloads with that slot unbound, and a second snapshot of the reloaded session is the same text,
// so a fixed-point comparison of texts does not show it.
func c19nilinitform(c *core.Ctx, r *core.Reporter) {
	const rule = "C19.nilinitform"
	r.Rule(rule, "in every LoadForm method that reads a slot definition's initform, the initform is not compared with nil: nil is a legal initform and is written like any other; only the Unbound marker means that none was given", 1)
	for _, fn := range c.ModuleFuncs() {
		if fn.Name() != "LoadForm" || fn.Blocks == nil || fn.Signature.Recv() == nil {
			continue
		}
		reads, bad := 0, ""
		for _, b := range fn.Blocks {
			for _, in := range b.Instrs {
				u, ok := in.(*ssa.UnOp)
				if !ok || u.Op != token.MUL {
					continue
				}
				fa, ok := u.X.(*ssa.FieldAddr)
				if !ok || fieldName(fa) != "initform" {
					continue
				}
				reads++
				if u.Referrers() == nil {
					continue
				}
				for _, rf := range *u.Referrers() {
					bo, ok := rf.(*ssa.BinOp)
					if !ok || (bo.Op != token.EQL && bo.Op != token.NEQ) {
						continue
					}
					other := bo.Y
					if other == ssa.Value(u) {
						other = bo.X
					}
					if k, ok := other.(*ssa.Const); ok && k.IsNil() {
						bad = bo.Parent().Prog.Fset.Position(bo.Pos()).String()
					}
				}
			}
		}
		if reads == 0 {
			continue
		}
		r.Decide(bad == "", rule, core.SSAName(fn), c.Pos(fn.Pos()), "the initform is compared with nil at: "+bad)
	}
}
