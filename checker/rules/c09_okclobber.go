package rules

import (
	"fmt"
	"go/token"
	"go/types"

	"golang.org/x/tools/go/ssa"

	"slipcheck/core"
	"slipcheck/lenflow"
)

// c09okclobber: `v, ok = x.(T)` gives v the zero value, nil for a pointer or an interface, when the assertion
// fails. The idiom `if w, ok = args[1].(io.Writer); ok { ... }` with w declared outside therefore clobbers w
// on the failure path: (write-string "hello" :start 1) wrote to a nil writer (bbd26b4). The rule: the value of a
// comma-ok assertion to a pointer or interface type whose ok result is tested is used as a receiver (method
// invoked, field read) only where the ok test succeeded or a nil test holds.
func c09okclobber(c *core.Ctx, r *core.Reporter) {
	const rule = "C09.okclobber"
	r.Rule(rule, "the value of a comma-ok type assertion to a pointer or interface type is used as a receiver only where its ok result was tested true (or a nil test holds): on the failure path it is nil", 200)
	an := lenflow.New(c)
	seen := map[string]int{}
	for _, fn := range c.ModuleFuncs() {
		if takesTestingT(fn) || fn.Pkg == nil || fn.Blocks == nil {
			continue
		}
		var g *core.Guards
		for _, b := range fn.Blocks {
			for _, in := range b.Instrs {
				ta, ok := in.(*ssa.TypeAssert)
				if !ok || !ta.CommaOk {
					continue
				}
				switch ta.AssertedType.Underlying().(type) {
				case *types.Pointer, *types.Interface:
				default:
					continue
				}
				var val, okv *ssa.Extract
				for _, rf := range *ta.Referrers() {
					if ex, isEx := rf.(*ssa.Extract); isEx {
						if ex.Index == 0 {
							val = ex
						} else {
							okv = ex
						}
					}
				}
				if val == nil || okv == nil || okv.Referrers() == nil || len(*okv.Referrers()) == 0 {
					continue // ok discarded: C09.nilok
				}
				// type switches and ok values that travel (phi, store) are not this idiom
				okTestedDirectly := true
				for _, rf := range *okv.Referrers() {
					switch x := rf.(type) {
					case *ssa.If:
					case *ssa.UnOp:
						if x.Op != token.NOT {
							okTestedDirectly = false
						}
					default:
						okTestedDirectly = false
					}
				}
				if !okTestedDirectly {
					continue
				}
				if val.Referrers() == nil {
					continue
				}
				if g == nil {
					g = core.ComputeGuards(fn, an.NoReturn)
				}
				okAt := func(blk *ssa.BasicBlock, extra *core.EdgeFact) bool {
					test := func(f core.EdgeFact) bool {
						cond, br := f.If.Cond, f.Branch
						if un, isNot := cond.(*ssa.UnOp); isNot && un.Op == token.NOT {
							cond, br = un.X, !br
						}
						return cond == ssa.Value(okv) && br
					}
					for f := range g.Facts(blk) {
						if test(f) {
							return true
						}
					}
					return extra != nil && test(*extra)
				}
				// the value, and every phi it enters along an edge where the ok test did not succeed
				carriers := []ssa.Value{val}
				for _, rf := range *val.Referrers() {
					ph, isPhi := rf.(*ssa.Phi)
					if !isPhi {
						continue
					}
					for i, e := range ph.Edges {
						if e != ssa.Value(val) || i >= len(ph.Block().Preds) {
							continue
						}
						pred := ph.Block().Preds[i]
						if g.Facts(pred) == nil || g.Dead[pred] {
							continue // unreachable, or the predecessor raises and never arrives
						}
						var ef *core.EdgeFact
						if ifi, ok := pred.Instrs[len(pred.Instrs)-1].(*ssa.If); ok && len(pred.Succs) == 2 && pred.Succs[0] != pred.Succs[1] {
							ef = &core.EdgeFact{If: ifi, Branch: pred.Succs[0] == ph.Block()}
						}
						if !okAt(pred, ef) {
							carriers = append(carriers, ph)
						}
					}
				}
				var uses []ssa.Instruction
				var refsAll []ssa.Instruction
				for _, cv := range carriers {
					if cv.Referrers() != nil {
						refsAll = append(refsAll, *cv.Referrers()...)
					}
				}
				isCarrier := func(v ssa.Value) bool {
					for _, cv := range carriers {
						if cv == v {
							return true
						}
					}
					return false
				}
				_ = isCarrier
				for _, rf := range refsAll {
					switch x := rf.(type) {
					case *ssa.Return:
						// handed to the caller, which has no ok to test
						uses = append(uses, x)
					case *ssa.FieldAddr:
						if isCarrier(x.X) {
							uses = append(uses, x)
						}
					case *ssa.UnOp:
						if x.Op == token.MUL && isCarrier(x.X) {
							uses = append(uses, x)
						}
					case ssa.CallInstruction:
						cc := x.Common()
						if cc.IsInvoke() && isCarrier(cc.Value) {
							uses = append(uses, x)
						} else if !cc.IsInvoke() && len(cc.Args) > 0 && isCarrier(cc.Args[0]) && cc.StaticCallee() != nil && cc.StaticCallee().Signature.Recv() != nil {
							if _, isPtr := ta.AssertedType.Underlying().(*types.Pointer); isPtr {
								uses = append(uses, x)
							}
						}
					}
				}
				if len(uses) == 0 {
					continue
				}
				key := fmt.Sprintf("%s|%s", core.SSAName(fn), types.TypeString(ta.AssertedType, func(pk *types.Package) string { return pk.Name() }))
				seen[key]++
				if n := seen[key]; n > 1 {
					key = fmt.Sprintf("%s#%d", key, n)
				}
				bad := ""
				for _, u := range uses {
					facts := g.Facts(u.Block())
					if facts == nil {
						continue // unreachable
					}
					if okAt(u.Block(), nil) {
						continue
					}
					nonNil := false
					for _, cv := range carriers {
						if nonNilAt(g, cv, u.Block(), nil, 0) {
							nonNil = true
						}
					}
					if nonNil {
						continue
					}
					bad = fmt.Sprintf("used as a receiver at %s where the assertion may have failed", c.Pos(u.Pos()))
				}
				if why, ok := okclobberExceptions[key]; ok && bad != "" {
					r.Hold(rule, key, c.Pos(ta.Pos()), "accepted by reading: "+why)
					continue
				}
				r.Decide(bad == "", rule, key, c.Pos(ta.Pos()), orOKs(bad, "every receiver use lies under the successful ok test"))
			}
		}
	}
}

var okclobberExceptions = map[string]string{
	"pkg/clos.DefStandardClass$1|*clos.StandardClass": "inheritCheck maps nil to nil on purpose: the failed assertion is returned only when the class argument itself is nil (`!ok && c != nil` raises), and the caller tests the result",
}
