package rules

import (
	"go/token"
	"go/types"

	"golang.org/x/tools/go/ssa"

	"slipcheck/core"
)

// c13qualified: pkg::name reaches any definition of pkg, pkg:name the exported ones. slip.UnpackName splits the
// name and reports the :: form as its third result; Package.Set writes an unexported variable of another package
// only when told the access is private. Scope.Set dropped the flag, so (setq pa::pv 3) from another package did
// nothing, silently, and the qualified read handed the internal Unbound marker out as a value (51b75f5). Rules:
//
//	set: a function that splits a name with UnpackName and then calls (*Package).Set passes the privates argument;
//	get: a Scope method that returns the result of VarVal.Value compares it with Unbound first.
func c13qualified(c *core.Ctx, r *core.Reporter) {
	const rule = "C13.qualified"
	r.Rule(rule, "a function that splits pkg::name with UnpackName passes the private flag on to Package.Set; a Scope method returning VarVal.Value() compares it with Unbound first", 3)
	unpack := c.SSAFunc(c.LookupFunc("", "UnpackName"))
	pset := c.SSAFunc(c.LookupFunc("", "Package.Set"))
	value := c.SSAFunc(c.LookupFunc("", "VarVal.Value"))
	if unpack == nil || pset == nil || value == nil {
		r.Undecided(rule, "slip.UnpackName / Package.Set / VarVal.Value", "-", "anchor does not resolve")
		return
	}
	for _, fn := range c.ModuleFuncs() {
		if fn.Blocks == nil || takesTestingT(fn) {
			continue
		}
		splits := false
		var sets []*ssa.Call
		var values []*ssa.Call
		for _, b := range fn.Blocks {
			for _, in := range b.Instrs {
				call, ok := in.(*ssa.Call)
				if !ok {
					continue
				}
				switch call.Call.StaticCallee() {
				case unpack:
					splits = true
				case pset:
					sets = append(sets, call)
				case value:
					values = append(values, call)
				}
			}
		}
		if splits {
			n := 0
			for _, call := range sets {
				if !fromUnpack(call.Call.Args[0], unpack, map[ssa.Value]bool{}) {
					continue // a set in the current package: nothing was qualified
				}
				i := n
				n++
				key := core.SSAName(fn) + "|set"
				if i > 0 {
					key += "#" + string(rune('1'+i))
				}
				last := call.Call.Args[len(call.Call.Args)-1]
				k, isConst := last.(*ssa.Const)
				passes := !(isConst && k.IsNil())
				r.Decide(passes, rule, key, c.Pos(call.Pos()), "splits a qualified name and calls Package.Set; private flag passed: "+boolStr(passes))
			}
		}
		if recv := fn.Signature.Recv(); recv != nil && len(values) > 0 && fn.Pkg != nil && fn.Pkg.Pkg.Path() == core.SlipPath {
			rt := recv.Type()
			if p, ok := rt.(*types.Pointer); ok {
				rt = p.Elem()
			}
			if !core.IsNamed(rt, core.SlipPath, "Scope") {
				continue
			}
			for i, call := range values {
				returned, compared := false, false
				for _, rf := range *call.Referrers() {
					switch x := rf.(type) {
					case *ssa.Return:
						returned = true
					case *ssa.BinOp:
						if x.Op == token.EQL || x.Op == token.NEQ {
							for _, o := range []ssa.Value{x.X, x.Y} {
								if mi, ok := o.(*ssa.MakeInterface); ok {
									if k, ok := mi.X.(*ssa.Const); ok && core.IsNamed(k.Type(), core.SlipPath, "unbound") {
										compared = true
									}
								}
							}
						}
					}
				}
				if !returned {
					continue
				}
				key := core.SSAName(fn) + "|get"
				if i > 0 {
					key += "#" + string(rune('1'+i))
				}
				r.Decide(compared, rule, key, c.Pos(call.Pos()), "returns VarVal.Value(); compared with Unbound first: "+boolStr(compared))
			}
		}
	}
}

// fromUnpack: the value is the package result of an UnpackName call, possibly merged with others by a phi.
func fromUnpack(v ssa.Value, unpack *ssa.Function, seen map[ssa.Value]bool) bool {
	if seen[v] {
		return false
	}
	seen[v] = true
	switch x := v.(type) {
	case *ssa.Extract:
		if call, ok := x.Tuple.(*ssa.Call); ok && call.Call.StaticCallee() == unpack && x.Index == 0 {
			return true
		}
	case *ssa.Phi:
		for _, e := range x.Edges {
			if fromUnpack(e, unpack, seen) {
				return true
			}
		}
	}
	return false
}
