// Package rules holds one file per property. Each rule enumerates a finite
// set of obligations from the resolved program and decides each one.
package rules

import (
	"sort"

	"slipcheck/core"
)

// Prop describes the machinery for one property.
type Prop struct {
	ID          string
	Technique   string
	Explanation string
	NotCovered  string
	Trusted     []string
	Run         func(c *core.Ctx, r *core.Reporter)
}

var props = map[string]*Prop{}

func register(p *Prop) { props[p.ID] = p }

// Get returns the property machinery by id.
func Get(id string) *Prop { return props[id] }

// IDs lists the implemented properties.
func IDs() []string {
	var out []string
	for id := range props {
		out = append(out, id)
	}
	sort.Strings(out)
	return out
}

var commonTrusted = []string{
	"go/packages + go/types (go1.26.8) resolve the same program the build compiles (default build tags, GOOS=linux GOARCH=amd64)",
	"golang.org/x/tools v0.50.0 go/ssa lowering and CHA/VTA call graphs are sound for the constructs used",
	"reflection, plugins and cgo are not followed",
}
