package rules

import (
	"fmt"
	"go/constant"
	"go/token"
	"go/types"
	"sort"
	"strings"

	"golang.org/x/tools/go/ssa"

	"slipcheck/core"
	"slipcheck/lenflow"
)

func init() {
	register(&Prop{
		ID:        "C09",
		Technique: "SSA forward dataflow (lower bound of len) with context-sensitive callee summaries, caller guarantees and no-return pruning; dominance of type tests",
		Explanation: "Decides, for every constant or len-relative index/slice expression on an Object list anywhere in the module, that the list is provably long enough on every path reaching it " +
			"(C09.idx); the same for x[len(x)-k] on slices of other element types (C09.rel); and that every read of the format argument vector is dominated by an argument-count test (C09.fmt). This is a necessary condition of 'no Lisp input faults the host' for the index-out-of-range fault class; it does not decide termination, allocation bounds or nil dereference.",
		NotCovered: "termination, allocation bounds, nil dereference in general, faults in third-party packages",
		Trusted:    commonTrusted,
		Run:        runC09,
	})
}

func isObjectSlice(t types.Type) bool {
	sl, ok := t.Underlying().(*types.Slice)
	if !ok {
		return false
	}
	return core.IsNamed(sl.Elem(), core.SlipPath, "Object")
}

// idxSite is one enumerated index or slice expression.
type idxSite struct {
	fn    *ssa.Function
	in    ssa.Instruction
	kind  string // idx | low | high | last | hilen
	k     int
	need  int // required lower bound of len(root)
	root  ssa.Value
	have  int
	desc  string
	state lenflow.State
}

func rootDesc(v ssa.Value) string {
	switch x := v.(type) {
	case *ssa.Parameter:
		return "param:" + x.Name()
	case *ssa.Phi:
		if x.Comment != "" {
			return "phi:" + x.Comment
		}
		return "phi"
	case *ssa.TypeAssert:
		return "assert:" + types.TypeString(x.AssertedType, func(p *types.Package) string { return p.Name() })
	case *ssa.Extract:
		return fmt.Sprintf("extract#%d(%s)", x.Index, rootDesc(x.Tuple))
	case *ssa.Call:
		if g := x.Call.StaticCallee(); g != nil {
			return "call:" + g.Name()
		}
		if x.Call.IsInvoke() {
			return "invoke:" + x.Call.Method.Name()
		}
		return "call"
	case *ssa.UnOp:
		if fa, ok := x.X.(*ssa.FieldAddr); ok {
			return "field:" + fieldName(fa)
		}
		if _, ok := x.X.(*ssa.Alloc); ok {
			return "local"
		}
		if g, ok := x.X.(*ssa.Global); ok {
			return "global:" + g.Name()
		}
		return "load"
	case *ssa.Slice:
		return "slice"
	case *ssa.MakeSlice:
		return "make"
	case *ssa.Field:
		return "field"
	case *ssa.FreeVar:
		return "freevar:" + x.Name()
	case *ssa.Lookup:
		return "maplookup"
	}
	return fmt.Sprintf("%T", v)
}

func fieldName(fa *ssa.FieldAddr) string {
	t := fa.X.Type().Underlying().(*types.Pointer).Elem().Underlying().(*types.Struct)
	return t.Field(fa.Field).Name()
}

func runC09(c *core.Ctx, r *core.Reporter) {
	c09idx(c, r)
	c09rel(c, r)
	c09sub(c, r)
	c09strk(c, r)
	c09okclobber(c, r)
	c09pairs(c, r)
	c09kany(c, r)
	c09ifaceeq(c, r)
	c09kwcross(c, r)
	c09fmt(c, r)
	c09div(c, r)
	c09assert(c, r)
	c09nilok(c, r)
	c09varassert(c, r)
	c09bounds(c, r)
	c09kconst(c, r)
	c09alloc(c, r)
	c09nilrecv(c, r)
	c09nilret(c, r)
	c09errnil(c, r)
	hashKeyRules(c, r, "C09.key", false)
	runRuneUnits(c, r, "C09.units", 100)
	r.Rule("C09.nilphi", "a pointer variable that is nil on some path (a branch leaves it unassigned, or it was found nil and flows on unchanged) is dereferenced only where the facts that hold exclude that path (per incoming edge of the phi; edges from raising blocks do not count)", 15)
	nilPhi(c, r, "C09.nilphi", func(fn *ssa.Function) bool {
		rel := core.RelPkg(fn.Pkg.Pkg.Path())
		return rel == "slip" || strings.HasPrefix(rel, "pkg/")
	}, lenflow.New(c).NoReturn)
}

// derivesFromLispInt: v is computed (conversions, +/- constants) from a slip.Fixnum value or an Int64() result.
func derivesFromLispInt(v ssa.Value, depth int) bool {
	if depth > 6 {
		return false
	}
	switch x := v.(type) {
	case *ssa.Convert:
		if core.IsNamed(x.X.Type(), core.SlipPath, "Fixnum") {
			return true
		}
		return derivesFromLispInt(x.X, depth+1)
	case *ssa.ChangeType:
		return derivesFromLispInt(x.X, depth+1)
	case *ssa.BinOp:
		if x.Op == token.ADD || x.Op == token.SUB {
			return derivesFromLispInt(x.X, depth+1) || derivesFromLispInt(x.Y, depth+1)
		}
	case *ssa.Call:
		if x.Call.IsInvoke() && x.Call.Method.Name() == "Int64" {
			return true
		}
		if g := x.Call.StaticCallee(); g != nil && g.Name() == "Int64" {
			return true
		}
	case *ssa.Phi:
		for _, e := range x.Edges {
			if derivesFromLispInt(e, depth+1) {
				return true
			}
		}
	}
	return false
}

// c09varassert: single-result type assertions on the value of a special variable.
func c09varassert(c *core.Ctx, r *core.Reporter) {
	const rule = "C09.varassert"
	r.Rule(rule, "every single-result type assertion on the value of a named variable looked up in the scope (Scope.Get with a constant name other than the system-bound self) is dominated by a successful comma-ok test of the same value: a program may bind any special variable (*package*, *standard-output*, *print-right-margin*, ...) to any object, and a failed single-result assertion is a Go run-time panic", 8)
	an := lenflow.New(c)
	seen := map[string]int{}
	for _, fn := range c.ModuleFuncs() {
		if takesTestingT(fn) || fn.Pkg == nil {
			continue
		}
		var g *core.Guards
		for _, b := range fn.Blocks {
			for _, in := range b.Instrs {
				ta, ok := in.(*ssa.TypeAssert)
				if !ok || ta.CommaOk {
					continue
				}
				call, ok := ta.X.(*ssa.Call)
				if !ok {
					continue
				}
				callee := call.Call.StaticCallee()
				if callee == nil || callee.Name() != "Get" || callee.Signature.Recv() == nil || callee.Pkg == nil || callee.Pkg.Pkg.Path() != core.SlipPath {
					continue
				}
				rt := callee.Signature.Recv().Type()
				if pt, isP := rt.(*types.Pointer); isP {
					rt = pt.Elem()
				}
				if !core.IsNamed(rt, core.SlipPath, "Scope") || len(call.Call.Args) < 2 {
					continue
				}
				name, isConst := core.StringConst(call.Call.Args[1])
				if !isConst {
					name = "?"
				}
				if name == "self" {
					continue
				}
				key := fmt.Sprintf("%s|%s.(%s)", core.SSAName(fn), name, types.TypeString(ta.AssertedType, func(pk *types.Package) string { return pk.Name() }))
				seen[key]++
				if n := seen[key]; n > 1 {
					key = fmt.Sprintf("%s#%d", key, n)
				}
				if g == nil {
					g = core.ComputeGuards(fn, an.NoReturn)
				}
				proven := false
				for _, rf := range *call.Referrers() {
					t2, isTA := rf.(*ssa.TypeAssert)
					if !isTA || !t2.CommaOk || !(types.Identical(t2.AssertedType, ta.AssertedType) || types.AssignableTo(t2.AssertedType, ta.AssertedType)) {
						continue
					}
					for _, rf2 := range *t2.Referrers() {
						if ex, isEx := rf2.(*ssa.Extract); isEx && ex.Index == 1 {
							for f := range g.Facts(b) {
								if f.If.Cond == ssa.Value(ex) && f.Branch {
									proven = true
								}
							}
						}
					}
				}
				if proven {
					r.Hold(rule, key, c.Pos(ta.Pos()), "dominated by a successful type test of the same value")
					continue
				}
				if ex, ok := varAssertExceptions[key]; ok {
					r.Hold(rule, key, c.Pos(ta.Pos()), "accepted by reading: "+ex)
					continue
				}
				r.Violate(rule, key, c.Pos(ta.Pos()), "the variable's value is asserted without a test")
			}
		}
	}
}

const topScopeReason = "reads the variable from the REPL's own top-level scope (or a fresh scope), which sees only the global value; the global setter rejects anything that is not a stream: (setq *standard-output* 5) signals a type error"

var varAssertExceptions = map[string]string{
	"pkg/repl.(editor).initialize|*standard-input*.(io.Reader)":  topScopeReason,
	"pkg/repl.(editor).initialize|*standard-output*.(io.Writer)": topScopeReason,
	"pkg/repl.(termReader).read|*standard-input*.(io.Reader)":    topScopeReason,
	"pkg/repl.(termReader).read|*standard-output*.(io.Writer)":   topScopeReason,
	"pkg/repl.Run$1|*standard-output*.(io.Writer)":               topScopeReason,
	"pkg/repl.process$1|*standard-output*.(io.Writer)":           topScopeReason,
	"pkg/repl.process$1|*standard-output*.(io.Writer)#2":         topScopeReason,
	"pkg/repl.process$1|*standard-output*.(io.Writer)#3":         topScopeReason,
	"pkg/repl.process$1|*standard-output*.(io.Writer)#4":         topScopeReason,
	"pkg/repl.process|*standard-output*.(io.Writer)":             topScopeReason,
	"pkg/watch.displayError|*error-output*.(io.Writer)":          topScopeReason,
}

// c09nilok: v, _ := x.(*T) yields nil when x is something else; v must be nil-tested before it is used.
func c09nilok(c *core.Ctx, r *core.Reporter) {
	const rule = "C09.nilok"
	r.Rule(rule, "a pointer obtained from a comma-ok type assertion whose ok result is discarded (v, _ := x.(*T)) is dereferenced (field access, method call) only where a comparison v != nil holds on every path: for any other Lisp value v is nil and the dereference is a Go run-time panic", 10)
	an := lenflow.New(c)
	seen := map[string]int{}
	for _, fn := range c.ModuleFuncs() {
		if takesTestingT(fn) || fn.Pkg == nil {
			continue
		}
		var g *core.Guards
		for _, b := range fn.Blocks {
			for _, in := range b.Instrs {
				ta, ok := in.(*ssa.TypeAssert)
				if !ok || !ta.CommaOk {
					continue
				}
				if _, isPtr := ta.AssertedType.Underlying().(*types.Pointer); !isPtr {
					continue
				}
				var val *ssa.Extract
				okUsed := false
				for _, rf := range *ta.Referrers() {
					if ex, isEx := rf.(*ssa.Extract); isEx {
						if ex.Index == 0 {
							val = ex
						} else if refs := ex.Referrers(); refs != nil && len(*refs) > 0 {
							okUsed = true
						}
					}
				}
				if val == nil || okUsed {
					continue
				}
				key := fmt.Sprintf("%s|%s", core.SSAName(fn), types.TypeString(ta.AssertedType, func(pk *types.Package) string { return pk.Name() }))
				seen[key]++
				if n := seen[key]; n > 1 {
					key = fmt.Sprintf("%s#%d", key, n)
				}
				if g == nil {
					g = core.ComputeGuards(fn, an.NoReturn)
				}
				bad := ""
				// the value may pass through phis (loop variables); follow one level
				vals := map[ssa.Value]bool{val: true}
				for _, rf := range *val.Referrers() {
					if ph, isPhi := rf.(*ssa.Phi); isPhi {
						vals[ph] = true
					}
				}
				for v := range vals {
					refs := v.Referrers()
					if refs == nil {
						continue
					}
					for _, rf := range *refs {
						deref := false
						switch x := rf.(type) {
						case *ssa.FieldAddr:
							deref = x.X == v
						case *ssa.Field:
							deref = x.X == v
						case *ssa.UnOp:
							deref = x.Op == token.MUL && x.X == v
						case *ssa.Call:
							deref = len(x.Call.Args) > 0 && x.Call.Args[0] == v && x.Call.StaticCallee() != nil && x.Call.StaticCallee().Signature.Recv() != nil
						}
						if !deref {
							continue
						}
						if !nonNilAt(g, v, rf.Block(), nil, 0) {
							bad = fmt.Sprintf("dereferenced at %s without a nil test on every path", c.Pos(rf.Pos()))
						}
					}
				}
				r.Decide(bad == "", rule, key, c.Pos(ta.Pos()), orOKs(bad, "nil-tested before every dereference"))
			}
		}
	}
}

// nonNilAt: v is known to be non-nil at the start of block b (extra: the branch edge just taken, if any):
// a comparison with nil holds on every path, or v is a phi all of whose incoming values are non-nil at the
// end of their predecessor, or v is an address or a fresh allocation.
func nonNilAt(g *core.Guards, v ssa.Value, b *ssa.BasicBlock, extra *core.EdgeFact, depth int) bool {
	if depth > 4 {
		return false
	}
	facts := g.Facts(b)
	if extra != nil {
		f2 := map[core.EdgeFact]bool{*extra: true}
		for f := range facts {
			f2[f] = true
		}
		facts = f2
	}
	if nonNilByFacts(v, facts) {
		return true
	}
	switch x := v.(type) {
	case *ssa.Alloc, *ssa.FieldAddr, *ssa.IndexAddr, *ssa.MakeClosure:
		return true
	case *ssa.Phi:
		pb := x.Block()
		for i, e := range x.Edges {
			if i >= len(pb.Preds) {
				return false
			}
			pred := pb.Preds[i]
			if g.Facts(pred) == nil || g.Dead[pred] || e == ssa.Value(x) {
				continue
			}
			var ef *core.EdgeFact
			if ifi, ok := pred.Instrs[len(pred.Instrs)-1].(*ssa.If); ok && len(pred.Succs) == 2 && pred.Succs[0] != pred.Succs[1] {
				ef = &core.EdgeFact{If: ifi, Branch: pred.Succs[0] == pb}
			}
			if !nonNilAt(g, e, pred, ef, depth+1) {
				return false
			}
		}
		return true
	}
	return false
}

func nonNilByFacts(v ssa.Value, facts map[core.EdgeFact]bool) bool {
	isNil := func(x ssa.Value) bool {
		k, ok := x.(*ssa.Const)
		return ok && k.Value == nil
	}
	for f := range facts {
		// slip.IsNil(v) false, or !slip.IsNil(v) true
		{
			cond, outcome := f.If.Cond, f.Branch
			for {
				u, ok := cond.(*ssa.UnOp)
				if !ok || u.Op != token.NOT {
					break
				}
				cond, outcome = u.X, !outcome
			}
			if call, ok := cond.(*ssa.Call); ok && !outcome {
				if cal := call.Call.StaticCallee(); cal != nil && cal.Name() == "IsNil" && len(call.Call.Args) == 1 {
					a := call.Call.Args[0]
					for i := 0; i < 3; i++ {
						switch x := a.(type) {
						case *ssa.MakeInterface:
							a = x.X
							continue
						case *ssa.ChangeInterface:
							a = x.X
							continue
						}
						break
					}
					if a == v {
						return true
					}
				}
			}
		}
		// a successful comma-ok type assertion of v (a type switch arm): v holds a value of that type
		if ex, ok := f.If.Cond.(*ssa.Extract); ok && ex.Index == 1 && f.Branch {
			if ta, ok := ex.Tuple.(*ssa.TypeAssert); ok && ta.CommaOk && ta.X == v {
				return true
			}
		}
		bo, ok := f.If.Cond.(*ssa.BinOp)
		if !ok {
			continue
		}
		if !((bo.X == v && isNil(bo.Y)) || (bo.Y == v && isNil(bo.X))) {
			continue
		}
		if (bo.Op == token.NEQ && f.Branch) || (bo.Op == token.EQL && !f.Branch) {
			return true
		}
	}
	return false
}

const ruleAssert = "C09.assert"

// listElemLoad: v is a load of an element of a list that is a parameter of the function (or a reslice of one).
func listElemLoad(v ssa.Value) (*ssa.IndexAddr, *ssa.Parameter, bool) {
	u, ok := v.(*ssa.UnOp)
	if !ok || u.Op != token.MUL {
		return nil, nil, false
	}
	ia, ok := u.X.(*ssa.IndexAddr)
	if !ok {
		return nil, nil, false
	}
	base := ia.X
	for i := 0; i < 4; i++ {
		if sl, ok := base.(*ssa.Slice); ok {
			base = sl.X
			continue
		}
		break
	}
	p, ok := base.(*ssa.Parameter)
	if !ok || !isObjectSlice(p.Type()) {
		return nil, nil, false
	}
	return ia, p, true
}

// sameElem: two loads denote the same list element: the same SSA value, or loads of the same slot
// (same base value, same constant index).
func sameElem(a, b ssa.Value) bool {
	if a == b {
		return true
	}
	ia, _, ok1 := listElemLoad(a)
	ib, _, ok2 := listElemLoad(b)
	if !ok1 || !ok2 || ia.X != ib.X {
		return false
	}
	ka, oka := ia.Index.(*ssa.Const)
	kb, okb := ib.Index.(*ssa.Const)
	return oka && okb && ka.Value != nil && kb.Value != nil && constant.Compare(ka.Value, token.EQL, kb.Value)
}

// c09assert: single-result type assertions on elements of a list parameter.
func c09assert(c *core.Ctx, r *core.Reporter) {
	r.Rule(ruleAssert, "every single-result type assertion x.(T) whose operand is an element loaded from a list parameter of the function (its argument list, or a list handed in by its caller) is reached only through the success edge of a comma-ok assertion or type-switch case of the same element to T (or to a type that implies T): a failed single-result assertion is a Go run-time panic (interface conversion), not a Lisp condition", 12)
	an := lenflow.New(c)
	seen := map[string]int{}
	for _, fn := range c.ModuleFuncs() {
		if takesTestingT(fn) || fn.Pkg == nil {
			continue
		}
		var g *core.Guards
		// comma-ok assertions in this function
		var tests []*ssa.TypeAssert
		for _, b := range fn.Blocks {
			for _, in := range b.Instrs {
				if ta, ok := in.(*ssa.TypeAssert); ok && ta.CommaOk {
					tests = append(tests, ta)
				}
			}
		}
		for _, b := range fn.Blocks {
			for _, in := range b.Instrs {
				ta, ok := in.(*ssa.TypeAssert)
				if !ok || ta.CommaOk {
					continue
				}
				ia, p, ok := listElemLoad(ta.X)
				if !ok {
					continue
				}
				idx := "i"
				if k, isK := ia.Index.(*ssa.Const); isK && k.Value != nil {
					idx = k.Value.ExactString()
				}
				key := fmt.Sprintf("%s|%s[%s].(%s)", core.SSAName(fn), p.Name(), idx, types.TypeString(ta.AssertedType, func(pk *types.Package) string { return pk.Name() }))
				seen[key]++
				if n := seen[key]; n > 1 {
					key = fmt.Sprintf("%s#%d", key, n)
				}
				if g == nil {
					g = core.ComputeGuards(fn, an.NoReturn)
				}
				facts := g.Facts(b)
				proven := false
				for _, t2 := range tests {
					if !sameElem(t2.X, ta.X) {
						continue
					}
					if !types.Identical(t2.AssertedType, ta.AssertedType) && !types.AssignableTo(t2.AssertedType, ta.AssertedType) {
						continue
					}
					// the ok result must be true on every path here
					for _, rf := range *t2.Referrers() {
						ex, ok := rf.(*ssa.Extract)
						if !ok || ex.Index != 1 {
							continue
						}
						for f := range facts {
							if f.If.Cond == ssa.Value(ex) && f.Branch {
								proven = true
							}
						}
					}
				}
				if proven {
					r.Hold(ruleAssert, key, c.Pos(ta.Pos()), "dominated by a successful type test of the same element")
					continue
				}
				if ex, ok := assertExceptions[key]; ok {
					r.Hold(ruleAssert, key, c.Pos(ta.Pos()), "accepted by reading: "+ex)
					continue
				}
				if why, ok := assertNotJudged[key]; ok {
					r.Infof("not judged %s %s at %s: %s", ruleAssert, key, c.Pos(ta.Pos()), why)
					continue
				}
				r.Violate(ruleAssert, key, c.Pos(ta.Pos()), "no successful type test of this element dominates the assertion")
			}
		}
	}
}

const mapValidated = "an earlier loop over the same arguments asserts each one with comma-ok and raises a type error otherwise; elements of the argument slice are not reassigned in between"

var assertExceptions = map[string]string{
	"pkg/cl.(Mapc).Call|args[i].(slip.List)":                  mapValidated,
	"pkg/cl.(Mapcan).Call|args[i].(slip.List)":                mapValidated,
	"pkg/cl.(Mapcar).Call|args[i].(slip.List)":                mapValidated,
	"pkg/cl.(Mapcon).Call|args[i].(slip.List)":                mapValidated,
	"pkg/cl.(Mapl).Call|args[i].(slip.List)":                  mapValidated,
	"pkg/cl.(Maplist).Call|args[i].(slip.List)":               mapValidated,
	"pkg/cl.(Ecase).Call|args[i].(slip.List)":                 "the first loop validates every clause as a non-empty list (TypePanic otherwise) before this loop runs",
	"pkg/cl.(Etypecase).Call|args[i].(slip.List)":             "as ecase: the first loop validates every clause",
	"pkg/cl.(Rotatef).Call|args[i].(slip.Placer)":             "the first loop raises a type error for every argument that is not a Placer",
	"pkg/cl.(Rotatef).Call|args[i].(slip.Placer)#2":           "as the line above",
	"pkg/cl.(Shiftf).Call|args[i].(slip.Placer)":              "the first loop raises a type error for every argument that is not a Placer",
	"pkg/cl.(Shiftf).Call|args[0].(slip.Placer)":              "as the line above",
	"pkg/gi.(Select).Call|args[i].(slip.List)":                "prepClauses is called first and raises a type error for any clause that is not a non-empty list",
	"pkg/gi.(Select).reflectClauses|clauses[i].(slip.List)":   "only called from Select.Call after prepClauses validated every clause",
	"pkg/gi.(Select).reflectClauses|clauses[i].(slip.List)#2": "as the line above",
	"slip.(BitVector).Adjust|initContent[i].(slip.Integer)":   "an earlier loop in the same function raises a type error unless every element is the integer 0 or 1",
	"slip.(Octets).Adjust|initContent[i].(slip.Integer)":      "an earlier loop in the same function raises a type error unless every element is an integer in 0..255",
	"pkg/cl.replaceTree|subs[i].(slip.List)":                  "nsublis validates the association list (every element a cons) before walking the tree: (nsublis '(1) '(a)) signals a type error",
	"pkg/cl.subTree|subs[i].(slip.List)":                      "sublis validates the association list before walking the tree: (sublis '(1) '(a)) signals a type error",
	"pkg/net.filterSocketList|list[i].(*flavors.Instance)":    "the same lists were validated element by element by setSocketSets a few lines earlier in socket-select",
}

var assertNotJudged = map[string]string{
	"pkg/cl.(WriteByte).Call|args[1].(slip.Stream)": "reached only when Write fails on an io.Writer that is not a slip.Stream; no such Lisp object was found",
	"pkg/watch.formError|list[3].(slip.String)":     "operand is a message received from a watch server over the network, not Lisp-level input of this interpreter; not reproduced",
	"pkg/watch.formError|list[2].(slip.Symbol)":     "as the line above",
}

const ruleDiv = "C09.div"

// c09div: integer division and remainder with a divisor that is not a non-zero constant.
func c09div(c *core.Ctx, r *core.Reporter) {
	r.Rule(ruleDiv, "every integer / and % whose divisor is not a non-zero constant is reached only through a branch that excludes a zero divisor on every path (d != 0, d > 0, 0 < d, d >= k with k > 0, d < 0 ...), or the divisor is provably positive by construction (len(x)+k, a positive constant times ...): integer division by zero is a Go run-time panic, not a Lisp condition", 20)
	an := lenflow.New(c)
	seen := map[string]int{}
	for _, fn := range c.ModuleFuncs() {
		if takesTestingT(fn) || fn.Pkg == nil {
			continue
		}
		var g *core.Guards
		for _, b := range fn.Blocks {
			for _, in := range b.Instrs {
				bo, ok := in.(*ssa.BinOp)
				if !ok || (bo.Op != token.QUO && bo.Op != token.REM) {
					continue
				}
				bt, ok := bo.Y.Type().Underlying().(*types.Basic)
				if !ok || bt.Info()&types.IsInteger == 0 {
					continue
				}
				if k, isK := bo.Y.(*ssa.Const); isK {
					if k.Value != nil && constant.Sign(k.Value) != 0 {
						continue
					}
				}
				key := fmt.Sprintf("%s|%s %s", core.SSAName(fn), rootDesc(bo.X), bo.Op)
				seen[key]++
				if n := seen[key]; n > 1 {
					key = fmt.Sprintf("%s#%d", key, n)
				}
				if positiveByConstruction(bo.Y, 0) {
					r.Hold(ruleDiv, key, c.Pos(bo.Pos()), "divisor is positive by construction")
					continue
				}
				if g == nil {
					g = core.ComputeGuards(fn, an.NoReturn)
				}
				if nonZeroByFacts(bo.Y, g.Facts(bo.Block())) {
					r.Hold(ruleDiv, key, c.Pos(bo.Pos()), "a dominating comparison excludes a zero divisor")
					continue
				}
				if ex, ok := divExceptions[key]; ok {
					if w := divNeedsNonZeroGuard[key]; w != "" {
						// the divisor is a call; one of its operands must be non-zero by the facts that hold here
						okw := false
						if dc, isCall := bo.Y.(*ssa.Call); isCall {
							for _, a := range dc.Call.Args {
								if nonZeroVal(a, g.Facts(bo.Block()), 0) {
									okw = true
								}
							}
						}
						if !okw {
							r.Violate(ruleDiv, key, c.Pos(bo.Pos()), "the accepted argument needs "+w+" on every path to this site, and there is none")
							continue
						}
					}
					r.Hold(ruleDiv, key, c.Pos(bo.Pos()), "accepted by reading: "+ex)
					continue
				}
				r.Violate(ruleDiv, key, c.Pos(bo.Pos()), fmt.Sprintf("divisor %s is not shown to be non-zero on every path", rootDesc(bo.Y)))
			}
		}
	}
}

// positiveByConstruction: len(x)+k with k>0, a positive constant, products/sums of such, conversions.
func positiveByConstruction(v ssa.Value, depth int) bool {
	if depth > 6 {
		return false
	}
	switch x := v.(type) {
	case *ssa.Const:
		return x.Value != nil && x.Value.Kind() == constant.Int && constant.Sign(x.Value) > 0
	case *ssa.Convert:
		// widening or same-width conversion of a positive value of an unsigned or signed type stays positive
		return positiveByConstruction(x.X, depth+1)
	case *ssa.ChangeType:
		return positiveByConstruction(x.X, depth+1)
	case *ssa.BinOp:
		switch x.Op {
		case token.ADD:
			return (nonNegative(x.X, depth+1) && positiveByConstruction(x.Y, depth+1)) || (positiveByConstruction(x.X, depth+1) && nonNegative(x.Y, depth+1))
		case token.MUL:
			return positiveByConstruction(x.X, depth+1) && positiveByConstruction(x.Y, depth+1)
		case token.SHL:
			// 1 << n
			return positiveByConstruction(x.X, depth+1) && false
		}
	}
	return false
}

func nonNegative(v ssa.Value, depth int) bool {
	if depth > 6 {
		return false
	}
	switch x := v.(type) {
	case *ssa.Phi:
		// every incoming value is non-negative (a value that only flows back into the phi is skipped)
		for _, e := range x.Edges {
			if e == ssa.Value(x) {
				continue
			}
			if !nonNegative(e, depth+2) {
				return false
			}
		}
		return true
	case *ssa.Const:
		return x.Value != nil && x.Value.Kind() == constant.Int && constant.Sign(x.Value) >= 0
	case *ssa.Call:
		if bi, ok := x.Call.Value.(*ssa.Builtin); ok && (bi.Name() == "len" || bi.Name() == "cap") {
			return true
		}
	case *ssa.Convert:
		if bt, ok := x.X.Type().Underlying().(*types.Basic); ok && bt.Info()&types.IsUnsigned != 0 {
			if tt, ok := x.Type().Underlying().(*types.Basic); ok && (tt.Kind() == types.Int || tt.Kind() == types.Int64) && (bt.Kind() == types.Uint8 || bt.Kind() == types.Uint16 || bt.Kind() == types.Uint32) {
				return true
			}
		}
		return nonNegative(x.X, depth+1) && false
	case *ssa.BinOp:
		if x.Op == token.ADD || x.Op == token.MUL {
			return nonNegative(x.X, depth+1) && nonNegative(x.Y, depth+1)
		}
	}
	return positiveByConstruction(v, depth+1)
}

// sameIntVal: the same SSA value, or two single-result type assertions of the same operand to the same type.
func sameIntVal(a, b ssa.Value) bool {
	if a == b {
		return true
	}
	ta, ok1 := a.(*ssa.TypeAssert)
	tb, ok2 := b.(*ssa.TypeAssert)
	return ok1 && ok2 && !ta.CommaOk && !tb.CommaOk && ta.X == tb.X && types.Identical(ta.AssertedType, tb.AssertedType)
}

// nonZeroByFacts: some comparison of d with a constant that holds on every path excludes d == 0; a negation
// of such a value and a phi of such values are non-zero as well (SSA values are immutable, so a fact about an
// operand that holds here held when the phi was formed).
func nonZeroByFacts(d ssa.Value, facts map[core.EdgeFact]bool) bool {
	return nonZeroVal(d, facts, 0)
}

func nonZeroVal(d ssa.Value, facts map[core.EdgeFact]bool, depth int) bool {
	if depth > 5 {
		return false
	}
	if nonZeroDirect(d, facts) {
		return true
	}
	switch x := d.(type) {
	case *ssa.Const:
		return x.Value != nil && x.Value.Kind() == constant.Int && constant.Sign(x.Value) != 0
	case *ssa.UnOp:
		if x.Op == token.SUB {
			return nonZeroVal(x.X, facts, depth+1)
		}
	case *ssa.Convert:
		return nonZeroVal(x.X, facts, depth+1)
	case *ssa.ChangeType:
		return nonZeroVal(x.X, facts, depth+1)
	case *ssa.Phi:
		for _, e := range x.Edges {
			if e == ssa.Value(x) {
				continue
			}
			if !nonZeroVal(e, facts, depth+2) {
				return false
			}
		}
		return true
	}
	return false
}

func nonZeroDirect(d ssa.Value, facts map[core.EdgeFact]bool) bool {
	strip := func(x ssa.Value) ssa.Value {
		for {
			switch y := x.(type) {
			case *ssa.Convert:
				x = y.X
				continue
			case *ssa.ChangeType:
				x = y.X
				continue
			}
			return x
		}
	}
	d = strip(d)
	for f := range facts {
		bo, ok := f.If.Cond.(*ssa.BinOp)
		if !ok {
			continue
		}
		op := bo.Op
		var kc *ssa.Const
		switch {
		case sameIntVal(strip(bo.X), d):
			kc, _ = bo.Y.(*ssa.Const)
		case sameIntVal(strip(bo.Y), d):
			kc, _ = bo.X.(*ssa.Const)
			switch op {
			case token.LSS:
				op = token.GTR
			case token.LEQ:
				op = token.GEQ
			case token.GTR:
				op = token.LSS
			case token.GEQ:
				op = token.LEQ
			}
		}
		if kc == nil || kc.Value == nil || kc.Value.Kind() != constant.Int {
			continue
		}
		k, _ := constant.Int64Val(kc.Value)
		if !f.Branch {
			switch op {
			case token.LSS:
				op = token.GEQ
			case token.LEQ:
				op = token.GTR
			case token.GTR:
				op = token.LEQ
			case token.GEQ:
				op = token.LSS
			case token.EQL:
				op = token.NEQ
			case token.NEQ:
				op = token.EQL
			}
		}
		switch op {
		case token.NEQ:
			if k == 0 {
				return true
			}
		case token.EQL:
			if k != 0 {
				return true
			}
		case token.GTR:
			if k >= 0 {
				return true
			}
		case token.GEQ:
			if k > 0 {
				return true
			}
		case token.LSS:
			if k <= 0 {
				return true
			}
		case token.LEQ:
			if k < 0 {
				return true
			}
		}
	}
	return false
}

// nonZeroTestOfParamOrLocal accepts the branch edge on which some integer is known to be non-zero.
func nonZeroTestOfParamOrLocal(ifi *ssa.If, branch bool) bool {
	bo, ok := ifi.Cond.(*ssa.BinOp)
	if !ok {
		return false
	}
	isZero := func(v ssa.Value) bool {
		k, ok := v.(*ssa.Const)
		return ok && k.Value != nil && k.Value.Kind() == constant.Int && constant.Sign(k.Value) == 0
	}
	if !isZero(bo.X) && !isZero(bo.Y) {
		return false
	}
	switch bo.Op {
	case token.EQL:
		return !branch
	case token.NEQ:
		return branch
	}
	return false
}

const editorReason = "interactive terminal editor geometry (columns, widths computed from the terminal size and name lengths plus padding), not Lisp input"

var divExceptions = map[string]string{
	"pkg/cl.(Lcm).Call|*ssa.BinOp /":                    "the divisor is gcd(z, num) and num != 0 here (a zero argument returns early); gcd of a non-zero number is non-zero",
	"slip.(Array).Adjust|phi:off /":                     "sz is a product of trailing dimensions; if it is zero the total size is zero too and the loop over the elements does not run",
	"slip.(Array).Adjust|phi:off %":                     "as the division on the line above",
	"pkg/cl.(ParseInteger).Call|*ssa.BinOp /":           "radix is 10 or a :radix value validated to lie in 2..36 when it was parsed",
	"pkg/gi.(Encrypt).Call|call %":                      "bsize is the block size of the AES or DES cipher just created (16 or 8)",
	"pkg/gi.(Encrypt).Call|call %#2":                    "as above",
	"pkg/gi.(EncryptFile).Call|call %":                  "as above",
	"pkg/gi.(EncryptFile).Call|call %#2":                "as above",
	"pkg/cl.(control).dirJustify|phi:padCnt /":          "segCnt was incremented on the line above (colon case), so it is at least 1",
	"pkg/cl.(control).dirJustify|phi:padCnt /#2":        "the i-th gap is divided among the remaining gaps: segCnt starts at the number of gaps and is decremented once per gap, so it is at least 1 while 0 < i",
	"pkg/cl.(control).dirJustify|phi:padCnt /#3":        "with the @ modifier segCnt was incremented once beyond the gaps consumed by the loop, so it is 1 here",
	"pkg/repl.(editor).displayCompletions|*ssa.BinOp /": editorReason,
	"pkg/repl.(editor).displayCompletions|call /":       editorReason,
	"pkg/repl.(editor).displayHelp|*ssa.Const /":        editorReason,
	"pkg/repl.(editor).displayHelp|*ssa.BinOp /":        editorReason,
	"pkg/repl.(editor).displayHelp|*ssa.Const /#2":      editorReason,
	"pkg/repl.(editor).updateDirty|*ssa.BinOp /":        editorReason,
	"pkg/repl.(editor).updateDirty|*ssa.BinOp /#2":      editorReason,
	"pkg/repl.completeOverride|field:index %":           editorReason,
	"pkg/repl.completeOverride|*ssa.BinOp /":            editorReason,
	"pkg/repl.completeOverride|field:index %#2":         editorReason,
	"pkg/repl.help|call /":                              editorReason,
}

// divNeedsNonZeroGuard: exceptions that rest on a zero test of an operand on every path to the site.
var divNeedsNonZeroGuard = map[string]string{
	"pkg/cl.(Lcm).Call|*ssa.BinOp /": "a test that excludes zero for an operand of the gcd call",
}

// c09fmt: the format engine's argument cursor (same obligations as C15.args, reported under C09).
func c09fmt(c *core.Ctx, r *core.Reporter) {
	c15argsAs(c, r, "C09.fmt")
}

const ruleRel = "C09.rel"

// c09rel: x[len(x)-k] and x[:len(x)-k] on slices of any other element type (byte buffers, strings of names, ...).
func c09rel(c *core.Ctx, r *core.Reporter) {
	r.Rule(ruleRel, "every x[len(x)-k] and x[:len(x)-k] (constant k >= 1) on a slice that is not a list of Objects is reached only with len(x) >= k proven (same engine as C09.idx)", 20)
	an := lenflow.New(c)
	type site struct {
		fn   *ssa.Function
		in   ssa.Instruction
		kind string
		k    int
		have int
		need int
		root ssa.Value
	}
	var sites []*site
	for _, fn := range c.ModuleFuncs() {
		if takesTestingT(fn) {
			continue
		}
		has := false
		for _, b := range fn.Blocks {
			for _, in := range b.Instrs {
				switch x := in.(type) {
				case *ssa.IndexAddr:
					if _, ok := x.X.Type().Underlying().(*types.Slice); ok && !isObjectSlice(x.X.Type()) {
						if _, isC := x.Index.(*ssa.Const); !isC {
							has = true
						}
					}
				case *ssa.Slice:
					if _, ok := x.X.Type().Underlying().(*types.Slice); ok && !isObjectSlice(x.X.Type()) && x.High != nil {
						if _, isC := x.High.(*ssa.Const); !isC {
							has = true
						}
					}
				}
			}
		}
		if !has {
			continue
		}
		res := an.Analyze(fn, nil, nil, 0)
		res.Visit(func(in ssa.Instruction, st lenflow.State) {
			switch x := in.(type) {
			case *ssa.IndexAddr:
				if _, ok := x.X.Type().Underlying().(*types.Slice); !ok || isObjectSlice(x.X.Type()) {
					return
				}
				ref := res.ResolveSlice(x.X)
				if ir, isLen, ok := res.ResolveInt(x.Index); ok && isLen && ir.Root == ref.Root && ir.Off > ref.Off {
					sites = append(sites, &site{fn: fn, in: in, kind: "last", k: ir.Off - ref.Off, need: ir.Off, root: ref.Root, have: res.LBRoot(st, ref.Root)})
				}
			case *ssa.Slice:
				if _, ok := x.X.Type().Underlying().(*types.Slice); !ok || isObjectSlice(x.X.Type()) || x.High == nil {
					return
				}
				ref := res.ResolveSlice(x.X)
				if ir, isLen, ok := res.ResolveInt(x.High); ok && isLen && ir.Root == ref.Root && ir.Off > ref.Off {
					sites = append(sites, &site{fn: fn, in: in, kind: "hilen", k: ir.Off - ref.Off, need: ir.Off, root: ref.Root, have: res.LBRoot(st, ref.Root)})
				}
			}
		})
	}
	sort.SliceStable(sites, func(i, j int) bool {
		if core.SSAName(sites[i].fn) != core.SSAName(sites[j].fn) {
			return core.SSAName(sites[i].fn) < core.SSAName(sites[j].fn)
		}
		return sites[i].in.Pos() < sites[j].in.Pos()
	})
	r.Count("rel_sites", len(sites))
	for _, s := range sites {
		key := fmt.Sprintf("%s|%s[%s%d]", core.SSAName(s.fn), rootDesc(s.root), s.kind, s.k)
		detail := fmt.Sprintf("need len>=%d, proven len>=%d", s.need, s.have)
		if s.have >= s.need {
			r.Hold(ruleRel, key, c.Pos(s.in.Pos()), detail)
			continue
		}
		if name, n, ok := docExamplesOf(c, s.root); ok {
			// x is the Examples of the doc that pkg/net's methodDocFromFunc copies from the registration of a
			// built-in named by a constant: its length is the length of that registration's literal
			r.Decide(n >= s.need, ruleRel, key, c.Pos(s.in.Pos()), fmt.Sprintf("%s; the slice is a copy of the Examples of the registration of %q, a literal of %d entries", detail, name, n))
			continue
		}
		if ex, ok := relExceptions[key]; ok {
			if relNeedsOtherLenGuard[key] && !core.Separates(s.fn, s.in.Block(), an.NoReturn, otherLenPositive) {
				r.Violate(ruleRel, key, c.Pos(s.in.Pos()), detail+": the accepted argument needs a test `0 < len(y)` of the companion sequence on every path to this site, and there is none")
				continue
			}
			r.Hold(ruleRel, key, c.Pos(s.in.Pos()), "accepted by reading: "+ex+" ("+detail+")")
			continue
		}
		r.Violate(ruleRel, key, c.Pos(s.in.Pos()), detail+": no dominating length check was found")
	}
}

// relNeedsOtherLenGuard: exceptions whose argument rests on a test of another sequence's length; the
// exception only applies while that test is still on every path to the site.
var relNeedsOtherLenGuard = map[string]bool{
	"pkg/cl.(control).dirR|phi:words[hilen1]": true,
}

// otherLenPositive accepts the branch edge on which some len(y) is known to be positive.
func otherLenPositive(ifi *ssa.If, branch bool) bool {
	bo, ok := ifi.Cond.(*ssa.BinOp)
	if !ok {
		return false
	}
	isLen := func(v ssa.Value) bool {
		call, ok := v.(*ssa.Call)
		if !ok {
			return false
		}
		bi, ok := call.Call.Value.(*ssa.Builtin)
		return ok && bi.Name() == "len"
	}
	isZero := func(v ssa.Value) bool {
		k, ok := v.(*ssa.Const)
		return ok && k.Value != nil && k.Value.Kind() == constant.Int && k.Int64() == 0
	}
	switch bo.Op {
	case token.LSS: // 0 < len(y)
		return branch && isZero(bo.X) && isLen(bo.Y)
	case token.GTR: // len(y) > 0
		return branch && isLen(bo.X) && isZero(bo.Y)
	case token.NEQ: // len(y) != 0
		return branch && ((isLen(bo.X) && isZero(bo.Y)) || (isZero(bo.X) && isLen(bo.Y)))
	case token.EQL: // len(y) == 0, false edge
		return !branch && ((isLen(bo.X) && isZero(bo.Y)) || (isZero(bo.X) && isLen(bo.Y)))
	}
	return false
}

// docExamplesOf: root is the Examples field of the *FuncDoc returned by a static call of a helper listed in
// docCopyHelpers whose function-name argument is a constant; returns that name and the number of examples in
// the literal FuncDoc registered under it in the helper's package.
func docExamplesOf(c *core.Ctx, root ssa.Value) (string, int, bool) {
	u, ok := root.(*ssa.UnOp)
	if !ok {
		return "", 0, false
	}
	fa, ok := u.X.(*ssa.FieldAddr)
	if !ok || fieldName(fa) != "Examples" || !core.IsNamed(fa.X.Type(), core.SlipPath, "FuncDoc") {
		return "", 0, false
	}
	call, ok := fa.X.(*ssa.Call)
	if !ok {
		return "", 0, false
	}
	cal := call.Call.StaticCallee()
	if cal == nil || cal.Pkg == nil {
		return "", 0, false
	}
	argIdx, ok := docCopyHelpers[core.SSAName(cal)]
	if !ok || argIdx >= len(call.Call.Args) {
		return "", 0, false
	}
	cst, ok := call.Call.Args[argIdx].(*ssa.Const)
	if !ok || cst.Value == nil || cst.Value.Kind() != constant.String {
		return "", 0, false
	}
	name := constant.StringVal(cst.Value)
	b := c.ByName(core.RelPkg(cal.Pkg.Pkg.Path()), name)
	if b == nil || !b.DocLit || b.Examples < 0 {
		return name, 0, true // unresolved registration or non-literal examples: nothing proven
	}
	return name, b.Examples, true
}

// docCopyHelpers: helper -> index of the argument naming the built-in whose FuncDoc.Examples the helper copies
// into the FuncDoc it returns (read: `if 0 < len(fd.Examples) { md.Examples = make(len(fd.Examples)); copy }`).
var docCopyHelpers = map[string]int{
	"pkg/net.methodDocFromFunc": 1,
}

var relExceptions = map[string]string{
	"pkg/clos.(StandardClass).mergeSupers|field:precedence[last1]": "the list was emptied and the class's own name appended to it three statements earlier; the loop in between only appends (the value is a merge of two stored values, beyond a per-value length lattice)",
	"pkg/cl.(control).dirR|phi:words[hilen1]":                      "guarded by 0 < len(trip), and the same iteration appended trip to words under the same test; no instruction between the two shortens words (relation between two slices, beyond the length lattice)",
	"pkg/repl.(Form).TabAppend|phi:b[last1]":                       "inside `if 0 < len(f)`: the loop over f appends at least two bytes before the last one is overwritten",
	"pkg/repl.(editor).displayHelp|param:doc[last1]":               "interactive terminal editor state, not Lisp input; doc strings handed in are non-empty lines",
	"pkg/repl.(editor).drawLine|phi:rline[last1]":                  "interactive terminal editor state, not Lisp input",
	"pkg/repl.(editor).findWordEnd|field:lines[last1]":             "interactive terminal editor state: the editor always holds at least one line",
	"pkg/xml.(Read).Call|phi:stack[last1]":                         "encoding/xml rejects an end element without a matching start element before it is delivered, so the stack is non-empty at every EndElement",
	"pp.resolveSymbol|call:Split[last1]":                           "strings.Split with a non-empty separator always returns at least one element",
	"slip.(App).load|extract#0(call:ReadFile)[last1]":              "loader of the application's own encrypted bundle (not Lisp input): the payload holds at least one cipher block after the nonce",
	"slip.AppendDoc|phi:b[last1]":                                  "ret is only true after a newline was appended to b in an earlier iteration, so b is non-empty",
}

const ruleIdx = "C09.idx"

func c09idx(c *core.Ctx, r *core.Reporter) {
	r.Rule(ruleIdx, "every L[k], L[k:], L[:k], L[len(L)-k] and L[:len(L)-k] with constant k on a list of Objects is reached only with len(L) provably large enough "+
		"(facts: comparisons of len with constants on branch edges, callee summaries such as CheckArgCount with constant bounds, caller guarantees for statically called helpers; paths through no-return calls pruned)", 1500)
	an := lenflow.New(c)
	fns := c.ModuleFuncs()
	r.Count("functions", len(fns))
	var sites []*idxSite
	for _, fn := range fns {
		// quick scan: any candidate site?
		has := false
		for _, b := range fn.Blocks {
			for _, in := range b.Instrs {
				switch x := in.(type) {
				case *ssa.IndexAddr:
					if isObjectSlice(x.X.Type()) {
						has = true
					}
				case *ssa.Slice:
					if isObjectSlice(x.X.Type()) {
						has = true
					}
				}
			}
		}
		if !has || takesTestingT(fn) {
			continue
		}
		res := an.Analyze(fn, nil, nil, 0)
		res.Visit(func(in ssa.Instruction, st lenflow.State) {
			switch x := in.(type) {
			case *ssa.IndexAddr:
				if !isObjectSlice(x.X.Type()) {
					return
				}
				ref := res.ResolveSlice(x.X)
				if k, ok := res.IntConst(x.Index); ok {
					if k < 0 {
						return
					}
					s := &idxSite{fn: fn, in: in, kind: "idx", k: k, need: k + 1 + ref.Off, root: ref.Root}
					s.have = res.LBRoot(st, ref.Root)
					sites = append(sites, s)
					return
				}
				if ir, isLen, ok := res.ResolveInt(x.Index); ok && isLen && ir.Root == ref.Root && ir.Off > ref.Off {
					s := &idxSite{fn: fn, in: in, kind: "last", k: ir.Off - ref.Off, need: ir.Off, root: ref.Root}
					s.have = res.LBRoot(st, ref.Root)
					sites = append(sites, s)
				}
			case *ssa.Slice:
				if !isObjectSlice(x.X.Type()) {
					return
				}
				ref := res.ResolveSlice(x.X)
				if x.High != nil {
					if k, ok := res.IntConst(x.High); ok && k > 0 {
						// x[:k] needs cap >= k; len >= k is the checkable sufficient condition used by the code base
						s := &idxSite{fn: fn, in: in, kind: "high", k: k, need: k + ref.Off, root: ref.Root}
						s.have = res.LBRoot(st, ref.Root)
						sites = append(sites, s)
					} else if ir, isLen, ok := res.ResolveInt(x.High); ok && isLen && ir.Root == ref.Root && ir.Off > ref.Off {
						s := &idxSite{fn: fn, in: in, kind: "hilen", k: ir.Off - ref.Off, need: ir.Off, root: ref.Root}
						s.have = res.LBRoot(st, ref.Root)
						sites = append(sites, s)
					}
				}
				if x.Low != nil {
					if k, ok := res.IntConst(x.Low); ok && k > 0 {
						s := &idxSite{fn: fn, in: in, kind: "low", k: k, need: k + ref.Off, root: ref.Root}
						s.have = res.LBRoot(st, ref.Root)
						sites = append(sites, s)
					}
				}
			}
		})
	}
	r.Count("index_sites", len(sites))
	r.Count("lenflow_contexts", an.Contexts)
	sort.SliceStable(sites, func(i, j int) bool {
		a, b := sites[i], sites[j]
		if core.SSAName(a.fn) != core.SSAName(b.fn) {
			return core.SSAName(a.fn) < core.SSAName(b.fn)
		}
		return a.in.Pos() < b.in.Pos()
	})
	for _, s := range sites {
		key := fmt.Sprintf("%s|%s[%s%d]", core.SSAName(s.fn), rootDesc(s.root), s.kind, s.k)
		detail := fmt.Sprintf("need len>=%d, proven len>=%d", s.need, s.have)
		if s.have >= s.need {
			r.Hold(ruleIdx, key, c.Pos(s.in.Pos()), detail)
			continue
		}
		if ex, ok := idxExceptions[key]; ok {
			o := r.Hold(ruleIdx, key, c.Pos(s.in.Pos()), "accepted by reading: "+ex)
			o.Detail += " (" + detail + ")"
			usedIdxEx[key] = true
			continue
		}
		r.Violate(ruleIdx, key, c.Pos(s.in.Pos()), detail+": no dominating length check, argument-count check or caller guarantee was found")
	}
	var stale []string
	for k := range idxExceptions {
		if !usedIdxEx[k] {
			stale = append(stale, k)
		}
	}
	sort.Strings(stale)
	for _, k := range stale {
		r.Infof("stale exception (the construct is now proven or gone; remove it from the table): %s", k)
	}
	r.Count("idx.exceptions_by_reading", len(usedIdxEx))
}

// takesTestingT: helpers that need a *testing.T are not reachable from Lisp input.
func takesTestingT(fn *ssa.Function) bool {
	for fn.Parent() != nil {
		fn = fn.Parent()
	}
	for _, p := range fn.Params {
		if core.IsNamed(p.Type(), "testing", "T") {
			return true
		}
	}
	return false
}

var usedIdxEx = map[string]bool{}

// idxExceptions: constructs confirmed safe by reading, one reason each. A key
// that no longer matches anything is reported (stale suppressions cannot accumulate).
var idxExceptions = map[string]string{
	"pkg/cl.(Count).Call|param:args[idx1]":                      "setKeysItem (called just before with the same args) enforces CheckArgCount(min=2) because sfv.noItem is false for this caller (only delete-duplicates sets it); the bound is a struct field, beyond the constant folding of the engine. (count 1) => 'Too few arguments ... At least 2'",
	"pkg/cl.(Delete).Call|param:args[idx1]":                     "as count: setKeysItem enforces min=2 when sfv.noItem is false, which it is for this caller",
	"pkg/cl.(Find).Call|param:args[idx1]":                       "as count: setKeysItem enforces min=2 when sfv.noItem is false, which it is for this caller",
	"pkg/cl.(Position).Call|param:args[idx1]":                   "as count: setKeysItem enforces min=2 when sfv.noItem is false, which it is for this caller",
	"pkg/cl.(Ecase).Call|assert:slip.List[idx0]":                "reached only after the first loop validated every clause as a non-empty List (TypePanic otherwise) without finding a match; a per-element invariant established by an earlier loop is outside the engine",
	"pkg/cl.(Etypecase).Call|assert:slip.List[idx0]":            "as ecase: the first loop validates every clause (!ok || len==0 -> TypePanic) before this loop runs",
	"pkg/flavors.(Flavor).DefMethodList|assert:slip.List[low1]": "the list is (*slip.Lambda).LoadForm(), which always starts with the symbol lambda and the lambda list (len >= 2); lam is a concrete *slip.Lambda; not a Lisp argument list",
	"pkg/flavors.(defHand).Call|param:args[idx0]":               "only invoked as Flavor.defaultHandler.Call from Instance.Receive where the argument list is built as append([message], args...), len >= 1; (send inst :nosuch) gives a proper invalid-method error",
	"pkg/gi.(Select).Call|assert:slip.List[idx0]":               "prepClauses is called first and raises TypePanic for any clause that is not a non-empty List; clauses are mutated in place, never shortened",
	"pkg/gi.(Select).reflectClauses|assert:slip.List[idx0]":     "only called from Select.Call after prepClauses validated every clause as a non-empty List",
}

// c09bounds: a function that validates two indices of one sequence against its length must also order them.
func c09bounds(c *core.Ctx, r *core.Reporter) {
	const rule = "C09.bounds"
	r.Rule(rule, "every function that rejects two different non-constant integers for exceeding the same length (raises when len < a and when len < b: the two are bounding indices of one sequence) also compares the two with each other on the way (raises when b < a, or otherwise branches on their order): validating each bound against the length but not against each other lets a start beyond the end reach the slice expression, a Go run-time panic", 10)
	an := lenflow.New(c)
	strip := func(v ssa.Value) ssa.Value {
		for {
			switch x := v.(type) {
			case *ssa.Convert:
				v = x.X
				continue
			case *ssa.ChangeType:
				v = x.X
				continue
			}
			return v
		}
	}
	for _, fn := range c.ModuleFuncs() {
		if takesTestingT(fn) || fn.Pkg == nil || fn.Blocks == nil {
			continue
		}
		g := (*core.Guards)(nil)
		// per length value: the integers checked against it by a raising guard
		checked := map[string]map[ssa.Value]token.Pos{}
		lenDesc := map[string]ssa.Value{}
		var cmps [][2]ssa.Value
		for _, b := range fn.Blocks {
			ifi, ok := b.Instrs[len(b.Instrs)-1].(*ssa.If)
			if !ok {
				continue
			}
			bo, ok := ifi.Cond.(*ssa.BinOp)
			if !ok {
				continue
			}
			switch bo.Op {
			case token.LSS, token.LEQ, token.GTR, token.GEQ:
			default:
				continue
			}
			x, y := strip(bo.X), strip(bo.Y)
			if _, isK := x.(*ssa.Const); isK {
				continue
			}
			if _, isK := y.(*ssa.Const); isK {
				continue
			}
			if !isIntValue(x) || !isIntValue(y) {
				continue
			}
			if g == nil {
				g = core.ComputeGuards(fn, an.NoReturn)
			}
			// the relation that holds on the raising edge
			op := bo.Op
			raises := false
			switch {
			case g.Dead[b.Succs[0]] && !g.Dead[b.Succs[1]]:
				raises = true
			case g.Dead[b.Succs[1]] && !g.Dead[b.Succs[0]]:
				raises = true
				op = map[token.Token]token.Token{token.LSS: token.GEQ, token.LEQ: token.GTR, token.GTR: token.LEQ, token.GEQ: token.LSS}[op]
			}
			lx, ly := lengthLike(x), lengthLike(y)
			switch {
			case lx && !ly && raises && (op == token.LSS || op == token.LEQ): // len < v raises: v exceeds the length
				k := lengthKey(x)
				if checked[k] == nil {
					checked[k] = map[ssa.Value]token.Pos{}
				}
				checked[k][y] = bo.Pos()
				lenDesc[k] = x
			case ly && !lx && raises && (op == token.GTR || op == token.GEQ): // v > len raises
				k := lengthKey(y)
				if checked[k] == nil {
					checked[k] = map[ssa.Value]token.Pos{}
				}
				checked[k][x] = bo.Pos()
				lenDesc[k] = y
			case !lx && !ly:
				cmps = append(cmps, [2]ssa.Value{x, y})
			}
		}
		n := 0
		var lks []string
		for k := range checked {
			lks = append(lks, k)
		}
		minPos := func(k string) token.Pos {
			var m token.Pos
			for _, p := range checked[k] {
				if m == 0 || p < m {
					m = p
				}
			}
			return m
		}
		sort.Slice(lks, func(i, j int) bool { return minPos(lks[i]) < minPos(lks[j]) })
		dup := map[string]int{}
		for _, lk := range lks {
			ints := checked[lk]
			lv := lenDesc[lk]
			if len(ints) < 2 {
				continue
			}
			var vals []ssa.Value
			for v := range ints {
				vals = append(vals, v)
			}
			sort.Slice(vals, func(i, j int) bool { return ints[vals[i]] < ints[vals[j]] })
			for i := 0; i < len(vals); i++ {
				for j := i + 1; j < len(vals); j++ {
					a, b := vals[i], vals[j]
					ordered := false
					for _, cp := range cmps {
						if (related(cp[0], a) && related(cp[1], b)) || (related(cp[0], b) && related(cp[1], a)) {
							ordered = true
						}
					}
					n++
					ld := rootDesc(lv)
					if call, ok := strip(lv).(*ssa.Call); ok && len(call.Call.Args) == 1 {
						ld = "len(" + rootDesc(call.Call.Args[0]) + ")"
					}
					key := fmt.Sprintf("%s|%s,%s vs %s", core.SSAName(fn), rootDesc(a), rootDesc(b), ld)
					dup[key]++
					if k := dup[key]; k > 1 {
						key = fmt.Sprintf("%s#%d", key, k)
					}
					r.Decide(ordered, rule, key, c.Pos(ints[a]), fmt.Sprintf("both are checked against the same length; compared with each other: %v", ordered))
				}
			}
		}
	}
}

func isIntValue(v ssa.Value) bool {
	bt, ok := v.Type().Underlying().(*types.Basic)
	return ok && bt.Info()&types.IsInteger != 0
}

// lengthKey: len(x) taken twice is one length.
func lengthKey(v ssa.Value) string {
	for {
		if cv, ok := v.(*ssa.Convert); ok {
			v = cv.X
			continue
		}
		break
	}
	if call, ok := v.(*ssa.Call); ok {
		if bi, ok := call.Call.Value.(*ssa.Builtin); ok && bi.Name() == "len" && len(call.Call.Args) == 1 {
			return fmt.Sprintf("len:%p", canonVal(call.Call.Args[0]))
		}
		if rc := callReceiver(call); rc != nil {
			return fmt.Sprintf("%s:%p", callMethodName(call), canonVal(rc))
		}
	}
	if u, ok := v.(*ssa.UnOp); ok && u.Op == token.MUL {
		if fa, ok := u.X.(*ssa.FieldAddr); ok {
			return fmt.Sprintf("field:%p.%d", canonVal(fa.X), fa.Field)
		}
	}
	return fmt.Sprintf("val:%p", v)
}

// lengthLike: len(x), or a value all of whose sources are len(...) or a Length()/Len() call (a size variable).
func lengthLike(v ssa.Value) bool {
	return lengthLikeD(v, 0)
}

func lengthLikeD(v ssa.Value, depth int) bool {
	if depth > 4 {
		return false
	}
	switch x := v.(type) {
	case *ssa.Convert:
		return lengthLikeD(x.X, depth+1)
	case *ssa.Call:
		if bi, ok := x.Call.Value.(*ssa.Builtin); ok && bi.Name() == "len" {
			return true
		}
		name := callMethodName(x)
		return name == "Length" || name == "Len"
	case *ssa.UnOp:
		if x.Op == token.MUL {
			if fa, ok := x.X.(*ssa.FieldAddr); ok && fieldName(fa) == "Len" {
				return true
			}
		}
	case *ssa.Phi:
		any := false
		for _, e := range x.Edges {
			if k, isK := e.(*ssa.Const); isK && k.Value != nil {
				continue // size := 0 default
			}
			if !lengthLikeD(e, depth+1) {
				return false
			}
			any = true
		}
		return any
	}
	return false
}

// related: the same value, or one is a phi that has the other among its incoming values (end := -1; end = int(n)).
func related(a, b ssa.Value) bool {
	if a == b {
		return true
	}
	has := func(p ssa.Value, v ssa.Value) bool {
		ph, ok := p.(*ssa.Phi)
		if !ok {
			return false
		}
		for _, e := range ph.Edges {
			for {
				if cv, ok := e.(*ssa.Convert); ok {
					e = cv.X
					continue
				}
				break
			}
			if e == v {
				return true
			}
			if p2, ok := e.(*ssa.Phi); ok {
				for _, e2 := range p2.Edges {
					if e2 == v {
						return true
					}
				}
			}
		}
		return false
	}
	return has(a, b) || has(b, a)
}
