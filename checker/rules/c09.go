package rules

import (
	"fmt"
	"go/constant"
	"go/token"
	"go/types"
	"sort"

	"golang.org/x/tools/go/ssa"

	"slipcheck/core"
	"slipcheck/lenflow"
)

func init() {
	register(&Prop{
		ID:        "C09",
		Technique: "SSA forward dataflow (lower bound of len) with context-sensitive callee summaries, caller guarantees and no-return pruning; dominance of type tests",
		Explanation: "Decides, for every constant or len-relative index/slice expression on an Object list anywhere in the module, that the list is provably long enough on every path reaching it " +
			"(C09.idx); the same for x[len(x)-k] on slices of other element types (C09.rel); and that every read of the format argument vector is dominated by an argument-count test (C09.fmt). This is a necessary condition of 'no Lisp input faults the host' for the index-out-of-range fault class; it does not decide termination, allocation bounds or nil dereference.",
		NotCovered: "termination, allocation bounds, nil dereference in general, faults in third-party packages",
		Trusted:    commonTrusted,
		Run:        runC09,
	})
}

func isObjectSlice(t types.Type) bool {
	sl, ok := t.Underlying().(*types.Slice)
	if !ok {
		return false
	}
	return core.IsNamed(sl.Elem(), core.SlipPath, "Object")
}

// idxSite is one enumerated index or slice expression.
type idxSite struct {
	fn    *ssa.Function
	in    ssa.Instruction
	kind  string // idx | low | high | last | hilen
	k     int
	need  int // required lower bound of len(root)
	root  ssa.Value
	have  int
	desc  string
	state lenflow.State
}

func rootDesc(v ssa.Value) string {
	switch x := v.(type) {
	case *ssa.Parameter:
		return "param:" + x.Name()
	case *ssa.Phi:
		if x.Comment != "" {
			return "phi:" + x.Comment
		}
		return "phi"
	case *ssa.TypeAssert:
		return "assert:" + types.TypeString(x.AssertedType, func(p *types.Package) string { return p.Name() })
	case *ssa.Extract:
		return fmt.Sprintf("extract#%d(%s)", x.Index, rootDesc(x.Tuple))
	case *ssa.Call:
		if g := x.Call.StaticCallee(); g != nil {
			return "call:" + g.Name()
		}
		if x.Call.IsInvoke() {
			return "invoke:" + x.Call.Method.Name()
		}
		return "call"
	case *ssa.UnOp:
		if fa, ok := x.X.(*ssa.FieldAddr); ok {
			return "field:" + fieldName(fa)
		}
		if _, ok := x.X.(*ssa.Alloc); ok {
			return "local"
		}
		if g, ok := x.X.(*ssa.Global); ok {
			return "global:" + g.Name()
		}
		return "load"
	case *ssa.Slice:
		return "slice"
	case *ssa.MakeSlice:
		return "make"
	case *ssa.Field:
		return "field"
	case *ssa.FreeVar:
		return "freevar:" + x.Name()
	case *ssa.Lookup:
		return "maplookup"
	}
	return fmt.Sprintf("%T", v)
}

func fieldName(fa *ssa.FieldAddr) string {
	t := fa.X.Type().Underlying().(*types.Pointer).Elem().Underlying().(*types.Struct)
	return t.Field(fa.Field).Name()
}

func runC09(c *core.Ctx, r *core.Reporter) {
	c09idx(c, r)
	c09rel(c, r)
	c09fmt(c, r)
}

// c09fmt: the format engine's argument cursor (same obligations as C15.args, reported under C09).
func c09fmt(c *core.Ctx, r *core.Reporter) {
	c15argsAs(c, r, "C09.fmt")
}

const ruleRel = "C09.rel"

// c09rel: x[len(x)-k] and x[:len(x)-k] on slices of any other element type (byte buffers, strings of names, ...).
func c09rel(c *core.Ctx, r *core.Reporter) {
	r.Rule(ruleRel, "every x[len(x)-k] and x[:len(x)-k] (constant k >= 1) on a slice that is not a list of Objects is reached only with len(x) >= k proven (same engine as C09.idx)", 20)
	an := lenflow.New(c)
	type site struct {
		fn   *ssa.Function
		in   ssa.Instruction
		kind string
		k    int
		have int
		need int
		root ssa.Value
	}
	var sites []*site
	for _, fn := range c.ModuleFuncs() {
		if takesTestingT(fn) {
			continue
		}
		has := false
		for _, b := range fn.Blocks {
			for _, in := range b.Instrs {
				switch x := in.(type) {
				case *ssa.IndexAddr:
					if _, ok := x.X.Type().Underlying().(*types.Slice); ok && !isObjectSlice(x.X.Type()) {
						if _, isC := x.Index.(*ssa.Const); !isC {
							has = true
						}
					}
				case *ssa.Slice:
					if _, ok := x.X.Type().Underlying().(*types.Slice); ok && !isObjectSlice(x.X.Type()) && x.High != nil {
						if _, isC := x.High.(*ssa.Const); !isC {
							has = true
						}
					}
				}
			}
		}
		if !has {
			continue
		}
		res := an.Analyze(fn, nil, nil, 0)
		res.Visit(func(in ssa.Instruction, st lenflow.State) {
			switch x := in.(type) {
			case *ssa.IndexAddr:
				if _, ok := x.X.Type().Underlying().(*types.Slice); !ok || isObjectSlice(x.X.Type()) {
					return
				}
				ref := res.ResolveSlice(x.X)
				if ir, isLen, ok := res.ResolveInt(x.Index); ok && isLen && ir.Root == ref.Root && ir.Off > ref.Off {
					sites = append(sites, &site{fn: fn, in: in, kind: "last", k: ir.Off - ref.Off, need: ir.Off, root: ref.Root, have: res.LBRoot(st, ref.Root)})
				}
			case *ssa.Slice:
				if _, ok := x.X.Type().Underlying().(*types.Slice); !ok || isObjectSlice(x.X.Type()) || x.High == nil {
					return
				}
				ref := res.ResolveSlice(x.X)
				if ir, isLen, ok := res.ResolveInt(x.High); ok && isLen && ir.Root == ref.Root && ir.Off > ref.Off {
					sites = append(sites, &site{fn: fn, in: in, kind: "hilen", k: ir.Off - ref.Off, need: ir.Off, root: ref.Root, have: res.LBRoot(st, ref.Root)})
				}
			}
		})
	}
	sort.SliceStable(sites, func(i, j int) bool {
		if core.SSAName(sites[i].fn) != core.SSAName(sites[j].fn) {
			return core.SSAName(sites[i].fn) < core.SSAName(sites[j].fn)
		}
		return sites[i].in.Pos() < sites[j].in.Pos()
	})
	r.Count("rel_sites", len(sites))
	for _, s := range sites {
		key := fmt.Sprintf("%s|%s[%s%d]", core.SSAName(s.fn), rootDesc(s.root), s.kind, s.k)
		detail := fmt.Sprintf("need len>=%d, proven len>=%d", s.need, s.have)
		if s.have >= s.need {
			r.Hold(ruleRel, key, c.Pos(s.in.Pos()), detail)
			continue
		}
		if ex, ok := relExceptions[key]; ok {
			if relNeedsOtherLenGuard[key] && !core.Separates(s.fn, s.in.Block(), an.NoReturn, otherLenPositive) {
				r.Violate(ruleRel, key, c.Pos(s.in.Pos()), detail+": the accepted argument needs a test `0 < len(y)` of the companion sequence on every path to this site, and there is none")
				continue
			}
			r.Hold(ruleRel, key, c.Pos(s.in.Pos()), "accepted by reading: "+ex+" ("+detail+")")
			continue
		}
		r.Violate(ruleRel, key, c.Pos(s.in.Pos()), detail+": no dominating length check was found")
	}
}

// relNeedsOtherLenGuard: exceptions whose argument rests on a test of another sequence's length; the
// exception only applies while that test is still on every path to the site.
var relNeedsOtherLenGuard = map[string]bool{
	"pkg/cl.(control).dirR|phi:words[hilen1]": true,
}

// otherLenPositive accepts the branch edge on which some len(y) is known to be positive.
func otherLenPositive(ifi *ssa.If, branch bool) bool {
	bo, ok := ifi.Cond.(*ssa.BinOp)
	if !ok {
		return false
	}
	isLen := func(v ssa.Value) bool {
		call, ok := v.(*ssa.Call)
		if !ok {
			return false
		}
		bi, ok := call.Call.Value.(*ssa.Builtin)
		return ok && bi.Name() == "len"
	}
	isZero := func(v ssa.Value) bool {
		k, ok := v.(*ssa.Const)
		return ok && k.Value != nil && k.Value.Kind() == constant.Int && k.Int64() == 0
	}
	switch bo.Op {
	case token.LSS: // 0 < len(y)
		return branch && isZero(bo.X) && isLen(bo.Y)
	case token.GTR: // len(y) > 0
		return branch && isLen(bo.X) && isZero(bo.Y)
	case token.NEQ: // len(y) != 0
		return branch && ((isLen(bo.X) && isZero(bo.Y)) || (isZero(bo.X) && isLen(bo.Y)))
	case token.EQL: // len(y) == 0, false edge
		return !branch && ((isLen(bo.X) && isZero(bo.Y)) || (isZero(bo.X) && isLen(bo.Y)))
	}
	return false
}

var relExceptions = map[string]string{
	"pkg/cl.(control).dirR|phi:words[hilen1]":             "guarded by 0 < len(trip), and the same iteration appended trip to words under the same test; no instruction between the two shortens words (relation between two slices, beyond the length lattice)",
	"pkg/repl.(Form).TabAppend|phi:b[last1]":              "inside `if 0 < len(f)`: the loop over f appends at least two bytes before the last one is overwritten",
	"pkg/repl.(editor).displayHelp|param:doc[last1]":      "interactive terminal editor state, not Lisp input; doc strings handed in are non-empty lines",
	"pkg/repl.(editor).drawLine|phi:rline[last1]":         "interactive terminal editor state, not Lisp input",
	"pkg/repl.(editor).findWordEnd|field:lines[last1]":    "interactive terminal editor state: the editor always holds at least one line",
	"pkg/xml.(Read).Call|phi:stack[last1]":                "encoding/xml rejects an end element without a matching start element before it is delivered, so the stack is non-empty at every EndElement",
	"pp.resolveSymbol|call:Split[last1]":                   "strings.Split with a non-empty separator always returns at least one element",
	"slip.(App).load|extract#0(call:ReadFile)[last1]":     "loader of the application's own encrypted bundle (not Lisp input): the payload holds at least one cipher block after the nonce",
	"slip.AppendDoc|phi:b[last1]":                         "ret is only true after a newline was appended to b in an earlier iteration, so b is non-empty",
}

const ruleIdx = "C09.idx"

func c09idx(c *core.Ctx, r *core.Reporter) {
	r.Rule(ruleIdx, "every L[k], L[k:], L[:k], L[len(L)-k] and L[:len(L)-k] with constant k on a list of Objects is reached only with len(L) provably large enough "+
		"(facts: comparisons of len with constants on branch edges, callee summaries such as CheckArgCount with constant bounds, caller guarantees for statically called helpers; paths through no-return calls pruned)", 1500)
	an := lenflow.New(c)
	fns := c.ModuleFuncs()
	r.Count("functions", len(fns))
	var sites []*idxSite
	for _, fn := range fns {
		// quick scan: any candidate site?
		has := false
		for _, b := range fn.Blocks {
			for _, in := range b.Instrs {
				switch x := in.(type) {
				case *ssa.IndexAddr:
					if isObjectSlice(x.X.Type()) {
						has = true
					}
				case *ssa.Slice:
					if isObjectSlice(x.X.Type()) {
						has = true
					}
				}
			}
		}
		if !has || takesTestingT(fn) {
			continue
		}
		res := an.Analyze(fn, nil, nil, 0)
		res.Visit(func(in ssa.Instruction, st lenflow.State) {
			switch x := in.(type) {
			case *ssa.IndexAddr:
				if !isObjectSlice(x.X.Type()) {
					return
				}
				ref := res.ResolveSlice(x.X)
				if k, ok := res.IntConst(x.Index); ok {
					if k < 0 {
						return
					}
					s := &idxSite{fn: fn, in: in, kind: "idx", k: k, need: k + 1 + ref.Off, root: ref.Root}
					s.have = res.LBRoot(st, ref.Root)
					sites = append(sites, s)
					return
				}
				if ir, isLen, ok := res.ResolveInt(x.Index); ok && isLen && ir.Root == ref.Root && ir.Off > ref.Off {
					s := &idxSite{fn: fn, in: in, kind: "last", k: ir.Off - ref.Off, need: ir.Off, root: ref.Root}
					s.have = res.LBRoot(st, ref.Root)
					sites = append(sites, s)
				}
			case *ssa.Slice:
				if !isObjectSlice(x.X.Type()) {
					return
				}
				ref := res.ResolveSlice(x.X)
				if x.High != nil {
					if k, ok := res.IntConst(x.High); ok && k > 0 {
						// x[:k] needs cap >= k; len >= k is the checkable sufficient condition used by the code base
						s := &idxSite{fn: fn, in: in, kind: "high", k: k, need: k + ref.Off, root: ref.Root}
						s.have = res.LBRoot(st, ref.Root)
						sites = append(sites, s)
					} else if ir, isLen, ok := res.ResolveInt(x.High); ok && isLen && ir.Root == ref.Root && ir.Off > ref.Off {
						s := &idxSite{fn: fn, in: in, kind: "hilen", k: ir.Off - ref.Off, need: ir.Off, root: ref.Root}
						s.have = res.LBRoot(st, ref.Root)
						sites = append(sites, s)
					}
				}
				if x.Low != nil {
					if k, ok := res.IntConst(x.Low); ok && k > 0 {
						s := &idxSite{fn: fn, in: in, kind: "low", k: k, need: k + ref.Off, root: ref.Root}
						s.have = res.LBRoot(st, ref.Root)
						sites = append(sites, s)
					}
				}
			}
		})
	}
	r.Count("index_sites", len(sites))
	r.Count("lenflow_contexts", an.Contexts)
	sort.SliceStable(sites, func(i, j int) bool {
		a, b := sites[i], sites[j]
		if core.SSAName(a.fn) != core.SSAName(b.fn) {
			return core.SSAName(a.fn) < core.SSAName(b.fn)
		}
		return a.in.Pos() < b.in.Pos()
	})
	for _, s := range sites {
		key := fmt.Sprintf("%s|%s[%s%d]", core.SSAName(s.fn), rootDesc(s.root), s.kind, s.k)
		detail := fmt.Sprintf("need len>=%d, proven len>=%d", s.need, s.have)
		if s.have >= s.need {
			r.Hold(ruleIdx, key, c.Pos(s.in.Pos()), detail)
			continue
		}
		if ex, ok := idxExceptions[key]; ok {
			o := r.Hold(ruleIdx, key, c.Pos(s.in.Pos()), "accepted by reading: "+ex)
			o.Detail += " (" + detail + ")"
			usedIdxEx[key] = true
			continue
		}
		r.Violate(ruleIdx, key, c.Pos(s.in.Pos()), detail+": no dominating length check, argument-count check or caller guarantee was found")
	}
	var stale []string
	for k := range idxExceptions {
		if !usedIdxEx[k] {
			stale = append(stale, k)
		}
	}
	sort.Strings(stale)
	for _, k := range stale {
		r.Infof("stale exception (the construct is now proven or gone; remove it from the table): %s", k)
	}
	r.Count("idx.exceptions_by_reading", len(usedIdxEx))
}

// takesTestingT: helpers that need a *testing.T are not reachable from Lisp input.
func takesTestingT(fn *ssa.Function) bool {
	for fn.Parent() != nil {
		fn = fn.Parent()
	}
	for _, p := range fn.Params {
		if core.IsNamed(p.Type(), "testing", "T") {
			return true
		}
	}
	return false
}

var usedIdxEx = map[string]bool{}

// idxExceptions: constructs confirmed safe by reading, one reason each. A key
// that no longer matches anything is reported (stale suppressions cannot accumulate).
var idxExceptions = map[string]string{
	"pkg/cl.(Count).Call|param:args[idx1]":    "setKeysItem (called just before with the same args) enforces CheckArgCount(min=2) because sfv.noItem is false for this caller (only delete-duplicates sets it); the bound is a struct field, beyond the constant folding of the engine. (count 1) => 'Too few arguments ... At least 2'",
	"pkg/cl.(Delete).Call|param:args[idx1]":   "as count: setKeysItem enforces min=2 when sfv.noItem is false, which it is for this caller",
	"pkg/cl.(Find).Call|param:args[idx1]":     "as count: setKeysItem enforces min=2 when sfv.noItem is false, which it is for this caller",
	"pkg/cl.(Position).Call|param:args[idx1]": "as count: setKeysItem enforces min=2 when sfv.noItem is false, which it is for this caller",
	"pkg/cl.(Ecase).Call|assert:slip.List[idx0]": "reached only after the first loop validated every clause as a non-empty List (TypePanic otherwise) without finding a match; a per-element invariant established by an earlier loop is outside the engine",
	"pkg/cl.(Etypecase).Call|assert:slip.List[idx0]": "as ecase: the first loop validates every clause (!ok || len==0 -> TypePanic) before this loop runs",
	"pkg/flavors.(Flavor).DefMethodList|assert:slip.List[low1]": "the list is (*slip.Lambda).LoadForm(), which always starts with the symbol lambda and the lambda list (len >= 2); lam is a concrete *slip.Lambda; not a Lisp argument list",
	"pkg/flavors.(defHand).Call|param:args[idx0]": "only invoked as Flavor.defaultHandler.Call from Instance.Receive where the argument list is built as append([message], args...), len >= 1; (send inst :nosuch) gives a proper invalid-method error",
	"pkg/gi.(Select).Call|assert:slip.List[idx0]": "prepClauses is called first and raises TypePanic for any clause that is not a non-empty List; clauses are mutated in place, never shortened",
	"pkg/gi.(Select).reflectClauses|assert:slip.List[idx0]": "only called from Select.Call after prepClauses validated every clause as a non-empty List",
}
