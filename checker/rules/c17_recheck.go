package rules

import (
	"fmt"
	"go/token"
	"sort"

	"golang.org/x/tools/go/ssa"

	"slipcheck/core"
)

// c17recheck: check-then-act on a shared table. A store `P.tbl[k] = fresh` made because an earlier look showed
// the key absent is atomic only if that look happened inside the critical section the store is made in. Where
// the miss was observed before `P.mu.Lock()` (through an accessor that takes and releases the lock itself),
// two routines can both observe the miss and both store: the loser's entry, which its caller keeps using, is
// no longer the one in the table ("operations on shared interpreter tables appear atomic"). The rule: every
// store into a Package table that lies inside a Lock()/Unlock() of the same package and is control-dependent
// on a nil test of a value produced before that Lock is preceded, inside the critical section, by a lookup
// in the same table that the store is also control-dependent on.
func c17recheck(c *core.Ctx, r *core.Reporter) {
	const rule = "C17.recheck"
	r.Rule(rule, "a store into a package table inside a critical section that was decided by a miss observed before the lock was taken is re-decided by a lookup of the same table inside the critical section (no check-then-act across a lock boundary)", 1)
	var fns []*ssa.Function
	for _, fn := range c.ModuleFuncs() {
		p := fn.Pkg
		if p == nil && fn.Parent() != nil {
			p = fn.Parent().Pkg
		}
		if p != nil && p.Pkg.Path() == core.SlipPath {
			fns = append(fns, fn)
		}
	}
	sort.Slice(fns, func(i, j int) bool { return core.SSAName(fns[i]) < core.SSAName(fns[j]) })
	for _, fn := range fns {
		var g *core.Guards
		n := 0
		for _, b := range fn.Blocks {
			for _, in := range b.Instrs {
				mu, ok := in.(*ssa.MapUpdate)
				if !ok {
					continue
				}
				owner, field, ok := tableOf(mu.Map)
				if !ok {
					// tableOf covers vars and funcs; lambdas and classes through packageOfTable
					for _, f := range []string{"lambdas", "classes"} {
						if o := packageOfTable(mu.Map, f); o != nil {
							owner, field, ok = o, f, true
						}
					}
				}
				if !ok {
					continue
				}
				// the Lock of owner.mu that dominates the store
				var lock *ssa.Call
				for _, b2 := range fn.Blocks {
					for _, in2 := range b2.Instrs {
						call, isCall := in2.(*ssa.Call)
						if !isCall {
							continue
						}
						cal := call.Call.StaticCallee()
						if cal == nil || cal.Name() != "Lock" || len(call.Call.Args) == 0 {
							continue
						}
						fa, isFA := call.Call.Args[0].(*ssa.FieldAddr)
						if !isFA || fieldName(fa) != "mu" || !sameValue(fa.X, owner) {
							continue
						}
						if instrDominates(call, mu) {
							if lock == nil || instrDominates(lock, call) {
								lock = call
							}
						}
					}
				}
				if lock == nil {
					continue
				}
				if g == nil {
					g = core.ComputeGuards(fn, nil)
				}
				// is the store control-dependent on a nil test of a value defined before the lock?
				preMiss := false
				reChecked := false
				for fact := range g.Facts(b) {
					// `_, has := tbl[k]; if !has`
					{
						cond, outcome := fact.If.Cond, fact.Branch
						for {
							u, ok := cond.(*ssa.UnOp)
							if !ok || u.Op != token.NOT {
								break
							}
							cond, outcome = u.X, !outcome
						}
						if ex, ok := cond.(*ssa.Extract); ok && ex.Index == 1 && !outcome {
							if lk, ok := ex.Tuple.(*ssa.Lookup); ok && lk.CommaOk && instrDominates(lock, lk) {
								if o2 := packageOfTable(lk.X, field); o2 != nil && sameValue(o2, owner) {
									reChecked = true
								}
							}
						}
					}
					bo, isB := fact.If.Cond.(*ssa.BinOp)
					if !isB || (bo.Op != token.EQL && bo.Op != token.NEQ) {
						continue
					}
					var v ssa.Value
					switch {
					case isNilConst(bo.Y):
						v = bo.X
					case isNilConst(bo.X):
						v = bo.Y
					default:
						continue
					}
					miss := (bo.Op == token.EQL && fact.Branch) || (bo.Op == token.NEQ && !fact.Branch)
					if !miss {
						continue
					}
					def := definingInstr(v)
					if def == nil {
						continue
					}
					switch {
					case instrDominates(def, lock) && def != ssa.Instruction(lock):
						if _, isParam := v.(*ssa.Parameter); !isParam {
							preMiss = true
						}
					case instrDominates(lock, def):
						// decided inside the critical section: a lookup in the same table?
						if lk := lookupSource(v, 0); lk != nil {
							if o2 := packageOfTable(lk.X, field); o2 != nil && sameValue(o2, owner) {
								reChecked = true
							}
						}
					}
				}
				if !preMiss {
					continue
				}
				n++
				r.Decide(reChecked, rule, fmt.Sprintf("%s|store #%d into %s", core.SSAName(fn), n, field), c.Pos(mu.Pos()), fmt.Sprintf("the miss that decides the store was observed before the lock was taken; it is observed again by a lookup inside the critical section: %v", reChecked))
			}
		}
	}
}

// definingInstr: the instruction that produces v, looking through loads of single-assignment locals and phis of one.
func definingInstr(v ssa.Value) ssa.Instruction {
	for i := 0; i < 4; i++ {
		switch x := v.(type) {
		case *ssa.UnOp:
			if al, ok := x.X.(*ssa.Alloc); ok {
				var last *ssa.Store
				cnt := 0
				for _, ref := range *al.Referrers() {
					if st, ok := ref.(*ssa.Store); ok && st.Addr == ssa.Value(al) {
						cnt++
						last = st
					}
				}
				if cnt >= 1 && last != nil {
					// several stores: the load itself is the defining point
					if cnt == 1 {
						v = last.Val
						continue
					}
				}
			}
			return x
		case *ssa.Extract:
			v = x.Tuple
			continue
		}
		break
	}
	if in, ok := v.(ssa.Instruction); ok {
		return in
	}
	return nil
}

func lookupSource(v ssa.Value, depth int) *ssa.Lookup {
	if depth > 4 {
		return nil
	}
	switch x := v.(type) {
	case *ssa.Lookup:
		return x
	case *ssa.Extract:
		return lookupSource(x.Tuple, depth+1)
	case *ssa.UnOp:
		if al, ok := x.X.(*ssa.Alloc); ok {
			for _, ref := range *al.Referrers() {
				if st, ok := ref.(*ssa.Store); ok && st.Addr == ssa.Value(al) {
					if lk := lookupSource(st.Val, depth+1); lk != nil {
						return lk
					}
				}
			}
		}
	case *ssa.Phi:
		for _, e := range x.Edges {
			if lk := lookupSource(e, depth+1); lk != nil {
				return lk
			}
		}
	}
	return nil
}
