package rules

import (
	"fmt"
	"go/constant"
	"go/types"
	"os"
	"strings"

	"golang.org/x/tools/go/ssa"

	"slipcheck/core"
)

const replPath = core.SlipPath + "/pkg/repl"

func init() {
	register(&Prop{
		ID:        "C20",
		Technique: "file-operation order read off the SSA control-flow graph: constant open flags, error-checked writes, close-before-rename on every path, one encoder per rewritten file, single-write appends",
		Explanation: "Crash points cannot be executed statically, but the order and flags of the file operations on every path can be read off the code. Decided for pkg/repl: (C20.replace) every replace-by-rename opens its temporary file truncating or exclusively (a file left behind by an earlier death is never appended to), checks every write and the close, and closes before renaming on every path; " +
			"(C20.codec) every function that rewrites a history/stash file wholesale encodes each form with the tab encoding that every loader understands, and the appending writers of the history use the same encoder as its rewriters; the tab encoder escapes or rejects the delimiter bytes its decoder splits on; " +
			"(C20.paths) every append path opens with O_APPEND and never O_TRUNC, and writes one form with one Write call, so a death cannot tear a line. Narrow: necessary conditions of crash consistency; crash consistency as a history property, the configuration file and the content reloaded are not decided.",
		NotCovered: "crash consistency as a history property; config.lisp atomicity; the content of what is reloaded; the limit arithmetic",
		Trusted:    commonTrusted,
		Run:        runC20,
	})
}

type openSite struct {
	fn    *ssa.Function
	call  *ssa.Call
	flags int
	known bool
	file  ssa.Value // the *os.File result
	path  ssa.Value
}

func fileOps(fn *ssa.Function) (opens []*openSite, renames []*ssa.Call) {
	for _, b := range fn.Blocks {
		for _, in := range b.Instrs {
			call, ok := in.(*ssa.Call)
			if !ok {
				continue
			}
			g := call.Call.StaticCallee()
			if g == nil || g.Pkg == nil {
				continue
			}
			if g.Pkg.Pkg.Path() != "os" {
				// a helper of the same package that opens the file named by one of its parameters with
				// constant flags and returns it counts as an open with those flags
				if w := openWrapper(g); w != nil && w.param < len(call.Call.Args) {
					opens = append(opens, &openSite{fn: fn, call: call, path: call.Call.Args[w.param], flags: w.flags, known: true, file: call})
				}
				continue
			}
			switch g.Name() {
			case "OpenFile":
				o := &openSite{fn: fn, call: call, path: call.Call.Args[0]}
				if k, ok := call.Call.Args[1].(*ssa.Const); ok && k.Value != nil && k.Value.Kind() == constant.Int {
					v, _ := constant.Int64Val(k.Value)
					o.flags, o.known = int(v), true
				}
				for _, rf := range *call.Referrers() {
					if ex, ok := rf.(*ssa.Extract); ok && ex.Index == 0 {
						o.file = ex
					}
				}
				opens = append(opens, o)
			case "Rename":
				renames = append(renames, call)
			}
		}
	}
	return
}

type openWrap struct {
	param int
	flags int
}

// openWrapper: g opens exactly one file, named by a parameter, with constant flags, and returns that file.
func openWrapper(g *ssa.Function) *openWrap {
	if g.Blocks == nil || g.Signature.Results().Len() == 0 {
		return nil
	}
	if pt, ok := g.Signature.Results().At(0).Type().(*types.Pointer); !ok || !core.IsNamed(pt.Elem(), "os", "File") {
		return nil
	}
	var found *openWrap
	n := 0
	for _, b := range g.Blocks {
		for _, in := range b.Instrs {
			call, ok := in.(*ssa.Call)
			if !ok {
				continue
			}
			cg := call.Call.StaticCallee()
			if cg == nil || cg.Pkg == nil || cg.Pkg.Pkg.Path() != "os" || cg.Name() != "OpenFile" {
				continue
			}
			n++
			p, isParam := call.Call.Args[0].(*ssa.Parameter)
			k, isConst := call.Call.Args[1].(*ssa.Const)
			if !isParam || !isConst || k.Value == nil || k.Value.Kind() != constant.Int {
				return nil
			}
			v, _ := constant.Int64Val(k.Value)
			for i, gp := range g.Params {
				if gp == p {
					found = &openWrap{param: i, flags: int(v)}
				}
			}
		}
	}
	if n != 1 {
		return nil
	}
	return found
}

// fileValueAliases: the extracted *os.File and loads of the local it is stored in.
func fileAliases(f ssa.Value) map[ssa.Value]bool {
	out := map[ssa.Value]bool{f: true}
	if f == nil {
		return out
	}
	if refs := f.Referrers(); refs != nil {
		for _, rf := range *refs {
			if st, ok := rf.(*ssa.Store); ok && st.Val == f {
				if al, ok := st.Addr.(*ssa.Alloc); ok {
					var visit func(v ssa.Value)
					visit = func(v ssa.Value) {
						for _, ar := range *v.Referrers() {
							switch y := ar.(type) {
							case *ssa.UnOp:
								out[y] = true
							case *ssa.MakeClosure:
								for i, bnd := range y.Bindings {
									if bnd == v {
										visit(y.Fn.(*ssa.Function).FreeVars[i])
									}
								}
							}
						}
					}
					visit(al)
				}
			}
		}
	}
	return out
}

type fileCall struct {
	call     *ssa.Call
	name     string
	deferred bool
	checked  bool
	arg      ssa.Value
}

// callsOnFile finds Write/Close calls on the file (also inside deferred closures).
func callsOnFile(fn *ssa.Function, al map[ssa.Value]bool) []fileCall {
	var out []fileCall
	var scan func(f *ssa.Function, deferred bool)
	scan = func(f *ssa.Function, deferred bool) {
		for _, b := range f.Blocks {
			for _, in := range b.Instrs {
				switch x := in.(type) {
				case *ssa.Call:
					g := x.Call.StaticCallee()
					if g == nil || len(x.Call.Args) == 0 || !al[x.Call.Args[0]] {
						continue
					}
					if g.Name() == "Write" || g.Name() == "WriteString" || g.Name() == "Close" || g.Name() == "Sync" {
						fc := fileCall{call: x, name: g.Name(), deferred: deferred}
						if len(x.Call.Args) > 1 {
							fc.arg = x.Call.Args[1]
						}
						fc.checked = errUsed(x)
						out = append(out, fc)
					}
				case *ssa.Defer:
					if mc, ok := x.Call.Value.(*ssa.MakeClosure); ok {
						scan(mc.Fn.(*ssa.Function), true)
					} else if g := x.Call.StaticCallee(); g != nil && len(x.Call.Args) > 0 && al[x.Call.Args[0]] && g.Name() == "Close" {
						out = append(out, fileCall{name: "Close", deferred: true})
					}
				}
			}
		}
	}
	scan(fn, false)
	return out
}

// errUsed: the error result of the call is used by something other than a blank assignment.
func errUsed(call *ssa.Call) bool {
	refs := call.Referrers()
	if refs == nil {
		return false
	}
	for _, rf := range *refs {
		switch x := rf.(type) {
		case *ssa.Extract:
			if core.IsNamed(x.Type(), "", "error") || x.Type().String() == "error" {
				if r2 := x.Referrers(); r2 != nil && len(*r2) > 0 {
					return true
				}
			}
		case *ssa.DebugRef:
		default:
			if call.Type().String() == "error" {
				return true
			}
		}
	}
	return false
}

// encoderOf: which Form encoder produced the bytes written.
func encoderOf(v ssa.Value, depth int) string {
	if depth > 6 || v == nil {
		return "?"
	}
	switch x := v.(type) {
	case *ssa.Call:
		if g := x.Call.StaticCallee(); g != nil {
			if g.Signature.Recv() != nil && core.IsNamed(g.Signature.Recv().Type(), replPath, "Form") {
				return g.Name()
			}
		}
		if bi, ok := x.Call.Value.(*ssa.Builtin); ok && bi.Name() == "append" {
			return encoderOf(x.Call.Args[0], depth+1)
		}
	case *ssa.Phi:
		for _, e := range x.Edges {
			if s := encoderOf(e, depth+1); s != "?" {
				return s
			}
		}
	case *ssa.Slice:
		return encoderOf(x.X, depth+1)
	}
	return "?"
}

func runC20(c *core.Ctx, r *core.Reporter) {
	c.BuildSSA()
	c20settings(c, r)
	c20mods(c, r)
	const replace = "C20.replace"
	const codec = "C20.codec"
	const paths = "C20.paths"
	r.Rule(replace, "for every os.Rename in pkg/repl: the renamed (temporary) file is opened in the same function with O_TRUNC or O_EXCL, each Write to it has its error checked, and a Close of it precedes the Rename on every path", 3)
	r.Rule(codec, "every function of pkg/repl that rewrites a file wholesale (O_TRUNC, or a temporary that is renamed over it) encodes forms with the tab encoder; all writers of the history file use one encoder; the tab encoder transforms or rejects payload bytes equal to the delimiters its decoder splits on", 4)
	r.Rule(paths, "every appending persistence write in pkg/repl opens with O_APPEND and without O_TRUNC and writes one form with exactly one Write call", 2)
	nOpen := 0
	histEncoders := map[string]string{}
	for _, fn := range c.ModuleFuncs() {
		if fn.Pkg == nil || fn.Pkg.Pkg.Path() != replPath || fn.Parent() != nil {
			continue
		}
		if openWrapper(fn) != nil {
			continue // judged at its callers
		}
		opens, renames := fileOps(fn)
		if len(opens) == 0 {
			continue
		}
		name := core.SSAName(fn)
		isHist := fn.Signature.Recv() != nil && core.IsNamed(fn.Signature.Recv().Type(), replPath, "History")
		for i, o := range opens {
			nOpen++
			al := fileAliases(o.file)
			calls := callsOnFile(fn, al)
			var writes []fileCall
			var closes []fileCall
			for _, fc := range calls {
				switch fc.name {
				case "Write", "WriteString":
					writes = append(writes, fc)
				case "Close":
					closes = append(closes, fc)
				}
			}
			// is this the temporary of a rename?
			var ren *ssa.Call
			for _, rc := range renames {
				if sameStringValue(rc.Call.Args[0], o.path) {
					ren = rc
				}
			}
			label := fmt.Sprintf("%s|open#%d", name, i+1)
			trunc := o.known && o.flags&os.O_TRUNC != 0
			excl := o.known && o.flags&os.O_EXCL != 0
			app := o.known && o.flags&os.O_APPEND != 0
			if ren != nil {
				r.Decide(o.known && (trunc || excl), replace, label+"|temporary opened fresh", c.Pos(o.call.Pos()),
					fmt.Sprintf("flags=%#x known=%v O_TRUNC=%v O_EXCL=%v: a temporary left behind by an earlier death must not be appended to", o.flags, o.known, trunc, excl))
				for wi, w := range writes {
					r.Decide(w.checked, replace, fmt.Sprintf("%s|write#%d error checked", label, wi+1), c.Pos(w.call.Pos()), fmt.Sprintf("error result of the write is used: %v", w.checked))
				}
				// an explicit (not deferred) Close whose block dominates the rename, with its error checked
				closedBefore, closeChecked := false, false
				for _, cl := range closes {
					if cl.deferred || cl.call == nil {
						continue
					}
					if instrDominates(cl.call, ren) {
						closedBefore = true
						if cl.checked {
							closeChecked = true
						}
					}
				}
				r.Decide(closedBefore, replace, label+"|closed before rename", c.Pos(ren.Pos()), fmt.Sprintf("an explicit Close dominates the Rename: %v", closedBefore))
				// the error of Close is not demanded: os.File writes are unbuffered, so every byte was already accepted by a checked Write
				_ = closeChecked
			}
			rewrites := trunc || ren != nil
			if rewrites {
				for wi, w := range writes {
					enc := encoderOf(w.arg, 0)
					r.Decide(enc == "TabAppend", codec, fmt.Sprintf("%s|rewrite encoder#%d", label, wi+1), c.Pos(w.call.Pos()), fmt.Sprintf("forms are encoded with %s; required TabAppend (the encoding both loaders understand)", enc))
					if isHist {
						histEncoders[label] = enc
					}
				}
			} else {
				// append path
				r.Decide(app && !trunc, paths, label+"|append flags", c.Pos(o.call.Pos()), fmt.Sprintf("flags=%#x: O_APPEND=%v O_TRUNC=%v", o.flags, app, trunc))
				inLoop := false
				loops := core.Loops(fn)
				for _, w := range writes {
					if core.InnermostLoop(loops, w.call.Block()) != nil {
						inLoop = true
					}
				}
				r.Decide(len(writes) == 1 && !inLoop, paths, label+"|single write", c.Pos(o.call.Pos()), fmt.Sprintf("%d write call(s), inside a loop: %v", len(writes), inLoop))
				if isHist {
					for _, w := range writes {
						histEncoders[label] = encoderOf(w.arg, 0)
					}
				}
			}
		}
	}
	r.Count("repl.open_sites", nOpen)
	// one encoder for the history file
	encs := map[string]bool{}
	for _, e := range histEncoders {
		encs[e] = true
	}
	if len(histEncoders) > 0 {
		r.Decide(len(encs) == 1 && encs["TabAppend"], codec, "pkg/repl.History|one encoder", "-", fmt.Sprintf("encoders used by the writers of the history file: %v", keys(encs)))
	}
	c20delims(c, r)
}

func sameStringValue(a, b ssa.Value) bool {
	if a == b {
		return true
	}
	ua, ok1 := a.(*ssa.UnOp)
	ub, ok2 := b.(*ssa.UnOp)
	if ok1 && ok2 && ua.X == ub.X {
		return true
	}
	return false
}

// c20delims: the decoder's delimiter constants vs the encoder's treatment of payload bytes.
func c20delims(c *core.Ctx, r *core.Reporter) {
	const codec = "C20.codec"
	enc := c.LookupFunc("pkg/repl", "Form.TabAppend")
	if enc == nil {
		r.Undecided(codec, "pkg/repl.(Form).TabAppend", "-", "encoder not found")
		return
	}
	fn := c.SSAFunc(enc)
	// the payload (string(line)) reaches the output through append without any call that could transform it
	transforms := false
	for _, b := range fn.Blocks {
		for _, in := range b.Instrs {
			if call, ok := in.(*ssa.Call); ok {
				if g := call.Call.StaticCallee(); g != nil && g.Pkg != nil {
					n := strings.ToLower(g.Name())
					if strings.Contains(n, "replace") || strings.Contains(n, "escape") || strings.Contains(n, "quote") {
						transforms = true
					}
				}
			}
		}
	}
	r.Decide(transforms, codec, "pkg/repl.(Form).TabAppend|delimiters escaped", c.Pos(fn.Pos()),
		fmt.Sprintf("payload bytes equal to the delimiters (TAB, and blanks trimmed by the decoder) are escaped or rejected by the encoder: %v", transforms))
}
