package rules

import (
	"go/token"
	"go/types"
	"sort"

	"golang.org/x/tools/go/ssa"

	"slipcheck/core"
)

// c13curpkg: makunbound, fmakunbound and unexport act on the current package (or the package the caller names):
// a name the current package only inherits is the used package's own definition, and removing it there takes it
// away from that package and from every other user. Two independent seeded changes redirected the removal to the
// owner recorded in the entry (vv.Pkg, fi.Pkg). The rule: in the built-ins, the package on which a retracting
// method (Remove, Undefine, Unexport) is called never derives from the Pkg field of a VarVal or FuncInfo.
func c13curpkg(c *core.Ctx, r *core.Reporter) {
	const rule = "C13.curpkg"
	r.Rule(rule, "a built-in that retracts a definition (Package.Remove, Undefine, Unexport) calls it on the current package or on a package given as argument, never on the owner recorded in the entry it looked up (VarVal.Pkg, FuncInfo.Pkg)", 3)
	pkT := c.LookupType("", "Package")
	if pkT == nil {
		r.Undecided(rule, "slip.Package", "-", "anchor does not resolve")
		return
	}
	fromOwnerField := func(v ssa.Value) bool {
		seen := map[ssa.Value]bool{}
		var walk func(v ssa.Value, d int) bool
		walk = func(v ssa.Value, d int) bool {
			if d > 6 || seen[v] {
				return false
			}
			seen[v] = true
			switch x := v.(type) {
			case *ssa.Phi:
				for _, e := range x.Edges {
					if walk(e, d+1) {
						return true
					}
				}
			case *ssa.UnOp:
				if x.Op != token.MUL {
					return false
				}
				if fa, ok := x.X.(*ssa.FieldAddr); ok {
					owner, field := fieldOwnerName(fa)
					if field == "Pkg" && (owner == "VarVal" || owner == "FuncInfo") {
						return true
					}
				}
				if al, ok := x.X.(*ssa.Alloc); ok {
					for _, rf := range *al.Referrers() {
						if st, ok := rf.(*ssa.Store); ok && st.Addr == ssa.Value(al) && walk(st.Val, d+1) {
							return true
						}
					}
				}
			}
			return false
		}
		return walk(v, 0)
	}
	type site struct {
		key, pos string
		ok       bool
	}
	var sites []site
	for _, fn := range c.ModuleFuncs() {
		if fn.Blocks == nil || fn.Pkg == nil || takesTestingT(fn) || fn.Pkg.Pkg.Path() == core.SlipPath {
			continue
		}
		n := 0
		for _, b := range fn.Blocks {
			for _, in := range b.Instrs {
				call, ok := in.(*ssa.Call)
				if !ok {
					continue
				}
				cal := call.Call.StaticCallee()
				if cal == nil || cal.Signature.Recv() == nil || len(call.Call.Args) == 0 {
					continue
				}
				rt := cal.Signature.Recv().Type()
				if p, ok := rt.(*types.Pointer); ok {
					rt = p.Elem()
				}
				if nt, ok := types.Unalias(rt).(*types.Named); !ok || nt.Obj() != pkT.Obj() {
					continue
				}
				switch cal.Name() {
				case "Remove", "Undefine", "Unexport":
				default:
					continue
				}
				n++
				key := core.SSAName(fn) + "|" + cal.Name()
				if n > 1 {
					key += "#" + string(rune('0'+n))
				}
				sites = append(sites, site{key, c.Pos(call.Pos()), !fromOwnerField(call.Call.Args[0])})
			}
		}
	}
	sort.Slice(sites, func(i, j int) bool { return sites[i].key < sites[j].key })
	for _, s := range sites {
		r.Decide(s.ok, rule, s.key, s.pos, "the package the definition is retracted from derives from the entry's owner field: "+boolStr(!s.ok))
	}
}
