package rules

import (
	"sort"

	"golang.org/x/tools/go/ssa"

	"slipcheck/core"
)

// c20mods: the settings file is rewritten, whole, from the record of variables the user has modified
// (pkg/repl modifiedVars): a name missing from the record is missing from the file after the next save, and the
// next start no longer loads that setting. Entries are added by the set hook and the record is emptied once, by
// the program at start-up before the configuration is loaded (cmd/slip calls repl.ZeroMods). The rule is a
// who-may-write check: the record is replaced or has entries deleted only in its initialiser and in ZeroMods,
// and ZeroMods is called only by package main.
func c20mods(c *core.Ctx, r *core.Reporter) {
	const rule = "C20.mods"
	r.Rule(rule, "the record of modified settings, from which the settings file is rewritten, is emptied only at program start: it is replaced or shrunk only by its initialiser and ZeroMods, and ZeroMods is called only from package main", 2)
	var glob *ssa.Global
	for _, p := range c.Prog.AllPackages() {
		if p.Pkg.Path() == replPath {
			glob, _ = p.Members["modifiedVars"].(*ssa.Global)
		}
	}
	zm := c.LookupFunc("pkg/repl", "ZeroMods")
	if glob == nil || zm == nil {
		r.Undecided(rule, "pkg/repl.modifiedVars / ZeroMods", "-", "anchor does not resolve")
		return
	}
	zmFn := c.SSAFunc(zm)
	type site struct {
		key, pos, why string
		ok            bool
	}
	var sites []site
	for _, fn := range c.ModuleFuncs() {
		if fn.Blocks == nil || fn.Pkg == nil || takesTestingT(fn) {
			continue
		}
		for _, b := range fn.Blocks {
			for _, in := range b.Instrs {
				switch x := in.(type) {
				case *ssa.Store:
					if x.Addr == ssa.Value(glob) {
						ok := fn == zmFn || fn.Name() == "init"
						sites = append(sites, site{core.SSAName(fn) + "|replaces the record", c.Pos(x.Pos()), "replaces the record of modified settings", ok})
					}
				case ssa.CallInstruction:
					cc := x.Common()
					if cc.StaticCallee() == zmFn {
						ok := fn.Pkg.Pkg.Name() == "main"
						sites = append(sites, site{core.SSAName(fn) + "|calls ZeroMods", c.Pos(in.Pos()), "empties the record of modified settings", ok})
					}
					if bi, isB := cc.Value.(*ssa.Builtin); isB && (bi.Name() == "delete" || bi.Name() == "clear") && len(cc.Args) > 0 {
						if u, isU := cc.Args[0].(*ssa.UnOp); isU && u.X == ssa.Value(glob) {
							sites = append(sites, site{core.SSAName(fn) + "|" + bi.Name(), c.Pos(in.Pos()), "removes entries of the record of modified settings", false})
						}
					}
				}
			}
		}
	}
	sort.Slice(sites, func(i, j int) bool { return sites[i].key < sites[j].key })
	for _, s := range sites {
		r.Decide(s.ok, rule, s.key, s.pos, s.why+"; allowed here (initialiser, ZeroMods, or package main at start-up): "+boolStr(s.ok))
	}
}
