package rules

import (
	"fmt"
	"go/token"
	"go/types"
	"sort"

	"golang.org/x/tools/go/ssa"

	"slipcheck/core"
)

func init() {
	register(&Prop{
		ID:        "C08",
		Technique: "SSA def-use: every function value that can reach FuncInfo.Create must carry its argument list into Function.Args; sibling field-set comparison for the placeholder patch; provenance of stores into code lists",
		Explanation: "Decides (C08.args) for every creator function that can flow into FuncInfo.Create (first argument of every Define call, every store to a Create field) that its List parameter reaches the Args field of the slip.Function it builds or is handed to another creator, " +
			"which is necessary for 'a call to a not-yet-defined function still passes its arguments'; (C08.patch) that Package.DefLambda's patch branch copies every field of Lambda; (C08.cache) that stores into code lists store compiled equivalents. It does not decide equality of results across definition orders.",
		NotCovered: "equivalence of results across orders/modes; which package is current at compile time",
		Trusted:    commonTrusted,
		Run:        runC08,
	})
}

func runC08(c *core.Ctx, r *core.Reporter) {
	c08args(c, r)
	c08patch(c, r)
	c08funcinfo(c, r)
	c08cache(c, r)
	c08nostate(c, r)
	c08late(c, r)
	c08register(c, r)
	c08visible(c, r)
	c08canon(c, r)
	c08refresh(c, r, "C08.refresh")
}

// c08late: Package.DefLambda copies the fields of the lambda it is given into the lambda already
// registered under the name (that is how compiled callers see a redefinition). A field assigned after the
// call is assigned on the unregistered copy only.
func c08late(c *core.Ctx, r *core.Reporter) {
	const rule = "C08.late"
	r.Rule(rule, "no function assigns a field of a *Lambda on a path after it handed that lambda to Package.DefLambda: the registration copies the fields into the lambda compiled callers already reference, so a later assignment (closure, macro flag, forms) never reaches them when the name was defined before", 2)
	def := c.LookupFunc("", "Package.DefLambda")
	if def == nil {
		r.Undecided(rule, "slip.(Package).DefLambda", "-", "anchor does not resolve")
		return
	}
	defFn := c.SSAFunc(def)
	for _, fn := range c.ModuleFuncs() {
		if takesTestingT(fn) {
			continue
		}
		n := 0
		for _, b := range fn.Blocks {
			for ci, in := range b.Instrs {
				call, ok := in.(*ssa.Call)
				if !ok || call.Call.StaticCallee() != defFn || len(call.Call.Args) < 3 {
					continue
				}
				lam := canonVal(call.Call.Args[2])
				n++
				var late []string
				after := core.ReachableBlocks(b, nil)
				for _, b2 := range fn.Blocks {
					for si, in2 := range b2.Instrs {
						st, ok := in2.(*ssa.Store)
						if !ok {
							continue
						}
						fa, ok := st.Addr.(*ssa.FieldAddr)
						if !ok || canonVal(fa.X) != lam {
							continue
						}
						isAfter := false
						if b2 == b {
							isAfter = si > ci || loopsBack(b)
						} else {
							isAfter = after[b2]
						}
						if isAfter {
							late = append(late, fmt.Sprintf("%s at %s", fieldName(fa), c.Pos(st.Pos())))
						}
					}
				}
				key := core.SSAName(fn)
				if n > 1 {
					key = fmt.Sprintf("%s#%d", key, n)
				}
				r.Decide(len(late) == 0, rule, key, c.Pos(call.Pos()), fmt.Sprintf("fields assigned after the registration: %v", late))
			}
		}
	}
}

// loopsBack: block b can reach itself.
func loopsBack(b *ssa.BasicBlock) bool {
	for _, s := range b.Succs {
		if core.ReachableBlocks(s, nil)[b] {
			return true
		}
	}
	return false
}

// flowsToArgs reports whether v (a List) reaches a store into a field named
// Args of slip.Function, or is passed on as a call argument.
func flowsToArgs(v ssa.Value, seen map[ssa.Value]bool) (stored, passed bool) {
	if seen[v] {
		return
	}
	seen[v] = true
	refs := v.Referrers()
	if refs == nil {
		return
	}
	for _, rf := range *refs {
		switch x := rf.(type) {
		case *ssa.Store:
			if x.Val == v {
				if fa, ok := x.Addr.(*ssa.FieldAddr); ok {
					st := fa.X.Type().Underlying().(*types.Pointer).Elem()
					if core.IsNamed(st, core.SlipPath, "Function") && fieldName(fa) == "Args" {
						stored = true
					}
				} else if al, ok := x.Addr.(*ssa.Alloc); ok {
					// spilled local: follow loads
					if alrefs := al.Referrers(); alrefs != nil {
						for _, ar := range *alrefs {
							if u, ok := ar.(*ssa.UnOp); ok {
								s2, p2 := flowsToArgs(u, seen)
								stored = stored || s2
								passed = passed || p2
							}
						}
					}
				}
			}
		case *ssa.Call:
			for _, a := range x.Call.Args {
				if a == v {
					passed = true
				}
			}
		case *ssa.ChangeType, *ssa.Phi, *ssa.Slice, *ssa.MakeInterface:
			s2, p2 := flowsToArgs(rf.(ssa.Value), seen)
			stored = stored || s2
			passed = passed || p2
		case *ssa.MakeClosure:
			passed = true
		}
	}
	return
}

func c08args(c *core.Ctx, r *core.Reporter) {
	const rule = "C08.args"
	r.Rule(rule, "every function that can become FuncInfo.Create (creator argument of Define, value stored in a Create field) lets its List parameter reach Function.Args of the object it returns, or hands it to another creator", 800)
	c.BuildSSA()
	type creator struct {
		fn   *ssa.Function
		key  string
		pos  string
		site string
	}
	var creators []creator
	seenFn := map[*ssa.Function]bool{}
	add := func(v ssa.Value, key, site string) {
		var fn *ssa.Function
		switch x := v.(type) {
		case *ssa.Function:
			fn = x
		case *ssa.MakeClosure:
			fn, _ = x.Fn.(*ssa.Function)
		case *ssa.ChangeType:
			if f, ok := x.X.(*ssa.Function); ok {
				fn = f
			} else if mc, ok := x.X.(*ssa.MakeClosure); ok {
				fn, _ = mc.Fn.(*ssa.Function)
			}
		}
		if fn == nil || seenFn[fn] {
			return
		}
		seenFn[fn] = true
		creators = append(creators, creator{fn: fn, key: key, pos: c.Pos(fn.Pos()), site: site})
	}
	// (a) registrations
	regKey := map[*ssa.Function]string{}
	for _, b := range c.Registry() {
		_ = b
	}
	for _, f := range c.ModuleFuncs() {
		for _, b := range f.Blocks {
			for _, in := range b.Instrs {
				switch x := in.(type) {
				case *ssa.Call:
					g := x.Call.StaticCallee()
					if g == nil {
						continue
					}
					if core.IsSSAFunc(g, core.SlipPath, "", "Define") && len(x.Call.Args) >= 1 {
						add(x.Call.Args[0], "", "Define")
					} else if core.IsSSAFunc(g, core.SlipPath, "Package", "Define") && len(x.Call.Args) >= 2 {
						add(x.Call.Args[1], "", "Package.Define")
					}
				case *ssa.Store:
					if fa, ok := x.Addr.(*ssa.FieldAddr); ok {
						st := fa.X.Type().Underlying().(*types.Pointer).Elem()
						if core.IsNamed(st, core.SlipPath, "FuncInfo") && fieldName(fa) == "Create" {
							add(x.Val, "", "FuncInfo.Create store in "+core.SSAName(f))
						}
					}
				}
			}
		}
	}
	_ = regKey
	// name creators by the Lisp name when they come from a registration
	byLit := map[string]string{}
	for _, b := range c.Registry() {
		if b.Creator != nil {
			byLit[c.Pos(b.Creator.Pos())] = b.Key()
		}
	}
	sort.Slice(creators, func(i, j int) bool { return creators[i].pos < creators[j].pos })
	r.Count("creators", len(creators))
	for _, cr := range creators {
		key := byLit[cr.pos]
		if key == "" {
			key = core.SSAName(cr.fn)
		}
		var lp *ssa.Parameter
		for _, p := range cr.fn.Params {
			if core.IsNamed(p.Type(), core.SlipPath, "List") {
				lp = p
			}
		}
		if lp == nil {
			if len(cr.fn.Blocks) == 0 {
				continue
			}
			// a creator parameter forwarded by a wrapper (Define's own parameter) is not a creator body
			continue
		}
		stored, passed := flowsToArgs(lp, map[ssa.Value]bool{})
		detail := fmt.Sprintf("creator from %s: args stored in Function.Args=%v, handed on=%v", cr.site, stored, passed)
		r.Decide(stored || passed, rule, key, cr.pos, detail)
	}
}

// c08patch: Package.DefLambda patches an existing placeholder in place; every
// field of Lambda must be assigned in that branch.
func c08patch(c *core.Ctx, r *core.Reporter) {
	const rule = "C08.patch"
	r.Rule(rule, "where Package.DefLambda finds an existing *Lambda for the name it overwrites it in place: every field of Lambda is stored through the existing pointer (a forgotten field leaves stale code in every compiled caller)", 1)
	fnObj := c.LookupFunc("", "Package.DefLambda")
	lamT := c.LookupType("", "Lambda")
	if fnObj == nil || lamT == nil {
		r.Undecided(rule, "slip.(Package).DefLambda", "-", "anchor does not resolve")
		return
	}
	fn := c.SSAFunc(fnObj)
	st := lamT.Underlying().(*types.Struct)
	// the existing lambda: a value loaded from a map lookup (lambdas[name]); stores through FieldAddr of it
	assigned := map[string]bool{}
	storeAt := map[string]*ssa.Store{}
	whole := false
	for _, b := range fn.Blocks {
		for _, in := range b.Instrs {
			s, ok := in.(*ssa.Store)
			if !ok {
				continue
			}
			switch a := s.Addr.(type) {
			case *ssa.FieldAddr:
				if core.IsNamed(a.X.Type(), core.SlipPath, "Lambda") && fromMapLookup(a.X, 0) {
					assigned[fieldName(a)] = true
					storeAt[fieldName(a)] = s
				}
			default:
				// *existing = *new
				if core.IsNamed(s.Addr.Type(), core.SlipPath, "Lambda") && fromMapLookup(s.Addr, 0) {
					whole = true
				}
			}
		}
	}
	if !whole && len(assigned) == 0 {
		r.Undecided(rule, "slip.(Package).DefLambda", c.Pos(fn.Pos()), "no in-place patch of an existing Lambda found (shape changed)")
		return
	}
	// the patch branch starts at the store that dominates the others; every field's store must lie on every path from there to the return
	var entry *ssa.Store
	for _, s1 := range storeAt {
		domAll := true
		for _, s2 := range storeAt {
			if s1 != s2 && !instrDominates(s1, s2) {
				domAll = false
			}
		}
		if domAll {
			entry = s1
		}
	}
	for i := 0; i < st.NumFields(); i++ {
		f := st.Field(i).Name()
		ok := whole || assigned[f]
		detail := fmt.Sprintf("field %s copied into the existing placeholder: %v", f, ok)
		if ok && !whole && entry != nil && storeAt[f] != entry {
			idx := 0
			for k, in := range entry.Block().Instrs {
				if in == ssa.Instruction(entry) {
					idx = k
				}
			}
			sidx := 0
			for k, in := range storeAt[f].Block().Instrs {
				if in == ssa.Instruction(storeAt[f]) {
					sidx = k
				}
			}
			if escapes(entry.Block(), idx, map[*ssa.BasicBlock]int{storeAt[f].Block(): sidx}) {
				ok = false
				detail = fmt.Sprintf("field %s is copied only on some paths of the patch branch (conditionally): a stale value survives a redefinition", f)
			}
		}
		r.Decide(ok, rule, "slip.(Package).DefLambda|Lambda."+f, c.Pos(fn.Pos()), detail)
	}
}

// c08funcinfo: when a function is (re)defined, the registered FuncInfo must be
// brought up to date on every path: every FuncInfo field that DefLambda assigns
// on some path is assigned on every path to the return.
func c08funcinfo(c *core.Ctx, r *core.Reporter) {
	const rule = "C08.patch"
	fnObj := c.LookupFunc("", "Package.DefLambda")
	if fnObj == nil {
		return
	}
	fn := c.SSAFunc(fnObj)
	blocks := map[string]map[*ssa.BasicBlock]bool{}
	for _, b := range fn.Blocks {
		for _, in := range b.Instrs {
			st, ok := in.(*ssa.Store)
			if !ok {
				continue
			}
			fa, ok := st.Addr.(*ssa.FieldAddr)
			if !ok || !core.IsNamed(fa.X.Type(), core.SlipPath, "FuncInfo") {
				continue
			}
			f := fieldName(fa)
			if blocks[f] == nil {
				blocks[f] = map[*ssa.BasicBlock]bool{}
			}
			blocks[f][b] = true
		}
	}
	var fs []string
	for f := range blocks {
		fs = append(fs, f)
	}
	sort.Strings(fs)
	for _, f := range fs {
		if f == "Export" || f == "Name" {
			continue // set only at creation / conditionally by design (name is the key; export is sticky)
		}
		// can the return be reached from the entry avoiding every block that stores the field?
		seen := map[*ssa.BasicBlock]bool{}
		stack := []*ssa.BasicBlock{fn.Blocks[0]}
		escaped := false
		for len(stack) > 0 && !escaped {
			b := stack[len(stack)-1]
			stack = stack[:len(stack)-1]
			if seen[b] || blocks[f][b] {
				continue
			}
			seen[b] = true
			if _, ok := b.Instrs[len(b.Instrs)-1].(*ssa.Return); ok {
				escaped = true
			}
			stack = append(stack, b.Succs...)
		}
		if escaped && fieldFixedByGuard(fn, f) {
			// the in-place update is taken only when the entry's field already has the value a fresh entry gets
			// (`fi.Pkg == obj`): nothing to assign on that path
			r.Hold(rule, "slip.(Package).DefLambda|FuncInfo."+f, c.Pos(fn.Pos()), fmt.Sprintf("FuncInfo.%s is assigned where a fresh entry is built; the in-place update of an existing entry is control-dependent on the entry's %s being the receiver already", f, f))
			continue
		}
		r.Decide(!escaped, rule, "slip.(Package).DefLambda|FuncInfo."+f, c.Pos(fn.Pos()), fmt.Sprintf("FuncInfo.%s is assigned on every path of a (re)definition: %v (a field updated only at creation keeps the first definition's value: the saved load form pairs a stale lambda list with the new body)", f, !escaped))
	}
}

func fromMapLookup(v ssa.Value, depth int) bool {
	if depth > 6 {
		return false
	}
	switch x := v.(type) {
	case *ssa.Lookup:
		return true
	case *ssa.Extract:
		return fromMapLookup(x.Tuple, depth+1)
	case *ssa.Phi:
		for _, e := range x.Edges {
			if fromMapLookup(e, depth+1) {
				return true
			}
		}
	case *ssa.UnOp:
		if al, ok := x.X.(*ssa.Alloc); ok {
			if refs := al.Referrers(); refs != nil {
				for _, rf := range *refs {
					if s, ok := rf.(*ssa.Store); ok && s.Addr == al && fromMapLookup(s.Val, depth+1) {
						return true
					}
				}
			}
		}
	}
	return false
}

func c08cache(c *core.Ctx, r *core.Reporter) {
	// implemented in c08_cache.go when armed
	c08cacheImpl(c, r)
}

// c08nostate: a built-in's Call must not keep state in its function object.
func c08nostate(c *core.Ctx, r *core.Reporter) {
	const rule = "C08.nostate"
	r.Rule(rule, "the Call/Place method of a registered built-in, the closures it creates and the methods it calls on itself never store into a field of its own function object (the object is shared by every evaluation of that code: a cached value makes the hundredth evaluation differ from the first); caching compiled sub-forms in elements of Function.Args is covered by C08.cache", 700)
	seen := map[*ssa.Function]bool{}
	for _, b := range c.Registry() {
		for _, m := range []*types.Func{b.Call, b.Place} {
			if m == nil {
				continue
			}
			fn := c.SSAFunc(m)
			if fn == nil || seen[fn] || len(fn.Params) == 0 {
				continue
			}
			seen[fn] = true
			bad, pos := selfStores(fn)
			key := core.FuncName(m)
			r.Decide(len(bad) == 0, rule, key, c.Pos(pos), fmt.Sprintf("stores into fields of the receiver: %v", bad))
		}
	}
	// the code objects of package slip itself (Lambda, Dynamic, Function, the forward placeholder, WhopLoc, ...):
	// their Eval, Call and BoundCall methods are evaluated any number of times too
	var fns []*ssa.Function
	for _, fn := range c.ModuleFuncs() {
		if fn.Pkg == nil || fn.Pkg.Pkg.Path() != core.SlipPath || fn.Parent() != nil || fn.Signature.Recv() == nil || seen[fn] || len(fn.Params) == 0 {
			continue
		}
		switch fn.Name() {
		case "Eval", "Call", "BoundCall", "Apply":
		default:
			continue
		}
		if _, isPtr := fn.Signature.Recv().Type().(*types.Pointer); !isPtr {
			continue
		}
		fns = append(fns, fn)
	}
	sort.Slice(fns, func(i, j int) bool { return core.SSAName(fns[i]) < core.SSAName(fns[j]) })
	for _, fn := range fns {
		bad, pos := selfStores(fn)
		key := core.SSAName(fn)
		if why, ok := nostateExceptions[key]; ok && len(bad) > 0 {
			r.Hold(rule, key, c.Pos(pos), "accepted by reading: "+why)
			continue
		}
		r.Decide(len(bad) == 0, rule, key, c.Pos(pos), fmt.Sprintf("stores into fields of the receiver: %v", bad))
	}
}

var nostateExceptions = map[string]string{}

// selfStores lists the fields of its own function object that method fn (a Call or Place), the closures it
// creates and the methods it calls on itself store into.
func selfStores(fn *ssa.Function) ([]string, token.Pos) {
	var bad []string
	pos := fn.Pos()
	visited := map[*ssa.Function]bool{}
	// scan f, in which the values in recvs denote the function object; follows closures that capture it
	// and statically called methods that receive it as their receiver
	var scan func(f *ssa.Function, recvs map[ssa.Value]bool, depth int)
	scan = func(f *ssa.Function, recvs map[ssa.Value]bool, depth int) {
		if visited[f] || depth > 5 {
			return
		}
		visited[f] = true
		for _, bb := range f.Blocks {
			for _, in := range bb.Instrs {
				switch x := in.(type) {
				case *ssa.Store:
					if fa, ok := x.Addr.(*ssa.FieldAddr); ok && rootedAtAny(fa.X, recvs, 0) {
						bad = append(bad, fieldName(fa))
						pos = x.Pos()
					}
				case *ssa.MakeClosure:
					af, ok := x.Fn.(*ssa.Function)
					if !ok {
						continue
					}
					sub := map[ssa.Value]bool{}
					for i, bv := range x.Bindings {
						if recvs[bv] && i < len(af.FreeVars) {
							sub[af.FreeVars[i]] = true
						}
					}
					if len(sub) > 0 {
						scan(af, sub, depth+1)
					}
				case *ssa.Call:
					g := x.Call.StaticCallee()
					if g == nil || g.Signature.Recv() == nil || len(x.Call.Args) == 0 || len(g.Params) == 0 || g.Blocks == nil {
						continue
					}
					if recvs[x.Call.Args[0]] && g.Pkg != nil && core.InModule(g.Pkg.Pkg) {
						scan(g, map[ssa.Value]bool{g.Params[0]: true}, depth+1)
					}
				}
			}
		}
	}
	scan(fn, map[ssa.Value]bool{fn.Params[0]: true}, 0)
	return bad, pos
}

// rootedAtAny: v is one of the values denoting the function object, or the address of a (nested, embedded) field of it.
func rootedAtAny(v ssa.Value, recvs map[ssa.Value]bool, depth int) bool {
	if depth > 6 {
		return false
	}
	if recvs[v] {
		return true
	}
	if fa, ok := v.(*ssa.FieldAddr); ok {
		return rootedAtAny(fa.X, recvs, depth+1)
	}
	return false
}

// rootedAt: v is the receiver itself or the address of a (nested, embedded) field of it.
func rootedAt(v ssa.Value, recv *ssa.Parameter, depth int) bool {
	if depth > 6 {
		return false
	}
	switch x := v.(type) {
	case *ssa.Parameter:
		return x == recv
	case *ssa.FieldAddr:
		return rootedAt(x.X, recv, depth+1)
	case *ssa.UnOp:
		// *recvSpill: the receiver captured by a closure
		if fv, ok := x.X.(*ssa.FreeVar); ok {
			_ = fv
			return false
		}
	}
	return false
}

// fieldFixedByGuard: every store into a field of an existing FuncInfo (one read from a map) in fn is
// control-dependent on `entry.<field> == receiver`.
func fieldFixedByGuard(fn *ssa.Function, field string) bool {
	if len(fn.Params) == 0 {
		return false
	}
	recv := fn.Params[0]
	g := core.ComputeGuards(fn, nil)
	found := false
	for _, b := range fn.Blocks {
		for _, in := range b.Instrs {
			st, ok := in.(*ssa.Store)
			if !ok {
				continue
			}
			fa, ok := st.Addr.(*ssa.FieldAddr)
			if !ok || !core.IsNamed(fa.X.Type(), core.SlipPath, "FuncInfo") || !fromMapLookup(fa.X, 0) {
				continue
			}
			guarded := false
			for f := range g.Facts(b) {
				bo, ok := f.If.Cond.(*ssa.BinOp)
				if !ok || bo.Op != token.EQL || !f.Branch {
					continue
				}
				for _, pair := range [][2]ssa.Value{{bo.X, bo.Y}, {bo.Y, bo.X}} {
					u, ok := pair[0].(*ssa.UnOp)
					if !ok {
						continue
					}
					gfa, ok := u.X.(*ssa.FieldAddr)
					if ok && fieldName(gfa) == field && core.IsNamed(gfa.X.Type(), core.SlipPath, "FuncInfo") && pair[1] == ssa.Value(recv) {
						guarded = true
					}
				}
			}
			if !guarded {
				return false
			}
			found = true
		}
	}
	return found
}
