package rules

import (
	"fmt"
	"go/token"
	"sort"

	"golang.org/x/tools/go/ssa"

	"slipcheck/core"
	"slipcheck/lenflow"
)

// c05int64: (*big.Int).Int64 and Uint64 are "undefined" (they wrap) when the value does not fit. A conversion of
// a bignum to a machine integer is exact only under the matching range test: Int64 under IsInt64, Uint64 under
// IsUint64, on the same big.Int, holding on every path to the conversion. A guard of the other kind lets 2^63 ..
// 2^64-1 through IsUint64 into Int64, which wraps to a negative number ((< 1/2 9223372036854775808) => nil).
func c05int64(c *core.Ctx, r *core.Reporter) {
	const rule = "C05.int64"
	r.Rule(rule, "every (*big.Int).Int64 / Uint64 conversion whose receiver was range-tested is reached only through the success edge of the matching test (IsInt64 for Int64, IsUint64 for Uint64) of the same big.Int; a conversion under the other test wraps", 10)
	an := lenflow.New(c)
	isBig := func(f *ssa.Function, name string) bool {
		return f != nil && f.Name() == name && f.Pkg != nil && f.Pkg.Pkg.Path() == "math/big" && f.Signature.Recv() != nil
	}
	// same big.Int: one SSA value, possibly through pointer conversions of one operand (ChangeType/Convert)
	root := func(v ssa.Value) ssa.Value {
		for i := 0; i < 6; i++ {
			switch x := v.(type) {
			case *ssa.ChangeType:
				v = x.X
			case *ssa.Convert:
				v = x.X
			default:
				return v
			}
		}
		return v
	}
	type site struct {
		fn   *ssa.Function
		call *ssa.Call
		want string
		ok   bool
		how  string
	}
	var sites []site
	for _, fn := range c.ModuleFuncs() {
		if fn.Blocks == nil || fn.Pkg == nil || takesTestingT(fn) {
			continue
		}
		var g *core.Guards
		for _, b := range fn.Blocks {
			for _, in := range b.Instrs {
				call, ok := in.(*ssa.Call)
				if !ok {
					continue
				}
				cal := call.Call.StaticCallee()
				want := ""
				switch {
				case isBig(cal, "Int64"):
					want = "IsInt64"
				case isBig(cal, "Uint64"):
					want = "IsUint64"
				default:
					continue
				}
				if g == nil {
					g = core.ComputeGuards(fn, an.NoReturn)
				}
				recv := root(call.Call.Args[0])
				matched, other := false, ""
				for f := range g.Facts(b) {
					cond, br := f.If.Cond, f.Branch
					if un, isNot := cond.(*ssa.UnOp); isNot && un.Op == token.NOT {
						cond, br = un.X, !br
					}
					tc, ok := cond.(*ssa.Call)
					if !ok || !br {
						continue
					}
					tcal := tc.Call.StaticCallee()
					if tcal == nil || len(tc.Call.Args) == 0 || root(tc.Call.Args[0]) != recv {
						continue
					}
					switch {
					case isBig(tcal, want):
						matched = true
					case isBig(tcal, "IsInt64"), isBig(tcal, "IsUint64"):
						other = tcal.Name()
					}
				}
				if !matched && other == "" {
					continue // not range-tested here at all: conversions of values bounded some other way are not judged
				}
				sites = append(sites, site{fn, call, want, matched, other})
			}
		}
	}
	sort.SliceStable(sites, func(i, j int) bool {
		if core.SSAName(sites[i].fn) != core.SSAName(sites[j].fn) {
			return core.SSAName(sites[i].fn) < core.SSAName(sites[j].fn)
		}
		return sites[i].call.Pos() < sites[j].call.Pos()
	})
	seen := map[string]int{}
	for _, s := range sites {
		key := fmt.Sprintf("%s|%s", core.SSAName(s.fn), s.call.Call.StaticCallee().Name())
		seen[key]++
		if seen[key] > 1 {
			key = fmt.Sprintf("%s#%d", key, seen[key])
		}
		detail := "guarded by " + s.want
		if !s.ok {
			detail = fmt.Sprintf("the only range test of this big.Int on the way is %s; %s wraps for values that pass it", s.how, s.call.Call.StaticCallee().Name())
		}
		r.Decide(s.ok, rule, key, c.Pos(s.call.Pos()), detail)
	}
}
