package rules

import (
	"fmt"
	"go/token"
	"sort"

	"golang.org/x/tools/go/ssa"

	"slipcheck/core"
	"slipcheck/lenflow"
)

// c05int64: (*big.Int).Int64 and Uint64 are "undefined" (they wrap) when the value does not fit. A conversion of
// a bignum to a machine integer is exact only under the matching range test: Int64 under IsInt64, Uint64 under
// IsUint64, on the same big.Int, holding on every path to the conversion. A guard of the other kind lets 2^63 ..
// 2^64-1 through IsUint64 into Int64, which wraps to a negative number ((< 1/2 9223372036854775808) => nil).
func c05int64(c *core.Ctx, r *core.Reporter) { bigInt64Rule(c, r, "C05.int64") }

func bigInt64Rule(c *core.Ctx, r *core.Reporter, rule string) {
	r.Rule(rule, "every (*big.Int).Int64 / Uint64 conversion whose receiver was range-tested is reached only through the success edge of the matching test (IsInt64 for Int64, IsUint64 for Uint64) of the same big.Int, or a BitLen bound that implies it (at most 63 bits for Int64, 64 for Uint64); a conversion under the other test, or under a wider BitLen bound, wraps", 10)
	an := lenflow.New(c)
	isBig := func(f *ssa.Function, name string) bool {
		return f != nil && f.Name() == name && f.Pkg != nil && f.Pkg.Pkg.Path() == "math/big" && f.Signature.Recv() != nil
	}
	// same big.Int: one SSA value, possibly through pointer conversions of one operand (ChangeType/Convert)
	root := func(v ssa.Value) ssa.Value {
		for i := 0; i < 6; i++ {
			switch x := v.(type) {
			case *ssa.ChangeType:
				v = x.X
			case *ssa.Convert:
				v = x.X
			default:
				return v
			}
		}
		return v
	}
	type site struct {
		fn   *ssa.Function
		call *ssa.Call
		want string
		ok   bool
		how  string
	}
	var sites []site
	for _, fn := range c.ModuleFuncs() {
		if fn.Blocks == nil || fn.Pkg == nil || takesTestingT(fn) {
			continue
		}
		var g *core.Guards
		for _, b := range fn.Blocks {
			for _, in := range b.Instrs {
				call, ok := in.(*ssa.Call)
				if !ok {
					continue
				}
				cal := call.Call.StaticCallee()
				want := ""
				switch {
				case isBig(cal, "Int64"):
					want = "IsInt64"
				case isBig(cal, "Uint64"):
					want = "IsUint64"
				default:
					continue
				}
				if g == nil {
					g = core.ComputeGuards(fn, an.NoReturn)
				}
				recv := root(call.Call.Args[0])
				matched, other := false, ""
				for f := range g.Facts(b) {
					cond, br := f.If.Cond, f.Branch
					if un, isNot := cond.(*ssa.UnOp); isNot && un.Op == token.NOT {
						cond, br = un.X, !br
					}
					if bo, isBin := cond.(*ssa.BinOp); isBin {
						// a bound on BitLen() of the same big.Int
						bitsOf := func(v ssa.Value) bool {
							bc, ok := v.(*ssa.Call)
							if !ok {
								return false
							}
							bcal := bc.Call.StaticCallee()
							return isBig(bcal, "BitLen") && len(bc.Call.Args) == 1 && root(bc.Call.Args[0]) == recv
						}
						kOf := func(v ssa.Value) (int64, bool) {
							k, ok := v.(*ssa.Const)
							if !ok || k.Value == nil {
								return 0, false
							}
							return k.Int64(), true
						}
						maxBits := int64(-1)
						op := bo.Op
						x, y := bo.X, bo.Y
						if bitsOf(y) {
							// k OP bits  ==  bits OP' k
							x, y = y, x
							switch op {
							case token.LSS:
								op = token.GTR
							case token.LEQ:
								op = token.GEQ
							case token.GTR:
								op = token.LSS
							case token.GEQ:
								op = token.LEQ
							}
						}
						if bitsOf(x) {
							if k, ok := kOf(y); ok {
								switch {
								case op == token.LEQ && br:
									maxBits = k
								case op == token.LSS && br:
									maxBits = k - 1
								case op == token.GTR && !br:
									maxBits = k
								case op == token.GEQ && !br:
									maxBits = k - 1
								}
							}
						}
						if maxBits >= 0 {
							limit := int64(63)
							if want == "IsUint64" {
								limit = 64
							}
							if maxBits <= limit {
								matched = true
							} else {
								other = fmt.Sprintf("BitLen() <= %d", maxBits)
							}
						}
						continue
					}
					tc, ok := cond.(*ssa.Call)
					if !ok || !br {
						continue
					}
					tcal := tc.Call.StaticCallee()
					if tcal == nil || len(tc.Call.Args) == 0 || root(tc.Call.Args[0]) != recv {
						continue
					}
					switch {
					case isBig(tcal, want):
						matched = true
					case isBig(tcal, "IsInt64"), isBig(tcal, "IsUint64"):
						other = tcal.Name()
					}
				}
				if !matched && other == "" {
					continue // not range-tested here at all: conversions of values bounded some other way are not judged
				}
				sites = append(sites, site{fn, call, want, matched, other})
			}
		}
	}
	sort.SliceStable(sites, func(i, j int) bool {
		if core.SSAName(sites[i].fn) != core.SSAName(sites[j].fn) {
			return core.SSAName(sites[i].fn) < core.SSAName(sites[j].fn)
		}
		return sites[i].call.Pos() < sites[j].call.Pos()
	})
	seen := map[string]int{}
	for _, s := range sites {
		key := fmt.Sprintf("%s|%s", core.SSAName(s.fn), s.call.Call.StaticCallee().Name())
		seen[key]++
		if seen[key] > 1 {
			key = fmt.Sprintf("%s#%d", key, seen[key])
		}
		detail := "guarded by " + s.want
		if !s.ok {
			detail = fmt.Sprintf("the only range test of this big.Int on the way is %s; %s wraps for values that pass it", s.how, s.call.Call.StaticCallee().Name())
		}
		r.Decide(s.ok, rule, key, c.Pos(s.call.Pos()), detail)
	}
}
