package rules

import (
	"fmt"

	"golang.org/x/tools/go/ssa"

	"slipcheck/core"
)

// c13useexport: Package.Export of a name the package does not have creates an own, unbound, exported entry,
// and Package.Use never replaces an own entry. A function that both lets a package use others and exports
// names from it (defpackage with :use and :export) must therefore use first: exporting first hides every
// inherited definition of an exported name behind an unbound own one.
func c13useexport(c *core.Ctx, r *core.Reporter) {
	const rule = "C13.useexport"
	r.Rule(rule, "in every function that calls both Package.Use and Package.Export on the same package value, no Use call is reachable after an Export call: Export of a missing name creates an unbound own entry which Use does not replace, so (:use p1) (:export v) must resolve v to p1's definition", 1)
	isPkgMethod := func(g *ssa.Function, name string) bool {
		return g != nil && core.IsSSAFunc(g, core.SlipPath, "Package", name)
	}
	for _, fn := range c.ModuleFuncs() {
		var uses, exports []*ssa.Call
		for _, b := range fn.Blocks {
			for _, in := range b.Instrs {
				call, ok := in.(*ssa.Call)
				if !ok || len(call.Call.Args) == 0 {
					continue
				}
				g := call.Call.StaticCallee()
				switch {
				case isPkgMethod(g, "Use"):
					uses = append(uses, call)
				case isPkgMethod(g, "Export"):
					exports = append(exports, call)
				}
			}
		}
		n := 0
		for _, e := range exports {
			for _, u := range uses {
				if e.Call.Args[0] != u.Call.Args[0] {
					continue
				}
				n++
				// is u reachable after e?
				after := false
				if e.Block() == u.Block() {
					seenE := false
					for _, in := range e.Block().Instrs {
						if in == ssa.Instruction(e) {
							seenE = true
						}
						if in == ssa.Instruction(u) && seenE {
							after = true
						}
					}
				}
				if !after {
					reach := map[*ssa.BasicBlock]bool{}
					stack := append([]*ssa.BasicBlock{}, e.Block().Succs...)
					for len(stack) > 0 {
						x := stack[len(stack)-1]
						stack = stack[:len(stack)-1]
						if reach[x] {
							continue
						}
						reach[x] = true
						stack = append(stack, x.Succs...)
					}
					after = reach[u.Block()]
				}
				key := core.SSAName(fn) + "|Use after Export"
				if n > 1 {
					key = fmt.Sprintf("%s#%d", key, n)
				}
				r.Decide(!after, rule, key, c.Pos(u.Pos()), fmt.Sprintf("a Use call on the package is reachable after an Export call on it: %v", after))
			}
		}
	}
}
