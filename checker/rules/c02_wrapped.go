package rules

import (
	"go/token"
	"go/types"
	"sort"

	"golang.org/x/tools/go/ssa"

	"slipcheck/core"
)

// c02wrapped: an input stream keeps the characters that peek-char and unread-char pushed back, and a rune cut
// by the end of a block, in the wrapper (slip.RuneReader, embedded in InputStream); the reader it wraps knows
// nothing of them. Reading "is independent of delivery" only if every consumer reads through the wrapper. The
// rule is a who-may-access check: the wrapped reader (field RuneReader.Reader) is read from, passed on or stored
// only inside the methods of RuneReader; elsewhere it may only be compared or type-tested.
func c02wrapped(c *core.Ctx, r *core.Reporter) {
	const rule = "C02.wrapped"
	r.Rule(rule, "the reader wrapped by an input stream (RuneReader.Reader) is read, passed on or stored only by the methods of the wrapper: every other function reads through the wrapper, which holds the pushed-back characters", 3)
	rrT := c.LookupType("", "RuneReader")
	if rrT == nil {
		r.Undecided(rule, "slip.RuneReader", "-", "anchor does not resolve")
		return
	}
	isWrappedField := func(fa *ssa.FieldAddr) bool {
		t := fa.X.Type()
		if p, ok := t.Underlying().(*types.Pointer); ok {
			t = p.Elem()
		}
		nt, ok := types.Unalias(t).(*types.Named)
		if !ok || nt.Obj() != rrT.Obj() {
			return false
		}
		st, ok := nt.Underlying().(*types.Struct)
		return ok && fa.Field < st.NumFields() && st.Field(fa.Field).Name() == "Reader"
	}
	var fns []*ssa.Function
	for _, fn := range c.ModuleFuncs() {
		if fn.Blocks != nil && fn.Pkg != nil && !takesTestingT(fn) {
			fns = append(fns, fn)
		}
	}
	sort.Slice(fns, func(i, j int) bool { return core.SSAName(fns[i]) < core.SSAName(fns[j]) })
	for _, fn := range fns {
		own := false
		if rv := fn.Signature.Recv(); rv != nil {
			t := rv.Type()
			if p, ok := t.(*types.Pointer); ok {
				t = p.Elem()
			}
			if nt, ok := types.Unalias(t).(*types.Named); ok && nt.Obj() == rrT.Obj() {
				own = true
			}
		}
		loads, bad := 0, ""
		for _, b := range fn.Blocks {
			for _, in := range b.Instrs {
				u, ok := in.(*ssa.UnOp)
				if !ok || u.Op != token.MUL {
					continue
				}
				fa, ok := u.X.(*ssa.FieldAddr)
				if !ok || !isWrappedField(fa) {
					continue
				}
				loads++
				if own || u.Referrers() == nil {
					continue
				}
				for _, rf := range *u.Referrers() {
					switch x := rf.(type) {
					case *ssa.BinOp:
						// identity comparison
					case *ssa.TypeAssert:
						// a type test; what it yields is judged only if it is a reader
						if it, ok := x.AssertedType.Underlying().(*types.Interface); ok {
							for i := 0; i < it.NumMethods(); i++ {
								if n := it.Method(i).Name(); n == "Read" || n == "ReadRune" || n == "ReadByte" {
									bad = c.Pos(rf.Pos()) + ": asserted to a reading interface"
								}
							}
						}
					case *ssa.DebugRef:
					default:
						bad = c.Pos(rf.Pos()) + ": read from, passed on or stored"
					}
				}
			}
		}
		if loads == 0 {
			continue
		}
		if own {
			r.Hold(rule, core.SSAName(fn), c.Pos(fn.Pos()), "a method of the wrapper")
			continue
		}
		r.Decide(bad == "", rule, core.SSAName(fn), c.Pos(fn.Pos()), orOKs(bad, "the wrapped reader is only compared or type-tested"))
	}
}
