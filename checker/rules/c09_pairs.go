package rules

import (
	"fmt"
	"go/constant"
	"go/token"
	"sort"

	"golang.org/x/tools/go/ssa"

	"slipcheck/core"
	"slipcheck/lenflow"
)

// c09pairs: keyword/value arguments are read two at a time: `for i := 0; i < len(args); i += 2 { key :=
// args[i]; val := args[i+1] }`. With an odd number of arguments the last key has no value and args[i+1] is a Go
// index fault: (graphql-query "u" "t" :timeout). The rule: every read L[v+k] (constant k >= 1, v a loop variable)
// of a list of Objects is reached only where (v+k) or v was compared with len(L) accordingly (v+k < len(L),
// v < len(L)-k, len(L) <= v+k raising) or the parity of len(L) was tested on a raising branch before the loop.
func c09pairs(c *core.Ctx, r *core.Reporter) {
	const rule = "C09.pairs"
	r.Rule(rule, "every read L[v+k] of a list of Objects with a loop variable v and a constant k >= 1 is reached only with v+k < len(L) established (a comparison of v+k or v with the length, or a parity test of the length that raises)", 30)
	an := lenflow.New(c)
	type site struct {
		fn  *ssa.Function
		in  *ssa.IndexAddr
		ok  bool
		how string
	}
	var sites []site
	lenOf := func(v ssa.Value) ssa.Value {
		call, ok := v.(*ssa.Call)
		if !ok {
			return nil
		}
		if bi, ok := call.Call.Value.(*ssa.Builtin); ok && bi.Name() == "len" && len(call.Call.Args) == 1 {
			return call.Call.Args[0]
		}
		return nil
	}
	constInt := func(v ssa.Value) (int, bool) {
		k, ok := v.(*ssa.Const)
		if !ok || k.Value == nil || k.Value.Kind() != constant.Int {
			return 0, false
		}
		return int(k.Int64()), true
	}
	for _, fn := range c.ModuleFuncs() {
		if fn.Blocks == nil || fn.Pkg == nil || takesTestingT(fn) {
			continue
		}
		var g *core.Guards
		for _, b := range fn.Blocks {
			for _, in := range b.Instrs {
				ia, ok := in.(*ssa.IndexAddr)
				if !ok || !isObjectSlice(ia.X.Type()) {
					continue
				}
				bo, ok := ia.Index.(*ssa.BinOp)
				if !ok || bo.Op != token.ADD {
					continue
				}
				k, isK := constInt(bo.Y)
				if !isK || k < 1 {
					continue
				}
				v := bo.X
				ph, isPhi := v.(*ssa.Phi)
				if !isPhi {
					continue
				}
				// `for i := range L` is compiled as i = phi(-1, i+1) with the element read at i+1, the loop
				// variable's own next value, tested against the length by the loop: not a pair read
				own := false
				for _, e := range ph.Edges {
					if e == ssa.Value(bo) {
						own = true
					}
				}
				if own {
					continue
				}
				if _, fresh := sliceRootOf(ia.X).(*ssa.MakeSlice); fresh {
					continue // a list this function made to size (form[i+1] = ...)
				}
				if g == nil {
					g = core.ComputeGuards(fn, an.NoReturn)
				}
				L := sliceRootOf(ia.X)
				sameL := func(x ssa.Value) bool { return x != nil && sliceRootOf(x) == L }
				proven, how := false, ""
				for f := range g.Facts(b) {
					cmp, ok := f.If.Cond.(*ssa.BinOp)
					if !ok {
						continue
					}
					op, x, y := cmp.Op, cmp.X, cmp.Y
					if !f.Branch {
						op = negateOp(op)
					}
					// a parity test of the length that raises: len(L)%2 == 0 holds here
					for _, side := range []ssa.Value{x, y} {
						if rm, ok := side.(*ssa.BinOp); ok && rm.Op == token.REM && sameL(lenOf(rm.X)) {
							proven, how = true, "the parity of the length was tested"
						}
					}
					// normalise to small < big / small <= big
					var small, big ssa.Value
					strict := false
					switch op {
					case token.LSS:
						small, big, strict = x, y, true
					case token.GTR:
						small, big, strict = y, x, true
					case token.LEQ:
						small, big = x, y
					case token.GEQ:
						small, big = y, x
					default:
						continue
					}
					// (v+k) < len(L)
					if sb, ok := small.(*ssa.BinOp); ok && sb.Op == token.ADD && sb.X == v {
						if kk, ok := constInt(sb.Y); ok && sameL(lenOf(big)) && ((strict && kk >= k) || (!strict && kk > k)) {
							proven, how = true, "v+k compared with the length"
						}
					}
					// v < len(L)-k
					if small == v {
						if bb, ok := big.(*ssa.BinOp); ok && bb.Op == token.SUB && sameL(lenOf(bb.X)) {
							if kk, ok := constInt(bb.Y); ok && ((strict && kk >= k) || (!strict && kk > k)) {
								proven, how = true, "v compared with the length minus k"
							}
						}
					}
				}
				sites = append(sites, site{fn, ia, proven, how})
			}
		}
	}
	sort.SliceStable(sites, func(i, j int) bool {
		if core.SSAName(sites[i].fn) != core.SSAName(sites[j].fn) {
			return core.SSAName(sites[i].fn) < core.SSAName(sites[j].fn)
		}
		return sites[i].in.Pos() < sites[j].in.Pos()
	})
	seen := map[string]int{}
	for _, s := range sites {
		key := core.SSAName(s.fn) + "|L[v+k]"
		seen[key]++
		if seen[key] > 1 {
			key = fmt.Sprintf("%s#%d", key, seen[key])
		}
		if why, ok := pairsExceptions[key]; ok && !s.ok {
			r.Hold(rule, key, c.Pos(s.in.Pos()), "accepted by reading: "+why)
			continue
		}
		r.Decide(s.ok, rule, key, c.Pos(s.in.Pos()), orOKs(map[bool]string{true: "", false: "no comparison of v+k (or v) with the length, and no parity test, holds on every path to the read"}[s.ok], s.how))
	}
}

var pairsExceptions = map[string]string{}

func negateOp(op token.Token) token.Token {
	switch op {
	case token.LSS:
		return token.GEQ
	case token.GEQ:
		return token.LSS
	case token.GTR:
		return token.LEQ
	case token.LEQ:
		return token.GTR
	case token.EQL:
		return token.NEQ
	case token.NEQ:
		return token.EQL
	}
	return op
}
