package rules

import (
	"fmt"

	"golang.org/x/tools/go/ssa"

	"slipcheck/core"
	"slipcheck/lenflow"
)

// c01dotest: the end test of do and do* is a form like any other: a list, t, or a variable. The helper that
// prepares the loop hands the test form to the loop; on no returning path may that form be the constant nil
// (a test that was not a list was dropped: (do ((i 0 (1+ i))) (t i)) and every do with a variable as test never
// ended). The rule follows the form that do and do* evaluate and compare with nil to leave the loop back to the
// function that produced it and inspects every value its return can carry.
func c01dotest(c *core.Ctx, r *core.Reporter) {
	const rule = "C01.dotest"
	r.Rule(rule, "the form do and do* evaluate as their end test is never the constant nil on a returning path of the function that extracts it from the (test result...) list: a test that is an atom (t, a variable) is evaluated like a list", 2)
	an := lenflow.New(c)
	for _, name := range []string{"do", "do*"} {
		b := c.ByName("pkg/cl", name)
		if b == nil || b.Call == nil {
			r.Undecided(rule, "pkg/cl:"+name, "-", "form not found in the registry")
			continue
		}
		fn := c.SSAFunc(b.Call)
		// the eval site whose result is compared with nil in a loop: its form operand
		var form ssa.Value
		loops := core.Loops(fn)
		for _, blk := range fn.Blocks {
			if core.InnermostLoop(loops, blk) == nil {
				continue
			}
			for _, in := range blk.Instrs {
				call, ok := in.(*ssa.Call)
				if !ok {
					continue
				}
				f, _, _, ok := isEvalSite(call)
				if !ok || f == nil || len(nonNilSuccs(call)) == 0 {
					continue
				}
				if form == nil {
					form = f
				}
			}
		}
		ex, ok := form.(*ssa.Extract)
		if !ok {
			r.Undecided(rule, "pkg/cl:"+name, c.Pos(fn.Pos()), "the end test's form is not the result of a set-up helper")
			continue
		}
		call, ok := ex.Tuple.(*ssa.Call)
		g := (*ssa.Function)(nil)
		if ok {
			g = call.Call.StaticCallee()
		}
		if g == nil || g.Blocks == nil {
			r.Undecided(rule, "pkg/cl:"+name, c.Pos(fn.Pos()), "the set-up helper does not resolve")
			continue
		}
		guards := core.ComputeGuards(g, an.NoReturn)
		bad := ""
		for _, blk := range g.Blocks {
			ret, ok := blk.Instrs[len(blk.Instrs)-1].(*ssa.Return)
			if !ok || ex.Index >= len(ret.Results) || !guards.Reachable(blk) {
				continue
			}
			v := ret.Results[ex.Index]
			if k, ok := v.(*ssa.Const); ok && k.IsNil() {
				bad = c.Pos(ret.Pos())
			}
			if phi, ok := v.(*ssa.Phi); ok && phiMayBeNil(guards, phi, 0) {
				bad = c.Pos(phi.Pos())
			}
		}
		r.Decide(bad == "", rule, "pkg/cl:"+name, c.Pos(g.Pos()), fmt.Sprintf("the test form handed to the loop can be the constant nil at %q", bad))
	}
}
