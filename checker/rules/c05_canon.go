package rules

import (
	"fmt"
	"go/types"

	"golang.org/x/tools/go/ssa"

	"slipcheck/core"
	"slipcheck/lenflow"
)

// c05canon: "the mathematically exact result in canonical form". An integer has one representation: a Fixnum
// when it fits into 64 bits, a *Bignum otherwise. A *Bignum made by converting a *big.Int and handed on as a
// Lisp object without asking whether the value fits is a second representation of a small integer: it is not a
// fixnum for typep, type-of says bignum, and it is not the key 1 of a hash table.
// Instances: every conversion *big.Int -> *slip.Bignum in the module (outside package slip's own Bignum methods)
// whose result becomes a slip.Object (interface conversion). It is accepted when every path to it crosses the
// false outcome of an IsInt64 test of that big.Int; the canonicalising constructor (a function that returns the
// Fixnum on the true outcome) is how the arithmetic built-ins do it.
func c05canon(c *core.Ctx, r *core.Reporter) {
	const rule = "C05.canon"
	r.Rule(rule, "a *big.Int converted to *slip.Bignum becomes a Lisp object (in pkg/cl, the arithmetic built-ins) only where every path crosses the false outcome of an IsInt64 test of that value: an integer that fits a fixnum is a Fixnum, its one canonical representation", 3)
	an := lenflow.New(c)
	isBigIntPtr := func(t types.Type) bool {
		pt, ok := t.(*types.Pointer)
		if !ok {
			return false
		}
		n, ok := pt.Elem().(*types.Named)
		return ok && n.Obj().Name() == "Int" && n.Obj().Pkg() != nil && n.Obj().Pkg().Path() == "math/big"
	}
	for _, fn := range c.ModuleFuncs() {
		if fn.Pkg == nil || fn.Blocks == nil || takesTestingT(fn) {
			continue
		}
		rel := core.RelPkg(fn.Pkg.Pkg.Path())
		if rel != "pkg/cl" {
			// and the canonicalising constructors of package slip: one *big.Int in, one Object out
			isCtor := rel == "slip" && fn.Signature.Recv() == nil && fn.Signature.Params().Len() == 1 && fn.Signature.Results().Len() == 1 &&
				isBigIntPtr(fn.Signature.Params().At(0).Type()) && core.IsNamed(fn.Signature.Results().At(0).Type(), core.SlipPath, "Object")
			if !isCtor {
				continue
			}
		}
		n := 0
		for _, b := range fn.Blocks {
			for _, in := range b.Instrs {
				mi, ok := in.(*ssa.MakeInterface)
				if !ok {
					continue
				}
				pt, ok := mi.X.Type().(*types.Pointer)
				if !ok || !core.IsNamed(pt.Elem(), core.SlipPath, "Bignum") {
					continue
				}
				cv, ok := mi.X.(*ssa.ChangeType)
				if !ok || !isBigIntPtr(cv.X.Type()) {
					continue
				}
				n++
				key := fmt.Sprintf("%s|bignum object %d", core.SSAName(fn), n)
				if why, ok := canonExceptions[key]; ok {
					r.Hold(rule, key, c.Pos(mi.Pos()), "exception by reading: "+why)
					continue
				}
				bigv := cv.X
				ok2 := core.Separates(fn, b, an.NoReturn, func(ifi *ssa.If, br bool) bool {
					call, ok := ifi.Cond.(*ssa.Call)
					if !ok || br {
						return false
					}
					g := call.Call.StaticCallee()
					if g == nil || g.Name() != "IsInt64" || len(call.Call.Args) != 1 {
						return false
					}
					a := call.Call.Args[0]
					if ct, ok := a.(*ssa.ChangeType); ok {
						a = ct.X
					}
					return a == bigv
				})
				r.Decide(ok2, rule, key, c.Pos(mi.Pos()), fmt.Sprintf("reached only where IsInt64 of the value was false: %v (a value that fits a fixnum would be a second representation of it)", ok2))
			}
		}
	}
}

// canonExceptions: one construct each.
var canonExceptions = map[string]string{
	"pkg/cl.bigLognand|bignum object 1": "the wrapped value is only the argument of complement, which returns the canonical integer of its result",
	"pkg/cl.bigLognor|bignum object 1":  "the wrapped value is only the argument of complement, which returns the canonical integer of its result",
}
