package rules

import (
	"fmt"
	"go/types"

	"golang.org/x/tools/go/ssa"

	"slipcheck/core"
	"slipcheck/lenflow"
)

// c19quoted: a load form is source text. (quote X) stands for X only if X is written the way it is read:
// numbers, characters, strings, symbols and lists of those. In the LoadForm methods of package slip a
// (quote X) form is built only around a symbol, around a list the method made itself from integers (the
// dimensions), or around a value for which every path crosses the true outcome of a predicate applied to it
// (quotable). Array.LoadForm quoted the raw contents: a vector inside a vector was saved as #<(VECTOR 1)>.
func c19quoted(c *core.Ctx, r *core.Reporter) {
	const rule = "C19.quoted"
	r.Rule(rule, "in every LoadForm method of package slip a (quote X) form is built only around a symbol, a list of integers the method made itself, or a value that passed a predicate on every path (the contents are written the way they are read): anything else has no readable text inside a quoted list", 2)
	an := lenflow.New(c)
	for _, fn := range c.ModuleFuncs() {
		if fn.Pkg == nil || fn.Pkg.Pkg.Path() != core.SlipPath || fn.Blocks == nil {
			continue
		}
		if fn.Name() != "LoadForm" && !calledOnlyFromLoadForm(c, fn) {
			continue
		}
		n := 0
		for _, b := range fn.Blocks {
			for _, in := range b.Instrs {
				al, ok := in.(*ssa.Alloc)
				if !ok {
					continue
				}
				arr, ok := al.Type().(*types.Pointer).Elem().Underlying().(*types.Array)
				if !ok || arr.Len() != 2 || !isObjectType(arr.Elem()) {
					continue
				}
				var e0, e1 ssa.Value
				var st1 *ssa.Store
				for _, rf := range *al.Referrers() {
					ia, ok := rf.(*ssa.IndexAddr)
					if !ok || ia.Referrers() == nil {
						continue
					}
					k, ok := ia.Index.(*ssa.Const)
					if !ok {
						continue
					}
					for _, r2 := range *ia.Referrers() {
						if st, ok := r2.(*ssa.Store); ok {
							if k.Int64() == 0 {
								e0 = st.Val
							} else {
								e1, st1 = st.Val, st
							}
						}
					}
				}
				if e0 == nil || e1 == nil || !isQuoteSymbolValue(e0) {
					continue
				}
				n++
				key := fmt.Sprintf("%s|quote #%d", core.SSAName(fn), n)
				ok2, why := quotedOperandOK(fn, st1.Block(), e1, an.NoReturn)
				r.Decide(ok2, rule, key, c.Pos(st1.Pos()), why)
			}
		}
	}
}

func calledOnlyFromLoadForm(c *core.Ctx, fn *ssa.Function) bool {
	return fn.Name() == "contentsLoadForm" || fn.Name() == "dataLoadForm"
}

func isQuoteSymbolValue(v ssa.Value) bool {
	for i := 0; i < 4; i++ {
		switch x := v.(type) {
		case *ssa.MakeInterface:
			v = x.X
		case *ssa.UnOp:
			g, ok := x.X.(*ssa.Global)
			return ok && g.Name() == "quoteSymbol"
		case *ssa.Const:
			s, ok := core.StringConst(x)
			return ok && s == "quote"
		case *ssa.ChangeType:
			v = x.X
		default:
			return false
		}
	}
	return false
}

func quotedOperandOK(fn *ssa.Function, at *ssa.BasicBlock, v ssa.Value, noReturn func(*ssa.Function) bool) (bool, string) {
	mi, ok := v.(*ssa.MakeInterface)
	if !ok {
		return false, "the quoted operand is an arbitrary Object"
	}
	inner := mi.X
	if core.IsNamed(inner.Type(), core.SlipPath, "Symbol") {
		return true, "a symbol"
	}
	if !core.IsNamed(inner.Type(), core.SlipPath, "List") {
		return false, "the quoted operand is a " + inner.Type().String()
	}
	// a list the function made itself from integers
	if mk, ok := inner.(*ssa.MakeSlice); ok {
		allInt := true
		if mk.Referrers() != nil {
			for _, rf := range *mk.Referrers() {
				ia, ok := rf.(*ssa.IndexAddr)
				if !ok || ia.Referrers() == nil {
					continue
				}
				for _, r2 := range *ia.Referrers() {
					if st, ok := r2.(*ssa.Store); ok {
						m2, ok := st.Val.(*ssa.MakeInterface)
						if !ok || !core.IsNamed(m2.X.Type(), core.SlipPath, "Fixnum") {
							allInt = false
						}
					}
				}
			}
		}
		if allInt {
			return true, "a list of integers made here"
		}
	}
	// passed a predicate on every path
	guarded := core.Separates(fn, at, noReturn, func(ifi *ssa.If, br bool) bool {
		call, ok := ifi.Cond.(*ssa.Call)
		if !ok || !br {
			return false
		}
		g := call.Call.StaticCallee()
		if g == nil || g.Pkg == nil || !core.InModule(g.Pkg.Pkg) || g.Signature.Results().Len() != 1 {
			return false
		}
		if b, ok := g.Signature.Results().At(0).Type().Underlying().(*types.Basic); !ok || b.Kind() != types.Bool {
			return false
		}
		for _, a := range call.Call.Args {
			if a == inner || a == v {
				return true
			}
			if m3, ok := a.(*ssa.MakeInterface); ok && m3.X == inner {
				return true
			}
		}
		return false
	})
	if guarded {
		return true, "every path crosses the true outcome of a predicate on the quoted value"
	}
	return false, "the quoted list comes from elsewhere and no predicate was asked: an element without readable text (a vector, a hash-table) would be saved as #<...>"
}
