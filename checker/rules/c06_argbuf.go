package rules

import (
	"fmt"
	"go/token"
	"sort"

	"golang.org/x/tools/go/ssa"

	"slipcheck/core"
)

// c06argbuf: the argument vector a built-in's Call receives belongs to its caller. The mapping functions
// (mapcar, map, maplist, ...) refill one vector for every application, apply hands over the tail of the
// caller's list. A built-in whose result IS that vector (returned as it is, re-sliced, converted to another
// slice type, or kept as the storage of the object it builds) hands out storage that the next application
// overwrites: (mapcar #'vector '(1 2 3) '(a b c)) gave three vectors holding (3 c), and (mapcar #'values ...)
// three times the last values. The rule: in the Call method of every registered built-in the args parameter
// itself (not its elements) never flows into the returned value or into a field of an object the function
// builds, directly or through a module function that returns or stores that parameter.
func c06argbuf(c *core.Ctx, r *core.Reporter) {
	const rule = "C06.argbuf"
	r.Rule(rule, "no built-in hands out its argument vector: the args slice of Call (as is, re-sliced or converted) is never the returned value nor the storage of an object the built-in creates", 600)
	capt := map[*ssa.Function]map[int]bool{}
	var captures func(fn *ssa.Function, pi int, depth int) bool
	var escapesFrom2 func(fn *ssa.Function, root ssa.Value, depth int) (bool, ssa.Instruction)
	escapesFrom := func(fn *ssa.Function, root ssa.Value, depth int) (bool, ssa.Instruction) {
		seen := map[ssa.Value]bool{}
		var esc ssa.Instruction
		var walk func(v ssa.Value, d int)
		walk = func(v ssa.Value, d int) {
			if esc != nil || d > 8 || seen[v] || v.Referrers() == nil {
				return
			}
			seen[v] = true
			for _, ref := range *v.Referrers() {
				if esc != nil {
					return
				}
				switch x := ref.(type) {
				case *ssa.Return:
					esc = x
				case *ssa.MakeInterface:
					walk(x, d+1)
				case *ssa.ChangeType:
					walk(x, d+1)
				case *ssa.Convert:
					walk(x, d+1)
				case *ssa.Phi:
					walk(x, d+1)
				case *ssa.Slice:
					if x.X == v {
						walk(x, d+1)
					}
				case *ssa.UnOp:
					// the whole object loaded from its allocation (a composite literal copied into another)
					if x.Op == token.MUL && x.X == v {
						if _, isAlloc := v.(*ssa.Alloc); isAlloc {
							walk(x, d+1)
						}
					}
				case *ssa.Store:
					if x.Val != v {
						continue
					}
					switch a := x.Addr.(type) {
					case *ssa.Alloc:
						// a local or the named result: follow the loads
						for _, r2 := range *a.Referrers() {
							if ld, ok := r2.(*ssa.UnOp); ok {
								walk(ld, d+1)
							}
						}
					case *ssa.FieldAddr:
						// stored as a field of an object built here: captured if that object reaches the result
						base := a.X
						for {
							if inner, ok := base.(*ssa.FieldAddr); ok {
								base = inner.X
								continue
							}
							break
						}
						if al, isAlloc := base.(*ssa.Alloc); isAlloc {
							if depth < 3 {
								if objEsc, _ := escapesFrom2(fn, al, depth+1); objEsc {
									esc = x
								}
							}
						}
					}
				case *ssa.Call:
					cal := x.Call.StaticCallee()
					if cal == nil || cal.Blocks == nil || cal.Pkg == nil || !core.InModule(cal.Pkg.Pkg) {
						continue
					}
					for ai, a := range x.Call.Args {
						if a != v {
							continue
						}
						if captures(cal, ai, depth+1) {
							// the callee returns the slice or keeps it in what it builds: its result carries it
							if cal.Signature.Results().Len() > 0 {
								walk(x, d+1)
							}
						}
					}
				}
			}
		}
		walk(root, 0)
		return esc != nil, esc
	}
	escapesFrom2 = escapesFrom
	captures = func(fn *ssa.Function, pi int, depth int) bool {
		if depth > 3 || pi >= len(fn.Params) {
			return false
		}
		if m, ok := capt[fn]; ok {
			if v, ok := m[pi]; ok {
				return v
			}
		} else {
			capt[fn] = map[int]bool{}
		}
		capt[fn][pi] = false
		ok, _ := escapesFrom(fn, fn.Params[pi], depth)
		capt[fn][pi] = ok
		return ok
	}
	reg := c.Registry()
	type item struct {
		key string
		b   *core.Builtin
	}
	var items []item
	for _, b := range reg {
		// special forms and macros (SkipEval) receive their code, not an argument vector refilled by a caller
		if b.Call != nil && b.Name != "" && !b.HasSkip {
			items = append(items, item{b.Key(), b})
		}
	}
	sort.Slice(items, func(i, j int) bool { return items[i].key < items[j].key })
	done := map[*ssa.Function]bool{}
	for _, it := range items {
		fn := c.SSAFunc(it.b.Call)
		if fn == nil || fn.Blocks == nil || done[fn] {
			continue
		}
		done[fn] = true
		var args *ssa.Parameter
		for _, p := range fn.Params {
			if isObjectSlice(p.Type()) {
				args = p
			}
		}
		if args == nil {
			continue
		}
		esc, at := escapesFrom(fn, args, 0)
		pos := fn.Pos()
		detail := "the argument vector does not reach the result"
		if esc {
			pos = at.Pos()
			detail = "the argument vector itself becomes (part of) the result at " + c.Pos(at.Pos())
		}
		if why, ok := argbufExceptions[it.key]; ok && esc {
			r.Hold(rule, it.key, c.Pos(pos), "accepted by reading: "+why)
			continue
		}
		r.Decide(!esc, rule, it.key, c.Pos(pos), fmt.Sprintf("%s", detail))
	}
}

var argbufExceptions = map[string]string{}
