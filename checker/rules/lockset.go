package rules

import (
	"fmt"
	"go/token"
	"go/types"
	"slipcheck/lenflow"
	"sort"
	"strings"

	"golang.org/x/tools/go/ssa"

	"slipcheck/core"
)

// lockKey names a mutex by the access path of its address ("P0.moo",
// "P1.mu"); locks on paths that are not pure access paths get "?".
func lockPath(v ssa.Value, depth int) string {
	if depth > 8 || v == nil {
		return "?"
	}
	switch x := v.(type) {
	case *ssa.Parameter:
		return "param:" + x.Name()
	case *ssa.FreeVar:
		return "free:" + x.Name()
	case *ssa.Global:
		return "global:" + x.Name()
	case *ssa.FieldAddr:
		return lockPath(x.X, depth+1) + "." + fieldName(x)
	case *ssa.UnOp:
		if x.Op == token.MUL {
			return "*" + lockPath(x.X, depth+1)
		}
	case *ssa.Alloc:
		return fmt.Sprintf("local@%d", x.Pos())
	case *ssa.Phi:
		return fmt.Sprintf("phi:%s", x.Comment)
	case *ssa.TypeAssert:
		return "assert(" + lockPath(x.X, depth+1) + ")"
	case *ssa.Extract:
		return fmt.Sprintf("extract%d(%s)", x.Index, lockPath(x.Tuple, depth+1))
	case *ssa.Call:
		if g := x.Call.StaticCallee(); g != nil {
			return fmt.Sprintf("call:%s@%d", g.Name(), x.Pos())
		}
		return fmt.Sprintf("call@%d", x.Pos())
	case *ssa.Lookup:
		return fmt.Sprintf("lookup@%d", x.Pos())
	case *ssa.IndexAddr:
		return lockPath(x.X, depth+1) + "[]"
	case *ssa.ChangeType:
		return lockPath(x.X, depth+1)
	case *ssa.Convert:
		return lockPath(x.X, depth+1)
	case *ssa.MakeInterface:
		return lockPath(x.X, depth+1)
	case *ssa.Next:
		return fmt.Sprintf("next@%p", x.Iter)
	}
	return "?"
}

// lockOp classifies a call as Lock/Unlock of a sync.Mutex (or RWMutex, or a
// Locker interface) and returns the mutex address operand.
func lockOp(c ssa.CallCommon) (op string, mu ssa.Value) {
	if c.IsInvoke() {
		switch c.Method.Name() {
		case "Lock", "RLock":
			return "lock", c.Value
		case "Unlock", "RUnlock":
			return "unlock", c.Value
		}
		return "", nil
	}
	g := c.StaticCallee()
	if g == nil || g.Signature.Recv() == nil || len(c.Args) == 0 {
		return "", nil
	}
	rt := g.Signature.Recv().Type()
	isSync := core.IsNamed(rt, "sync", "Mutex") || core.IsNamed(rt, "sync", "RWMutex")
	switch g.Name() {
	case "Lock", "RLock":
		if isSync {
			return "lock", c.Args[0]
		}
	case "Unlock", "RUnlock":
		if isSync {
			return "unlock", c.Args[0]
		}
	}
	return "", nil
}

type lockState map[string]bool

func (s lockState) clone() lockState {
	n := lockState{}
	for k := range s {
		n[k] = true
	}
	return n
}

// lockSets computes, for every instruction, the set of mutex paths that are
// held on every path reaching it (must analysis). Deferred unlocks keep the
// lock held until return. wrappers: functions known to return with a lock
// of their receiver/argument held or released (summaries by name path).
type lockSets struct {
	at map[ssa.Instruction]lockState
}

// locksetNoReturn tells whether a callee never returns normally (set by the rules from the lenflow
// analyzer); a block that raises does not hand its lock state to its successors.
var locksetNoReturn func(*ssa.Function) bool

func computeLockSets(fn *ssa.Function, entry lockState) *lockSets {
	ls := &lockSets{at: map[ssa.Instruction]lockState{}}
	if len(fn.Blocks) == 0 {
		return ls
	}
	raises := func(b *ssa.BasicBlock) bool {
		for _, in := range b.Instrs {
			switch x := in.(type) {
			case *ssa.Panic:
				return true
			case *ssa.Call:
				if g := x.Call.StaticCallee(); g != nil && locksetNoReturn != nil && locksetNoReturn(g) {
					return true
				}
			}
		}
		return false
	}
	in := map[*ssa.BasicBlock]lockState{fn.Blocks[0]: entry.clone()}
	work := []*ssa.BasicBlock{fn.Blocks[0]}
	for iter := 0; len(work) > 0 && iter < 5000; iter++ {
		b := work[0]
		work = work[1:]
		st := in[b].clone()
		for _, ins := range b.Instrs {
			ls.at[ins] = st.clone()
			switch x := ins.(type) {
			case *ssa.Call:
				if op, mu := lockOp(x.Call); op != "" {
					p := lockPath(mu, 0)
					if op == "lock" {
						st[p] = true
					} else {
						delete(st, p)
					}
				}
			}
		}
		if raises(b) {
			continue
		}
		for _, s := range b.Succs {
			old, ok := in[s]
			if !ok {
				in[s] = st.clone()
				work = append(work, s)
				continue
			}
			changed := false
			for k := range old {
				if !st[k] {
					delete(old, k)
					changed = true
				}
			}
			if changed {
				work = append(work, s)
			}
		}
	}
	return ls
}

// guardNotJudged: functions with unlocked accesses for which no concurrent history could be shown to race under
// the stress workload (tools/triage/c17_race); reported as information only.
var guardNotJudged = map[string]string{
	"C17.guard.package|pkg/cl.(PackageUseList).Call":    "not reproduced as a race",
	"C17.guard.package|pkg/cl.(PackageUsedByList).Call": "not reproduced as a race",
	"C17.guard.package|slip.(Package).LoadForm":         "not reproduced as a race",
	"C17.guard.package|slip.(Package).getVarVal":        "not reproduced as a race (its exported wrapper locks; the unlocked callers read *error-output* only)",
	"C17.guard.package|slip.DescribeFunction":           "not reproduced as a race",
	"C17.guard.package|slip.DescribeVar":                "Go convenience API without callers in the module",
	"C17.guard.package|slip.HasVar":                     "Go convenience API without callers in the module",
	"C17.guard.package|slip.RemoveVar":                  "Go convenience API without callers in the module",
	"C17.guard.package|slip.keywordPreSet":              "not reproduced as a race",
	"C17.guard.package|pkg/swank.describeSymbol":        "editor integration server, outside the property's scope",
	"C17.guard.package|pkg/swank.findCompletions":       "editor integration server, outside the property's scope",
	"C17.guard.package|pkg/swank.findFunction":          "editor integration server, outside the property's scope",
	"C17.guard.package|pkg/swank.getArglist":            "editor integration server, outside the property's scope",
	"C17.guard.package|pkg/swank.getDocumentation":      "editor integration server, outside the property's scope",
	"C17.guard.package|pkg/swank.getSymbolFlags":        "editor integration server, outside the property's scope",
}

// initOnly: fn is a package init function or is (transitively) called only from such functions.
func initOnly(fn *ssa.Function, callers map[*ssa.Function][]*ssa.Call, valueUse map[*ssa.Function]bool, depth int) bool {
	if fn == nil || depth > 4 {
		return false
	}
	for fn.Parent() != nil {
		fn = fn.Parent()
	}
	if fn.Name() == "init" || strings.HasPrefix(fn.Name(), "init#") {
		return true
	}
	if valueUse[fn] || len(callers[fn]) == 0 {
		return false
	}
	if o := fn.Object(); o != nil && o.Exported() && fn.Signature.Recv() == nil && depth == 0 {
		// exported package-level functions are API: only init-only if every caller is
	}
	for _, c := range callers[fn] {
		if !initOnly(c.Parent(), callers, valueUse, depth+1) {
			return false
		}
	}
	return true
}

// guardedBy decides a guarded-by table for one struct type: every access to
// the listed fields must happen with the mutex field of the same base held.
func guardedBy(c *core.Ctx, r *core.Reporter, rule, pkg, typ string, fields []string, mutex string, text string, floor int) {
	r.Rule(rule, text, floor)
	if locksetNoReturn == nil {
		locksetNoReturn = lenflow.New(c).NoReturn
	}
	fieldSet := map[string]bool{}
	for _, f := range fields {
		fieldSet[f] = true
	}
	// callers-hold summaries: an unexported method that is only called statically with the lock held
	type fnInfo struct {
		fn *ssa.Function
		ls *lockSets
	}
	infos := map[*ssa.Function]*fnInfo{}
	get := func(fn *ssa.Function) *fnInfo {
		if fi, ok := infos[fn]; ok {
			return fi
		}
		fi := &fnInfo{fn: fn, ls: computeLockSets(fn, lockState{})}
		infos[fn] = fi
		return fi
	}
	// static call sites per callee
	callers := map[*ssa.Function][]*ssa.Call{}
	valueUse := map[*ssa.Function]bool{}
	for _, fn := range c.ModuleFuncs() {
		for _, b := range fn.Blocks {
			for _, in := range b.Instrs {
				switch x := in.(type) {
				case *ssa.Call:
					if g := x.Call.StaticCallee(); g != nil {
						callers[g] = append(callers[g], x)
					}
				case *ssa.Defer:
					if g := x.Call.StaticCallee(); g != nil {
						valueUse[g] = true
					}
				case *ssa.Go:
					if g := x.Call.StaticCallee(); g != nil {
						valueUse[g] = true
					}
				}
			}
		}
	}
	// heldByAllCallers: every static caller holds <recv>.<mutex> of the argument passed as base parameter pi
	var heldByAllCallers func(fn *ssa.Function, pi int, depth int) bool
	inProgress := map[*ssa.Function]bool{}
	heldByAllCallers = func(fn *ssa.Function, pi int, depth int) bool {
		if inProgress[fn] {
			return true // recursion: the lock is held by induction over the call chain
		}
		if depth > 4 || valueUse[fn] || fn.Parent() != nil {
			return false
		}
		inProgress[fn] = true
		defer delete(inProgress, fn)
		if o := fn.Object(); o == nil || o.Exported() {
			// exported entry points can be called from Go extensions without the lock
			if o == nil {
				return false
			}
		}
		cs := callers[fn]
		if len(cs) == 0 {
			return false
		}
		for _, call := range cs {
			if pi >= len(call.Call.Args) {
				return false
			}
			base := lockPath(call.Call.Args[pi], 0)
			want := base + "." + mutex
			want2 := "*" + base + "." + mutex
			held := get(call.Parent()).ls.at[call]
			if held[want] || held[want2] {
				continue
			}
			// the caller itself may be called with the lock held
			cf := call.Parent()
			ok := false
			if p, isP := call.Call.Args[pi].(*ssa.Parameter); isP {
				for i, q := range cf.Params {
					if q == p && heldByAllCallers(cf, i, depth+1) {
						ok = true
					}
				}
			}
			if !ok {
				return false
			}
		}
		return true
	}
	type site struct {
		fn    *ssa.Function
		in    ssa.Instruction
		field string
		write bool
		held  bool
		why   string
	}
	var sites []site
	for _, fn := range c.ModuleFuncs() {
		for _, b := range fn.Blocks {
			for _, in := range b.Instrs {
				fa, ok := in.(*ssa.FieldAddr)
				if !ok || !fieldSet[fieldName(fa)] || !isFieldOf(fa, pkg, typ, fieldName(fa)) {
					continue
				}
				// construction: the base is a fresh allocation in this function (not yet published)
				if _, ok := fa.X.(*ssa.Alloc); ok {
					continue
				}
				if initOnly(fn, callers, valueUse, 0) {
					continue // runs only while the packages are initialised, before any Lisp code or routine exists
				}
				base := lockPath(fa.X, 0)
				want := base + "." + mutex
				held := get(fn).ls.at[in]
				s := site{fn: fn, in: in, field: fieldName(fa)}
				for _, rf := range *fa.Referrers() {
					if st, ok := rf.(*ssa.Store); ok && st.Addr == fa {
						s.write = true
					}
				}
				switch {
				case held[want]:
					s.held, s.why = true, "lock held in this function"
				default:
					if p, isP := fa.X.(*ssa.Parameter); isP {
						for i, q := range fn.Params {
							if q == p && heldByAllCallers(fn, i, 0) {
								s.held, s.why = true, "every static caller holds the lock"
							}
						}
					}
				}
				sites = append(sites, s)
			}
		}
	}
	sort.SliceStable(sites, func(i, j int) bool {
		a, b := sites[i], sites[j]
		if core.SSAName(a.fn) != core.SSAName(b.fn) {
			return core.SSAName(a.fn) < core.SSAName(b.fn)
		}
		return a.in.Pos() < b.in.Pos()
	})
	r.Count(rule+".field_accesses", len(sites))
	// one obligation per function+field+kind
	type agg struct {
		ok    bool
		pos   token.Pos
		n     int
		why   string
		write bool
	}
	per := map[string]*agg{}
	var order []string
	for _, s := range sites {
		kind := "read"
		if s.write {
			kind = "write"
		}
		k := fmt.Sprintf("%s|%s.%s %s", core.SSAName(s.fn), typ, s.field, kind)
		a := per[k]
		if a == nil {
			a = &agg{ok: true, pos: s.in.Pos(), why: s.why, write: s.write}
			per[k] = a
			order = append(order, k)
		}
		a.n++
		if !s.held {
			if a.ok {
				a.pos = s.in.Pos()
			}
			a.ok = false
		}
	}
	for _, k := range order {
		a := per[k]
		if why, ok := guardNotJudged[rule+"|"+strings.SplitN(k, "|", 2)[0]]; ok && !a.ok {
			r.Infof("%s not judged: %s: %s", rule, k, why)
			continue
		}
		det := fmt.Sprintf("%d access(es); %s.%s of the same object held at each: %v", a.n, typ, mutex, a.ok)
		if a.ok && a.why != "" {
			det += " (" + a.why + ")"
		}
		r.Decide(a.ok, rule, k, c.Pos(a.pos), det)
	}
	_ = strings.Join
	_ = types.Typ
}
