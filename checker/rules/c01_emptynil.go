package rules

import (
	"fmt"

	"golang.org/x/tools/go/ssa"

	"slipcheck/core"
)

// c01emptynil: the conditionals decide truth by comparing the value slip.EvalArg hands them with nil, and an
// empty list that a built-in computed is a non-nil slip.List{}. EvalArg is the place that maps it to nil: every
// value it returns is the constant nil or a value whose type test against slip.List (the normalisation)
// dominates the return. A return that bypasses it makes (if x ...) take the true branch for an empty list.
func c01emptynil(c *core.Ctx, r *core.Reporter) {
	const rule = "C01.emptynil"
	r.Rule(rule, "every value slip.EvalArg returns (the evaluator of the sub-forms of every special form, whose result the conditionals compare with nil) is the constant nil or passed the test that maps an empty slip.List to nil: an empty list is false", 1)
	fn := c.LookupFunc("", "EvalArg")
	if fn == nil {
		r.Undecided(rule, "slip.EvalArg", "-", "anchor does not resolve")
		return
	}
	sf := c.SSAFunc(fn)
	n := 0
	for _, b := range sf.Blocks {
		ret, ok := b.Instrs[len(b.Instrs)-1].(*ssa.Return)
		if !ok || len(ret.Results) != 1 {
			continue
		}
		var leaves []ssa.Value
		seen := map[ssa.Value]bool{}
		var walk func(v ssa.Value)
		walk = func(v ssa.Value) {
			if seen[v] {
				return
			}
			seen[v] = true
			if phi, ok := v.(*ssa.Phi); ok {
				for _, e := range phi.Edges {
					walk(e)
				}
				return
			}
			leaves = append(leaves, v)
		}
		walk(ret.Results[0])
		for _, v := range leaves {
			n++
			key := fmt.Sprintf("slip.EvalArg|returned value %d", n)
			if k, ok := v.(*ssa.Const); ok && k.IsNil() {
				r.Hold(rule, key, c.Pos(ret.Pos()), "the constant nil")
				continue
			}
			tested := false
			if refs := v.Referrers(); refs != nil {
				for _, rf := range *refs {
					if ta, ok := rf.(*ssa.TypeAssert); ok && ta.CommaOk && core.IsNamed(ta.AssertedType, core.SlipPath, "List") && ta.Block().Dominates(b) {
						tested = true
					}
				}
			}
			r.Decide(tested, rule, key, c.Pos(v.Pos()), fmt.Sprintf("the value is type-tested against slip.List (the empty-list normalisation) before it is returned: %v", tested))
		}
	}
}
