package rules

import (
	"fmt"
	"go/token"
	"go/types"

	"golang.org/x/tools/go/ssa"

	"slipcheck/core"
)

// c02shortread: io.Reader's contract lets Read return fewer bytes than asked for without being at the end
// (sockets, pipes, terminals, any stream that hands its bytes over in pieces). "Reading is a function of the
// text, not of how it is delivered" therefore needs: no code of the module decides anything by comparing the
// count a Read returned with the size of the buffer it passed. Every Read call of the module is an instance.
func c02shortread(c *core.Ctx, r *core.Reporter) {
	const rule = "C02.shortread"
	r.Rule(rule, "the number of bytes an io.Reader's Read returned is never compared with the length of the buffer that was passed (or the size it was made with): a short read is not the end of the stream, so a stream delivered in pieces reads like one delivered whole", 10)
	isRead := func(call *ssa.Call) bool {
		var sig *types.Signature
		name := ""
		if call.Call.IsInvoke() {
			name = call.Call.Method.Name()
			sig, _ = call.Call.Method.Type().(*types.Signature)
		} else if g := call.Call.StaticCallee(); g != nil && g.Signature.Recv() != nil {
			name = g.Name()
			sig = g.Signature
		}
		if name != "Read" || sig == nil || sig.Params().Len() != 1 || sig.Results().Len() != 2 {
			return false
		}
		sl, ok := sig.Params().At(0).Type().Underlying().(*types.Slice)
		if !ok {
			return false
		}
		b, ok := sl.Elem().Underlying().(*types.Basic)
		return ok && b.Kind() == types.Byte
	}
	for _, fn := range c.ModuleFuncs() {
		if fn.Blocks == nil || takesTestingT(fn) {
			continue
		}
		n := 0
		for _, b := range fn.Blocks {
			for _, in := range b.Instrs {
				call, ok := in.(*ssa.Call)
				if !ok || !isRead(call) {
					continue
				}
				n++
				key := fmt.Sprintf("%s|Read #%d", core.SSAName(fn), n)
				buf := call.Call.Args[len(call.Call.Args)-1]
				// the count and the phis it enters
				counts := map[ssa.Value]bool{}
				if call.Referrers() != nil {
					for _, rf := range *call.Referrers() {
						if ex, ok := rf.(*ssa.Extract); ok && ex.Index == 0 {
							counts[ex] = true
						}
					}
				}
				for round := 0; round < 3; round++ {
					for v := range counts {
						if v.Referrers() == nil {
							continue
						}
						for _, rf := range *v.Referrers() {
							if phi, ok := rf.(*ssa.Phi); ok {
								counts[phi] = true
							}
						}
					}
				}
				isBufLen := func(v ssa.Value) bool {
					lc, ok := v.(*ssa.Call)
					if !ok {
						return false
					}
					bi, ok := lc.Call.Value.(*ssa.Builtin)
					if !ok || (bi.Name() != "len" && bi.Name() != "cap") || len(lc.Call.Args) != 1 {
						return false
					}
					a := lc.Call.Args[0]
					if a == buf {
						return true
					}
					// the same underlying buffer: slices of one allocation
					root := func(x ssa.Value) ssa.Value {
						for i := 0; i < 4; i++ {
							if sl, ok := x.(*ssa.Slice); ok {
								x = sl.X
								continue
							}
							break
						}
						return x
					}
					if root(a) == root(buf) {
						return true
					}
					// two loads of one field (r.line passed to Read, len(r.line) compared)
					fieldOf := func(x ssa.Value) (ssa.Value, int, bool) {
						u, ok := root(x).(*ssa.UnOp)
						if !ok {
							return nil, 0, false
						}
						fa, ok := u.X.(*ssa.FieldAddr)
						if !ok {
							return nil, 0, false
						}
						return fa.X, fa.Field, true
					}
					b1, f1, ok1 := fieldOf(a)
					b2, f2, ok2 := fieldOf(buf)
					return ok1 && ok2 && b1 == b2 && f1 == f2
				}
				bad := ""
				for v := range counts {
					if v.Referrers() == nil {
						continue
					}
					for _, rf := range *v.Referrers() {
						bo, ok := rf.(*ssa.BinOp)
						if !ok {
							continue
						}
						switch bo.Op {
						case token.EQL, token.NEQ, token.LSS, token.LEQ, token.GTR, token.GEQ:
						default:
							continue
						}
						other := bo.Y
						if other == v {
							other = bo.X
						}
						if isBufLen(other) {
							bad = c.Pos(bo.Pos())
						}
					}
				}
				r.Decide(bad == "", rule, key, c.Pos(call.Pos()), fmt.Sprintf("the count is compared with the buffer's length at: %q", bad))
			}
		}
	}
}
