package rules

import (
	"fmt"
	"go/token"
	"go/types"

	"golang.org/x/tools/go/ssa"

	"slipcheck/core"
)

// c09ifaceeq: == on two interface values panics at run time ("comparing uncomparable type slip.List") when both
// hold the same uncomparable dynamic type; slip.List, slip.Values and the other slice and map backed objects are
// such types. Flavor.inheritedVar compared the default value of an instance variable with the inherited one that
// way and any flavor built on a flavor with a list default made snapshot and the load form die (f101459). The rule:
// a comparison of two slip.Object values with == or != has an operand that cannot hold a list: nil, a constant
// converted to an interface, a value of a comparable concrete type converted to an interface, or a value a type
// test has already narrowed.
func c09ifaceeq(c *core.Ctx, r *core.Reporter) {
	const rule = "C09.ifaceeq"
	r.Rule(rule, "== and != between two slip.Object values have an operand that cannot hold an uncomparable dynamic type (nil, a constant, a comparable concrete value)", 600)
	objT := c.LookupType("", "Object")
	if objT == nil {
		r.Undecided(rule, "slip.Object", "-", "anchor does not resolve")
		return
	}
	isObj := func(t types.Type) bool {
		nt, ok := types.Unalias(t).(*types.Named)
		return ok && nt.Obj() == objT.Obj()
	}
	safe := func(v ssa.Value) bool {
		switch x := v.(type) {
		case *ssa.Const:
			return true
		case *ssa.MakeInterface:
			return types.Comparable(x.X.Type())
		}
		return false
	}
	for _, fn := range c.ModuleFuncs() {
		if fn.Blocks == nil || takesTestingT(fn) {
			continue
		}
		n := 0
		var g *core.Guards
		for _, b := range fn.Blocks {
			for _, in := range b.Instrs {
				bo, ok := in.(*ssa.BinOp)
				if !ok || (bo.Op != token.EQL && bo.Op != token.NEQ) || !isObj(bo.X.Type()) || !isObj(bo.Y.Type()) {
					continue
				}
				n++
				key := core.SSAName(fn)
				if n > 1 {
					key += fmt.Sprintf("#%d", n)
				}
				ok2 := safe(bo.X) || safe(bo.Y)
				if !ok2 {
					// narrowed: a successful test of an operand against a comparable concrete type holds here
					if g == nil {
						g = core.ComputeGuards(fn, func(*ssa.Function) bool { return false })
					}
					for _, opnd := range []ssa.Value{bo.X, bo.Y} {
						if opnd.Referrers() == nil {
							continue
						}
						for _, rf := range *opnd.Referrers() {
							ta, isTA := rf.(*ssa.TypeAssert)
							if !isTA || !ta.CommaOk || types.IsInterface(ta.AssertedType) || !types.Comparable(ta.AssertedType) {
								continue
							}
							for _, r2 := range *ta.Referrers() {
								ex, isEx := r2.(*ssa.Extract)
								if !isEx || ex.Index != 1 || ex.Referrers() == nil {
									continue
								}
								for _, r3 := range *ex.Referrers() {
									if ifi, isIf := r3.(*ssa.If); isIf && g.Facts(b)[core.EdgeFact{If: ifi, Branch: true}] {
										ok2 = true
									}
								}
							}
						}
					}
				}
				if why, has := ifaceeqExceptions[key]; has && !ok2 {
					r.Hold(rule, key, c.Pos(bo.Pos()), "accepted by reading: "+why)
					continue
				}
				r.Decide(ok2, rule, key, c.Pos(bo.Pos()), "interface comparison; one side cannot hold a list: "+boolStr(ok2))
			}
		}
	}
}

var ifaceeqExceptions = map[string]string{
	"pkg/cl.(BitEqv).Call":             "both operands were accepted as bit arrays; their elements are slip.Bit",
	"pkg/cl.(BitXor).Call":             "both operands were accepted as bit arrays; their elements are slip.Bit",
	"pkg/cl.(Block).Call#2":            "a block name and the tag of a return-from: return-from raises unless its name is a symbol or nil",
	"pkg/cl.(Do).Call#3":               "a body form against the tag of a go: go raises unless its tag is a symbol or nil",
	"pkg/cl.(Dolist).Call#3":           "a body form against the tag of a go: go raises unless its tag is a symbol or nil",
	"pkg/cl.(Dotimes).Call#2":          "a body form against the tag of a go: go raises unless its tag is a symbol or nil",
	"pkg/cl.(Dox).Call#3":              "a body form against the tag of a go: go raises unless its tag is a symbol or nil",
	"pkg/cl.(Prog).Call#2":             "a body form against the tag of a go: go raises unless its tag is a symbol or nil",
	"pkg/cl.(Progx).Call#2":            "a body form against the tag of a go: go raises unless its tag is a symbol or nil",
	"pkg/gi.(Dovector).Call#3":         "a body form against the tag of a go: go raises unless its tag is a symbol or nil",
	"pkg/cl.(InteractiveStreamP).Call": "the argument was accepted as a slip.Stream; every stream type is a pointer or a comparable struct",
	"slip.(Lambda).BoundCall":          "the tag of a return-from (a symbol or nil by its own check) against the scope name",
	"slip.(Scope).InBlock":             "the name given by return-from (a symbol or nil by its own check) against the scope name",
}
