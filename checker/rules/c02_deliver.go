package rules

import (
	"fmt"
	"sort"

	"golang.org/x/tools/go/ssa"

	"slipcheck/core"
)

// c02deliver: the reader keeps pending prefix markers (quote, function, backquote, comma, comma-at) on its
// stack and must apply them to whatever object is completed next, of any kind, however its characters were
// delivered. That holds only if every completed object is handed over at one place. The rule: in the methods
// of the reader, the code list (reader.code) and the value stack (reader.stack) grow by a *value* only inside
// the one delivering method (the method that appends to reader.code); everywhere else only markers and list
// starts are appended to the stack. Before 0b7e1d3 seven places appended objects themselves, each with its
// own partial treatment of the markers: '12 read as a symbol, 'nil left a stray q in the list, and '"s",
// '#\a, '#(1 2), '#xFF failed with "list not terminated".
func c02deliver(c *core.Ctx, r *core.Reporter, rule string) {
	r.Rule(rule, "completed objects reach the reader's code list and value stack only through the one method that applies pending quote/function/backquote/comma markers; other reader methods append only markers and list starts to the stack", 2)
	type site struct {
		fn   *ssa.Function
		in   ssa.Instruction
		what string
	}
	var codeAppends, stackValueAppends []site
	for _, fn := range c.ModuleFuncs() {
		if fn.Pkg == nil || fn.Pkg.Pkg.Path() != core.SlipPath || fn.Signature.Recv() == nil || !core.IsNamed(fn.Signature.Recv().Type(), core.SlipPath, "reader") {
			continue
		}
		for _, b := range fn.Blocks {
			for _, in := range b.Instrs {
				st, ok := in.(*ssa.Store)
				if !ok {
					continue
				}
				fa, ok := st.Addr.(*ssa.FieldAddr)
				if !ok || !core.IsNamed(fa.X.Type(), core.SlipPath, "reader") {
					continue
				}
				f := fieldName(fa)
				if f != "code" && f != "stack" {
					continue
				}
				call, ok := st.Val.(*ssa.Call)
				if !ok {
					continue
				}
				bi, ok := call.Call.Value.(*ssa.Builtin)
				if !ok || bi.Name() != "append" || len(call.Call.Args) < 2 {
					continue
				}
				if f == "code" {
					codeAppends = append(codeAppends, site{fn, in, "code"})
					continue
				}
				// stack: what is appended? a slice literal holding one element
				if appendsOnlyMarker(call.Call.Args[1]) {
					continue
				}
				stackValueAppends = append(stackValueAppends, site{fn, in, "stack"})
			}
		}
	}
	deliver := map[*ssa.Function]bool{}
	for _, s := range codeAppends {
		deliver[s.fn] = true
	}
	var names []string
	for fn := range deliver {
		names = append(names, core.SSAName(fn))
	}
	sort.Strings(names)
	r.Decide(len(deliver) == 1, rule, "slip.reader|one delivering method", "-", fmt.Sprintf("methods that append to reader.code: %v", names))
	for _, s := range stackValueAppends {
		ok := deliver[s.fn]
		r.Decide(ok, rule, core.SSAName(s.fn)+"|value appended to the stack", c.Pos(s.in.Pos()), fmt.Sprintf("a value (not a marker or list start) is appended to the reader's stack in the delivering method: %v", ok))
	}
}

// appendsOnlyMarker: the appended slice holds a single element that is a marker constant, a nil list start, or a
// freshly allocated container placeholder (vector/array under construction).
func appendsOnlyMarker(v ssa.Value) bool {
	sl, ok := v.(*ssa.Slice)
	if !ok {
		return false
	}
	al, ok := sl.X.(*ssa.Alloc)
	if !ok {
		return false
	}
	okAll := true
	n := 0
	for _, ref := range *al.Referrers() {
		ia, ok := ref.(*ssa.IndexAddr)
		if !ok {
			continue
		}
		for _, r2 := range *ia.Referrers() {
			st, ok := r2.(*ssa.Store)
			if !ok || st.Addr != ssa.Value(ia) {
				continue
			}
			n++
			if !isMarkerValue(st.Val, 0) {
				okAll = false
			}
		}
	}
	return n > 0 && okAll
}

func isMarkerValue(v ssa.Value, depth int) bool {
	if depth > 4 {
		return false
	}
	switch x := v.(type) {
	case *ssa.Const:
		return x.IsNil() || core.IsNamed(x.Type(), core.SlipPath, "marker")
	case *ssa.MakeInterface:
		if core.IsNamed(x.X.Type(), core.SlipPath, "marker") || core.IsNamed(x.X.Type(), core.SlipPath, "Complex") {
			return true
		}
		if _, isAlloc := x.X.(*ssa.Alloc); isAlloc {
			return true // &Array{...} under construction
		}
		return isMarkerValue(x.X, depth+1)
	case *ssa.UnOp:
		if g, ok := x.X.(*ssa.Global); ok {
			return isMarkerGlobal(g) // vectorMarker, complexMarker: package-level marker objects
		}
	}
	return false
}

func isMarkerGlobal(g *ssa.Global) bool {
	n := g.Name()
	return len(n) > 6 && n[len(n)-6:] == "Marker"
}
