package rules

import (
	"fmt"
	"go/constant"
	"go/token"
	"strings"

	"golang.org/x/tools/go/ssa"

	"slipcheck/core"
)

// c20settings: "restarting loads ... the same saved settings". Three structural conditions on the settings
// file writer of pkg/repl, each of which was violated on the pinned tree (repaired by 6274b47):
//
//	(pinned)   a function that prints values with a copy of the session's default printer and writes a file
//	           assigns the copy's Base: otherwise (setq *print-base* 16) saves 1000 as 3e8;
//	(key)      a name is recorded as a modified setting only under a test that it carries no package qualifier:
//	           the set hook is also called with "pkg:name", which resolves to nothing and was saved as nil;
//	(default)  the built-in default of a persisted setting is established from an init function, not from a
//	           function that runs after the configuration file was evaluated: History.SetLimit with a constant
//	           argument is called only from init.
func c20settings(c *core.Ctx, r *core.Reporter) {
	const rule = "C20.settings"
	r.Rule(rule, "the settings writer pins the print base of the printer it copies from the session, records only unqualified variable names, and defaults of persisted settings are established at init, before the saved configuration is evaluated", 3)
	dp := c.LookupFunc("", "DefaultPrinter")
	if dp == nil {
		r.Undecided(rule, "slip.DefaultPrinter", "-", "anchor does not resolve")
		return
	}
	dpFn := c.SSAFunc(dp)
	for _, fn := range c.ModuleFuncs() {
		if fn.Pkg == nil || fn.Pkg.Pkg.Path() != replPath {
			continue
		}
		usesDefault, writesFile, pinsBase := false, false, false
		var pos token.Pos
		for _, b := range fn.Blocks {
			for _, in := range b.Instrs {
				switch x := in.(type) {
				case *ssa.Call:
					cal := x.Call.StaticCallee()
					if cal == dpFn {
						usesDefault = true
						pos = x.Pos()
					}
					if cal != nil && cal.Pkg != nil && cal.Pkg.Pkg.Path() == "os" {
						switch cal.Name() {
						case "WriteFile", "Write", "WriteString", "OpenFile", "Create":
							writesFile = true
						}
					}
				case *ssa.Store:
					if fa, ok := x.Addr.(*ssa.FieldAddr); ok && fieldName(fa) == "Base" && core.IsNamed(fa.X.Type(), core.SlipPath, "Printer") {
						if _, isAlloc := fa.X.(*ssa.Alloc); isAlloc {
							pinsBase = true
						}
					}
				}
			}
		}
		if usesDefault && writesFile {
			r.Decide(pinsBase, rule, core.SSAName(fn)+"|print base pinned", c.Pos(pos), fmt.Sprintf("the printer copied from the session's default has its Base assigned before values are written to the file: %v", pinsBase))
		}
		// (key)
		for _, b := range fn.Blocks {
			for _, in := range b.Instrs {
				mu, ok := in.(*ssa.MapUpdate)
				if !ok {
					continue
				}
				u, ok := mu.Map.(*ssa.UnOp)
				if !ok {
					continue
				}
				g, ok := u.X.(*ssa.Global)
				if !ok || g.Name() != "modifiedVars" {
					continue
				}
				guarded := core.Separates(fn, b, nil, func(ifi *ssa.If, branch bool) bool {
					return qualifierTest(ifi.Cond, mu.Key, branch)
				})
				r.Decide(guarded, rule, core.SSAName(fn)+"|only unqualified names recorded", c.Pos(mu.Pos()), fmt.Sprintf("the store into the table of modified settings is reached only when the key holds no ':' package qualifier: %v", guarded))
			}
		}
		// (default)
		for _, b := range fn.Blocks {
			for _, in := range b.Instrs {
				call, ok := in.(*ssa.Call)
				if !ok {
					continue
				}
				cal := call.Call.StaticCallee()
				if cal == nil || cal.Name() != "SetLimit" || cal.Signature.Recv() == nil || !core.IsNamed(cal.Signature.Recv().Type(), replPath, "History") {
					continue
				}
				if len(call.Call.Args) < 2 {
					continue
				}
				if _, isConst := call.Call.Args[1].(*ssa.Const); !isConst {
					continue
				}
				fromInit := strings.HasPrefix(fn.Name(), "init")
				r.Decide(fromInit, rule, core.SSAName(fn)+"|default history limit set at init", c.Pos(call.Pos()), fmt.Sprintf("the constant default is established by an init function (before the configuration file is evaluated): %v", fromInit))
			}
		}
	}
}

// qualifierTest: the branch taken means strings.Contains(key, s) / strings.IndexByte(key, ':') found nothing,
// where s contains ':'.
func qualifierTest(cond ssa.Value, key ssa.Value, branch bool) bool {
	neg := false
	for {
		u, ok := cond.(*ssa.UnOp)
		if !ok || u.Op != token.NOT {
			break
		}
		neg = !neg
		cond = u.X
	}
	call, ok := cond.(*ssa.Call)
	if !ok {
		return false
	}
	cal := call.Call.StaticCallee()
	if cal == nil || cal.Pkg == nil || cal.Pkg.Pkg.Path() != "strings" || (cal.Name() != "Contains" && cal.Name() != "ContainsRune" && cal.Name() != "ContainsAny") {
		return false
	}
	if len(call.Call.Args) != 2 || call.Call.Args[0] != key {
		return false
	}
	cst, ok := call.Call.Args[1].(*ssa.Const)
	if !ok || cst.Value == nil {
		return false
	}
	hasColon := false
	switch cst.Value.Kind() {
	case constant.String:
		hasColon = strings.Contains(constant.StringVal(cst.Value), ":")
	case constant.Int:
		if v, ok := constant.Int64Val(cst.Value); ok && v == ':' {
			hasColon = true
		}
	}
	if !hasColon {
		return false
	}
	// Contains(...) true means qualified; we need the "not contains" outcome
	containsOutcome := branch
	if neg {
		containsOutcome = !branch
	}
	return !containsOutcome
}
