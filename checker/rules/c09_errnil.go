package rules

import (
	"fmt"
	"go/token"
	"go/types"

	"golang.org/x/tools/go/ssa"

	"slipcheck/core"
)

// c09errnil: "cannot fail" beliefs. A call that returns (pointer, error) hands back a nil pointer when it
// fails. Where the error result is discarded and the pointer is then dereferenced, the failure case is a nil
// dereference: (unzip "") died in `r, _ := gzip.NewReader(...); io.ReadAll(r)`. The rule: in the built-in
// packages, the pointer result of a call whose error result is never looked at is not dereferenced (or passed
// on as an interface) unless it is nil-tested.
func c09errnil(c *core.Ctx, r *core.Reporter) {
	const rule = "C09.errnil"
	r.Rule(rule, "the pointer result of a (pointer, error) call whose error is discarded is not used without a nil test", 1)
	isErr := func(t types.Type) bool {
		n, ok := t.(*types.Named)
		return ok && n.Obj().Name() == "error" && n.Obj().Pkg() == nil
	}
	seen := map[string]int{}
	for _, fn := range c.ModuleFuncs() {
		if fn.Pkg == nil || fn.Blocks == nil || takesTestingT(fn) {
			continue
		}
		rel := core.RelPkg(fn.Pkg.Pkg.Path())
		if rel != "slip" && (len(rel) < 4 || rel[:4] != "pkg/") {
			continue
		}
		var g *core.Guards
		for _, b := range fn.Blocks {
			for _, in := range b.Instrs {
				call, ok := in.(*ssa.Call)
				if !ok {
					continue
				}
				tup, ok := call.Type().(*types.Tuple)
				if !ok || tup.Len() != 2 || !isErr(tup.At(1).Type()) {
					continue
				}
				if _, isPtr := tup.At(0).Type().Underlying().(*types.Pointer); !isPtr {
					continue
				}
				var val *ssa.Extract
				errUsed := false
				if call.Referrers() != nil {
					for _, rf := range *call.Referrers() {
						if ex, ok := rf.(*ssa.Extract); ok {
							if ex.Index == 0 {
								val = ex
							} else if ex.Referrers() != nil && len(*ex.Referrers()) > 0 {
								errUsed = true
							}
						}
					}
				}
				if val == nil || errUsed || val.Referrers() == nil {
					continue
				}
				used := false
				okAll := true
				for _, rf := range *val.Referrers() {
					deref := false
					switch x := rf.(type) {
					case *ssa.FieldAddr:
						deref = x.X == ssa.Value(val)
					case *ssa.UnOp:
						deref = x.Op == token.MUL && x.X == ssa.Value(val)
					case *ssa.MakeInterface:
						deref = true // handed on as an io.Reader etc.: used by the callee
					case *ssa.Call:
						deref = true
					}
					if !deref {
						continue
					}
					used = true
					if g == nil {
						g = core.ComputeGuards(fn, nil)
					}
					if !nonNilAt(g, val, rf.Block(), nil, 0) {
						okAll = false
					}
				}
				if !used {
					continue
				}
				name := "?"
				if cal := call.Call.StaticCallee(); cal != nil {
					name = cal.Name()
					if cal.Pkg != nil {
						name = cal.Pkg.Pkg.Name() + "." + name
					}
				}
				key := fmt.Sprintf("%s|%s", core.SSAName(fn), name)
				seen[key]++
				if seen[key] > 1 {
					key = fmt.Sprintf("%s#%d", key, seen[key])
				}
				r.Decide(okAll, rule, key, c.Pos(call.Pos()), fmt.Sprintf("the error of %s is discarded; its pointer result is used only under a nil test: %v", name, okAll))
			}
		}
	}
}
