package rules

import (
	"fmt"
	"go/token"
	"go/types"
	"sort"

	"golang.org/x/tools/go/ssa"

	"slipcheck/core"
	"slipcheck/lenflow"
)

// c09nilrecv: nil is a Lisp value (the empty list, false) and arrives as a nil interface. Calling a method
// on it is a Go nil dereference. The rule: in every Call/Place method of a registered built-in, and in the
// module helpers those methods hand an argument element to (one level), an interface method is invoked on
// (a) an element of the argument list, or (b) a parameter of type slip.Object that receives such an element,
// only where the value is known to be non-nil: a `v != nil` test holds on every path, or the invocation is on
// the result of a successful type switch/assertion (a different value). (equalp nil t) died in x.Equal(y).
func c09nilrecv(c *core.Ctx, r *core.Reporter) {
	const rule = "C09.nilrecv"
	r.Rule(rule, "in the built-ins and the helpers they pass arguments to, an interface method is invoked on an argument value only where that value is known to be non-nil (nil is an ordinary Lisp argument)", 12)
	an := lenflow.New(c)
	isObject := func(t types.Type) bool { return core.IsNamed(t, core.SlipPath, "Object") }
	// entry functions: Call/Place of registrations
	entries := map[*ssa.Function]bool{}
	for _, b := range c.Registry() {
		for _, m := range []*types.Func{b.Call, b.Place} {
			if m != nil {
				if fn := c.SSAFunc(m); fn != nil && fn.Blocks != nil {
					entries[fn] = true
				}
			}
		}
	}
	// sources in an entry: loads of args[k]
	argElems := func(fn *ssa.Function) map[ssa.Value]bool {
		out := map[ssa.Value]bool{}
		var args *ssa.Parameter
		for _, p := range fn.Params {
			if isObjectSlice(p.Type()) {
				args = p
			}
		}
		if args == nil {
			return out
		}
		for _, b := range fn.Blocks {
			for _, in := range b.Instrs {
				if u, ok := in.(*ssa.UnOp); ok && u.Op == token.MUL {
					if ia, ok := u.X.(*ssa.IndexAddr); ok {
						base := ia.X
						if sl, ok := base.(*ssa.Slice); ok {
							base = sl.X
						}
						if base == ssa.Value(args) {
							out[u] = true
						}
					}
				}
			}
		}
		return out
	}
	type work struct {
		fn   *ssa.Function
		srcs map[ssa.Value]bool
		via  string
	}
	var todo []work
	helperParams := map[*ssa.Function]map[int]bool{}
	var efns []*ssa.Function
	for fn := range entries {
		efns = append(efns, fn)
	}
	sort.Slice(efns, func(i, j int) bool { return core.SSAName(efns[i]) < core.SSAName(efns[j]) })
	for _, fn := range efns {
		srcs := argElems(fn)
		todo = append(todo, work{fn, srcs, ""})
		for _, b := range fn.Blocks {
			for _, in := range b.Instrs {
				call, ok := in.(*ssa.Call)
				if !ok {
					continue
				}
				cal := call.Call.StaticCallee()
				if cal == nil || cal.Blocks == nil || cal.Pkg == nil || !core.InModule(cal.Pkg.Pkg) || entries[cal] {
					continue
				}
				off := 0
				if cal.Signature.Recv() != nil {
					off = 0 // Args already include the receiver at index 0, matching Params
				}
				for ai, a := range call.Call.Args {
					if srcs[a] && ai+off < len(cal.Params) && isObject(cal.Params[ai+off].Type()) {
						if helperParams[cal] == nil {
							helperParams[cal] = map[int]bool{}
						}
						helperParams[cal][ai+off] = true
					}
				}
			}
		}
	}
	var hfns []*ssa.Function
	for fn := range helperParams {
		hfns = append(hfns, fn)
	}
	sort.Slice(hfns, func(i, j int) bool { return core.SSAName(hfns[i]) < core.SSAName(hfns[j]) })
	for _, fn := range hfns {
		srcs := map[ssa.Value]bool{}
		for pi := range helperParams[fn] {
			srcs[fn.Params[pi]] = true
		}
		todo = append(todo, work{fn, srcs, " (helper)"})
	}
	seen := map[string]int{}
	for _, w := range todo {
		if len(w.srcs) == 0 {
			continue
		}
		var g *core.Guards
		for _, b := range w.fn.Blocks {
			for _, in := range b.Instrs {
				call, ok := in.(*ssa.Call)
				if !ok || !call.Call.IsInvoke() {
					continue
				}
				recv := call.Call.Value
				if !w.srcs[recv] {
					continue
				}
				if g == nil {
					g = core.ComputeGuards(w.fn, an.NoReturn)
				}
				ok2 := nonNilAt(g, recv, b, nil, 0)
				if !ok2 {
					// another load of the same args[k] (constant k) tested on the way: `switch a := args[0].(type)
					// { case nil: return }; args[0].Hierarchy()`
					if u, isU := recv.(*ssa.UnOp); isU {
						if ia, isIA := u.X.(*ssa.IndexAddr); isIA {
							if k, isC := ia.Index.(*ssa.Const); isC {
								for sib := range w.srcs {
									su, _ := sib.(*ssa.UnOp)
									if su == nil || sib == recv {
										continue
									}
									sia, _ := su.X.(*ssa.IndexAddr)
									if sia == nil || sia.X != ia.X {
										continue
									}
									if sk, isSC := sia.Index.(*ssa.Const); isSC && sk.Int64() == k.Int64() && nonNilAt(g, sib, b, nil, 0) {
										ok2 = true
									}
								}
							}
						}
					}
				}
				key := fmt.Sprintf("%s|%s.%s()", core.SSAName(w.fn), rootDesc(recv), call.Call.Method.Name())
				seen[key]++
				if seen[key] > 1 {
					key = fmt.Sprintf("%s#%d", key, seen[key])
				}
				if why, ok := nilrecvExceptions[key]; ok && !ok2 {
					r.Hold(rule, key, c.Pos(call.Pos()), "accepted by reading: "+why)
					continue
				}
				r.Decide(ok2, rule, key, c.Pos(call.Pos()), fmt.Sprintf("the argument value%s is known non-nil where %s is invoked on it: %v", w.via, call.Call.Method.Name(), ok2))
			}
		}
	}
}

var nilrecvExceptions = map[string]string{}
