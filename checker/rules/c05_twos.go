package rules

import (
	"fmt"

	"golang.org/x/tools/go/ssa"

	"slipcheck/core"
)

// c05twos: the bitwise functions are defined on two's complement integers of unbounded size: a negative integer
// has an infinite run of one bits. math/big's And, Or, Xor, Not, AndNot, Bit, Lsh and Rsh implement exactly
// that; its magnitude accessors - Bytes, SetBytes, FillBytes, Bits, SetBits - see the absolute value only. In the
// Call of every bitwise built-in, and in the module functions it calls statically, no magnitude accessor of
// big.Int is used: (logeqv x x) was 2^72-1 instead of -1, (logbitp 0 -36893488147419103233) nil, (logtest -1
// 36893488147419103232) nil, (logcount -36893488147419103232) 0 - all computed on the bytes of the magnitude.
var c05BitFunctions = []string{
	"logand", "logior", "logxor", "lognot", "logeqv", "lognand", "lognor", "logandc1", "logandc2", "logorc1", "logorc2",
	"logtest", "logbitp", "logcount", "integer-length", "ash", "boole", "ldb", "dpb", "mask-field", "deposit-field", "ldb-test",
}

func c05twos(c *core.Ctx, r *core.Reporter) {
	const rule = "C05.twos"
	r.Rule(rule, "in the Call of every bitwise built-in (log..., ash, boole, ldb, dpb, mask-field, deposit-field) and the module functions it calls statically, no magnitude accessor of math/big.Int (Bytes, SetBytes, FillBytes, Bits, SetBits) is used: bit operations on integers of any size and sign go through big.Int's two's complement operations", 15)
	magnitude := map[string]bool{"Bytes": true, "SetBytes": true, "FillBytes": true, "Bits": true, "SetBits": true}
	for _, name := range c05BitFunctions {
		b := c.ByName("pkg/cl", name)
		if b == nil || b.Call == nil {
			continue
		}
		root := c.SSAFunc(b.Call)
		var uses []string
		seen := map[*ssa.Function]bool{}
		var walk func(fn *ssa.Function, depth int)
		walk = func(fn *ssa.Function, depth int) {
			if fn == nil || fn.Blocks == nil || seen[fn] || depth > 3 {
				return
			}
			seen[fn] = true
			for _, blk := range fn.Blocks {
				for _, in := range blk.Instrs {
					g := core.StaticCalleeOf(in)
					if g == nil || g.Pkg == nil {
						continue
					}
					if g.Pkg.Pkg.Path() == "math/big" && magnitude[g.Name()] && g.Signature.Recv() != nil {
						uses = append(uses, fmt.Sprintf("%s in %s at %s", g.Name(), core.SSAName(fn), c.Pos(in.Pos())))
						continue
					}
					if core.InModule(g.Pkg.Pkg) {
						walk(g, depth+1)
					}
				}
			}
		}
		walk(root, 0)
		r.Decide(len(uses) == 0, rule, "pkg/cl:"+name, c.Pos(root.Pos()), fmt.Sprintf("magnitude accessors of big.Int reachable: %v", uses))
	}
}
