package rules

import (
	"fmt"
	"go/token"

	"golang.org/x/tools/go/ssa"

	"slipcheck/core"
	"slipcheck/lenflow"
)

// c15zeroword: the English numeral tables of ~R have an empty string for the digit zero (there is no word for a
// zero unit). The words are joined with a separator afterwards, so an entry taken for a digit that may be zero
// puts an empty word, i.e. a stray separator, into the text: (format nil "~R" 40) was "forty ". Every read of a
// table whose first row is empty, indexed by digit-'0', is an instance: it is reached only through the outcome
// of a comparison of that digit with '0' that excludes zero.
func c15zeroword(c *core.Ctx, r *core.Reporter) {
	const rule = "C15.zeroword"
	r.Rule(rule, "in the ~R handler every entry taken from a numeral table whose entry for zero is the empty string (the units) is taken only where a comparison of the digit with '0' excludes zero: an empty word would be joined on with a separator", 3)
	fnObj := c.LookupFunc("pkg/cl", "control.dirR")
	if fnObj == nil {
		r.Undecided(rule, "pkg/cl.(control).dirR", "-", "anchor does not resolve")
		return
	}
	fn := c.SSAFunc(fnObj)
	an := lenflow.New(c)
	emptyFirst := func(g *ssa.Global) bool {
		e, info := globalInit(c, g.Object())
		if e == nil {
			return false
		}
		for _, row := range stringRows(e, info) {
			if len(row) > 1 && row[0] == "" && row[1] != "" {
				return true
			}
		}
		return false
	}
	// the table may be copied into a local first (one := cardinalOne): follow loads of globals through phis and allocs
	var fromEmptyTable func(v ssa.Value, depth int) bool
	fromEmptyTable = func(v ssa.Value, depth int) bool {
		if depth > 6 || v == nil {
			return false
		}
		switch x := v.(type) {
		case *ssa.Global:
			return emptyFirst(x)
		case *ssa.UnOp:
			return fromEmptyTable(x.X, depth+1)
		case *ssa.Phi:
			for _, e := range x.Edges {
				if fromEmptyTable(e, depth+1) {
					return true
				}
			}
		case *ssa.Alloc:
			if x.Referrers() != nil {
				for _, rf := range *x.Referrers() {
					if st, ok := rf.(*ssa.Store); ok && st.Addr == ssa.Value(x) && fromEmptyTable(st.Val, depth+1) {
						return true
					}
				}
			}
		}
		return false
	}
	n := 0
	for _, b := range fn.Blocks {
		for _, in := range b.Instrs {
			var base, idx ssa.Value
			switch x := in.(type) {
			case *ssa.IndexAddr:
				base, idx = x.X, x.Index
			case *ssa.Index:
				base, idx = x.X, x.Index
			default:
				continue
			}
			if !fromEmptyTable(base, 0) {
				continue
			}
			// idx = digit - '0' (possibly converted)
			var digit ssa.Value
			v := idx
			for i := 0; i < 3; i++ {
				if cv, ok := v.(*ssa.Convert); ok {
					v = cv.X
					continue
				}
				break
			}
			if bo, ok := v.(*ssa.BinOp); ok && bo.Op == token.SUB {
				digit = bo.X
			}
			if digit == nil {
				continue
			}
			n++
			ok2 := core.Separates(fn, b, an.NoReturn, func(ifi *ssa.If, br bool) bool {
				bo, ok := ifi.Cond.(*ssa.BinOp)
				if !ok || (bo.Op != token.EQL && bo.Op != token.NEQ) {
					return false
				}
				var other ssa.Value
				if bo.X == digit {
					other = bo.Y
				} else if bo.Y == digit {
					other = bo.X
				} else {
					return false
				}
				k, ok := other.(*ssa.Const)
				if !ok || k.Value == nil || k.Int64() != '0' {
					return false
				}
				return (bo.Op == token.NEQ && br) || (bo.Op == token.EQL && !br)
			})
			r.Decide(ok2, rule, fmt.Sprintf("pkg/cl.(control).dirR|unit word %d", n), c.Pos(in.Pos()), fmt.Sprintf("the entry is taken only where the digit was compared with '0' and is not zero: %v", ok2))
		}
	}
}
