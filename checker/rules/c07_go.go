package rules

import (
	"fmt"
	"go/token"
	"go/types"

	"golang.org/x/tools/go/ssa"

	"slipcheck/core"
	"slipcheck/lenflow"
)

// "go ... transfers control to the lexically matching tag and nowhere else."
//
// A *tagbody engine* is found by shape: a module function that reads the Tag field of a *slip.GoTo inside a
// loop (the search for the tag among the elements of a body). On the pinned tree eight functions had such a
// search (tagbody, prog, prog*, do, do*, dolist, dotimes, dovector), each its own copy, and all but tagbody
// searched only after the go, evaluated tags, or swallowed a go for an enclosing tagbody; today there is one
// (cl.EvalTagBody) which the others call.
//
//	C07.tag      per engine: (a) an element is evaluated only under a test that it is not a tag; (b) a go it
//	             cannot resolve can reach its return; (c) the search for the tag does not start at the
//	             position of the go (a tag before the go is found).
//	C07.implicit every function that marks a scope as a tagbody (stores true into Scope.TagBody) is an
//	             engine or calls one: a form that lets `go` through must resolve tags.
//	C07.carrier  the result of a call of a function that hands exits back as its result (an engine) is
//	             returned directly or type-tested against both *ReturnResult and *GoTo.
//	C07.goforward every loop C07.forward judges also tests the value against *slip.GoTo with a success edge
//	             from which the function can leave the loop.

func isGoToPtr(t types.Type) bool {
	pt, ok := t.(*types.Pointer)
	return ok && core.IsNamed(pt, core.SlipPath, "GoTo")
}

// goToTagReads: instructions reading field Tag of a *slip.GoTo.
func goToTagReads(fn *ssa.Function) []ssa.Instruction {
	var out []ssa.Instruction
	for _, b := range fn.Blocks {
		for _, in := range b.Instrs {
			if fa, ok := in.(*ssa.FieldAddr); ok && isGoToPtr(fa.X.Type()) {
				st := fa.X.Type().(*types.Pointer).Elem().Underlying().(*types.Struct)
				if st.Field(fa.Field).Name() == "Tag" {
					out = append(out, in)
				}
			}
		}
	}
	return out
}

func tagEngines(c *core.Ctx) []*ssa.Function {
	var out []*ssa.Function
	for _, fn := range c.ModuleFuncs() {
		reads := goToTagReads(fn)
		if len(reads) == 0 {
			continue
		}
		loops := core.Loops(fn)
		hasEval := false
		for _, b := range fn.Blocks {
			for _, in := range b.Instrs {
				if call, ok := in.(*ssa.Call); ok {
					if _, _, _, ok := isEvalSite(call); ok && core.InnermostLoop(loops, b) != nil {
						hasEval = true
					}
				}
			}
		}
		inLoop := false
		for _, in := range reads {
			if core.InnermostLoop(loops, in.Block()) != nil {
				inLoop = true
			}
		}
		if hasEval && inLoop {
			out = append(out, fn)
		}
	}
	return out
}

func c07tag(c *core.Ctx, r *core.Reporter) {
	const rule = "C07.tag"
	r.Rule(rule, "in every tagbody engine (a function that searches the elements of a body for the tag of a *slip.GoTo): an element is evaluated only under a test that it is not a tag; a go the engine cannot resolve can reach its return (it is handed to the enclosing form); the search for the tag does not start at the position of the go, so a tag before the go is found", 3)
	const impl = "C07.implicit"
	r.Rule(impl, "every function that marks a scope as hosting tags (stores true into Scope.TagBody) is a tagbody engine or statically calls one: otherwise go is let through (it raises only without such a scope) and nothing resolves the tag", 8)
	const carrier = "C07.carrier"
	r.Rule(carrier, "the result of every static call of a tagbody engine (it hands a return-from or an unresolved go back as its result) is returned as it is, or type-tested against both *slip.ReturnResult and *slip.GoTo", 8)
	an := lenflow.New(c)
	engines := tagEngines(c)
	isEngine := map[*ssa.Function]bool{}
	for _, e := range engines {
		isEngine[e] = true
	}
	if len(engines) == 0 {
		r.Undecided(rule, "tagbody engine", "-", "no function searches a body for the tag of a *slip.GoTo")
		return
	}
	tb := c.ByName("pkg/cl", "tagbody")
	if tb == nil || tb.Call == nil {
		r.Undecided(rule, "pkg/cl:tagbody", "-", "form not found in the registry")
	} else {
		fn := c.SSAFunc(tb.Call)
		ok := isEngine[fn]
		for _, b := range fn.Blocks {
			for _, in := range b.Instrs {
				if g := core.StaticCalleeOf(in); g != nil && isEngine[g] {
					ok = true
				}
			}
		}
		r.Decide(ok, impl, "pkg/cl:tagbody|reaches an engine", c.Pos(fn.Pos()), fmt.Sprintf("tagbody is or calls a tagbody engine: %v", ok))
	}
	for _, fn := range engines {
		name := core.SSAName(fn)
		loops := core.Loops(fn)
		// (a)
		for _, blk := range fn.Blocks {
			for _, in := range blk.Instrs {
				call, ok := in.(*ssa.Call)
				if !ok {
					continue
				}
				if _, _, _, ok := isEvalSite(call); !ok || core.InnermostLoop(loops, blk) == nil {
					continue
				}
				guarded := core.Separates(fn, blk, an.NoReturn, func(ifi *ssa.If, branch bool) bool {
					var src ssa.Value = ifi.Cond
					if u, ok := src.(*ssa.UnOp); ok {
						src = u.X
					}
					switch x := src.(type) {
					case *ssa.Call:
						for _, a := range x.Call.Args {
							if isElementLoad(a) {
								return true
							}
						}
					case *ssa.Extract:
						if ta, ok := x.Tuple.(*ssa.TypeAssert); ok && isElementLoad(ta.X) {
							return true
						}
					}
					return false
				})
				r.Decide(guarded, rule, name+"|element tested before it is evaluated", c.Pos(call.Pos()), fmt.Sprintf("the evaluation is reached only through a test of the element (tag or form): %v", guarded))
			}
		}
		// (b)
		returned := false
		for _, blk := range fn.Blocks {
			if ret, ok := blk.Instrs[len(blk.Instrs)-1].(*ssa.Return); ok {
				for _, rv := range ret.Results {
					if returnsGoTo(rv, 0) {
						returned = true
					}
				}
			}
		}
		r.Decide(returned, rule, name+"|unresolved go is returned", c.Pos(fn.Pos()), fmt.Sprintf("some return hands a *GoTo back to the enclosing form: %v", returned))
		// (c)
		for _, rd := range goToTagReads(fn) {
			sl := core.InnermostLoop(loops, rd.Block())
			if sl == nil {
				continue
			}
			whole := true
			why := "the search loop starts at a position that does not depend on where the go was evaluated"
			for _, in := range sl.Header.Instrs {
				phi, ok := in.(*ssa.Phi)
				if !ok {
					continue
				}
				for k, e := range phi.Edges {
					if sl.Blocks[sl.Header.Preds[k]] {
						continue // back edge
					}
					for outer := sl.Parent; outer != nil; outer = outer.Parent {
						if dependsOnLoopVar(e, outer, 0) {
							whole = false
							why = "the search for the tag starts at the position of the go: a tag before it is not found"
						}
					}
				}
			}
			if sl.Parent == nil {
				// the search shares the evaluation loop (for i++ ... inside it is still nested); a read outside any nested loop is the comparison of a range loop
				why += " (single loop)"
			}
			r.Decide(whole, rule, name+"|tag searched in the whole body", c.Pos(rd.Pos()), why)
		}
	}
	// C07.implicit
	csi := buildCallSites(c)
	reachesEngine := func(fn *ssa.Function) bool {
		if isEngine[fn] {
			return true
		}
		for _, bb := range fn.Blocks {
			for _, i2 := range bb.Instrs {
				if g := core.StaticCalleeOf(i2); g != nil && isEngine[g] {
					return true
				}
			}
		}
		return false
	}
	for _, fn := range c.ModuleFuncs() {
		for _, b := range fn.Blocks {
			for _, in := range b.Instrs {
				st, ok := in.(*ssa.Store)
				if !ok {
					continue
				}
				fa, ok := st.Addr.(*ssa.FieldAddr)
				if !ok {
					continue
				}
				pt, ok := fa.X.Type().(*types.Pointer)
				if !ok || !core.IsNamed(pt, core.SlipPath, "Scope") {
					continue
				}
				if pt.Elem().Underlying().(*types.Struct).Field(fa.Field).Name() != "TagBody" {
					continue
				}
				if k, ok := st.Val.(*ssa.Const); !ok || k.Value == nil || k.Value.String() != "true" {
					continue
				}
				ok2 := reachesEngine(fn)
				if !ok2 && !an.Dynamic(fn) && len(csi.callers[fn]) > 0 {
					// a set-up helper: every static caller resolves the tags
					ok2 = true
					for _, cs := range csi.callers[fn] {
						if !reachesEngine(cs.Parent()) {
							ok2 = false
						}
					}
				}
				r.Decide(ok2, impl, core.SSAName(fn)+"|scope marked as tagbody", c.Pos(st.Pos()), fmt.Sprintf("the function (or, for a helper called only statically, every caller) is or calls a tagbody engine: %v", ok2))
			}
		}
	}
	// C07.carrier
	for _, fn := range c.ModuleFuncs() {
		n := 0
		for _, b := range fn.Blocks {
			for _, in := range b.Instrs {
				call, ok := in.(*ssa.Call)
				if !ok {
					continue
				}
				g := call.Call.StaticCallee()
				if g == nil || !isEngine[g] {
					continue
				}
				n++
				key := fmt.Sprintf("%s|result of %s", core.SSAName(fn), g.Name())
				if n > 1 {
					key = fmt.Sprintf("%s#%d", key, n)
				}
				direct := false
				var vals []ssa.Value
				vals = append(vals, valueAliases(call, nil)...)
				rr, gt := false, false
				// inside a loop (the iteration forms call the engine once per pass) the success edge of each test
				// must leave the loop on every path: an exit that is recognised and then falls through to the
				// next pass is dropped
				loop := core.InnermostLoop(core.Loops(fn), call.Block())
				leaves := func(succs []*ssa.BasicBlock) bool {
					if len(succs) == 0 {
						return false
					}
					if loop == nil {
						return true
					}
					for _, sb := range succs {
						if !leavesLoop(sb, loop) {
							return false
						}
					}
					return true
				}
				for _, v := range vals {
					if refs := v.Referrers(); refs != nil {
						for _, rf := range *refs {
							if _, ok := rf.(*ssa.Return); ok {
								direct = true
							}
						}
					}
					if leaves(assertedTo(v, core.SlipPath, "ReturnResult")) {
						rr = true
					}
					if leaves(assertedTo(v, core.SlipPath, "GoTo")) {
						gt = true
					}
				}
				ok2 := direct || (rr && gt)
				r.Decide(ok2, carrier, key, c.Pos(call.Pos()), fmt.Sprintf("returned as it is: %v; tested against *ReturnResult with the success edge leaving the enclosing loop: %v, against *GoTo: %v", direct, rr, gt))
			}
		}
	}
}

func returnsGoTo(v ssa.Value, depth int) bool {
	if depth > 5 {
		return false
	}
	switch x := v.(type) {
	case *ssa.MakeInterface:
		return isGoToPtr(x.X.Type())
	case *ssa.Phi:
		for _, e := range x.Edges {
			if returnsGoTo(e, depth+1) {
				return true
			}
		}
	case *ssa.UnOp:
		if x.Op == token.MUL {
			if al, ok := x.X.(*ssa.Alloc); ok {
				for _, rf := range *al.Referrers() {
					if st, ok := rf.(*ssa.Store); ok && st.Addr == al && returnsGoTo(st.Val, depth+1) {
						return true
					}
				}
			}
		}
	}
	return false
}

// canLeaveLoop: from block b some path leaves the loop without passing its header.
func canLeaveLoop(b *ssa.BasicBlock, l *core.Loop) bool {
	seen := map[*ssa.BasicBlock]bool{}
	stack := []*ssa.BasicBlock{b}
	for len(stack) > 0 {
		x := stack[len(stack)-1]
		stack = stack[:len(stack)-1]
		if !l.Blocks[x] {
			return true
		}
		if seen[x] || x == l.Header {
			continue
		}
		seen[x] = true
		stack = append(stack, x.Succs...)
	}
	return false
}
