package rules

import (
	"fmt"
	"sort"

	"golang.org/x/tools/go/ssa"

	"slipcheck/core"
)

// c11combwrite: a Combination (the before/primary/after/wrap daemons one flavor or class contributes to a
// method) is shared: the method tables of every inheriting flavor point at the same object. Package flavors
// therefore never assigns a field of an existing Combination; it builds new ones and lets Flavor.DefMethod
// place them, which tests the owner (From). Assigning in place ("the inheriting flavors share the combination,
// no update needed") overwrites the daemon of a component when the flavor has no combination of its own. The
// rule is a layering check: stores into the daemon fields of a slip.Combination occur only in package slip and
// in pkg/generic, whose combinations are keyed by specializer and not shared between classes.
func c11combwrite(c *core.Ctx, r *core.Reporter) {
	const rule = "C11.combwrite"
	r.Rule(rule, "the daemon fields of an existing method combination are assigned only by the generic-function method table (pkg/generic) and package slip: the flavors package, whose combinations are shared with inheriting flavors, builds new ones", 3)
	type site struct {
		key, pos string
		ok       bool
	}
	var sites []site
	for _, fn := range c.ModuleFuncs() {
		if fn.Blocks == nil || fn.Pkg == nil || takesTestingT(fn) {
			continue
		}
		n := 0
		for _, b := range fn.Blocks {
			for _, in := range b.Instrs {
				st, ok := in.(*ssa.Store)
				if !ok {
					continue
				}
				fa, ok := st.Addr.(*ssa.FieldAddr)
				if !ok {
					continue
				}
				owner, field := fieldOwnerName(fa)
				if owner != "Combination" {
					continue
				}
				switch field {
				case "Wrap", "Before", "Primary", "After":
				default:
					continue
				}
				// a combination allocated in this function is private until it is published
				if _, fresh := fa.X.(*ssa.Alloc); fresh {
					continue
				}
				n++
				if n > 1 {
					continue // one obligation per function
				}
				rel := core.RelPkg(fn.Pkg.Pkg.Path())
				sites = append(sites, site{core.SSAName(fn), c.Pos(st.Pos()), rel == "slip" || rel == "pkg/generic"})
			}
		}
	}
	sort.Slice(sites, func(i, j int) bool { return sites[i].key < sites[j].key })
	for _, s := range sites {
		r.Decide(s.ok, rule, s.key, s.pos, "assigns a daemon field of an existing Combination; allowed in this package: "+boolStr(s.ok))
	}
}

// pkgNoState: the Call of every built-in registered from the given packages stores nothing into its own
// function object (same decision procedure as C08.nostate, run under the property whose behaviour it guards:
// a call site is one object shared by every evaluation - by every flavor that inherits the whopper it stands
// in, by every effective method that contains the :around method).
func pkgNoState(c *core.Ctx, r *core.Reporter, rule, text string, floor int, pkgs ...string) {
	r.Rule(rule, text, floor)
	want := map[string]bool{}
	for _, p := range pkgs {
		want[p] = true
	}
	for _, b := range c.Registry() {
		if b.Call == nil || b.Name == "" || b.Pkg == nil || !want[core.RelPkg(b.Pkg.PkgPath)] {
			continue
		}
		fn := c.SSAFunc(b.Call)
		if fn == nil || len(fn.Params) == 0 {
			continue
		}
		bad, _ := selfStores(fn)
		r.Decide(len(bad) == 0, rule, b.Key(), c.Pos(fn.Pos()), fmt.Sprintf("fields of the function object written during Call: %v", bad))
	}
}
