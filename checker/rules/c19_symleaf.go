package rules

import (
	"go/types"
	"sort"

	"golang.org/x/tools/go/ssa"

	"slipcheck/core"
)

// c19symleaf: package pp writes code (function bodies, definitions) for pretty-print, for load forms and for the
// snapshot. A symbol it writes must read back as the same symbol, so its text comes from Symbol.Readably, the
// function that decides about |bars|. The leaves for variable references, parameter names, call heads and the
// names of defun/defvar/defgeneric/defmethod were built from the bare name: (defun foo (|a b|) (|| |a b|)) was
// saved as (defun foo (a b) ( a b)) (repaired by 44337aa). The rule: in package pp no Symbol is converted to
// bytes, and no string converted from a Symbol is stored into a node, except inside a call of Readably.
func c19symleaf(c *core.Ctx, r *core.Reporter, rule string) {
	r.Rule(rule, "in the code writer (package pp) the text of a symbol comes from Symbol.Readably: no Symbol is converted to bytes and no string converted from a Symbol is stored into a node", 8)
	symT := c.LookupType("", "Symbol")
	readably := c.LookupFunc("", "Symbol.Readably")
	if symT == nil || readably == nil {
		r.Undecided(rule, "slip.Symbol / Symbol.Readably", "-", "anchor does not resolve")
		return
	}
	readablyFn := c.SSAFunc(readably)
	isSym := func(t types.Type) bool {
		nt, ok := types.Unalias(t).(*types.Named)
		return ok && nt.Obj() == symT.Obj()
	}
	var fns []*ssa.Function
	for _, fn := range c.ModuleFuncs() {
		if fn.Blocks != nil && fn.Pkg != nil && core.RelPkg(fn.Pkg.Pkg.Path()) == "pp" && !takesTestingT(fn) {
			fns = append(fns, fn)
		}
	}
	sort.Slice(fns, func(i, j int) bool { return core.SSAName(fns[i]) < core.SSAName(fns[j]) })
	for _, fn := range fns {
		bad, good := 0, 0
		pos := ""
		for _, b := range fn.Blocks {
			for _, in := range b.Instrs {
				switch x := in.(type) {
				case *ssa.Convert:
					if isSym(x.X.Type()) {
						if sl, ok := x.Type().Underlying().(*types.Slice); ok {
							if bt, ok := sl.Elem().Underlying().(*types.Basic); ok && bt.Kind() == types.Uint8 {
								bad++
								if pos == "" {
									pos = c.Pos(x.Pos())
								}
							}
						}
					}
				case *ssa.Store:
					if ct, ok := x.Val.(*ssa.ChangeType); ok && isSym(ct.X.Type()) {
						if _, toField := x.Addr.(*ssa.FieldAddr); toField {
							bad++
							if pos == "" {
								pos = c.Pos(x.Pos())
							}
						}
					}
				case *ssa.Call:
					if x.Call.StaticCallee() == readablyFn {
						good++
					}
				}
			}
		}
		if bad > 0 {
			r.Violate(rule, core.SSAName(fn), pos, "writes the bare name of a symbol into a node: a symbol that needs bars is saved unreadable")
		} else if good > 0 {
			r.Hold(rule, core.SSAName(fn), c.Pos(fn.Pos()), "symbols rendered through Symbol.Readably")
		}
	}
}
