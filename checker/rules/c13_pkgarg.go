package rules

import (
	"sort"

	"golang.org/x/tools/go/ssa"

	"slipcheck/core"
)

// c13pkgarg: a built-in that is told which package to look in (it resolves a package designator with
// FindPackage, or takes a *Package argument) must do its look-ups there. slip.FindFunc(name) without a package
// searches the current package: find-symbol used it for functions, so (find-symbol "F1" "PA") from
// common-lisp-user missed an exported function of PA (348cbd7). The rule: in a function of the built-in packages
// that calls slip.FindPackage, no call of FindFunc/MustFindFunc leaves the package argument out.
func c13pkgarg(c *core.Ctx, r *core.Reporter) {
	const rule = "C13.pkgarg"
	r.Rule(rule, "a built-in that resolves a package designator looks functions up in that package: where slip.FindPackage is called, no slip.FindFunc / MustFindFunc call omits the package argument (which would search the current package)", 5)
	fp := c.LookupFunc("", "FindPackage")
	ff := c.LookupFunc("", "FindFunc")
	mf := c.LookupFunc("", "MustFindFunc")
	if fp == nil || ff == nil {
		r.Undecided(rule, "slip.FindPackage / FindFunc", "-", "anchor does not resolve")
		return
	}
	fpFn, ffFn := c.SSAFunc(fp), c.SSAFunc(ff)
	var mfFn *ssa.Function
	if mf != nil {
		mfFn = c.SSAFunc(mf)
	}
	var fns []*ssa.Function
	for _, fn := range c.ModuleFuncs() {
		// the package functions of common-lisp (find-symbol, intern, export, do-symbols, ...): elsewhere a resolved
		// qualifier and a plain name are handled side by side (pp.resolveSymbol)
		if fn.Blocks != nil && fn.Pkg != nil && core.RelPkg(fn.Pkg.Pkg.Path()) == "pkg/cl" && !takesTestingT(fn) {
			fns = append(fns, fn)
		}
	}
	sort.Slice(fns, func(i, j int) bool { return core.SSAName(fns[i]) < core.SSAName(fns[j]) })
	for _, fn := range fns {
		resolves := false
		bad := ""
		for _, b := range fn.Blocks {
			for _, in := range b.Instrs {
				call, ok := in.(*ssa.Call)
				if !ok {
					continue
				}
				cal := call.Call.StaticCallee()
				switch {
				case cal == fpFn:
					resolves = true
				case cal == ffFn || (mfFn != nil && cal == mfFn):
					// the variadic packages argument is the last one: a nil slice constant means it was left out
					if n := len(call.Call.Args); n > 0 {
						if k, ok := call.Call.Args[n-1].(*ssa.Const); ok && k.IsNil() {
							bad = c.Pos(call.Pos())
						}
					}
				}
			}
		}
		if !resolves {
			continue
		}
		r.Decide(bad == "", rule, core.SSAName(fn), c.Pos(fn.Pos()), orOKs(map[bool]string{true: "", false: "resolves a package designator but looks a function up in the current package at " + bad}[bad == ""], "every function look-up names its package"))
	}
}
