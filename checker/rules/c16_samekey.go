package rules

import (
	"fmt"
	"go/token"
	"go/types"
	"sort"
	"strings"

	"golang.org/x/tools/go/ssa"

	"slipcheck/core"
)

// c16samekey: "a hash table behaves as a finite map under its test". The table is a Go map, so the functions
// that store, look up and remove must agree on the Go value an entry is filed under. If one of them passes the
// key through a canonicalising helper (storing 2.0 under the fixnum 2 because eql calls them the same) and
// another uses the key as given, an entry can be stored and never removed. The rule is a sibling cross-check:
// every map operation on a slip.HashTable in the built-in packages derives its key the same way - the argument
// as given, or the result of one and the same helper.
func c16samekey(c *core.Ctx, r *core.Reporter) {
	const rule = "C16.samekey"
	r.Rule(rule, "every store, lookup and removal on a hash table files the entry under a key derived the same way (the argument as given, or one common helper): the operations are siblings over one Go map", 5)
	htT := c.LookupType("", "HashTable")
	if htT == nil {
		r.Undecided(rule, "slip.HashTable", "-", "anchor does not resolve")
		return
	}
	isHT := func(t types.Type) bool {
		nt, ok := types.Unalias(t).(*types.Named)
		return ok && nt.Obj() == htT.Obj()
	}
	shape := func(k ssa.Value) string {
		for i := 0; i < 3; i++ {
			switch x := k.(type) {
			case *ssa.MakeInterface:
				k = x.X
				continue
			case *ssa.ChangeInterface:
				k = x.X
				continue
			case *ssa.Call:
				if f := x.Call.StaticCallee(); f != nil && f.Pkg != nil && core.InModule(f.Pkg.Pkg) {
					return "via " + f.Name()
				}
			}
			break
		}
		return "as given"
	}
	type site struct {
		fn    *ssa.Function
		pos   string
		op    string
		shape string
	}
	var sites []site
	for _, fn := range c.ModuleFuncs() {
		if fn.Blocks == nil || fn.Pkg == nil || takesTestingT(fn) {
			continue
		}
		rel := core.RelPkg(fn.Pkg.Pkg.Path())
		if rel != "pkg/cl" {
			continue // the Lisp-level operations; LoadForm, Simplify and coerce iterate or build whole tables
		}
		for _, b := range fn.Blocks {
			for _, in := range b.Instrs {
				switch x := in.(type) {
				case *ssa.Lookup:
					if isHT(x.X.Type()) {
						sites = append(sites, site{fn, c.Pos(x.Pos()), "lookup", shape(x.Index)})
					}
				case *ssa.MapUpdate:
					if isHT(x.Map.Type()) {
						sites = append(sites, site{fn, c.Pos(x.Pos()), "store", shape(x.Key)})
					}
				case *ssa.Call:
					if bi, ok := x.Call.Value.(*ssa.Builtin); ok && bi.Name() == "delete" && len(x.Call.Args) == 2 && isHT(x.Call.Args[0].Type()) {
						sites = append(sites, site{fn, c.Pos(x.Pos()), "delete", shape(x.Call.Args[1])})
					}
				}
			}
		}
	}
	count := map[string]int{}
	for _, s := range sites {
		count[s.shape]++
	}
	major, best := "", -1
	for sh, n := range count {
		if n > best || (n == best && sh < major) {
			major, best = sh, n
		}
	}
	sort.SliceStable(sites, func(i, j int) bool {
		if core.SSAName(sites[i].fn) != core.SSAName(sites[j].fn) {
			return core.SSAName(sites[i].fn) < core.SSAName(sites[j].fn)
		}
		return sites[i].pos < sites[j].pos
	})
	seen := map[string]int{}
	for _, s := range sites {
		key := fmt.Sprintf("%s|%s", core.SSAName(s.fn), s.op)
		seen[key]++
		if seen[key] > 1 {
			key = fmt.Sprintf("%s#%d", key, seen[key])
		}
		r.Decide(len(count) == 1 || s.shape == major, rule, key, s.pos, fmt.Sprintf("key %s; the %d sibling operations use: %v", s.shape, len(sites), count))
	}
}

// c16widen: the Equal methods of the number types are each one half of a relation (SingleFloat.Equal(DoubleFloat)
// and DoubleFloat.Equal(SingleFloat)); equal and equalp reach them for the elements of vectors and arrays. Two
// floats of different formats are compared in the wider format: an Equal method that narrows a double to a
// single before comparing calls 0.1d0 and 0.1s0 equal while its mirror, and the numeric =, do not (the relation
// stops being symmetric). Every conversion whose result is compared inside an Equal method of package slip is
// an instance; a float64 -> float32 narrowing is the violation.
func c16widen(c *core.Ctx, r *core.Reporter) {
	const rule = "C16.widen"
	r.Rule(rule, "no Equal method of the object types of package slip narrows a floating point operand (float64 to float32) before an == comparison: mixed-format floats are compared in the wider format, which both halves of the relation and the numeric = agree on", 10)
	kind := func(t types.Type) types.BasicKind {
		if b, ok := t.Underlying().(*types.Basic); ok {
			return b.Kind()
		}
		return types.Invalid
	}
	for _, fn := range c.ModuleFuncs() {
		if fn.Pkg == nil || fn.Pkg.Pkg.Path() != core.SlipPath || fn.Name() != "Equal" || fn.Signature.Recv() == nil {
			continue
		}
		n := 0
		for _, b := range fn.Blocks {
			for _, in := range b.Instrs {
				cv, ok := in.(*ssa.Convert)
				if !ok || cv.Referrers() == nil {
					continue
				}
				compared := false
				for _, rf := range *cv.Referrers() {
					if bo, ok := rf.(*ssa.BinOp); ok && (bo.Op == token.EQL || bo.Op == token.NEQ) {
						compared = true
					}
				}
				if !compared {
					continue
				}
				n++
				narrow := kind(cv.X.Type()) == types.Float64 && kind(cv.Type()) == types.Float32
				r.Decide(!narrow, rule, fmt.Sprintf("%s|compared conversion %d", core.SSAName(fn), n), c.Pos(cv.Pos()), fmt.Sprintf("%s -> %s compared with ==; narrows a double to a single: %v", cv.X.Type(), cv.Type(), narrow))
			}
		}
	}
}

// c16flavorprec: typep on a flavor instance reads Flavor.Precedence, subtypep and inheritance read
// Flavor.inherit; Precedence is computed from inherit. In a function that stores Precedence no write to inherit -
// a store, or a call of a function of the package that stores it (the :included-flavors pass) - is reachable after
// a Precedence store: the derived list is computed when its source is complete, or the two disagree and
// (typep x 'mid) is nil while (subtypep (type-of x) 'mid) is t.
func c16flavorprec(c *core.Ctx, r *core.Reporter) {
	const rule = "C16.flavorprec"
	r.Rule(rule, "in every function that stores a flavor's Precedence (what typep reads), no write to the flavor's inherit list (what subtypep and inheritance read), direct or through a function of the package that stores it, is reachable after a Precedence store", 1)
	isFlavorField := func(a ssa.Value, name string) bool {
		fa, ok := a.(*ssa.FieldAddr)
		return ok && fieldName(fa) == name && strings.HasSuffix(fa.X.Type().String(), "pkg/flavors.Flavor")
	}
	// functions that write inherit (transitively, static calls inside pkg/flavors, depth 2)
	writes := map[*ssa.Function]bool{}
	var fns []*ssa.Function
	for _, fn := range c.ModuleFuncs() {
		if fn.Pkg != nil && core.RelPkg(fn.Pkg.Pkg.Path()) == "pkg/flavors" && fn.Blocks != nil {
			fns = append(fns, fn)
		}
	}
	for round := 0; round < 3; round++ {
		for _, fn := range fns {
			if writes[fn] {
				continue
			}
			for _, b := range fn.Blocks {
				for _, in := range b.Instrs {
					if st, ok := in.(*ssa.Store); ok && isFlavorField(st.Addr, "inherit") {
						writes[fn] = true
					}
					if g := core.StaticCalleeOf(in); g != nil && writes[g] {
						writes[fn] = true
					}
				}
			}
		}
	}
	for _, fn := range fns {
		var precStores []ssa.Instruction
		for _, b := range fn.Blocks {
			for _, in := range b.Instrs {
				if st, ok := in.(*ssa.Store); ok && isFlavorField(st.Addr, "Precedence") {
					precStores = append(precStores, in)
				}
			}
		}
		if len(precStores) == 0 {
			continue
		}
		bad := ""
		for _, b := range fn.Blocks {
			for _, in := range b.Instrs {
				isW := false
				if st, ok := in.(*ssa.Store); ok && isFlavorField(st.Addr, "inherit") {
					isW = true
				}
				if g := core.StaticCalleeOf(in); g != nil && writes[g] && g != fn {
					isW = true
				}
				if !isW {
					continue
				}
				for _, ps := range precStores {
					if instrReaches(ps, in) {
						bad = c.Pos(in.Pos())
					}
				}
			}
		}
		r.Decide(bad == "", rule, core.SSAName(fn), c.Pos(precStores[0].Pos()), fmt.Sprintf("a write to inherit reachable after a Precedence store: %q", bad))
	}
}

// instrReaches: b can execute after a (same block later, or a's block reaches b's block).
func instrReaches(a, b ssa.Instruction) bool {
	if a.Block() == b.Block() {
		seen := false
		for _, in := range a.Block().Instrs {
			if in == a {
				seen = true
			} else if in == b && seen {
				return true
			}
		}
	}
	reach := map[*ssa.BasicBlock]bool{}
	stack := append([]*ssa.BasicBlock{}, a.Block().Succs...)
	for len(stack) > 0 {
		x := stack[len(stack)-1]
		stack = stack[:len(stack)-1]
		if reach[x] {
			continue
		}
		reach[x] = true
		stack = append(stack, x.Succs...)
	}
	return reach[b.Block()]
}
