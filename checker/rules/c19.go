package rules

import (
	"fmt"
	"go/token"
	"go/types"
	"sort"
	"strings"

	"golang.org/x/tools/go/ssa"

	"slipcheck/core"
	"slipcheck/lenflow"
)

func init() {
	register(&Prop{
		ID:        "C19",
		Technique: "call-graph reachability from the snapshot writer to an enumerator of every registry of definable things (enumerators found by role: functions that range over the registry storage); default-arm check of the LoadForm recursions; completeness of the FuncInfo update on redefinition",
		Explanation: "Decided statically: (C19.registries) the snapshot writer reaches, by static calls, a function that ranges over each registry of definable things - the package list, the variable, function and class tables of a package, and the flavor registry; a registry that is never enumerated cannot be saved; " +
			"(C19.total) every LoadForm method that descends into the elements of a container handles an element that offers no load form by raising print-not-readable instead of silently embedding or skipping it; (C19.funcdoc) a redefinition updates every field of the registered FuncInfo that its load form is built from. " +
			"Narrow: necessary conditions of 'a snapshot restores the same world'; equality of reloaded objects, the snapshot fixed point and pretty-printer layouts are not decided.",
		NotCovered: "equality of reloaded objects, snapshot fixed point, pp layouts being re-readable, the order of sections",
		Trusted:    commonTrusted,
		Run:        runC19,
	})
}

func runC19(c *core.Ctx, r *core.Reporter) {
	c.BuildSSA()
	c19registries(c, r)
	c19total(c, r)
	// the FuncInfo completeness rule is shared with C08.patch
	c19funcdoc(c, r)
	c19pinned(c, r)
	c19value(c, r)
	c19symleaf(c, r, "C19.symleaf")
	c19nilslot(c, r)
	c19nilinitform(c, r)
	c19quoted(c, r)
	c19callhead(c, r)
	c19callpkg(c, r)
	c19headidentity(c, r)
	c19snappkg(c, r)
	c19spectype(c, r)
	c19docescape(c, r)
	c19valueform(c, r)
}

// c19pinned: what is saved does not depend on how the session happens to print.
func c19pinned(c *core.Ctx, r *core.Reporter) {
	const rule = "C19.pinned"
	r.Rule(rule, "no function of the load-form writer (package pp) starts from the session's default printer (slip.DefaultPrinter(), which carries the global *print-base*, *print-prec*, *print-length* ... settings): saved text is written with pinned controls, so that a session that did (setq *print-base* 16) still saves 255 as 255", 50)
	dp := c.LookupFunc("", "DefaultPrinter")
	if dp == nil {
		r.Undecided(rule, "slip.DefaultPrinter", "-", "anchor does not resolve")
		return
	}
	dpFn := c.SSAFunc(dp)
	for _, fn := range c.ModuleFuncs() {
		if takesTestingT(fn) || fn.Pkg == nil || fn.Pkg.Pkg.Path() != core.SlipPath+"/pp" || fn.Synthetic != "" {
			continue
		}
		bad := ""
		for _, b := range fn.Blocks {
			for _, in := range b.Instrs {
				if call, ok := in.(*ssa.Call); ok && call.Call.StaticCallee() == dpFn {
					bad = c.Pos(call.Pos())
				}
			}
		}
		r.Decide(bad == "", rule, core.SSAName(fn), c.Pos(fn.Pos()), orOKs(bad, "does not read the default printer"))
	}
}

// storageOf classifies the value being ranged over as one of the registries.
func storageOf(v ssa.Value) string {
	u, ok := v.(*ssa.UnOp)
	if !ok || u.Op != token.MUL {
		// flavors.All() style: a call result is not storage
		return ""
	}
	switch a := u.X.(type) {
	case *ssa.FieldAddr:
		for _, f := range []string{"vars", "funcs", "classes"} {
			if isFieldOf(a, core.SlipPath, "Package", f) {
				return "Package." + f
			}
		}
	case *ssa.Global:
		if a.Pkg != nil {
			switch {
			case a.Pkg.Pkg.Path() == core.SlipPath && a.Name() == "packages":
				return "package list"
			case a.Pkg.Pkg.Path() == core.SlipPath+"/pkg/flavors" && a.Name() == "allFlavors":
				return "flavor registry"
			}
		}
	}
	return ""
}

func c19registries(c *core.Ctx, r *core.Reporter) {
	const rule = "C19.registries"
	r.Rule(rule, "from AppendSnapshot, static calls reach a function that ranges over each registry: the package list, Package.vars, Package.funcs, Package.classes and the flavor registry", 5)
	root := c.LookupFunc("pkg/gi", "AppendSnapshot")
	if root == nil {
		r.Undecided(rule, "pkg/gi.AppendSnapshot", "-", "anchor does not resolve")
		return
	}
	// enumerators by role
	enum := map[*ssa.Function]map[string]bool{}
	registries := map[string]bool{}
	for _, fn := range c.ModuleFuncs() {
		for _, b := range fn.Blocks {
			for _, in := range b.Instrs {
				var ranged ssa.Value
				switch x := in.(type) {
				case *ssa.Range:
					ranged = x.X
				case *ssa.IndexAddr:
					// slices are ranged with index loops
					if _, ok := x.X.Type().Underlying().(*types.Slice); ok {
						ranged = x.X
					}
				case *ssa.Call:
					// copy(dst, registry) / append(x, registry...) enumerate as well
					if bi, ok := x.Call.Value.(*ssa.Builtin); ok && (bi.Name() == "copy" || bi.Name() == "append") && len(x.Call.Args) == 2 {
						ranged = x.Call.Args[1]
					}
				}
				if ranged == nil {
					continue
				}
				if st := storageOf(ranged); st != "" {
					top := fn
					for top.Parent() != nil {
						top = top.Parent()
					}
					if enum[top] == nil {
						enum[top] = map[string]bool{}
					}
					enum[top][st] = true
					registries[st] = true
				}
			}
		}
	}
	// reachability
	reached := map[string][]string{}
	seen := map[*ssa.Function]bool{}
	var walk func(fn *ssa.Function, depth int)
	walk = func(fn *ssa.Function, depth int) {
		if fn == nil || seen[fn] || depth > 5 || fn.Blocks == nil {
			return
		}
		seen[fn] = true
		for st := range enum[fn] {
			reached[st] = append(reached[st], core.SSAName(fn))
		}
		var visit func(f *ssa.Function)
		visit = func(f *ssa.Function) {
			for _, b := range f.Blocks {
				for _, in := range b.Instrs {
					if call, ok := in.(*ssa.Call); ok {
						if g := call.Call.StaticCallee(); g != nil && g.Pkg != nil && core.InModule(g.Pkg.Pkg) {
							walk(g, depth+1)
						}
					}
				}
			}
			for _, af := range f.AnonFuncs {
				visit(af)
			}
		}
		visit(fn)
	}
	walk(c.SSAFunc(root), 0)
	want := []string{"package list", "Package.vars", "Package.funcs", "Package.classes", "flavor registry"}
	for _, st := range want {
		if !registries[st] {
			r.Undecided(rule, st, "-", "no function ranges over this registry any more (storage renamed or moved?)")
			continue
		}
		sort.Strings(reached[st])
		via := reached[st]
		if len(via) > 3 {
			via = via[:3]
		}
		r.Decide(len(reached[st]) > 0, rule, st, c.Pos(root.Pos()), fmt.Sprintf("enumerated from the snapshot writer through %v", via))
	}
}

func c19total(c *core.Ctx, r *core.Reporter) {
	const rule = "C19.total"
	r.Rule(rule, "in every LoadForm method, an element that is tested for the LoadFormer interface and fails the test (and is not nil) leads to a raise (print-not-readable): it is never embedded raw or skipped", 3)
	lf := lenflow.New(c)
	for _, fn := range c.ModuleFuncs() {
		// LoadForm methods and the helpers of the load form writers (dataLoadForm, InstanceLoadForm, ObjectLoadForm)
		if !strings.HasSuffix(fn.Name(), "LoadForm") {
			continue
		}
		n := 0
		for _, b := range fn.Blocks {
			for _, in := range b.Instrs {
				ta, ok := in.(*ssa.TypeAssert)
				if !ok || !ta.CommaOk || !core.IsNamed(ta.AssertedType, core.SlipPath, "LoadFormer") {
					continue
				}
				// only elements of a container (values of type slip.Object), not auxiliary data of another type
				if !core.IsNamed(ta.X.Type(), core.SlipPath, "Object") {
					continue
				}
				// the If using the ok result
				var ifi *ssa.If
				for _, rf := range *ta.Referrers() {
					if ex, ok := rf.(*ssa.Extract); ok && ex.Index == 1 {
						for _, r2 := range *ex.Referrers() {
							if x, ok := r2.(*ssa.If); ok {
								ifi = x
							}
						}
					}
				}
				if ifi == nil {
					continue
				}
				n++
				// follow the failure edge through further tests on the same value
				blk := ifi.Block().Succs[1]
				for i := 0; i < 6; i++ {
					nx, ok := blk.Instrs[len(blk.Instrs)-1].(*ssa.If)
					if !ok {
						break
					}
					// another type test of the same element?
					same := false
					for _, x := range blk.Instrs {
						if t2, ok := x.(*ssa.TypeAssert); ok && t2.X == ta.X {
							same = true
						}
					}
					if !same {
						break
					}
					_ = nx
					blk = blk.Succs[1]
				}
				raises := false
				for _, x := range blk.Instrs {
					switch y := x.(type) {
					case *ssa.Panic:
						raises = true
					case *ssa.Call:
						if g := y.Call.StaticCallee(); g != nil && lf.NoReturn(g) {
							raises = true
						}
					}
				}
				r.Decide(raises, rule, fmt.Sprintf("%s|element without load form", core.SSAName(fn)), c.Pos(ta.Pos()), fmt.Sprintf("the failure branch of the LoadFormer test raises: %v", raises))
			}
		}
		_ = n
	}
}

func c19funcdoc(c *core.Ctx, r *core.Reporter) {
	const rule = "C19.funcdoc"
	r.Rule(rule, "Package.DefLambda assigns, on every path of a (re)definition, each FuncInfo field that FuncInfo.LoadForm reads (Doc, Create, Kind, Pkg): a field kept from the first definition makes the saved definition differ from the running one", 3)
	fnObj := c.LookupFunc("", "Package.DefLambda")
	lfObj := c.LookupFunc("", "FuncInfo.LoadForm")
	if fnObj == nil || lfObj == nil {
		r.Undecided(rule, "slip.(Package).DefLambda", "-", "anchor does not resolve")
		return
	}
	// fields LoadForm reads (directly)
	reads := map[string]bool{}
	lfn := c.SSAFunc(lfObj)
	for _, b := range lfn.Blocks {
		for _, in := range b.Instrs {
			if fa, ok := in.(*ssa.FieldAddr); ok && core.IsNamed(fa.X.Type(), core.SlipPath, "FuncInfo") {
				reads[fieldName(fa)] = true
			}
		}
	}
	fn := c.SSAFunc(fnObj)
	blocks := map[string]map[*ssa.BasicBlock]bool{}
	for _, b := range fn.Blocks {
		for _, in := range b.Instrs {
			st, ok := in.(*ssa.Store)
			if !ok {
				continue
			}
			fa, ok := st.Addr.(*ssa.FieldAddr)
			if !ok || !core.IsNamed(fa.X.Type(), core.SlipPath, "FuncInfo") {
				continue
			}
			f := fieldName(fa)
			if blocks[f] == nil {
				blocks[f] = map[*ssa.BasicBlock]bool{}
			}
			blocks[f][b] = true
		}
	}
	var fs []string
	for f := range reads {
		fs = append(fs, f)
	}
	sort.Strings(fs)
	for _, f := range fs {
		if f == "Name" || f == "Export" || len(blocks[f]) == 0 {
			continue // the key, the sticky export flag, and fields a defun/defmacro never sets (Aux belongs to generic functions)
		}
		seen := map[*ssa.BasicBlock]bool{}
		stack := []*ssa.BasicBlock{fn.Blocks[0]}
		escaped := false
		for len(stack) > 0 && !escaped {
			b := stack[len(stack)-1]
			stack = stack[:len(stack)-1]
			if seen[b] || blocks[f][b] {
				continue
			}
			seen[b] = true
			if _, ok := b.Instrs[len(b.Instrs)-1].(*ssa.Return); ok {
				escaped = true
			}
			stack = append(stack, b.Succs...)
		}
		r.Decide(!escaped, rule, "slip.(Package).DefLambda|FuncInfo."+f, c.Pos(fn.Pos()), fmt.Sprintf("FuncInfo.%s (read by FuncInfo.LoadForm) is assigned on every path of a (re)definition: %v", f, !escaped))
	}
}
