package rules

import (
	"fmt"
	"go/ast"
	"go/constant"
	"go/token"
	"go/types"
	"sort"
	"strings"

	"golang.org/x/tools/go/ssa"

	"slipcheck/core"
	"slipcheck/lenflow"
)

func init() {
	register(&Prop{
		ID:        "C15",
		Technique: "constant extraction (directive dispatch labels, scan table, numeral tables reachable from the ~R handler) + must-guard analysis of the argument cursor + who-calls check of the renderer",
		Explanation: "Decided statically: (C15.dispatch) the directive dispatcher has a case for every directive and prefix-parameter character the property names, in both letter cases, and the parameter scanner's stop table marks every dispatched directive; " +
			"(C15.tables) the English numeral and Roman tables used by ~R equal reference tables; (C15.args) every read of the argument list at the argument cursor is guarded by a comparison of the cursor with the list length on every path; " +
			"(C15.dest) output to nil, t and a stream goes through the same renderer. Necessary conditions only: padding, grouping and the composition of number words are not decided.",
		NotCovered: "padding/grouping arithmetic, ~R composition, float directives, ~A/~S agreement with princ/prin1 beyond sharing the printer",
		Trusted:    commonTrusted,
		Run:        runC15,
	})
}

func runC15(c *core.Ctx, r *core.Reporter) {
	c.BuildSSA()
	c15dispatch(c, r)
	c15tables(c, r)
	c15args(c, r)
	c15dest(c, r)
	c15force(c, r)
	c15escape(c, r)
	c15params(c, r)
	c15via(c, r)
	c15cursor(c, r)
	c15zeroword(c, r)
	// ~A and ~S agree with princ and prin1 under any *print-base*: the printers' digit conversions
	c03baseAs(c, r, "C15.base")
	runUnits(c, r, "C15.units", 1000,
		"characters are not bytes: in every function of the module a value that counts characters (utf8.RuneCount*, len([]rune(s)), a module function returning one, e.g. String.Length) is never an index or slice bound of a string or []byte and is never stored into a struct field that holds byte offsets (fields that receive len(bytes) or index bytes, such as the format interpreter's control.end and control.pos, found by use)",
		func(fn *ssa.Function) bool { return fn.Pkg != nil })
}

// c15force: a printing function that forces a printer control (princ and ~A force escape off, prin1 and ~S force
// it on, ...) works on a private copy of the printer, refreshes the copy from the dynamic bindings (ScopedUpdate)
// and then assigns the forced value. If the refresh runs after the assignment a binding of *print-escape* wins
// and princ no longer agrees with ~A.
func c15force(c *core.Ctx, r *core.Reporter) {
	const rule = "C15.force"
	r.Rule(rule, "in every function of pkg/cl (the printing built-ins and the format engine) that assigns a constant to a control field of a private Printer copy and refreshes that copy from the dynamic bindings (Printer.ScopedUpdate), no refresh is reachable after such an assignment: the forced setting (princ/~A: escape off; prin1/~S: escape on) must win over a binding of the corresponding *print-...* variable", 8)
	su := c.LookupFunc("", "Printer.ScopedUpdate")
	if su == nil {
		r.Undecided(rule, "slip.(Printer).ScopedUpdate", "-", "anchor does not resolve")
		return
	}
	suFn := c.SSAFunc(su)
	for _, fn := range c.ModuleFuncs() {
		// the printing built-ins and the format engine; other packages (the load-form writer pp) start from
		// defaults that scoped bindings are meant to override
		if takesTestingT(fn) || fn.Blocks == nil || fn.Pkg == nil || fn.Pkg.Pkg.Path() != clPath {
			continue
		}
		type ev struct {
			b   *ssa.BasicBlock
			idx int
			pos token.Pos
			fld string
		}
		stores := map[ssa.Value][]ev{}
		refresh := map[ssa.Value][]ev{}
		for _, b := range fn.Blocks {
			for i, in := range b.Instrs {
				switch x := in.(type) {
				case *ssa.Store:
					fa, ok := x.Addr.(*ssa.FieldAddr)
					if !ok || !isPrinterPtr(fa.X.Type()) {
						continue
					}
					if _, isConst := x.Val.(*ssa.Const); !isConst {
						continue
					}
					stores[fa.X] = append(stores[fa.X], ev{b, i, x.Pos(), fieldName(fa)})
				case *ssa.Call:
					if x.Call.StaticCallee() == suFn && len(x.Call.Args) > 0 {
						refresh[x.Call.Args[0]] = append(refresh[x.Call.Args[0]], ev{b, i, x.Pos(), ""})
					}
				}
			}
		}
		for pv, sts := range stores {
			rf := refresh[pv]
			if len(rf) == 0 {
				continue
			}
			var late []string
			for _, st := range sts {
				after := core.ReachableBlocks(st.b, nil)
				for _, cl := range rf {
					isAfter := false
					if cl.b == st.b {
						isAfter = cl.idx > st.idx || loopsBack(st.b)
					} else {
						isAfter = after[cl.b]
					}
					if isAfter {
						late = append(late, fmt.Sprintf("%s assigned at %s, refreshed at %s", st.fld, c.Pos(st.pos), c.Pos(cl.pos)))
					}
				}
			}
			sort.Strings(late)
			r.Decide(len(late) == 0, rule, core.SSAName(fn), c.Pos(sts[0].pos), orOKs(strings.Join(late, "; "), fmt.Sprintf("%d forced controls, all assigned after the refresh", len(sts))))
		}
	}
}

func isPrinterPtr(t types.Type) bool {
	pt, ok := t.Underlying().(*types.Pointer)
	return ok && core.IsNamed(pt.Elem(), core.SlipPath, "Printer")
}

// switchLabels collects byte constants compared (==) with one SSA value that
// is an element of a string/byte slice; returns the labels of the value with
// the most comparisons.
func switchLabels(fn *ssa.Function) map[byte]bool {
	per := map[ssa.Value]map[byte]bool{}
	for _, b := range fn.Blocks {
		for _, in := range b.Instrs {
			bo, ok := in.(*ssa.BinOp)
			if !ok || bo.Op != token.EQL {
				continue
			}
			var v ssa.Value
			var k *ssa.Const
			if kk, ok := bo.Y.(*ssa.Const); ok {
				v, k = bo.X, kk
			} else if kk, ok := bo.X.(*ssa.Const); ok {
				v, k = bo.Y, kk
			}
			if k == nil || k.Value == nil || k.Value.Kind() != constant.Int {
				continue
			}
			bt, ok := v.Type().Underlying().(*types.Basic)
			if !ok || bt.Kind() != types.Uint8 {
				continue
			}
			n, _ := constant.Int64Val(k.Value)
			if per[v] == nil {
				per[v] = map[byte]bool{}
			}
			per[v][byte(n)] = true
		}
	}
	var best map[byte]bool
	for _, m := range per {
		if len(m) > len(best) {
			best = m
		}
	}
	return best
}

func c15dispatch(c *core.Ctx, r *core.Reporter) {
	const rule = "C15.dispatch"
	r.Rule(rule, "the directive dispatcher (control.readDir) has a case for every directive and prefix-parameter character named by the property; every letter it dispatches is dispatched in both cases; the parameter scanner's stop table marks every dispatched non-parameter character", 40)
	fnObj := c.LookupFunc("pkg/cl", "control.readDir")
	if fnObj == nil {
		r.Undecided(rule, "pkg/cl.(control).readDir", "-", "anchor does not resolve")
		return
	}
	fn := c.SSAFunc(fnObj)
	labels := switchLabels(fn)
	if len(labels) < 20 {
		r.Undecided(rule, "pkg/cl.(control).readDir|switch", c.Pos(fn.Pos()), "directive switch not recognised")
		return
	}
	pos := c.Pos(fn.Pos())
	required := "ASDBOXRCTP" + "asdboxrctp" + "%&~*?([{|^<\n" + "vV#',:@" + "-0123456789"
	for i := 0; i < len(required); i++ {
		ch := required[i]
		r.Decide(labels[ch], rule, "required "+quoteByte(ch), pos, fmt.Sprintf("the dispatcher has a case for %s: %v", quoteByte(ch), labels[ch]))
	}
	var ls []int
	for l := range labels {
		ls = append(ls, int(l))
	}
	sort.Ints(ls)
	for _, li := range ls {
		l := byte(li)
		var other byte
		switch {
		case l >= 'a' && l <= 'z':
			other = l - 32
		case l >= 'A' && l <= 'Z':
			other = l + 32
		default:
			continue
		}
		if strings.IndexByte(required, l) >= 0 && strings.IndexByte(required, other) >= 0 {
			continue // already an obligation above
		}
		r.Decide(labels[other], rule, "both cases "+quoteByte(l), pos, fmt.Sprintf("%s is dispatched; %s is dispatched: %v", quoteByte(l), quoteByte(other), labels[other]))
	}
	// the stop table of the parameter scanner
	rp := c.LookupFunc("pkg/cl", "control.readParam")
	if rp == nil {
		r.Undecided(rule, "pkg/cl.(control).readParam", "-", "anchor does not resolve")
		return
	}
	tabs := constIndexTables(c.SSAFunc(rp))
	if len(tabs) != 1 {
		r.Undecided(rule, "pkg/cl.(control).readParam|table", c.Pos(rp.Pos()), fmt.Sprintf("expected one stop table, found %d", len(tabs)))
		return
	}
	for t, k := range tabs {
		params := "vV#'-0123456789"
		for _, li := range ls {
			l := byte(li)
			if strings.IndexByte(params, l) >= 0 {
				continue
			}
			r.Decide(t[l] == k, rule, "stop table marks "+quoteByte(l), c.Pos(rp.Pos()), fmt.Sprintf("a numeric or quoted prefix parameter ends at the dispatched character %s: %v", quoteByte(l), t[l] == k))
		}
	}
}

var refNumerals = map[string][]string{
	"cardinal ones":  {"", "one", "two", "three", "four", "five", "six", "seven", "eight", "nine"},
	"cardinal teens": {"ten", "eleven", "twelve", "thirteen", "fourteen", "fifteen", "sixteen", "seventeen", "eighteen", "nineteen"},
	"cardinal tens":  {"twenty", "thirty", "forty", "fifty", "sixty", "seventy", "eighty", "ninety"},
	"ordinal ones":   {"", "first", "second", "third", "fourth", "fifth", "sixth", "seventh", "eighth", "ninth"},
	"ordinal teens":  {"tenth", "eleventh", "twelfth", "thirteenth", "fourteenth", "fifteenth", "sixteenth", "seventeenth", "eighteenth", "nineteenth"},
	"powers of a thousand": {"", "thousand", "million", "billion", "trillion", "quadrillion", "quintillion", "sextillion", "septillion", "octillion", "nonillion",
		"decillion", "undecillion", "duodecillion", "tredecillion", "quattuordecillion", "quindecillion", "sexdecillion", "septendecillion", "octodecillion", "novemdecillion", "vigintillion"},
	"roman units":        {"", "I", "II", "III", "IV", "V", "VI", "VII", "VIII", "IX"},
	"roman tens":         {"", "X", "XX", "XXX", "XL", "L", "LX", "LXX", "LXXX", "XC"},
	"roman hundreds":     {"", "C", "CC", "CCC", "CD", "D", "DC", "DCC", "DCCC", "CM"},
	"roman thousands":    {"", "M", "MM", "MMM"},
	"old roman units":    {"", "I", "II", "III", "IIII", "V", "VI", "VII", "VIII", "VIIII"},
	"old roman tens":     {"", "X", "XX", "XXX", "XXXX", "L", "LX", "LXX", "LXXX", "LXXXX"},
	"old roman hundreds": {"", "C", "CC", "CCC", "CCCC", "D", "DC", "DCC", "DCCC", "DCCCC"},
}

// stringRows flattens a (possibly nested) composite literal of string constants into rows.
func stringRows(e ast.Expr, info *types.Info) [][]string {
	cl, ok := ast.Unparen(e).(*ast.CompositeLit)
	if !ok {
		return nil
	}
	var row []string
	var rows [][]string
	for _, el := range cl.Elts {
		if kv, ok := el.(*ast.KeyValueExpr); ok {
			el = kv.Value
		}
		if s, ok := core.ConstString(info, el); ok {
			row = append(row, s)
			continue
		}
		rows = append(rows, stringRows(el, info)...)
	}
	if len(row) > 0 {
		rows = append(rows, row)
	}
	return rows
}

func classifyRow(row []string) string {
	// by role: the second (or first non-empty) entry identifies the table
	probe := ""
	for _, s := range row {
		if s != "" {
			probe = s
			break
		}
	}
	third := ""
	n := 0
	for _, s := range row {
		if s != "" {
			n++
			if n == 4 {
				third = s
			}
		}
	}
	switch probe {
	case "one":
		return "cardinal ones"
	case "ten":
		return "cardinal teens"
	case "twenty":
		return "cardinal tens"
	case "first":
		return "ordinal ones"
	case "tenth":
		return "ordinal teens"
	case "thousand":
		return "powers of a thousand"
	case "I":
		if third == "IIII" {
			return "old roman units"
		}
		return "roman units"
	case "X":
		if third == "XXXX" {
			return "old roman tens"
		}
		return "roman tens"
	case "C":
		if third == "CCCC" {
			return "old roman hundreds"
		}
		return "roman hundreds"
	case "M":
		return "roman thousands"
	}
	return ""
}

func c15tables(c *core.Ctx, r *core.Reporter) {
	const rule = "C15.tables"
	r.Rule(rule, "every table of string constants read by the ~R handler (cardinal/ordinal ones, teens, tens, powers of a thousand, Roman numerals old and new) equals the reference table embedded in the checker, entry by entry", 12)
	fnObj := c.LookupFunc("pkg/cl", "control.dirR")
	if fnObj == nil {
		r.Undecided(rule, "pkg/cl.(control).dirR", "-", "anchor does not resolve")
		return
	}
	// globals loaded in dirR and its same-package static callees
	seenFn := map[*ssa.Function]bool{}
	globals := map[*ssa.Global]bool{}
	var walk func(fn *ssa.Function, depth int)
	walk = func(fn *ssa.Function, depth int) {
		if fn == nil || seenFn[fn] || depth > 3 || fn.Blocks == nil {
			return
		}
		seenFn[fn] = true
		for _, b := range fn.Blocks {
			for _, in := range b.Instrs {
				var rands [8]*ssa.Value
				for _, op := range in.Operands(rands[:0]) {
					if g, ok := (*op).(*ssa.Global); ok && g.Pkg == fn.Pkg {
						globals[g] = true
					}
				}
				if call, ok := in.(*ssa.Call); ok {
					if g := call.Call.StaticCallee(); g != nil && g.Pkg == fn.Pkg {
						walk(g, depth+1)
					}
				}
			}
		}
	}
	walk(c.SSAFunc(fnObj), 0)
	found := map[string]bool{}
	var gs []*ssa.Global
	for g := range globals {
		gs = append(gs, g)
	}
	sort.Slice(gs, func(i, j int) bool { return gs[i].Name() < gs[j].Name() })
	for _, g := range gs {
		e, info := globalInit(c, g.Object())
		if e == nil {
			continue
		}
		for _, row := range stringRows(e, info) {
			kind := classifyRow(row)
			if kind == "" {
				continue
			}
			found[kind] = true
			ref := refNumerals[kind]
			// trailing empty padding of fixed-size arrays is allowed
			trimmed := row
			for len(trimmed) > len(ref) && trimmed[len(trimmed)-1] == "" {
				trimmed = trimmed[:len(trimmed)-1]
			}
			bad := ""
			if len(trimmed) != len(ref) {
				bad = fmt.Sprintf("has %d entries, reference has %d", len(trimmed), len(ref))
			} else {
				for i := range ref {
					if trimmed[i] != ref[i] {
						bad = fmt.Sprintf("entry %d is %q, reference %q", i, trimmed[i], ref[i])
						break
					}
				}
			}
			r.Decide(bad == "", rule, kind, c.Pos(g.Pos()), "table "+g.Name()+" "+orOKs(bad, "equals the reference"))
		}
	}
	var kinds []string
	for k := range refNumerals {
		kinds = append(kinds, k)
	}
	sort.Strings(kinds)
	for _, k := range kinds {
		if !found[k] {
			r.Undecided(rule, k, c.Pos(fnObj.Pos()), "no table with this role is read by the ~R handler (moved or computed?)")
		}
	}
}

func orOKs(bad, ok string) string {
	if bad == "" {
		return ok
	}
	return bad
}

func c15args(c *core.Ctx, r *core.Reporter) { c15argsAs(c, r, "C15.args") }

func c15argsAs(c *core.Ctx, r *core.Reporter, rule string) {
	r.Rule(rule, "every read c.args[c.argPos] in the format engine is reached only through a branch that compares the cursor with the length of the argument list (cursor < len) on every path; 0 <= cursor alone does not protect against a missing argument", 12)
	an := lenflow.New(c)
	// methods of control that return only when the cursor is below the length (needArg): every path to a
	// return crosses a cursor < len edge
	ensures := map[*ssa.Function]bool{}
	for _, fn := range c.ModuleFuncs() {
		if fn.Blocks == nil || fn.Signature.Recv() == nil || !core.IsNamed(fn.Signature.Recv().Type(), core.SlipPath+"/pkg/cl", "control") || len(fn.Params) != 1 {
			continue
		}
		all, any := true, false
		for _, b := range fn.Blocks {
			if _, isRet := b.Instrs[len(b.Instrs)-1].(*ssa.Return); !isRet {
				continue
			}
			any = true
			if !core.Separates(fn, b, an.NoReturn, func(ifi *ssa.If, branch bool) bool {
				return upperGuard(core.EdgeFact{If: ifi, Branch: branch})
			}) {
				all = false
			}
		}
		if any && all {
			ensures[fn] = true
		}
	}
	r.Count("cursor_ensuring_helpers", len(ensures))
	for _, fn := range c.ModuleFuncs() {
		if fn.Signature.Recv() == nil || !core.IsNamed(fn.Signature.Recv().Type(), core.SlipPath+"/pkg/cl", "control") {
			continue
		}
		var g *core.Guards
		for _, b := range fn.Blocks {
			for _, in := range b.Instrs {
				ia, ok := in.(*ssa.IndexAddr)
				if !ok || !loadsField(ia.X, core.SlipPath+"/pkg/cl", "control", "args") || !loadsField(ia.Index, core.SlipPath+"/pkg/cl", "control", "argPos") {
					continue
				}
				if g == nil {
					g = core.ComputeGuards(fn, an.NoReturn)
				}
				guarded := false
				for f := range g.Facts(b) {
					if upperGuard(f) {
						guarded = true
					}
				}
				// or a call of a cursor-ensuring helper earlier in this block, or in a block that dominates it,
				// with no change of the cursor in between (the helper is called right before the read)
				if !guarded {
					for _, bb := range fn.Blocks {
						if bb != b && !bb.Dominates(b) {
							continue
						}
						for _, in2 := range bb.Instrs {
							if bb == b && in2 == in {
								break
							}
							if call, ok := in2.(*ssa.Call); ok && ensures[call.Call.StaticCallee()] {
								guarded = true
							}
							if st, ok := in2.(*ssa.Store); ok && guarded {
								if fa, ok := st.Addr.(*ssa.FieldAddr); ok {
									if _, f := fieldOwnerNameAny(fa); f == "argPos" {
										guarded = false // the cursor moved after the helper ran
									}
								}
							}
						}
					}
				}
				key := core.SSAName(fn) + "|args[argPos]"
				r.Decide(guarded, rule, key, c.Pos(in.Pos()), fmt.Sprintf("cursor compared with len(c.args) on every path to the read: %v", guarded))
			}
		}
	}
}

// upperGuard: the fact implies c.argPos < len(c.args).
func upperGuard(f core.EdgeFact) bool {
	bo, ok := f.If.Cond.(*ssa.BinOp)
	if !ok {
		return false
	}
	isPos := func(v ssa.Value) bool { return loadsField(v, core.SlipPath+"/pkg/cl", "control", "argPos") }
	isLen := func(v ssa.Value) bool {
		call, ok := v.(*ssa.Call)
		if !ok {
			return false
		}
		bi, ok := call.Call.Value.(*ssa.Builtin)
		return ok && bi.Name() == "len" && loadsField(call.Call.Args[0], core.SlipPath+"/pkg/cl", "control", "args")
	}
	op := bo.Op
	var posLeft bool
	switch {
	case isPos(bo.X) && isLen(bo.Y):
		posLeft = true
	case isLen(bo.X) && isPos(bo.Y):
		posLeft = false
	default:
		return false
	}
	if !posLeft {
		switch op {
		case token.LSS:
			op = token.GTR
		case token.GTR:
			op = token.LSS
		case token.LEQ:
			op = token.GEQ
		case token.GEQ:
			op = token.LEQ
		}
	}
	// now: argPos op len
	if f.Branch {
		return op == token.LSS
	}
	return op == token.GEQ
}

func c15dest(c *core.Ctx, r *core.Reporter) {
	const rule = "C15.dest"
	r.Rule(rule, "the format built-in renders through exactly one renderer: every call of (*control).process that is reachable from Format.Call goes through one function (FormatArgs), so nil, t and stream destinations differ only in the sink", 1)
	b := c.ByName("pkg/cl", "format")
	if b == nil || b.Call == nil {
		r.Undecided(rule, "pkg/cl:format", "-", "format built-in not found in the registry")
		return
	}
	call := c.SSAFunc(b.Call)
	// static callees of Format.Call (depth 3) that construct a control value
	makers := map[string]bool{}
	seen := map[*ssa.Function]bool{}
	var walk func(fn *ssa.Function, depth int)
	walk = func(fn *ssa.Function, depth int) {
		if fn == nil || seen[fn] || depth > 4 || fn.Blocks == nil {
			return
		}
		seen[fn] = true
		for _, bb := range fn.Blocks {
			for _, in := range bb.Instrs {
				if al, ok := in.(*ssa.Alloc); ok && core.IsNamed(al.Type(), core.SlipPath+"/pkg/cl", "control") {
					makers[core.SSAName(fn)] = true
				}
				if cl, ok := in.(*ssa.Call); ok {
					if g := cl.Call.StaticCallee(); g != nil && g.Pkg == call.Pkg && !(g.Signature.Recv() != nil && core.IsNamed(g.Signature.Recv().Type(), core.SlipPath+"/pkg/cl", "control")) {
						walk(g, depth+1)
					}
				}
			}
		}
	}
	walk(call, 0)
	ms := keys(makers)
	r.Decide(len(ms) == 1, rule, "pkg/cl:format|renderer", c.Pos(call.Pos()), fmt.Sprintf("functions reachable from Format.Call that build a format engine: %v", ms))
}

// c15escape: ~^ ends the enclosing ~{ ~} or ~< ~> only "if there are no more arguments" (with no prefix
// parameters). Structurally: wherever the directive interpreter sets control.stop, the store is
// control-dependent on a test that reads the argument position or the argument list. On the pinned tree the
// dispatch arm for '^' sets stop unconditionally: (format nil "~{~a~^, ~}" '(1 2 3)) => "1, ".
func c15escape(c *core.Ctx, r *core.Reporter) {
	const rule = "C15.escape"
	r.Rule(rule, "every store of true into control.stop (the ~^ escape) is control-dependent on a test of the remaining arguments (control.argPos / control.args)", 1)
	an := lenflow.New(c)
	for _, fn := range c.ModuleFuncs() {
		if fn.Pkg == nil || core.RelPkg(fn.Pkg.Pkg.Path()) != "pkg/cl" || fn.Signature.Recv() == nil {
			continue
		}
		for _, b := range fn.Blocks {
			for _, in := range b.Instrs {
				st, ok := in.(*ssa.Store)
				if !ok {
					continue
				}
				fa, ok := st.Addr.(*ssa.FieldAddr)
				if !ok || fieldName(fa) != "stop" {
					continue
				}
				if pt, ok := fa.X.Type().Underlying().(*types.Pointer); !ok || !strings.HasSuffix(pt.Elem().String(), "cl.control") {
					continue
				}
				if cst, ok := st.Val.(*ssa.Const); !ok || cst.Value == nil || cst.Value.String() != "true" {
					continue
				}
				guarded := core.Separates(fn, b, an.NoReturn, func(ifi *ssa.If, branch bool) bool {
					return condReadsFieldDeep(ifi.Cond, "argPos", 0) || condReadsFieldDeep(ifi.Cond, "args", 0)
				})
				r.Decide(guarded, rule, core.SSAName(fn)+"|stop set", c.Pos(st.Pos()), fmt.Sprintf("the escape is taken only under a test of the remaining arguments: %v", guarded))
			}
		}
	}
}

// condReadsFieldDeep: like condReadsAnyField, also through len(...) and conversions.
func condReadsFieldDeep(v ssa.Value, field string, depth int) bool {
	if depth > 5 || v == nil {
		return false
	}
	switch x := v.(type) {
	case *ssa.BinOp:
		return condReadsFieldDeep(x.X, field, depth+1) || condReadsFieldDeep(x.Y, field, depth+1)
	case *ssa.UnOp:
		if fa, ok := x.X.(*ssa.FieldAddr); ok && fieldName(fa) == field {
			return true
		}
		return condReadsFieldDeep(x.X, field, depth+1)
	case *ssa.Call:
		if bi, ok := x.Call.Value.(*ssa.Builtin); ok && bi.Name() == "len" {
			return condReadsFieldDeep(x.Call.Args[0], field, depth+1)
		}
	case *ssa.Convert:
		return condReadsFieldDeep(x.X, field, depth+1)
	}
	return false
}

// c15params: the directives below take prefix parameters in the language definition. A directive function that
// never reads its params argument renders the same text whatever parameters were written: before 29eb5d4 ~R
// ignored them and (format nil "~16r" 255) gave "two hundred fifty five".
func c15params(c *core.Ctx, r *core.Reporter) {
	const rule = "C15.params"
	r.Rule(rule, "every directive function of a directive that takes prefix parameters reads its params argument", 15)
	takes := map[string]bool{"dirA": true, "dirS": true, "dirD": true, "dirB": true, "dirO": true, "dirX": true, "dirR": true,
		"dirF": true, "dirE": true, "dirG": true, "dirMoney": true, "dirPercent": true, "dirAmp": true, "dirPage": true,
		"dirTilde": true, "dirT": true, "dirMove": true, "dirCond": true, "dirIter": true, "dirJustify": true, "dirInt": true}
	for _, fn := range c.ModuleFuncs() {
		if fn.Pkg == nil || core.RelPkg(fn.Pkg.Pkg.Path()) != "pkg/cl" || fn.Signature.Recv() == nil || !takes[fn.Name()] {
			continue
		}
		if pt, ok := fn.Signature.Recv().Type().Underlying().(*types.Pointer); !ok || !strings.HasSuffix(pt.Elem().String(), "cl.control") {
			continue
		}
		var params *ssa.Parameter
		for _, p := range fn.Params {
			if p.Name() == "params" {
				params = p
			}
		}
		if params == nil {
			continue
		}
		used := params.Referrers() != nil && len(*params.Referrers()) > 0
		r.Decide(used, rule, core.SSAName(fn), c.Pos(fn.Pos()), fmt.Sprintf("the params argument is read: %v", used))
	}
}

// fieldOwnerNameAny: the named struct type (any package) and the field name of a field address.
func fieldOwnerNameAny(fa *ssa.FieldAddr) (string, string) {
	t := fa.X.Type()
	if p, ok := t.Underlying().(*types.Pointer); ok {
		t = p.Elem()
	}
	nt, ok := types.Unalias(t).(*types.Named)
	if !ok {
		return "", ""
	}
	st, ok := nt.Underlying().(*types.Struct)
	if !ok || fa.Field >= st.NumFields() {
		return "", ""
	}
	return nt.Obj().Name(), st.Field(fa.Field).Name()
}
