package rules

import (
	"fmt"
	"go/types"

	"golang.org/x/tools/go/ssa"

	"slipcheck/core"
)

// c05bigarm: "... on integers and ratios of any magnitude". Each integer function the property names must have
// somewhere in its Call, or in the module functions it calls statically (depth 3), a type test of an operand
// against *slip.Bignum (or the Integer / Number normalisation that contains one): a function that only asserts
// slip.Fixnum rejects, or silently converts, every integer beyond 64 bits. gcd and lcm did (b1ae4e7).
var c05IntegerFunctions = []string{
	"+", "-", "*", "/", "1+", "1-", "floor", "ceiling", "truncate", "round", "mod", "rem", "gcd", "lcm", "abs", "expt", "isqrt", "ash",
	"logand", "logior", "logxor", "lognot", "logeqv", "lognand", "lognor", "logandc1", "logandc2", "logorc1", "logorc2", "logtest", "logbitp", "logcount", "integer-length",
	"=", "/=", "<", "<=", ">", ">=", "zerop", "plusp", "minusp", "min", "max", "evenp", "oddp", "numerator", "denominator", "signum",
}

func c05bigarm(c *core.Ctx, r *core.Reporter) {
	const rule = "C05.bigarm"
	r.Rule(rule, "every integer function the property names reaches (in its Call or the module functions it calls statically) a type test of an operand against *slip.Bignum, or a call of the number normalisation or of a method of the Integer/Real interfaces: it has an arm for integers of any magnitude", 40)
	isBig := func(t types.Type) bool {
		pt, ok := t.(*types.Pointer)
		return ok && core.IsNamed(pt.Elem(), core.SlipPath, "Bignum")
	}
	var reaches func(fn *ssa.Function, depth int, seen map[*ssa.Function]bool) bool
	reaches = func(fn *ssa.Function, depth int, seen map[*ssa.Function]bool) bool {
		if fn == nil || fn.Blocks == nil || seen[fn] || depth > 3 {
			return false
		}
		seen[fn] = true
		for _, b := range fn.Blocks {
			for _, in := range b.Instrs {
				switch x := in.(type) {
				case *ssa.TypeAssert:
					if isBig(x.AssertedType) || core.IsNamed(x.AssertedType, core.SlipPath, "Integer") {
						return true
					}
				case *ssa.Call:
					if x.Call.IsInvoke() {
						if core.IsNamed(x.Call.Value.Type(), core.SlipPath, "Integer") || core.IsNamed(x.Call.Value.Type(), core.SlipPath, "Real") {
							return true
						}
						continue
					}
					g := x.Call.StaticCallee()
					if g == nil || g.Pkg == nil || !core.InModule(g.Pkg.Pkg) {
						continue
					}
					if g.Name() == "NormalizeNumber" {
						return true
					}
					if reaches(g, depth+1, seen) {
						return true
					}
				}
			}
		}
		return false
	}
	for _, name := range c05IntegerFunctions {
		b := c.ByName("pkg/cl", name)
		if b == nil || b.Call == nil {
			r.Undecided(rule, "pkg/cl:"+name, "-", "built-in not found in the registry")
			continue
		}
		fn := c.SSAFunc(b.Call)
		ok := reaches(fn, 0, map[*ssa.Function]bool{})
		r.Decide(ok, rule, "pkg/cl:"+name, c.Pos(fn.Pos()), fmt.Sprintf("an arm for integers beyond a fixnum is reachable: %v", ok))
	}
}
