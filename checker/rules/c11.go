package rules

import (
	"fmt"
	"go/token"
	"slipcheck/lenflow"
	"sort"
	"strings"

	"golang.org/x/tools/go/ssa"

	"slipcheck/core"
)

func init() {
	register(&Prop{
		ID:        "C11",
		Technique: "sibling summary extraction: for every loop over Method.Combinations that invokes a daemon, (daemon field, loop direction, first-only) is read off the SSA loop and compared with the schedule the property states; ownership rules for the combination lists (no aliasing, no in-place insert that reads what it overwrote)",
		Explanation: "Decided statically: (C11.order) every function that walks a method's combination list and invokes daemons does so in the schedule the property states: the first wrapper found outermost, every :before daemon in list order, the first primary in list order, every :after daemon in reverse list order, and the bound/unbound sibling variants agree; " +
			"(C11.insert) no nested append inserts into a slice by appending to a prefix of the same slice and then reading the overwritten suffix; (C11.alias) a combination list stored into a method is never another method's list (it is copied), so appending for one flavor cannot write into a sibling flavor's list. " +
			"These are necessary conditions for 'daemon order follows component order whatever the history'; the order produced for arbitrary flavor DAGs is not decided.",
		NotCovered: "the resulting daemon order for arbitrary DAGs and definition histories; instance variable defaults",
		Trusted:    commonTrusted,
		Run:        runC11,
	})
}

type daemonLoop struct {
	fn     *ssa.Function
	field  string
	dir    string // forward | reverse | unknown
	first  bool
	pos    token.Pos
	invoke string
}

// loopDirection: +1 induction from below (forward) or -1 from above (reverse).
func loopDirection(l *core.Loop) string {
	for _, in := range l.Header.Instrs {
		phi, ok := in.(*ssa.Phi)
		if !ok {
			break
		}
		for ei, e := range phi.Edges {
			if !l.Blocks[l.Header.Preds[ei]] {
				continue // entry edge
			}
			// back edge value: phi +/- 1 (possibly through another phi)
			if d := stepOf(e, phi, 0); d != 0 {
				if d > 0 {
					return "forward"
				}
				return "reverse"
			}
		}
	}
	// induction through a struct field (wl.Current++): a store of field = load(field) +/- c inside the loop
	dir := "unknown"
	for b := range l.Blocks {
		for _, in := range b.Instrs {
			st, ok := in.(*ssa.Store)
			if !ok {
				continue
			}
			fa, ok := st.Addr.(*ssa.FieldAddr)
			if !ok {
				continue
			}
			bo, ok := st.Val.(*ssa.BinOp)
			if !ok {
				continue
			}
			k, ok := bo.Y.(*ssa.Const)
			if !ok || k.Value == nil {
				continue
			}
			u, ok := bo.X.(*ssa.UnOp)
			if !ok {
				continue
			}
			fb, ok := u.X.(*ssa.FieldAddr)
			if !ok || fb.Field != fa.Field || fb.X != fa.X {
				continue
			}
			n := int(k.Int64())
			if bo.Op == token.SUB {
				n = -n
			}
			if n > 0 && dir == "unknown" {
				dir = "forward"
			} else if n < 0 && dir == "unknown" {
				dir = "reverse"
			} else if (n > 0) != (dir == "forward") {
				return "unknown"
			}
		}
	}
	return dir
}

func stepOf(v ssa.Value, phi *ssa.Phi, depth int) int {
	if depth > 4 {
		return 0
	}
	switch x := v.(type) {
	case *ssa.BinOp:
		k, ok := x.Y.(*ssa.Const)
		if !ok || k.Value == nil {
			return 0
		}
		base := x.X
		if base != ssa.Value(phi) {
			// rangeindex: t57 = t56 + 1 where t56 is the phi: fine; otherwise give up
			if p2, ok := base.(*ssa.Phi); !ok || p2 != phi {
				return 0
			}
		}
		n := int(k.Int64())
		if x.Op == token.ADD {
			return n
		}
		if x.Op == token.SUB {
			return -n
		}
	case *ssa.Phi:
		for _, e := range x.Edges {
			if d := stepOf(e, phi, depth+1); d != 0 {
				return d
			}
		}
	}
	return 0
}

// fieldLoopsOver: the loop walks a list that is (a load of) field `field` of type typ:
// an IndexAddr on that list with an index depending on the loop variable.
func combinationElem(v ssa.Value, l *core.Loop, depth int) bool {
	if depth > 6 || v == nil {
		return false
	}
	switch x := v.(type) {
	case *ssa.UnOp:
		switch a := x.X.(type) {
		case *ssa.IndexAddr:
			return loadsField(a.X, core.SlipPath, "Method", "Combinations") && (dependsOnLoopVar(a.Index, l, 0) || fieldIndexInLoop(a.Index, l))
		case *ssa.FieldAddr:
			return combinationElem(a.X, l, depth+1)
		}
	case *ssa.FieldAddr:
		return combinationElem(x.X, l, depth+1)
	case *ssa.Phi:
		for _, e := range x.Edges {
			if combinationElem(e, l, depth+1) {
				return true
			}
		}
	}
	return false
}

// fieldIndexInLoop: the index is a struct field that the loop increments (WhopLoc.Current).
func fieldIndexInLoop(idx ssa.Value, l *core.Loop) bool {
	u, ok := idx.(*ssa.UnOp)
	if !ok {
		return false
	}
	fa, ok := u.X.(*ssa.FieldAddr)
	if !ok {
		return false
	}
	for b := range l.Blocks {
		for _, in := range b.Instrs {
			if st, ok := in.(*ssa.Store); ok {
				if fb, ok := st.Addr.(*ssa.FieldAddr); ok && fb.Field == fa.Field && fb.X == fa.X {
					return true
				}
			}
		}
	}
	return false
}

var requiredSchedule = map[string][2]string{
	// field: direction, all|first
	"Wrap":    {"forward", "first"},
	"Before":  {"forward", "all"},
	"Primary": {"forward", "first"},
	"After":   {"reverse", "all"},
}

func runC11(c *core.Ctx, r *core.Reporter) {
	c.BuildSSA()
	c11order(c, r)
	c11insert(c, r)
	c11alias(c, r)
	c11propagate(c, r)
	c11skip(c, r)
	c11walk(c, r, "C11.walk")
	c10shadow(c, r, "C11.shadow")
	c10wrapscope(c, r, "C11.wrapscope")
	pkgNoState(c, r, "C11.nostate", "the Call of every built-in of pkg/flavors stores nothing into its own function object: the call site of (continue-whopper) or (send ...) inside a method is shared by every flavor that inherits the method, so anything remembered there belongs to whichever receiver came first", 10, "pkg/flavors")
	c11combwrite(c, r)
	c11insertpos(c, r)
}

// c11skip: a combination without a daemon of the kind being looked for is skipped, it does not end the walk.
func c11skip(c *core.Ctx, r *core.Reporter) {
	const rule = "C11.skip"
	r.Rule(rule, "in every loop over Method.Combinations that tests a daemon field of the current combination (Wrap, Before, Primary, After) against nil, the nil outcome stays inside the loop and goes on to the next combination: a component flavor that contributes no daemon of that kind must not hide the daemons of the flavors after it", 6)
	seen := map[string]int{}
	for _, fn := range c.ModuleFuncs() {
		if takesTestingT(fn) || fn.Blocks == nil {
			continue
		}
		loops := core.Loops(fn)
		for _, b := range fn.Blocks {
			ifi, ok := b.Instrs[len(b.Instrs)-1].(*ssa.If)
			if !ok {
				continue
			}
			bo, ok := ifi.Cond.(*ssa.BinOp)
			if !ok || (bo.Op != token.EQL && bo.Op != token.NEQ) {
				continue
			}
			var val ssa.Value
			isNil := func(v ssa.Value) bool {
				k, ok := v.(*ssa.Const)
				return ok && k.Value == nil
			}
			switch {
			case isNil(bo.Y):
				val = bo.X
			case isNil(bo.X):
				val = bo.Y
			default:
				continue
			}
			u, ok := val.(*ssa.UnOp)
			if !ok || u.Op != token.MUL {
				continue
			}
			fa, ok := u.X.(*ssa.FieldAddr)
			if !ok {
				continue
			}
			field := fieldName(fa)
			if _, known := requiredSchedule[field]; !known || !isFieldOf(fa, core.SlipPath, "Combination", field) {
				continue
			}
			l := core.InnermostLoop(loops, b)
			if l == nil || !combinationElem(fa.X, l, 0) && !combinationElemPtr(fa.X, l) {
				continue
			}
			nilSucc := b.Succs[0]
			if bo.Op == token.NEQ {
				nilSucc = b.Succs[1]
			}
			key := fmt.Sprintf("%s|%s", core.SSAName(fn), field)
			seen[key]++
			if n := seen[key]; n > 1 {
				key = fmt.Sprintf("%s#%d", key, n)
			}
			r.Decide(l.Blocks[nilSucc], rule, key, c.Pos(bo.Pos()), fmt.Sprintf("a combination without %s goes on to the next one: %v", field, l.Blocks[nilSucc]))
		}
		// a daemon taken from the combination at a varying position is invoked from inside the walk
		for _, b := range fn.Blocks {
			for _, in := range b.Instrs {
				call, ok := in.(*ssa.Call)
				if !ok {
					continue
				}
				name := callMethodName(call)
				if name != "Call" && name != "BoundCall" {
					continue
				}
				recv := callReceiver(call)
				u, ok := recv.(*ssa.UnOp)
				if !ok || u.Op != token.MUL {
					continue
				}
				fa, ok := u.X.(*ssa.FieldAddr)
				if !ok {
					continue
				}
				field := fieldName(fa)
				if _, known := requiredSchedule[field]; !known || !isFieldOf(fa, core.SlipPath, "Combination", field) {
					continue
				}
				eu, ok := fa.X.(*ssa.UnOp)
				if !ok {
					continue
				}
				ia, ok := eu.X.(*ssa.IndexAddr)
				if !ok {
					continue
				}
				if _, isK := ia.Index.(*ssa.Const); isK {
					continue
				}
				// inside the walk: dominated by the header of a loop (a first-found invocation that returns is
				// not part of the loop's body proper, but is reached only through its header)
				inLoop := false
				for _, l := range loops {
					if l.Header.Dominates(b) {
						inLoop = true
					}
				}
				key := fmt.Sprintf("%s|%s invoked in the walk", core.SSAName(fn), field)
				seen[key]++
				if n := seen[key]; n > 1 {
					key = fmt.Sprintf("%s#%d", key, n)
				}
				r.Decide(inLoop, rule, key, c.Pos(call.Pos()), fmt.Sprintf("the daemon of the combination at a varying position is invoked inside a loop over the combinations: %v", inLoop))
			}
		}
	}
}

// combinationElemPtr: v is the current element of a range over a combination list (a *Combination loaded from
// the list inside the loop).
func combinationElemPtr(v ssa.Value, l *core.Loop) bool {
	u, ok := v.(*ssa.UnOp)
	if !ok || u.Op != token.MUL {
		return false
	}
	ia, ok := u.X.(*ssa.IndexAddr)
	if !ok {
		return false
	}
	_ = ia
	return l.Blocks[u.Block()]
}

// c11propagate: a combination added to a class's own method must reach the classes that inherit from it.
func c11propagate(c *core.Ctx, r *core.Reporter) {
	const rule = "C11.propagate"
	r.Rule(rule, "in every function that both stores a new combination list into a Method.Combinations field and walks all classes to update inheritors (Package.AllClasses), each such store is followed on every path to the return by the walk over all classes: a combination added to a flavor without updating the flavors already built on it makes the daemons run depend on the definition order", 1)
	all := c.LookupFunc("", "Package.AllClasses")
	if all == nil {
		r.Undecided(rule, "slip.(Package).AllClasses", "-", "anchor does not resolve")
		return
	}
	allFn := c.SSAFunc(all)
	an := lenflow.New(c)
	for _, fn := range c.ModuleFuncs() {
		if takesTestingT(fn) || fn.Blocks == nil {
			continue
		}
		walkBlocks := map[*ssa.BasicBlock]bool{}
		var stores []*ssa.Store
		for _, b := range fn.Blocks {
			for _, in := range b.Instrs {
				switch x := in.(type) {
				case *ssa.Call:
					if x.Call.StaticCallee() == allFn {
						walkBlocks[b] = true
					}
				case *ssa.Store:
					if fa, ok := x.Addr.(*ssa.FieldAddr); ok && fieldName(fa) == "Combinations" && isFieldOf(fa, core.SlipPath, "Method", "Combinations") {
						stores = append(stores, x)
					}
				}
			}
		}
		if len(walkBlocks) == 0 || len(stores) == 0 {
			continue
		}
		g := core.ComputeGuards(fn, an.NoReturn)
		for i, st := range stores {
			// branch outcomes known at the store: conditions on the same SSA value are followed consistently
			known := map[ssa.Value]bool{}
			for f := range g.Facts(st.Block()) {
				known[f.If.Cond] = f.Branch
			}
			escaped := false
			seen := map[*ssa.BasicBlock]bool{}
			var walk func(b *ssa.BasicBlock, first bool)
			walk = func(b *ssa.BasicBlock, first bool) {
				if seen[b] && !first {
					return
				}
				seen[b] = true
				if walkBlocks[b] && !first {
					return
				}
				if g.Dead[b] {
					return
				}
				last := b.Instrs[len(b.Instrs)-1]
				switch x := last.(type) {
				case *ssa.Return:
					escaped = true
					return
				case *ssa.If:
					if br, ok := known[x.Cond]; ok {
						if br {
							walk(b.Succs[0], false)
						} else {
							walk(b.Succs[1], false)
						}
						return
					}
				}
				for _, s := range b.Succs {
					walk(s, false)
				}
			}
			// the walk may sit in the store's own block after the store
			afterInSame := false
			for _, in := range st.Block().Instrs {
				if in == ssa.Instruction(st) {
					afterInSame = true
					continue
				}
				if call, ok := in.(*ssa.Call); ok && afterInSame && call.Call.StaticCallee() == allFn {
					afterInSame = false
					seen[st.Block()] = true
					goto decided
				}
			}
			walk(st.Block(), true)
		decided:
			key := core.SSAName(fn)
			if i > 0 {
				key = fmt.Sprintf("%s#%d", key, i+1)
			}
			r.Decide(!escaped, rule, key, c.Pos(st.Pos()), fmt.Sprintf("a path from the store to the return avoids the walk over all classes: %v", escaped))
		}
	}
}

func c11order(c *core.Ctx, r *core.Reporter) {
	const rule = "C11.order"
	r.Rule(rule, "every loop over Method.Combinations that invokes a daemon (Call/BoundCall on the Wrap, Before, Primary or After field of the element) has the direction and multiplicity the property states: Wrap forward/first-found, Before forward/all, Primary forward/first, After reverse/all", 8)
	var found []daemonLoop
	for _, fn := range c.ModuleFuncs() {
		loops := core.Loops(fn)
		if len(loops) == 0 {
			continue
		}
		for _, b := range fn.Blocks {
			for _, in := range b.Instrs {
				call, ok := in.(*ssa.Call)
				if !ok || !call.Call.IsInvoke() {
					continue
				}
				m := call.Call.Method.Name()
				if m != "Call" && m != "BoundCall" {
					continue
				}
				// the loop whose element the daemon is taken from: the innermost loop containing the block, or, for a
				// block that leaves the loop by returning, a loop whose header dominates it
				var l *core.Loop
				field := ""
				if il := core.InnermostLoop(loops, b); il != nil {
					if f := daemonFieldOf(call.Call.Value, il, 0); f != "" {
						l, field = il, f
					}
				}
				if l == nil {
					for _, cand := range loops {
						if cand.Header.Dominates(b) {
							if f := daemonFieldOf(call.Call.Value, cand, 0); f != "" {
								l, field = cand, f
							}
						}
					}
				}
				if l == nil {
					continue
				}
				dl := daemonLoop{fn: fn, field: field, dir: loopDirection(l), pos: call.Pos(), invoke: m}
				// first-only: after the invocation the loop is left
				dl.first = true
				for _, s := range b.Succs {
					if !leavesLoop(s, l) {
						dl.first = false
					}
				}
				if _, isRet := b.Instrs[len(b.Instrs)-1].(*ssa.Return); isRet {
					dl.first = true
				}
				found = append(found, dl)
			}
		}
	}
	sort.SliceStable(found, func(i, j int) bool {
		if core.SSAName(found[i].fn) != core.SSAName(found[j].fn) {
			return core.SSAName(found[i].fn) < core.SSAName(found[j].fn)
		}
		return found[i].pos < found[j].pos
	})
	for _, dl := range found {
		req := requiredSchedule[dl.field]
		mult := "all"
		if dl.first {
			mult = "first"
		}
		ok := dl.dir == req[0] && mult == req[1]
		key := fmt.Sprintf("%s|%s daemons", core.SSAName(dl.fn), strings.ToLower(dl.field))
		r.Decide(ok, rule, key, c.Pos(dl.pos), fmt.Sprintf("%s invoked via %s in a %s loop, %s; required %s, %s", dl.field, dl.invoke, dl.dir, mult, req[0], req[1]))
	}
}

// daemonFieldOf: v is (a type assertion of) the value of field Wrap/Before/Primary/After of the loop's combination element.
func daemonFieldOf(v ssa.Value, l *core.Loop, depth int) string {
	if depth > 6 || v == nil {
		return ""
	}
	switch x := v.(type) {
	case *ssa.UnOp:
		if fa, ok := x.X.(*ssa.FieldAddr); ok {
			f := fieldName(fa)
			if _, ok := requiredSchedule[f]; ok && isFieldOf(fa, core.SlipPath, "Combination", f) && combinationElem(fa.X, l, 0) {
				return f
			}
		}
	case *ssa.TypeAssert:
		return daemonFieldOf(x.X, l, depth+1)
	case *ssa.Extract:
		return daemonFieldOf(x.Tuple, l, depth+1)
	case *ssa.ChangeInterface:
		return daemonFieldOf(x.X, l, depth+1)
	case *ssa.MakeInterface:
		return daemonFieldOf(x.X, l, depth+1)
	case *ssa.Phi:
		for _, e := range x.Edges {
			if f := daemonFieldOf(e, l, depth+1); f != "" {
				return f
			}
		}
	}
	return ""
}

// c11insert: append(append(X[:i], e...), X[j:]...) with the same X reads X[j:] after overwriting it.
func c11insert(c *core.Ctx, r *core.Reporter) {
	const rule = "C11.insert"
	r.Rule(rule, "no expression of the form append(append(X[:i], e...), X[i:]...) on the same slice X: the inner append overwrites X[i] before the outer one reads it, so the element at the insertion point is lost and the new one duplicated (insertion of a newly defined method into inheriting flavors)", 0)
	n := 0
	for _, fn := range c.ModuleFuncs() {
		for _, b := range fn.Blocks {
			for _, in := range b.Instrs {
				outer, ok := in.(*ssa.Call)
				if !ok {
					continue
				}
				bi, ok := outer.Call.Value.(*ssa.Builtin)
				if !ok || bi.Name() != "append" || len(outer.Call.Args) != 2 {
					continue
				}
				inner, ok := outer.Call.Args[0].(*ssa.Call)
				if !ok {
					continue
				}
				bi2, ok := inner.Call.Value.(*ssa.Builtin)
				if !ok || bi2.Name() != "append" {
					continue
				}
				pre, ok1 := inner.Call.Args[0].(*ssa.Slice)
				suf, ok2 := outer.Call.Args[1].(*ssa.Slice)
				if !ok1 || !ok2 || pre.High == nil || suf.Low == nil {
					continue
				}
				if !sameSliceBase(pre.X, suf.X) {
					continue
				}
				n++
				// the inner append is safe only if it cannot write into X's array: never, when capacity allows; report
				r.Violate(rule, core.SSAName(fn)+"|append(append(X[:i], e), X[i:]...)", c.Pos(outer.Pos()), "in-place insert reads the suffix of the slice after the inner append may have overwritten it")
			}
		}
	}
	r.Count("insert.nested_appends", n)
	if n == 0 {
		r.Hold(rule, "module|no nested in-place insert", "-", "no append(append(X[:i], ...), X[j:]...) on one slice exists in the module")
	}
}

func sameSliceBase(a, b ssa.Value) bool {
	if a == b {
		return true
	}
	ua, ok1 := a.(*ssa.UnOp)
	ub, ok2 := b.(*ssa.UnOp)
	if ok1 && ok2 {
		if ua.X == ub.X {
			return true
		}
		fa, ok3 := ua.X.(*ssa.FieldAddr)
		fb, ok4 := ub.X.(*ssa.FieldAddr)
		if ok3 && ok4 && fa.Field == fb.Field && sameSliceBase(fa.X, fb.X) {
			return true
		}
		ia, ok5 := ua.X.(*ssa.IndexAddr)
		ib, ok6 := ub.X.(*ssa.IndexAddr)
		if ok5 && ok6 && ia.Index == ib.Index && sameSliceBase(ia.X, ib.X) {
			return true
		}
	}
	return false
}

// c11alias: a value stored into Method.Combinations must not be another method's list.
func c11alias(c *core.Ctx, r *core.Reporter) {
	const rule = "C11.alias"
	r.Rule(rule, "every value stored into a Method.Combinations field (also through a composite literal) is a fresh slice or an append/reslice of the same method's own list, never the list loaded from a different method: lists shared between flavors are overwritten by each other's appends", 8)
	for _, fn := range c.ModuleFuncs() {
		for _, b := range fn.Blocks {
			for _, in := range b.Instrs {
				st, ok := in.(*ssa.Store)
				if !ok {
					continue
				}
				fa, ok := st.Addr.(*ssa.FieldAddr)
				if !ok || !isFieldOf(fa, core.SlipPath, "Method", "Combinations") {
					continue
				}
				src, shared := combSource(st.Val, fa.X, 0)
				key := core.SSAName(fn) + "|Method.Combinations = " + src
				r.Decide(!shared, rule, key, c.Pos(st.Pos()), fmt.Sprintf("stored list derives from %s; shared with another method: %v", src, shared))
			}
		}
	}
}

// combSource classifies the stored value.
func combSource(v ssa.Value, owner ssa.Value, depth int) (string, bool) {
	if depth > 6 {
		return "?", false
	}
	switch x := v.(type) {
	case *ssa.Call:
		if bi, ok := x.Call.Value.(*ssa.Builtin); ok && bi.Name() == "append" {
			s, sh := combSource(x.Call.Args[0], owner, depth+1)
			return "append(" + s + ")", sh
		}
		return "call", false
	case *ssa.Slice:
		// reslice of a fresh array (composite literal) or of a list
		if _, ok := x.X.(*ssa.Alloc); ok {
			return "literal", false
		}
		s, sh := combSource(x.X, owner, depth+1)
		return "reslice(" + s + ")", sh
	case *ssa.MakeSlice:
		return "make", false
	case *ssa.Const:
		return "nil", false
	case *ssa.UnOp:
		if fa, ok := x.X.(*ssa.FieldAddr); ok && isFieldOf(fa, core.SlipPath, "Method", "Combinations") {
			if sameSliceBase(fa.X, owner) || fa.X == owner {
				return "own list", false
			}
			return "another method's list", true
		}
		return "load", false
	case *ssa.Phi:
		out := []string{}
		shared := false
		for _, e := range x.Edges {
			s, sh := combSource(e, owner, depth+1)
			out = append(out, s)
			shared = shared || sh
		}
		return "phi(" + strings.Join(out, ",") + ")", shared
	}
	return fmt.Sprintf("%T", v), false
}
