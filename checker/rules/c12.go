package rules

import (
	"fmt"
	"go/token"
	"go/types"
	"sort"

	"golang.org/x/tools/go/ssa"

	"slipcheck/core"
)

const closPath = core.SlipPath + "/pkg/clos"

func init() {
	register(&Prop{
		ID:        "C12",
		Technique: "SSA must-pass-through after class registration (re-merge of dependants), dominance of resets over accumulation in the super-merge, who-reads check of the precedence list",
		Explanation: "Order independence of CLOS class definitions rests on re-running the super merge. Decided statically: (C12.ready) every definer in pkg/clos that registers a class reaches, on every normal path afterwards, the deferred-readiness loop and the propagation to inheriting classes; " +
			"(C12.remerge) every field of the class that the super merge accumulates into (append / map store) is reset unconditionally before, so that re-running it on redefinition recomputes from scratch; (C12.prec) type membership, class-of and dispatch read one precedence field. " +
			"A definer that skips the re-merge leaves forward-referenced or inheriting classes stale; a conditional reset lets removed initargs/initforms survive a redefinition. The precedence order itself and slot initialisation values are not decided.",
		NotCovered: "the precedence order for arbitrary DAGs, initarg/initform selection values, the method tables copied by the merge (objects reached through c.methods)",
		Trusted:    commonTrusted,
		Run:        runC12,
	})
}

func runC12(c *core.Ctx, r *core.Reporter) {
	c.BuildSSA()
	c12ready(c, r)
	c12remerge(c, r)
	c12prec(c, r)
	c12copy(c, r)
	c12shared(c, r)
	c12initform(c, r)
	c12unbound(c, r)
	c12slotkey(c, r)
	c12nilvalue(c, r)
	// "typep, class-of and method applicability all use that same precedence list": nil
	c10nilprec(c, r, "C12.nilprec")
}

// c12copy: the precedence list is read where it is needed, never cached somewhere else.
func c12copy(c *core.Ctx, r *core.Reporter) {
	const rule = "C12.copy"
	r.Rule(rule, "a class precedence list obtained from a class (the precedence field, or precedenceList()) is never stored into another field or package variable: a redefinition re-merges the class in place and replaces the list, so a cached copy in an instance or elsewhere keeps answering typep and dispatch from the old hierarchy", 2)
	n := map[string]int{}
	for _, fn := range c.ModuleFuncs() {
		if takesTestingT(fn) || fn.Pkg == nil || fn.Pkg.Pkg.Path() != closPath {
			continue
		}
		for _, b := range fn.Blocks {
			for _, in := range b.Instrs {
				var src ssa.Value
				switch x := in.(type) {
				case *ssa.Call:
					if callMethodName(x) == "precedenceList" {
						src = x
					}
				case *ssa.UnOp:
					if fa, ok := x.X.(*ssa.FieldAddr); ok && x.Op == token.MUL && fieldName(fa) == "precedence" {
						src = x
					}
				}
				if src == nil {
					continue
				}
				// follow the value to stores
				stored := ""
				seen := map[ssa.Value]bool{}
				var walk func(v ssa.Value, d int)
				walk = func(v ssa.Value, d int) {
					if seen[v] || d > 5 || v.Referrers() == nil {
						return
					}
					seen[v] = true
					for _, rf := range *v.Referrers() {
						switch y := rf.(type) {
						case *ssa.Store:
							if y.Val != v {
								continue
							}
							switch a := y.Addr.(type) {
							case *ssa.FieldAddr:
								if fieldName(a) != "precedence" {
									stored = fmt.Sprintf("field %s at %s", fieldName(a), c.Pos(y.Pos()))
								}
							case *ssa.Global:
								stored = fmt.Sprintf("variable %s at %s", a.Name(), c.Pos(y.Pos()))
							}
						case *ssa.Phi:
							walk(y, d+1)
						case *ssa.Slice:
							walk(y, d+1)
						case *ssa.ChangeType:
							walk(y, d+1)
						}
					}
				}
				walk(src, 0)
				key := core.SSAName(fn) + "|precedence read"
				n[key]++
				if k := n[key]; k > 1 {
					key = fmt.Sprintf("%s#%d", key, k)
				}
				r.Decide(stored == "", rule, key, c.Pos(in.Pos()), orOKs(stored, "used in place, not stored elsewhere"))
			}
		}
	}
}

func c12ready(c *core.Ctx, r *core.Reporter) {
	const rule = "C12.ready"
	r.Rule(rule, "every function of pkg/clos that registers a class (slip.RegisterClass / Package.RegisterClass) calls, on every path from the registration to its return, the function that merges not-yet-ready classes and the function that re-merges the classes inheriting from the registered one", 2)
	p := c.Pkg("pkg/clos")
	if p == nil {
		r.Undecided(rule, "pkg/clos", "-", "package not found")
		return
	}
	// role: the readiness function = a function of pkg/clos that loops calling mergeSupers on classes that are not Ready;
	// the change propagation = a function that calls mergeSupers on classes that Inherit the argument. Both are found by
	// their calls to mergeSupers (invoke) and told apart by the other method they invoke.
	ready := map[*ssa.Function]bool{}
	changed := map[*ssa.Function]bool{}
	for _, fn := range c.ModuleFuncs() {
		if fn.Pkg == nil || fn.Pkg.Pkg.Path() != closPath || fn.Parent() != nil {
			continue
		}
		var merges, readyQ, inheritsQ bool
		for _, b := range fn.Blocks {
			for _, in := range b.Instrs {
				call, ok := in.(*ssa.Call)
				if !ok {
					continue
				}
				name := ""
				if call.Call.IsInvoke() {
					name = call.Call.Method.Name()
				} else if g := call.Call.StaticCallee(); g != nil {
					name = g.Name()
				}
				switch name {
				case "mergeSupers":
					merges = true
				case "Ready":
					readyQ = true
				case "Inherits":
					inheritsQ = true
				}
			}
		}
		if merges && fn.Signature.Recv() == nil {
			if readyQ {
				ready[fn] = true
			}
			if inheritsQ {
				changed[fn] = true
			}
		}
	}
	if len(ready) == 0 || len(changed) == 0 {
		r.Undecided(rule, "pkg/clos|re-merge functions", "-", fmt.Sprintf("readiness loop found: %d, change propagation found: %d", len(ready), len(changed)))
		return
	}
	for _, fn := range c.ModuleFuncs() {
		if fn.Pkg == nil || fn.Pkg.Pkg.Path() != closPath {
			continue
		}
		for _, b := range fn.Blocks {
			for i, in := range b.Instrs {
				call, ok := in.(*ssa.Call)
				if !ok {
					continue
				}
				g := call.Call.StaticCallee()
				if g == nil || g.Name() != "RegisterClass" || g.Pkg == nil || g.Pkg.Pkg.Path() != core.SlipPath {
					continue
				}
				// only user-definable classes (standard and condition classes) can be forward referenced or redefined
				userClass := false
				for _, a := range call.Call.Args {
					if mi, ok := a.(*ssa.MakeInterface); ok {
						if core.IsNamed(mi.X.Type(), closPath, "StandardClass") || core.IsNamed(mi.X.Type(), closPath, "ConditionClass") {
							// a definition registers the class object it has just built; making an existing,
							// already merged class visible under a second package (pkg/clos.init registers the
							// standard conditions in common-lisp as well) defines nothing and changes no hierarchy
							if _, fresh := mi.X.(*ssa.Alloc); fresh {
								userClass = true
							}
						}
					}
				}
				if !userClass {
					continue
				}
				passR := map[*ssa.BasicBlock]int{}
				passC := map[*ssa.BasicBlock]int{}
				for _, bb := range fn.Blocks {
					for k, x := range bb.Instrs {
						if cc, ok := x.(*ssa.Call); ok {
							if h := cc.Call.StaticCallee(); h != nil {
								if ready[h] {
									if _, has := passR[bb]; !has {
										passR[bb] = k
									}
								}
								if changed[h] {
									if _, has := passC[bb]; !has {
										passC[bb] = k
									}
								}
							}
						}
					}
				}
				key := core.SSAName(fn)
				missR := escapes(b, i, passR)
				missC := escapes(b, i, passC)
				r.Decide(!missR, rule, key+"|classes made ready", c.Pos(call.Pos()), fmt.Sprintf("every path from the registration reaches the deferred-readiness loop: %v", !missR))
				r.Decide(!missC, rule, key+"|inheriting classes re-merged", c.Pos(call.Pos()), fmt.Sprintf("every path from the registration reaches the propagation to inheriting classes: %v", !missC))
			}
		}
	}
}

func c12remerge(c *core.Ctx, r *core.Reporter) {
	const rule = "C12.remerge"
	r.Rule(rule, "every field of the class that mergeSupers accumulates into (the field is assigned append(field, ...) or is the map of a map store) is assigned a fresh or emptied value (make, map literal, field[:0]) in a block that dominates every accumulation: the merge is re-run on redefinition and must recompute from scratch", 4)
	for _, fn := range c.ModuleFuncs() {
		if fn.Name() != "mergeSupers" || fn.Signature.Recv() == nil || fn.Parent() != nil {
			continue
		}
		recv := fn.Params[0]
		recvT := fn.Signature.Recv().Type()
		typ := ""
		if pt, ok := recvT.(*types.Pointer); ok {
			if n, ok := pt.Elem().(*types.Named); ok {
				typ = n.Obj().Name()
			}
		}
		type acc struct{ in ssa.Instruction }
		accum := map[string][]ssa.Instruction{}
		resets := map[string][]ssa.Instruction{}
		isRecvField := func(v ssa.Value) (string, bool) {
			fa, ok := v.(*ssa.FieldAddr)
			if !ok || fa.X != ssa.Value(recv) {
				return "", false
			}
			return fieldName(fa), true
		}
		loadOfRecvField := func(v ssa.Value) (string, bool) {
			u, ok := v.(*ssa.UnOp)
			if !ok {
				return "", false
			}
			return isRecvField(u.X)
		}
		for _, b := range fn.Blocks {
			for _, in := range b.Instrs {
				switch x := in.(type) {
				case *ssa.Store:
					f, ok := isRecvField(x.Addr)
					if !ok {
						continue
					}
					switch v := x.Val.(type) {
					case *ssa.MakeMap, *ssa.MakeSlice:
						resets[f] = append(resets[f], x)
					case *ssa.Slice:
						if lf, ok := loadOfRecvField(v.X); ok && lf == f && v.High != nil {
							if k, ok := v.High.(*ssa.Const); ok && k.Value != nil && k.Int64() == 0 {
								resets[f] = append(resets[f], x)
							}
						}
					case *ssa.Call:
						if bi, ok := v.Call.Value.(*ssa.Builtin); ok && bi.Name() == "append" {
							if lf, ok := loadOfRecvField(v.Call.Args[0]); ok && lf == f {
								accum[f] = append(accum[f], x)
							}
						}
					case *ssa.Const:
						if v.IsNil() {
							resets[f] = append(resets[f], x)
						}
					}
				case *ssa.MapUpdate:
					if f, ok := loadOfRecvField(x.Map); ok {
						accum[f] = append(accum[f], x)
					}
				case *ssa.Call:
					// a helper method of the same object that accumulates into one of its fields (addInitArg)
					cal := x.Call.StaticCallee()
					if cal == nil || cal.Blocks == nil || cal.Signature.Recv() == nil || len(x.Call.Args) == 0 || x.Call.Args[0] != ssa.Value(recv) {
						continue
					}
					for _, f := range helperAccumulates(cal) {
						accum[f] = append(accum[f], x)
					}
				}
			}
		}
		var fields []string
		for f := range accum {
			fields = append(fields, f)
		}
		sort.Strings(fields)
		for _, f := range fields {
			// map fields that hold objects accumulated into (c.methods[k] = m then m.Combinations = append) are not direct accumulation targets of simple values
			okAll := true
			var badPos ssa.Instruction
			for _, a := range accum[f] {
				dominated := false
				for _, rs := range resets[f] {
					if instrDominates(rs, a) {
						dominated = true
					}
				}
				if !dominated {
					okAll = false
					badPos = a
				}
			}
			pos := accum[f][0].Pos()
			if badPos != nil {
				pos = badPos.Pos()
			}
			key := fmt.Sprintf("%s.(%s).mergeSupers|%s", core.RelPkg(fn.Pkg.Pkg.Path()), typ, f)
			if why, ok := remergeExceptions[key]; ok {
				r.Hold(rule, key, c.Pos(pos), "accepted by reading: "+why)
				continue
			}
			r.Decide(okAll, rule, key, c.Pos(pos), fmt.Sprintf("%d accumulation(s), %d reset(s); every accumulation is dominated by an unconditional reset: %v", len(accum[f]), len(resets[f]), okAll))
		}
	}
}

var remergeExceptions = map[string]string{
	"pkg/clos.(StandardClass).mergeSupers|methods": "the map holds method objects keyed by message name; an existing entry is reused, and the inherited combinations appended carry a From tag that is compared before appending. Redefinition of a superclass was exercised by hand without duplicated daemons; the map's contents are outside this rule (objects reached through the map)",
}

func c12prec(c *core.Ctx, r *core.Reporter) {
	const rule = "C12.prec"
	r.Rule(rule, "the precedence list of a standard class is written only by the super merge: no other function assigns StandardClass.precedence, so typep, class-of, subtypep and dispatch (which all go through it) cannot diverge from the merge result", 1)
	for _, fn := range c.ModuleFuncs() {
		if fn.Pkg == nil || fn.Pkg.Pkg.Path() != closPath {
			continue
		}
		for _, b := range fn.Blocks {
			for _, in := range b.Instrs {
				st, ok := in.(*ssa.Store)
				if !ok {
					continue
				}
				fa, ok := st.Addr.(*ssa.FieldAddr)
				if !ok || fieldName(fa) != "precedence" || !isFieldOf(fa, closPath, "StandardClass", "precedence") {
					continue
				}
				okW := fn.Name() == "mergeSupers"
				r.Decide(okW, rule, core.SSAName(fn)+"|precedence written", c.Pos(st.Pos()), fmt.Sprintf("written inside the super merge: %v", okW))
			}
		}
	}
}

// helperAccumulates: the receiver fields a method stores map entries into or appends to.
func helperAccumulates(fn *ssa.Function) []string {
	if len(fn.Params) == 0 {
		return nil
	}
	recv := fn.Params[0]
	seen := map[string]bool{}
	fieldOf := func(v ssa.Value) (string, bool) {
		u, ok := v.(*ssa.UnOp)
		if !ok {
			return "", false
		}
		fa, ok := u.X.(*ssa.FieldAddr)
		if !ok || fa.X != ssa.Value(recv) {
			return "", false
		}
		return fieldName(fa), true
	}
	for _, b := range fn.Blocks {
		for _, in := range b.Instrs {
			switch x := in.(type) {
			case *ssa.MapUpdate:
				if f, ok := fieldOf(x.Map); ok {
					seen[f] = true
				}
			case *ssa.Store:
				if fa, ok := x.Addr.(*ssa.FieldAddr); ok && fa.X == ssa.Value(recv) {
					if call, ok := x.Val.(*ssa.Call); ok {
						if bi, ok := call.Call.Value.(*ssa.Builtin); ok && bi.Name() == "append" {
							seen[fieldName(fa)] = true
						}
					}
				}
			}
		}
	}
	var out []string
	for f := range seen {
		out = append(out, f)
	}
	sort.Strings(out)
	return out
}
