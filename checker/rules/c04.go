package rules

import (
	"fmt"
	"go/constant"
	"go/token"
	"go/types"
	"strings"

	"golang.org/x/tools/go/ssa"

	"slipcheck/core"
	"slipcheck/lenflow"
)

func init() {
	register(&Prop{
		ID:        "C04",
		Technique: "registry extraction (FuncDoc literals, type-resolved) + SSA dominator search for argument-count checks with constant folding",
		Explanation: "Decides for every registered built-in whose documented lambda list is a literal that the argument-count range enforced by the dominating CheckArgCount-family call in its Call method " +
			"(constants folded through SSA, helpers followed when the argument list is forwarded unchanged) equals the range the documented lambda list allows (C04.arity); and structural clauses of Lambda.Call (C04.few, C04.lam). " +
			"It does not decide that keys bind by name or that defaults have the right values.",
		NotCovered: "binding values (key order, defaults, &aux evaluation order); built-ins with hand-written len(args) logic and no CheckArgCount call are counted, not judged",
		Trusted:    commonTrusted,
		Run:        runC04,
	})
}

// docArity computes the argument-count range a documented lambda list allows.
// &key contributes two arguments per key (the convention of the code base),
// &rest/&body/&allow-other-keys make the range open.
func docArity(args []string) (mn, mx int, ok bool) {
	mode := 0
	unbounded := false
	for _, a := range args {
		if a == "?" {
			return 0, 0, false
		}
		la := strings.ToLower(a)
		switch la {
		case "&optional":
			mode = 1
			continue
		case "&rest", "&body", "&allow-other-keys":
			unbounded = true
			mode = 9
			continue
		case "&key":
			mode = 2
			continue
		case "&aux":
			mode = 9
			continue
		}
		if strings.HasPrefix(la, "&") {
			return 0, 0, false
		}
		switch mode {
		case 0:
			mn++
			mx++
		case 1:
			mx++
		case 2:
			mx += 2
		}
	}
	if unbounded {
		mx = -1
	}
	return mn, mx, true
}

type arityCheck struct {
	mn, mx     int
	constant   bool
	dominating bool
	pos        string
}

// checkFamily identifies the argument-count check functions by object and
// returns the operand indexes of (list-or-count, min, max).
func checkFamily(g *ssa.Function) (li, mni, mxi int, ok bool) {
	if g == nil || g.Object() == nil || g.Object().Pkg() == nil || g.Object().Pkg().Path() != core.SlipPath {
		return
	}
	switch g.Name() {
	case "CheckArgCount":
		return 3, 4, 5, true
	case "CheckSendArgCount":
		return 4, 5, 6, true
	case "MethodArgCountCheck":
		return 4, 5, 6, true
	}
	return
}

// findArityChecks collects the checks applied to parameter pi of fn (offset 0).
func findArityChecks(c *core.Ctx, an *lenflow.Analyzer, fn *ssa.Function, pi int, depth int, topDom bool, out *[]arityCheck) {
	if fn == nil || len(fn.Blocks) == 0 || pi >= len(fn.Params) {
		return
	}
	res := an.Analyze(fn, nil, nil, 0)
	param := fn.Params[pi]
	// blocks holding normal returns
	var rets []*ssa.BasicBlock
	for _, b := range fn.Blocks {
		if len(b.Instrs) > 0 {
			if _, ok := b.Instrs[len(b.Instrs)-1].(*ssa.Return); ok && res.Reachable(b) {
				rets = append(rets, b)
			}
		}
	}
	domAll := func(b *ssa.BasicBlock) bool {
		for _, r := range rets {
			if !b.Dominates(r) {
				return false
			}
		}
		return true
	}
	for _, b := range fn.Blocks {
		for _, in := range b.Instrs {
			call, ok := in.(*ssa.Call)
			if !ok {
				continue
			}
			g := call.Call.StaticCallee()
			if g == nil {
				continue
			}
			args := call.Call.Args
			if li, mni, mxi, ok := checkFamily(g); ok && mxi < len(args) {
				var hit bool
				if ref := res.ResolveSlice(args[li]); ref.Root == param && ref.Off == 0 {
					hit = true
				} else if r2, isLen, ok := res.ResolveInt(args[li]); ok && isLen && r2.Root == param && r2.Off == 0 {
					hit = true
				}
				if !hit {
					continue
				}
				ac := arityCheck{pos: c.Pos(call.Pos()), dominating: topDom && domAll(b)}
				mn, ok1 := res.IntConst(args[mni])
				mx, ok2 := res.IntConst(args[mxi])
				ac.constant = ok1 && ok2
				ac.mn, ac.mx = mn, mx
				*out = append(*out, ac)
				continue
			}
			if depth >= 3 || !core.InModule(g.Pkg.Pkg) || g.Blocks == nil {
				continue
			}
			for ai, a := range args {
				if ai < len(g.Params) && lenflowIsSlice(a) {
					if ref := res.ResolveSlice(a); ref.Root == param && ref.Off == 0 {
						findArityChecks(c, an, g, ai, depth+1, topDom && domAll(b), out)
					}
				}
			}
		}
	}
}

func lenflowIsSlice(v ssa.Value) bool { return isObjectSlice(v.Type()) }

func runC04(c *core.Ctx, r *core.Reporter) {
	c.BuildSSA()
	c04default(c, r)
	c04absent(c, r)
	// a call compiled early must be bound per the lambda list the function has now
	c08refresh(c, r, "C04.refresh")
	const rule = "C04.arity"
	r.Rule(rule, "for every registration with a literal FuncDoc.Args, the range enforced by the dominating CheckArgCount-family call on the Call method's argument list equals the range the documented lambda list allows "+
		"(required .. required+optional+2*keys, open after &rest/&body/&allow-other-keys)", 600)
	an := lenflow.New(c)
	reg := c.Registry()
	r.Count("registrations", len(reg))
	var nNoCheck, nNotConst, nNoDoc, nCond int
	for _, b := range reg {
		if b.Call == nil || !b.DocLit || !b.ArgsLit || b.Name == "" {
			nNoDoc++
			continue
		}
		dmn, dmx, ok := docArity(b.DocArgs)
		if !ok {
			nNoDoc++
			continue
		}
		fn := c.SSAFunc(b.Call)
		if fn == nil {
			nNoDoc++
			continue
		}
		// args is the second parameter after the receiver: find the List-typed parameter
		pi := -1
		for i, p := range fn.Params {
			if core.IsNamed(p.Type(), core.SlipPath, "List") {
				pi = i
				break
			}
		}
		if pi < 0 {
			nNoDoc++
			continue
		}
		var checks []arityCheck
		findArityChecks(c, an, fn, pi, 0, true, &checks)
		var dom []arityCheck
		cond := 0
		for _, k := range checks {
			if k.dominating {
				dom = append(dom, k)
			} else {
				cond++
			}
		}
		if len(dom) == 0 {
			if cond > 0 {
				nCond++
			} else {
				nNoCheck++
			}
			continue
		}
		emn, emx := 0, -1
		allConst := true
		for _, k := range dom {
			if !k.constant {
				allConst = false
				break
			}
			if k.mn > emn {
				emn = k.mn
			}
			if k.mx >= 0 && (emx < 0 || k.mx < emx) {
				emx = k.mx
			}
		}
		if !allConst {
			nNotConst++
			continue
		}
		key := b.Key()
		detail := fmt.Sprintf("documented (%s) allows %s, code at %s enforces %s", strings.Join(b.DocArgs, " "), rng(dmn, dmx), dom[0].pos, rng(emn, emx))
		r.Decide(dmn == emn && dmx == emx, rule, key, c.Pos(b.Pos), detail)
	}
	r.Count("arity.no_check_not_judged", nNoCheck)
	r.Count("arity.conditional_check_not_judged", nCond)
	r.Count("arity.nonconstant_bounds_not_judged", nNotConst)
	r.Count("arity.doc_not_literal_not_judged", nNoDoc)

	c04few(c, r)
}

func rng(mn, mx int) string {
	if mx < 0 {
		return fmt.Sprintf("%d..", mn)
	}
	return fmt.Sprintf("%d..%d", mn, mx)
}

func c04few(c *core.Ctx, r *core.Reporter) {
	// implemented in c04_lambda.go
	c04lambda(c, r)
}

// c04default: "defaults when absent": the default or init form of a lambda-list parameter is a form. The
// value bound for an absent parameter must be the result of evaluating it. In (*Lambda).Call no binding
// (Scope.Let) receives a value loaded from DocArg.Default directly; it goes through a function that evaluates
// (one that calls Scope.Eval). Before 69db392 &optional and &key defaults were bound unevaluated:
// (funcall (lambda (&optional (a 1) (b a)) (list a b))) => (1 a).
func c04default(c *core.Ctx, r *core.Reporter) {
	const rule = "C04.default"
	r.Rule(rule, "in (*Lambda).Call the value bound to a parameter that was not supplied is never the DocArg.Default form itself: every binding of a default goes through a function that evaluates it in the scope of the call", 3)
	fnObj := c.LookupFunc("", "Lambda.Call")
	if fnObj == nil {
		r.Undecided(rule, "slip.(Lambda).Call", "-", "anchor does not resolve")
		return
	}
	fn := c.SSAFunc(fnObj)
	evaluates := func(cal *ssa.Function) bool {
		if cal == nil || cal.Blocks == nil {
			return false
		}
		for _, b := range cal.Blocks {
			for _, in := range b.Instrs {
				if call, ok := in.(*ssa.Call); ok {
					if g := call.Call.StaticCallee(); g != nil && g.Name() == "Eval" && g.Signature.Recv() != nil && core.IsNamed(g.Signature.Recv().Type(), core.SlipPath, "Scope") {
						return true
					}
				}
			}
		}
		return false
	}
	n := 0
	for _, b := range fn.Blocks {
		for _, in := range b.Instrs {
			u, ok := in.(*ssa.UnOp)
			if !ok {
				continue
			}
			fa, ok := u.X.(*ssa.FieldAddr)
			if !ok || fieldName(fa) != "Default" || !core.IsNamed(fa.X.Type(), core.SlipPath, "DocArg") {
				continue
			}
			n++
			// every use of the loaded default: an argument of an evaluating function, never of Let
			okUse := true
			detail := "handed to an evaluating function"
			var visit func(v ssa.Value, depth int)
			seen := map[ssa.Value]bool{}
			visit = func(v ssa.Value, depth int) {
				if depth > 4 || seen[v] || v.Referrers() == nil {
					return
				}
				seen[v] = true
				for _, ref := range *v.Referrers() {
					switch x := ref.(type) {
					case *ssa.Phi:
						visit(x, depth+1)
					case *ssa.Call:
						cal := x.Call.StaticCallee()
						if cal != nil && cal.Name() == "Let" {
							okUse = false
							detail = "bound by Let unevaluated at " + c.Pos(x.Pos())
						} else if cal != nil && !evaluates(cal) && cal.Pkg != nil && cal.Pkg.Pkg.Path() == core.SlipPath {
							// passed on to a function of package slip that does not evaluate: not proven
							okUse = false
							detail = "handed to " + cal.Name() + ", which does not evaluate, at " + c.Pos(x.Pos())
						}
					}
				}
			}
			visit(u, 0)
			// which parameter mode is being bound: the constant the `mode` switch compares with on the way here
			modeName := "?"
			g := core.ComputeGuards(fn, nil)
			for fact := range g.Facts(b) {
				bo, ok := fact.If.Cond.(*ssa.BinOp)
				if !ok || bo.Op != token.EQL || !fact.Branch {
					continue
				}
				if cst, ok := bo.Y.(*ssa.Const); ok && cst.Value != nil && cst.Value.Kind() == constant.Int {
					for _, nm := range []string{"reqMode", "optMode", "restMode", "keyMode", "auxMode"} {
						if k, ok := c.Pkg("").Types.Scope().Lookup(nm).(*types.Const); ok && constant.Compare(k.Val(), token.EQL, cst.Value) {
							modeName = nm
						}
					}
				}
			}
			key := "slip.(Lambda).Call|default bound in " + modeName
			if !okUse && modeName == "restMode" {
				r.Hold(rule, key, c.Pos(u.Pos()), "accepted by reading: the parameter after &rest is a plain symbol, DefLambda records no default form for it, so the value bound when no arguments are left over is nil")
				continue
			}
			r.Decide(okUse, rule, key, c.Pos(u.Pos()), detail)
		}
	}
}
