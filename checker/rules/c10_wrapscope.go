package rules

import (
	"fmt"
	"go/constant"
	"go/token"

	"golang.org/x/tools/go/ssa"

	"slipcheck/core"
)

// c10wrapscope: an :around method or whopper finds its own place in the chain through ~whopper-location~ in
// the scope it is called with. A function that binds a location object (a non-nil value) to that name on a
// scope and invokes a wrapper (the Call of a value read from a Wrap field) must invoke it with that very
// scope: called with the caller's scope, (call-next-method) continues whatever chain the caller is in.
func c10wrapscope(c *core.Ctx, r *core.Reporter, rule string) {
	r.Rule(rule, "every invocation of a wrapper (Call on a value loaded from the Wrap field of a combination) in a function that binds a location to ~whopper-location~ passes the scope that binding was made on, so call-next-method / continue-whopper find the location of the method they are called from", 2)
	letFn := c.SSAFunc(c.LookupFunc("", "Scope.Let"))
	if letFn == nil {
		r.Undecided(rule, "slip.(Scope).Let", "-", "anchor does not resolve")
		return
	}
	fromWrap := func(v ssa.Value) bool {
		for i := 0; i < 4; i++ {
			switch x := v.(type) {
			case *ssa.TypeAssert:
				v = x.X
			case *ssa.Extract:
				v = x.Tuple
			case *ssa.UnOp:
				if x.Op != token.MUL {
					return false
				}
				fa, ok := x.X.(*ssa.FieldAddr)
				return ok && fieldName(fa) == "Wrap"
			default:
				return false
			}
		}
		return false
	}
	for _, fn := range c.ModuleFuncs() {
		if fn.Blocks == nil || takesTestingT(fn) {
			continue
		}
		bound := map[ssa.Value]bool{}
		for _, b := range fn.Blocks {
			for _, in := range b.Instrs {
				call, ok := in.(*ssa.Call)
				if !ok || call.Call.StaticCallee() != letFn || len(call.Call.Args) != 3 {
					continue
				}
				k, ok := call.Call.Args[1].(*ssa.Const)
				if !ok || k.Value == nil || k.Value.Kind() != constant.String || constant.StringVal(k.Value) != "~whopper-location~" {
					continue
				}
				if v, ok := call.Call.Args[2].(*ssa.Const); ok && v.IsNil() {
					continue // shadowing, not a location
				}
				bound[call.Call.Args[0]] = true
			}
		}
		if len(bound) == 0 {
			continue
		}
		n := 0
		for _, b := range fn.Blocks {
			for _, in := range b.Instrs {
				ci, ok := in.(ssa.CallInstruction)
				if !ok {
					continue
				}
				cc := ci.Common()
				if !cc.IsInvoke() || !fromWrap(cc.Value) || len(cc.Args) == 0 {
					continue
				}
				if cc.Method.Name() != "Call" && cc.Method.Name() != "BoundCall" {
					continue
				}
				n++
				key := fmt.Sprintf("%s|wrapper call %d", core.SSAName(fn), n)
				r.Decide(bound[cc.Args[0]], rule, key, c.Pos(in.Pos()), fmt.Sprintf("the wrapper is called with the scope the location was bound on: %v", bound[cc.Args[0]]))
			}
		}
	}
}
