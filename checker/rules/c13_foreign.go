package rules

import (
	"fmt"
	"go/token"
	"sort"

	"golang.org/x/tools/go/ssa"

	"slipcheck/core"
)

// c13foreign: a package's funcs and vars tables hold its own entries and the very entry objects of the
// packages it uses (inherited names). "No operation loses a package's own definitions": an operation on
// package P that rewrites an entry found in P's table rewrites another package's definition whenever the name
// was inherited. The rule: in every method of Package, a store into a definition field of an entry
// (FuncInfo.Doc/Create/Kind/Pkg, Export cleared on a FuncInfo or VarVal) that was read from the receiver's
// own table is control-dependent on `entry.Pkg == receiver`. Setting a variable's value and setting Export
// true (re-export of an inherited name) are not definition changes and are not judged.
func c13foreign(c *core.Ctx, r *core.Reporter) {
	const rule = "C13.foreign"
	r.Rule(rule, "a method of Package that rewrites a definition field of an entry read from its own funcs or vars table (function body, kind, owner; or clears the export flag) does so only under a test that the entry is owned by the receiver: an inherited entry is the used package's own definition", 3)
	var fns []*ssa.Function
	for _, fn := range c.ModuleFuncs() {
		if fn.Pkg != nil && fn.Pkg.Pkg.Path() == core.SlipPath && fn.Parent() == nil && fn.Signature.Recv() != nil &&
			core.IsNamed(fn.Signature.Recv().Type(), core.SlipPath, "Package") && len(fn.Params) > 0 {
			fns = append(fns, fn)
		}
	}
	sort.Slice(fns, func(i, j int) bool { return core.SSAName(fns[i]) < core.SSAName(fns[j]) })
	for _, fn := range fns {
		recv := fn.Params[0]
		var g *core.Guards
		seen := map[string]bool{}
		for _, b := range fn.Blocks {
			for _, in := range b.Instrs {
				st, ok := in.(*ssa.Store)
				if !ok {
					continue
				}
				fa, ok := st.Addr.(*ssa.FieldAddr)
				if !ok {
					continue
				}
				typ := ""
				switch {
				case core.IsNamed(fa.X.Type(), core.SlipPath, "FuncInfo"):
					typ = "FuncInfo"
				case core.IsNamed(fa.X.Type(), core.SlipPath, "VarVal"):
					typ = "VarVal"
				default:
					continue
				}
				f := fieldName(fa)
				switch f {
				case "Doc", "Create", "Kind", "Pkg":
					if typ != "FuncInfo" {
						continue
					}
				case "Export":
					if cst, ok := st.Val.(*ssa.Const); !ok || cst.Value == nil || cst.Value.String() != "false" {
						continue
					}
				default:
					continue
				}
				owner, field := entrySource(fa.X, 0)
				if owner == nil || !sameValue(owner, recv) {
					continue // a fresh entry, or an entry of another package's table (judged by C13.push/retract)
				}
				if g == nil {
					g = core.ComputeGuards(fn, nil)
				}
				owned := false
				for fact := range g.Facts(b) {
					bo, ok := fact.If.Cond.(*ssa.BinOp)
					if !ok {
						continue
					}
					if !((bo.Op == token.EQL && fact.Branch) || (bo.Op == token.NEQ && !fact.Branch)) {
						continue
					}
					for _, pair := range [][2]ssa.Value{{bo.X, bo.Y}, {bo.Y, bo.X}} {
						u, ok := pair[0].(*ssa.UnOp)
						if !ok {
							continue
						}
						gfa, ok := u.X.(*ssa.FieldAddr)
						if ok && fieldName(gfa) == "Pkg" && sameEntry(gfa.X, fa.X) && sameValue(pair[1], recv) {
							owned = true
						}
					}
				}
				key := fmt.Sprintf("%s|%s.%s of an entry of own.%s", core.SSAName(fn), typ, f, field)
				if seen[key] {
					continue
				}
				seen[key] = true
				r.Decide(owned, rule, key, c.Pos(st.Pos()), fmt.Sprintf("the entry may be inherited from a used package; the store is control-dependent on entry.Pkg == receiver: %v", owned))
			}
		}
	}
}

// c13owner: every ownership test of the package code (C13.push, C13.retract, C13.foreign) compares an
// entry's Pkg field with a package. An entry created without an owner fails all of them: before a7507bd the
// placeholder Export makes for a variable that is exported before it is defined had none, and unexport /
// makunbound never retracted it from the users. The rule: every entry (VarVal, FuncInfo) created in a function
// of package slip and stored into a vars or funcs table has its Pkg field assigned in that function.
func c13owner(c *core.Ctx, r *core.Reporter) {
	const rule = "C13.owner"
	r.Rule(rule, "every VarVal or FuncInfo created in a function of package slip and stored into a package's vars or funcs table has its Pkg field assigned there: the ownership tests that keep visibility coherent compare that field", 8)
	var fns []*ssa.Function
	for _, fn := range c.ModuleFuncs() {
		p := fn.Pkg
		if p == nil && fn.Parent() != nil {
			p = fn.Parent().Pkg
		}
		if p != nil && p.Pkg.Path() == core.SlipPath {
			fns = append(fns, fn)
		}
	}
	sort.Slice(fns, func(i, j int) bool { return core.SSAName(fns[i]) < core.SSAName(fns[j]) })
	for _, fn := range fns {
		n := 0
		for _, b := range fn.Blocks {
			for _, in := range b.Instrs {
				mu, ok := in.(*ssa.MapUpdate)
				if !ok {
					continue
				}
				_, field, ok := tableOf(mu.Map)
				if !ok {
					continue
				}
				// fresh entries: an allocation in this function or the result of a constructor call of package slip
				var entry ssa.Value
				switch x := mu.Value.(type) {
				case *ssa.Alloc:
					entry = x
				case *ssa.Call:
					if cal := x.Call.StaticCallee(); cal != nil && cal.Pkg != nil && cal.Pkg.Pkg.Path() == core.SlipPath {
						entry = x
					}
				}
				if entry == nil {
					continue
				}
				n++
				assigned := false
				if entry.Referrers() != nil {
					for _, ref := range *entry.Referrers() {
						fa, ok := ref.(*ssa.FieldAddr)
						if !ok || fieldName(fa) != "Pkg" || fa.Referrers() == nil {
							continue
						}
						for _, r2 := range *fa.Referrers() {
							if st, ok := r2.(*ssa.Store); ok && st.Addr == ssa.Value(fa) {
								if cst, isC := st.Val.(*ssa.Const); !isC || !cst.IsNil() {
									assigned = true
								}
							}
						}
					}
				}
				// built as a composite literal and copied into the allocation: the literal's Pkg field
				if al, ok := entry.(*ssa.Alloc); ok && !assigned {
					for _, ref := range *al.Referrers() {
						st, ok := ref.(*ssa.Store)
						if !ok || st.Addr != ssa.Value(al) {
							continue
						}
						if ld, ok := st.Val.(*ssa.UnOp); ok {
							if lit, ok := ld.X.(*ssa.Alloc); ok {
								for _, r2 := range *lit.Referrers() {
									if fa, ok := r2.(*ssa.FieldAddr); ok && fieldName(fa) == "Pkg" && fa.Referrers() != nil {
										for _, r3 := range *fa.Referrers() {
											if s3, ok := r3.(*ssa.Store); ok && s3.Addr == ssa.Value(fa) {
												assigned = true
											}
										}
									}
								}
							}
						}
					}
				}
				// assigned afterwards for every entry of the table: a loop over the same table storing Pkg
				if !assigned {
					for _, b2 := range fn.Blocks {
						for _, in2 := range b2.Instrs {
							st, ok := in2.(*ssa.Store)
							if !ok {
								continue
							}
							if fa, ok := st.Addr.(*ssa.FieldAddr); ok && fieldName(fa) == "Pkg" {
								if o, f := entrySource(fa.X, 0); o != nil && f == field {
									if ow, _, ok := tableOf(mu.Map); ok && sameValue(o, ow) && reachesInstr(mu, st) {
										assigned = true
									}
								}
							}
						}
					}
				}
				// a constructor that assigns it itself
				if call, ok := entry.(*ssa.Call); ok && !assigned {
					if cal := call.Call.StaticCallee(); cal != nil {
						for _, cb := range cal.Blocks {
							for _, cin := range cb.Instrs {
								if st, ok := cin.(*ssa.Store); ok {
									if fa, ok := st.Addr.(*ssa.FieldAddr); ok && fieldName(fa) == "Pkg" {
										assigned = true
									}
								}
							}
						}
					}
				}
				r.Decide(assigned, rule, fmt.Sprintf("%s|new entry #%d in %s", core.SSAName(fn), n, field), c.Pos(mu.Pos()), fmt.Sprintf("the new entry's Pkg is assigned before it is stored in the table: %v", assigned))
			}
		}
	}
}

// c13internal: the interpreter's own code calls Lisp functions by name (initialize-instance, slot-unbound,
// no-applicable-method, ...). A lookup by bare name resolves in the package that happens to be current, so it
// fails exactly when the user has moved to a package that does not use the defining one: before 72c4fb6 any
// error raised after (in-package 'p2) ended the REPL with a nil dereference. The rule: every call of
// slip.FindFunc / slip.MustFindFunc in the module with a constant name that is registered in a package other
// than common-lisp passes that package explicitly.
func c13internal(c *core.Ctx, r *core.Reporter) {
	const rule = "C13.internal"
	r.Rule(rule, "every lookup of a function by a constant name from Go code (slip.FindFunc / slip.MustFindFunc) whose name is registered in a package other than common-lisp names that package explicitly instead of relying on the current package", 4)
	ff := c.LookupFunc("", "FindFunc")
	mf := c.LookupFunc("", "MustFindFunc")
	if ff == nil || mf == nil {
		r.Undecided(rule, "slip.FindFunc", "-", "anchor does not resolve")
		return
	}
	ffn, mfn := c.SSAFunc(ff), c.SSAFunc(mf)
	seen := map[string]int{}
	for _, fn := range c.ModuleFuncs() {
		if fn.Pkg == nil || takesTestingT(fn) {
			continue
		}
		for _, b := range fn.Blocks {
			for _, in := range b.Instrs {
				call, ok := in.(*ssa.Call)
				if !ok {
					continue
				}
				cal := call.Call.StaticCallee()
				if cal != ffn && cal != mfn {
					continue
				}
				cst, ok := call.Call.Args[0].(*ssa.Const)
				if !ok || cst.Value == nil {
					continue
				}
				name := ""
				if cst.Value.Kind().String() == "String" {
					name = cst.Value.ExactString()
					if len(name) >= 2 {
						name = name[1 : len(name)-1]
					}
				}
				if name == "" {
					continue
				}
				if c.ByName("pkg/cl", name) != nil {
					continue // registered in common-lisp, which every package uses
				}
				home := "a package other than common-lisp"
				if b2 := c.ByName("", name); b2 != nil {
					home = core.RelPkg(b2.Pkg.PkgPath)
				}
				// the variadic pkgs argument: a nil slice constant when omitted
				explicit := true
				if len(call.Call.Args) > 1 {
					if k, isC := call.Call.Args[1].(*ssa.Const); isC && k.IsNil() {
						explicit = false
					}
				}
				key := fmt.Sprintf("%s|%s", core.SSAName(fn), name)
				seen[key]++
				if seen[key] > 1 {
					key = fmt.Sprintf("%s#%d", key, seen[key])
				}
				r.Decide(explicit, rule, key, c.Pos(call.Pos()), fmt.Sprintf("%q is registered in %s; the lookup names the package: %v", name, home, explicit))
			}
		}
	}
}
