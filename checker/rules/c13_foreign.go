package rules

import (
	"fmt"
	"go/token"
	"sort"

	"golang.org/x/tools/go/ssa"

	"slipcheck/core"
)

// c13foreign: a package's funcs and vars tables hold its own entries and the very entry objects of the
// packages it uses (inherited names). "No operation loses a package's own definitions": an operation on
// package P that rewrites an entry found in P's table rewrites another package's definition whenever the name
// was inherited. The rule: in every method of Package, a store into a definition field of an entry
// (FuncInfo.Doc/Create/Kind/Pkg, Export cleared on a FuncInfo or VarVal) that was read from the receiver's
// own table is control-dependent on `entry.Pkg == receiver`. Setting a variable's value and setting Export
// true (re-export of an inherited name) are not definition changes and are not judged.
func c13foreign(c *core.Ctx, r *core.Reporter) {
	const rule = "C13.foreign"
	r.Rule(rule, "a method of Package that rewrites a definition field of an entry read from its own funcs or vars table (function body, kind, owner; or clears the export flag) does so only under a test that the entry is owned by the receiver: an inherited entry is the used package's own definition", 3)
	var fns []*ssa.Function
	for _, fn := range c.ModuleFuncs() {
		if fn.Pkg != nil && fn.Pkg.Pkg.Path() == core.SlipPath && fn.Parent() == nil && fn.Signature.Recv() != nil &&
			core.IsNamed(fn.Signature.Recv().Type(), core.SlipPath, "Package") && len(fn.Params) > 0 {
			fns = append(fns, fn)
		}
	}
	sort.Slice(fns, func(i, j int) bool { return core.SSAName(fns[i]) < core.SSAName(fns[j]) })
	for _, fn := range fns {
		recv := fn.Params[0]
		var g *core.Guards
		seen := map[string]bool{}
		for _, b := range fn.Blocks {
			for _, in := range b.Instrs {
				st, ok := in.(*ssa.Store)
				if !ok {
					continue
				}
				fa, ok := st.Addr.(*ssa.FieldAddr)
				if !ok {
					continue
				}
				typ := ""
				switch {
				case core.IsNamed(fa.X.Type(), core.SlipPath, "FuncInfo"):
					typ = "FuncInfo"
				case core.IsNamed(fa.X.Type(), core.SlipPath, "VarVal"):
					typ = "VarVal"
				default:
					continue
				}
				f := fieldName(fa)
				switch f {
				case "Doc", "Create", "Kind", "Pkg":
					if typ != "FuncInfo" {
						continue
					}
				case "Export":
					if cst, ok := st.Val.(*ssa.Const); !ok || cst.Value == nil || cst.Value.String() != "false" {
						continue
					}
				default:
					continue
				}
				owner, field := entrySource(fa.X, 0)
				if owner == nil || !sameValue(owner, recv) {
					continue // a fresh entry, or an entry of another package's table (judged by C13.push/retract)
				}
				if g == nil {
					g = core.ComputeGuards(fn, nil)
				}
				owned := false
				for fact := range g.Facts(b) {
					bo, ok := fact.If.Cond.(*ssa.BinOp)
					if !ok {
						continue
					}
					if !((bo.Op == token.EQL && fact.Branch) || (bo.Op == token.NEQ && !fact.Branch)) {
						continue
					}
					for _, pair := range [][2]ssa.Value{{bo.X, bo.Y}, {bo.Y, bo.X}} {
						u, ok := pair[0].(*ssa.UnOp)
						if !ok {
							continue
						}
						gfa, ok := u.X.(*ssa.FieldAddr)
						if ok && fieldName(gfa) == "Pkg" && sameEntry(gfa.X, fa.X) && sameValue(pair[1], recv) {
							owned = true
						}
					}
				}
				key := fmt.Sprintf("%s|%s.%s of an entry of own.%s", core.SSAName(fn), typ, f, field)
				if seen[key] {
					continue
				}
				seen[key] = true
				r.Decide(owned, rule, key, c.Pos(st.Pos()), fmt.Sprintf("the entry may be inherited from a used package; the store is control-dependent on entry.Pkg == receiver: %v", owned))
			}
		}
	}
}
