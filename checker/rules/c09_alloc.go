package rules

import (
	"fmt"
	"go/token"
	"go/types"
	"sort"

	"golang.org/x/tools/go/ssa"

	"slipcheck/core"
	"slipcheck/lenflow"
)

// c09alloc: "never ... an unbounded allocation". An allocation whose size is a Lisp integer taken from the
// arguments (make([]T, n), bytes.Repeat(x, n), strings.Repeat(x, n)) is reached only when n was compared with
// an upper bound: on every path to the allocation an edge of a `n < limit`-style comparison (n on the small
// side, the other side not derived from n) is crossed, or the callee that delivered n checks it. Without a
// bound (make-list 100000000000) does not raise a condition, it takes the machine down.
func c09alloc(c *core.Ctx, r *core.Reporter) {
	const rule = "C09.alloc"
	r.Rule(rule, "every allocation in the built-in packages whose size derives from a Lisp integer argument is dominated by a comparison that bounds the size from above", 10)
	an := lenflow.New(c)
	type site struct {
		fn   *ssa.Function
		in   ssa.Instruction
		size ssa.Value
		what string
	}
	var sites []site
	// allocator helpers: module functions one of whose int parameters reaches a make/Repeat size (NewVector, ...)
	allocParam := map[*ssa.Function][]int{}
	for _, fn := range c.ModuleFuncs() {
		if fn.Pkg == nil || takesTestingT(fn) || fn.Parent() != nil {
			continue
		}
		for pi, p := range fn.Params {
			if !isIntValue(p) {
				continue
			}
			reaches := false
			for _, b := range fn.Blocks {
				for _, in := range b.Instrs {
					switch x := in.(type) {
					case *ssa.MakeSlice:
						if intRoots(x.Len, 0)[p] || intRoots(x.Cap, 0)[p] {
							reaches = true
						}
					case *ssa.Call:
						if cal := x.Call.StaticCallee(); cal != nil && cal.Name() == "Repeat" && len(x.Call.Args) == 2 && intRoots(x.Call.Args[1], 0)[p] {
							reaches = true
						}
					}
				}
			}
			if reaches {
				allocParam[fn] = append(allocParam[fn], pi)
			}
		}
	}
	// functions with an []int parameter an element of which reaches a make size (NewArray, Octets.Adjust, ...):
	// by function for static calls, by method name for calls through an interface (VectorLike.Adjust)
	allocDims := map[*ssa.Function]bool{}
	allocDimsNames := map[string]bool{}
	for _, fn := range c.ModuleFuncs() {
		if fn.Pkg == nil || takesTestingT(fn) || fn.Parent() != nil || fn.Blocks == nil {
			continue
		}
		for _, p := range fn.Params {
			if _, ok := p.Type().Underlying().(*types.Slice); !ok || !isIntList(p.Type()) {
				continue
			}
			elems := map[ssa.Value]bool{}
			for _, rf := range *p.Referrers() {
				if ia, ok := rf.(*ssa.IndexAddr); ok {
					for _, r2 := range *ia.Referrers() {
						if u, ok := r2.(*ssa.UnOp); ok {
							elems[u] = true
						}
					}
				}
			}
			for _, b := range fn.Blocks {
				for _, in := range b.Instrs {
					ms, ok := in.(*ssa.MakeSlice)
					if !ok {
						continue
					}
					for e := range elems {
						if intRoots(ms.Len, 0)[e] || intRoots(ms.Cap, 0)[e] {
							if cmpBoundsRoots(fn, ms.Block(), an.NoReturn, intRoots(ms.Len, 0)) {
								continue // the allocator bounds the size itself (NewArray, NewVector)
							}
							allocDims[fn] = true
							if fn.Signature.Recv() != nil {
								allocDimsNames[fn.Name()] = true
							}
						}
					}
				}
			}
		}
	}
	lispInt := func(v ssa.Value) bool {
		if derivesFromLispInt(v, 0) || core.IsNamed(v.Type(), core.SlipPath, "Fixnum") {
			return true
		}
		for r := range intRoots(v, 0) {
			if core.IsNamed(r.Type(), core.SlipPath, "Fixnum") {
				return true
			}
		}
		for r := range intRoots(v, 0) {
			if call, ok := r.(*ssa.Call); ok {
				if cal := call.Call.StaticCallee(); cal != nil && (cal.Name() == "getIntParam" || cal.Name() == "ParseInt" || cal.Name() == "Atoi") {
					return true
				}
			}
			if derivesFromLispInt(r, 0) {
				return true
			}
		}
		return false
	}
	for _, fn := range c.ModuleFuncs() {
		if fn.Pkg == nil || takesTestingT(fn) {
			continue
		}
		rel := core.RelPkg(fn.Pkg.Pkg.Path())
		if rel != "slip" && len(rel) < 4 || (rel != "slip" && rel[:4] != "pkg/") {
			continue
		}
		for _, b := range fn.Blocks {
			for _, in := range b.Instrs {
				switch x := in.(type) {
				case *ssa.Store:
					// a Lisp integer stored into a list of ints (the dimensions handed to an array allocator
					// behind an interface: VectorLike.Adjust, NewArray): the same obligation as a make size
					if ia, ok := x.Addr.(*ssa.IndexAddr); ok && isIntList(ia.X.Type()) && lispInt(x.Val) && handsDimsToAllocator(fn, allocDims, allocDimsNames) {
						sites = append(sites, site{fn, in, x.Val, "dimension list"})
					}
				case *ssa.MakeChan:
					if lispInt(x.Size) {
						sites = append(sites, site{fn, in, x.Size, "make(chan)"})
					}
				case *ssa.MakeSlice:
					if lispInt(x.Len) {
						sites = append(sites, site{fn, in, x.Len, "make"})
					} else if lispInt(x.Cap) {
						sites = append(sites, site{fn, in, x.Cap, "make(cap)"})
					}
				case *ssa.Call:
					cal := x.Call.StaticCallee()
					if cal != nil {
						for _, pi := range allocParam[cal] {
							if pi < len(x.Call.Args) && lispInt(x.Call.Args[pi]) {
								sites = append(sites, site{fn, in, x.Call.Args[pi], "size handed to " + cal.Name()})
							}
						}
					}
					if cal == nil || cal.Pkg == nil || cal.Name() != "Repeat" || len(x.Call.Args) != 2 {
						continue
					}
					if p := cal.Pkg.Pkg.Path(); p != "bytes" && p != "strings" {
						continue
					}
					if lispInt(x.Call.Args[1]) {
						sites = append(sites, site{fn, in, x.Call.Args[1], cal.Pkg.Pkg.Path() + ".Repeat"})
					}
				}
			}
		}
	}
	sort.SliceStable(sites, func(i, j int) bool {
		if core.SSAName(sites[i].fn) != core.SSAName(sites[j].fn) {
			return core.SSAName(sites[i].fn) < core.SSAName(sites[j].fn)
		}
		return sites[i].in.Pos() < sites[j].in.Pos()
	})
	// bounding functions: return a parameter only after comparing it with an upper bound on a raising branch
	// (boundParam); bounded sources: every return is a call of a bounding function / bounded source, or a
	// parameter or constant (getIntParam: its default is the caller's constant)
	bounding := map[*ssa.Function]bool{}
	for _, fn := range c.ModuleFuncs() {
		if fn.Pkg == nil || fn.Parent() != nil || fn.Blocks == nil {
			continue
		}
		for _, p := range fn.Params {
			if !isIntValue(p) {
				continue
			}
			returnsP, compares := false, false
			for _, b := range fn.Blocks {
				for _, in := range b.Instrs {
					switch x := in.(type) {
					case *ssa.Return:
						for _, rv := range x.Results {
							if rv == ssa.Value(p) {
								returnsP = true
							}
						}
					case *ssa.If:
						if bo, ok := x.Cond.(*ssa.BinOp); ok && (bo.Op == token.LSS || bo.Op == token.GTR || bo.Op == token.LEQ || bo.Op == token.GEQ) {
							if bo.X == ssa.Value(p) || bo.Y == ssa.Value(p) {
								compares = true
							}
						}
					}
				}
			}
			if returnsP && compares {
				bounding[fn] = true
			}
		}
	}
	boundedSource := map[*ssa.Function]bool{}
	for round := 0; round < 2; round++ {
		for _, fn := range c.ModuleFuncs() {
			if fn.Pkg == nil || fn.Parent() != nil || fn.Blocks == nil || fn.Signature.Results().Len() != 1 {
				continue
			}
			all, any := true, false
			for _, b := range fn.Blocks {
				ret, ok := b.Instrs[len(b.Instrs)-1].(*ssa.Return)
				if !ok {
					continue
				}
				for _, rv := range ret.Results {
					switch x := rv.(type) {
					case *ssa.Call:
						if cal := x.Call.StaticCallee(); cal != nil && (bounding[cal] || boundedSource[cal]) {
							any = true
							continue
						}
						all = false
					case *ssa.Parameter, *ssa.Const:
					default:
						all = false
					}
				}
			}
			if all && any {
				boundedSource[fn] = true
			}
		}
	}
	boundCmp := func(fn *ssa.Function, at *ssa.BasicBlock, roots map[ssa.Value]bool) bool {
		return core.Separates(fn, at, an.NoReturn, func(ifi *ssa.If, branch bool) bool {
			bo, ok := ifi.Cond.(*ssa.BinOp)
			if !ok {
				return false
			}
			var small, big ssa.Value
			switch bo.Op {
			case token.LSS, token.LEQ:
				small, big = bo.X, bo.Y
			case token.GTR, token.GEQ:
				small, big = bo.Y, bo.X
			default:
				return false
			}
			if !branch {
				small, big = big, small
			}
			hit := false
			for v := range intRoots(small, 0) {
				if roots[v] {
					hit = true
				}
			}
			if !hit {
				return false
			}
			for v := range intRoots(big, 0) {
				if roots[v] {
					return false
				}
			}
			if cst, ok := big.(*ssa.Const); ok && cst.Value != nil && cst.Int64() <= 0 {
				return false
			}
			return true
		})
	}
	seen := map[string]int{}
	for _, s := range sites {
		roots := intRoots(s.size, 0)
		// each Lisp-integer root of the size is bounded where it enters (before the conversion) or on the way
		perRoot := true
		nRoots := 0
		for rv := range roots {
			var operand ssa.Value
			switch x := rv.(type) {
			case *ssa.Convert:
				if !core.IsNamed(x.X.Type(), core.SlipPath, "Fixnum") {
					continue
				}
				operand = x.X
			case *ssa.Call:
				cal := x.Call.StaticCallee()
				if cal == nil {
					if !(x.Call.IsInvoke() && x.Call.Method.Name() == "Int64") {
						continue
					}
				} else if boundedSource[cal] || bounding[cal] {
					nRoots++
					continue // bounded by the function that delivered it
				} else if cal.Name() != "Int64" && cal.Name() != "getIntParam" && cal.Name() != "ParseInt" && cal.Name() != "Atoi" {
					continue
				}
				operand = x
			default:
				if !core.IsNamed(rv.Type(), core.SlipPath, "Fixnum") {
					continue
				}
				// judged through its conversion when it reaches the size only through one
				viaConvert := false
				for other := range roots {
					if cv, ok := other.(*ssa.Convert); ok && cv.X == rv {
						viaConvert = true
					}
				}
				if viaConvert {
					continue
				}
				if _, isInstr := rv.(ssa.Instruction); !isInstr {
					continue
				}
				operand = rv
			}
			nRoots++
			in, _ := rv.(ssa.Instruction)
			rs := map[ssa.Value]bool{rv: true, operand: true}
			for v := range intRoots(operand, 0) {
				rs[v] = true
			}
			ok := in != nil && boundCmp(s.fn, in.Block(), rs)
			if !ok {
				ok = boundCmp(s.fn, s.in.Block(), rs) && instrDominates(in, s.in)
			}
			if !ok {
				perRoot = false
			}
		}
		bounded := nRoots > 0 && perRoot
		if !bounded {
			bounded = core.Separates(s.fn, s.in.Block(), an.NoReturn, func(ifi *ssa.If, branch bool) bool {
				bo, ok := ifi.Cond.(*ssa.BinOp)
				if !ok {
					return false
				}
				var small, big ssa.Value
				switch bo.Op {
				case token.LSS, token.LEQ:
					small, big = bo.X, bo.Y
				case token.GTR, token.GEQ:
					small, big = bo.Y, bo.X
				default:
					return false
				}
				if !branch {
					small, big = big, small
				}
				// the size (or a value it is computed from) is on the small side, and the other side is not the size
				sr := intRoots(small, 0)
				br := intRoots(big, 0)
				hit := false
				for v := range sr {
					if roots[v] {
						hit = true
					}
				}
				if !hit {
					return false
				}
				for v := range br {
					if roots[v] {
						return false
					}
				}
				// a comparison with zero on the big side bounds nothing from above
				if cst, ok := big.(*ssa.Const); ok && cst.Value != nil && cst.Int64() <= 0 {
					return false
				}
				return true
			})
		}
		key := fmt.Sprintf("%s|%s", core.SSAName(s.fn), s.what)
		seen[key]++
		if seen[key] > 1 {
			key = fmt.Sprintf("%s#%d", key, seen[key])
		}
		if why, ok := allocExceptions[key]; ok && !bounded {
			r.Hold(rule, key, c.Pos(s.in.Pos()), "accepted by reading: "+why)
			continue
		}
		r.Decide(bounded, rule, key, c.Pos(s.in.Pos()), fmt.Sprintf("the size is compared with an upper bound on every path to the allocation: %v", bounded))
	}
}

// intRoots: the values an integer expression is computed from (through conversions, +/- and phis).
func intRoots(v ssa.Value, depth int) map[ssa.Value]bool {
	out := map[ssa.Value]bool{}
	var walk func(v ssa.Value, d int)
	walk = func(v ssa.Value, d int) {
		if d > 6 || v == nil || out[v] {
			return
		}
		out[v] = true
		switch x := v.(type) {
		case *ssa.Convert:
			walk(x.X, d+1)
		case *ssa.ChangeType:
			walk(x.X, d+1)
		case *ssa.BinOp:
			if x.Op == token.ADD || x.Op == token.SUB || x.Op == token.MUL || x.Op == token.QUO {
				walk(x.X, d+1)
				walk(x.Y, d+1)
			}
		case *ssa.Phi:
			for _, e := range x.Edges {
				walk(e, d+1)
			}
		case *ssa.Extract:
			walk(x.Tuple, d+1)
		case *ssa.TypeAssert:
			walk(x.X, d+1)
		}
	}
	walk(v, depth)
	return out
}

var allocExceptions = map[string]string{
	"pkg/watch.(framerChangedCaller).Call|size handed to drawBorder": "the Lisp integer (the frame's left column) is subtracted from the terminal width: the size is bounded above by the width of the terminal; reaching the call needs a connected watch client",
	"pkg/watch.drawFrame|size handed to drawBorder":                  "the Lisp integer (the frame's left column) is subtracted from the terminal width: the size is bounded above by the width of the terminal; reaching the call needs a connected watch client",
}

// isIntList: []int, [N]int or a pointer to one.
func isIntList(t types.Type) bool {
	if p, ok := t.Underlying().(*types.Pointer); ok {
		t = p.Elem()
	}
	var el types.Type
	switch x := t.Underlying().(type) {
	case *types.Slice:
		el = x.Elem()
	case *types.Array:
		el = x.Elem()
	default:
		return false
	}
	b, ok := el.Underlying().(*types.Basic)
	return ok && b.Kind() == types.Int
}

// handsDimsToAllocator: fn passes a list of ints to a function (or, through an interface, to a method of a name)
// that sizes an allocation by one of its elements.
func handsDimsToAllocator(fn *ssa.Function, allocDims map[*ssa.Function]bool, names map[string]bool) bool {
	for _, b := range fn.Blocks {
		for _, in := range b.Instrs {
			call, ok := in.(ssa.CallInstruction)
			if !ok {
				continue
			}
			cc := call.Common()
			hasList := false
			for _, a := range cc.Args {
				if _, ok := a.Type().Underlying().(*types.Slice); ok && isIntList(a.Type()) {
					hasList = true
				}
			}
			if !hasList {
				continue
			}
			if cc.IsInvoke() {
				if names[cc.Method.Name()] {
					return true
				}
			} else if cal := cc.StaticCallee(); cal != nil && allocDims[cal] {
				return true
			}
		}
	}
	return false
}

// cmpBoundsRoots: every path to block at crosses a comparison with one of roots on the small side and none of
// them on the big side (an upper bound for the value computed from roots).
func cmpBoundsRoots(fn *ssa.Function, at *ssa.BasicBlock, noReturn func(*ssa.Function) bool, roots map[ssa.Value]bool) bool {
	return core.Separates(fn, at, noReturn, func(ifi *ssa.If, branch bool) bool {
		bo, ok := ifi.Cond.(*ssa.BinOp)
		if !ok {
			return false
		}
		var small, big ssa.Value
		switch bo.Op {
		case token.LSS, token.LEQ:
			small, big = bo.X, bo.Y
		case token.GTR, token.GEQ:
			small, big = bo.Y, bo.X
		default:
			return false
		}
		if !branch {
			small, big = big, small
		}
		hit := false
		for v := range intRoots(small, 0) {
			if roots[v] {
				hit = true
			}
		}
		if !hit {
			return false
		}
		for v := range intRoots(big, 0) {
			if roots[v] {
				return false
			}
		}
		if cst, ok := big.(*ssa.Const); ok && cst.Value != nil && cst.Int64() <= 0 {
			return false
		}
		return true
	})
}
