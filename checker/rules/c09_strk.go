package rules

import (
	"fmt"
	"go/types"
	"sort"

	"golang.org/x/tools/go/ssa"

	"slipcheck/core"
	"slipcheck/lenflow"
)

// c09strk: constant positions in strings. Names of symbols, packages, keywords and the text of Lisp strings
// come from the program, and the empty string is a legal value of each ((intern ""), (make-symbol ""), ||, "").
// name[0], name[1:] and name[:k] on such a value are Go runtime panics unless the length was tested. The rule:
// every s[k] (k >= 0) and every s[k:], s[:k] (k >= 1) with constant k on a string is reached only with
// len(s) > k (>= k for slices) proven by the length engine (same engine as C09.idx).
func c09strk(c *core.Ctx, r *core.Reporter) {
	const rule = "C09.strk"
	r.Rule(rule, "every constant index s[k] and constant slice bound s[k:], s[:k] on a string is reached only with a proven length (same engine as C09.idx)", 70)
	an := lenflow.New(c)
	type site struct {
		fn   *ssa.Function
		in   ssa.Instruction
		need int
		have int
		root ssa.Value
		kind string
	}
	var sites []*site
	isStr := func(t types.Type) bool {
		b, ok := t.Underlying().(*types.Basic)
		return ok && b.Info()&types.IsString != 0
	}
	for _, fn := range c.ModuleFuncs() {
		if fn.Pkg == nil || takesTestingT(fn) || fn.Blocks == nil {
			continue
		}
		has := false
		for _, b := range fn.Blocks {
			for _, in := range b.Instrs {
				switch x := in.(type) {
				case *ssa.Lookup:
					if isStr(x.X.Type()) {
						if _, ok := x.Index.(*ssa.Const); ok {
							has = true
						}
					}
				case *ssa.Index:
					if isStr(x.X.Type()) {
						if _, ok := x.Index.(*ssa.Const); ok {
							has = true
						}
					}
				case *ssa.Slice:
					if isStr(x.X.Type()) {
						has = true
					}
				}
			}
		}
		if !has {
			continue
		}
		res := an.Analyze(fn, nil, nil, 0)
		res.Visit(func(in ssa.Instruction, st lenflow.State) {
			switch x := in.(type) {
			case *ssa.Index:
				// string indexing in current go/ssa
				if !isStr(x.X.Type()) {
					return
				}
				k, ok := x.Index.(*ssa.Const)
				if !ok || k.Value == nil || k.Int64() < 0 {
					return
				}
				if _, isC := x.X.(*ssa.Const); isC {
					return
				}
				ref := res.ResolveSlice(x.X)
				sites = append(sites, &site{fn: fn, in: in, need: int(k.Int64()) + 1 + ref.Off, have: res.LBRoot(st, ref.Root), root: ref.Root, kind: fmt.Sprintf("[%d]", k.Int64())})
			case *ssa.Lookup:
				if !isStr(x.X.Type()) {
					return
				}
				k, ok := x.Index.(*ssa.Const)
				if !ok || k.Value == nil || k.Int64() < 0 {
					return
				}
				if _, isC := x.X.(*ssa.Const); isC {
					return
				}
				ref := res.ResolveSlice(x.X)
				sites = append(sites, &site{fn: fn, in: in, need: int(k.Int64()) + 1 + ref.Off, have: res.LBRoot(st, ref.Root), root: ref.Root, kind: fmt.Sprintf("[%d]", k.Int64())})
			case *ssa.Slice:
				if !isStr(x.X.Type()) {
					return
				}
				if _, isC := x.X.(*ssa.Const); isC {
					return
				}
				ref := res.ResolveSlice(x.X)
				for _, bnd := range []struct {
					v    ssa.Value
					kind string
				}{{x.Low, "[%d:]"}, {x.High, "[:%d]"}} {
					k, ok := bnd.v.(*ssa.Const)
					if !ok || k.Value == nil || k.Int64() < 1 {
						continue
					}
					sites = append(sites, &site{fn: fn, in: in, need: int(k.Int64()) + ref.Off, have: res.LBRoot(st, ref.Root), root: ref.Root, kind: fmt.Sprintf(bnd.kind, k.Int64())})
				}
			}
		})
	}
	sort.SliceStable(sites, func(i, j int) bool {
		if core.SSAName(sites[i].fn) != core.SSAName(sites[j].fn) {
			return core.SSAName(sites[i].fn) < core.SSAName(sites[j].fn)
		}
		return sites[i].in.Pos() < sites[j].in.Pos()
	})
	seen := map[string]int{}
	for _, s := range sites {
		key := fmt.Sprintf("%s|%s%s", core.SSAName(s.fn), rootDesc(s.root), s.kind)
		seen[key]++
		if seen[key] > 1 {
			key = fmt.Sprintf("%s#%d", key, seen[key])
		}
		detail := fmt.Sprintf("need len>=%d, proven len>=%d", s.need, s.have)
		if why, ok := strkExceptions[key]; ok && s.have < s.need {
			r.Hold(rule, key, c.Pos(s.in.Pos()), detail+"; accepted by reading: "+why)
			continue
		}
		r.Decide(s.have >= s.need, rule, key, c.Pos(s.in.Pos()), detail)
	}
}

var strkExceptions = map[string]string{
	"pkg/net.(serverStartCaller).Call|field:Addr[0]":         "guarded by `0 < len(server.Addr) &&` in the same condition; server is captured by the go statement above, so go/ssa loads it from a heap cell the length engine does not follow",
	"pkg/repl.nthHistoryOverride|call:getKey[0]#2":           "terminal editor: an override function runs only after a key was read into the key buffer (not Lisp-level input)",
	"pkg/repl.nthStashOverride|call:getKey[0]#2":             "terminal editor: an override function runs only after a key was read into the key buffer (not Lisp-level input)",
	"pkg/repl.unicodeOverride|call:getKey[0]#4":              "terminal editor: an override function runs only after a key was read into the key buffer (not Lisp-level input)",
	"pkg/flavors.(Flavor).LoadForm|extract#1(*ssa.Next)[1:]": "the keys of Flavor.initable are written in two places of defflavor.go, both as \":\"+name: never empty",
	"pkg/flavors.(Instance).Init|call:ToLower[1:]":           "key is strings.ToLower of a symbol whose length was tested to be at least 2 a few lines above (ToLower does not empty a string)",
	"pkg/swank.parseTraceSpec|call:TrimSpace[1:]":            "the string was just tested to begin with \"(\" (strings.HasPrefix): not empty",
}
