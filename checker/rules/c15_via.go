package rules

import (
	"go/types"
	"sort"

	"golang.org/x/tools/go/ssa"

	"slipcheck/core"
)

// c15via: the printing built-ins (princ, prin1, print, write, pprint, the ...-to-string forms, format's ~A and
// ~S) take a private copy of the default printer, set the controls they force, and render the object through
// that copy. An object's own Append method renders it with fixed settings: a print function that calls it for
// some type of object ("a string is always written quoted") ignores the forced escape setting and every
// *print-...* binding for that type, and princ/prin1 stop agreeing with ~A/~S. The rule: a function that owns
// a private Printer copy does not call the bare Append([]byte) []byte method of a Lisp object.
func c15via(c *core.Ctx, r *core.Reporter) {
	const rule = "C15.via"
	r.Rule(rule, "a printing function that takes a private copy of the default printer renders objects through that copy: it does not call an object's own Append([]byte) method, which ignores the printer controls", 8)
	dp := c.LookupFunc("", "DefaultPrinter")
	if dp == nil {
		r.Undecided(rule, "slip.DefaultPrinter", "-", "anchor does not resolve")
		return
	}
	dpFn := c.SSAFunc(dp)
	objT := c.LookupType("", "Object")
	var objI *types.Interface
	if objT != nil {
		objI, _ = objT.Underlying().(*types.Interface)
	}
	if objI == nil {
		r.Undecided(rule, "slip.Object", "-", "anchor does not resolve")
		return
	}
	var fns []*ssa.Function
	for _, fn := range c.ModuleFuncs() {
		if takesTestingT(fn) || fn.Blocks == nil || fn.Pkg == nil {
			continue
		}
		if core.RelPkg(fn.Pkg.Pkg.Path()) == "slip" {
			continue // the printer itself
		}
		owns := false
		for _, b := range fn.Blocks {
			for _, in := range b.Instrs {
				// p := *slip.DefaultPrinter(): a load through the call's result
				if u, ok := in.(*ssa.UnOp); ok {
					if call, ok := u.X.(*ssa.Call); ok && call.Call.StaticCallee() == dpFn {
						owns = true
					}
				}
			}
		}
		if owns {
			fns = append(fns, fn)
		}
	}
	sort.Slice(fns, func(i, j int) bool { return core.SSAName(fns[i]) < core.SSAName(fns[j]) })
	for _, fn := range fns {
		bad := ""
		pos := c.Pos(fn.Pos())
		for _, b := range fn.Blocks {
			for _, in := range b.Instrs {
				call, ok := in.(ssa.CallInstruction)
				if !ok {
					continue
				}
				cc := call.Common()
				var recv types.Type
				var sig *types.Signature
				name := ""
				if cc.IsInvoke() {
					name, recv = cc.Method.Name(), cc.Value.Type()
					sig, _ = cc.Method.Type().(*types.Signature)
				} else if f := cc.StaticCallee(); f != nil && f.Signature.Recv() != nil {
					name, recv, sig = f.Name(), f.Signature.Recv().Type(), f.Signature
				}
				if name != "Append" || sig == nil || sig.Params().Len() != 1 || sig.Results().Len() != 1 {
					continue
				}
				if !types.Implements(recv, objI) && !types.Implements(types.NewPointer(recv), objI) {
					continue
				}
				bad = "calls " + types.TypeString(recv, func(p *types.Package) string { return p.Name() }) + ".Append, which renders the object without the printer"
				pos = c.Pos(in.Pos())
			}
		}
		if bad != "" {
			r.Violate(rule, core.SSAName(fn), pos, bad)
		} else {
			r.Hold(rule, core.SSAName(fn), pos, "owns a private printer copy; every object is rendered through a Printer method")
		}
	}
}
