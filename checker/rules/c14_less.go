package rules

import (
	"fmt"
	"go/token"

	"golang.org/x/tools/go/ssa"

	"slipcheck/core"
)

// c14less: sort and stable-sort hand Go's sort package a less(i, j) closure that asks the user's predicate.
// Go's contract is a strict order: less(i, j) must mean "element i goes before element j". For each such
// closure in pkg/cl: the comparison is asked with a value derived from element i first and from element j
// second (through the :key function or not), and - when the comparison is a Lisp predicate call - less is
// "the predicate answered non-nil". Swapping the operands and negating the answer turns < into >=: still an
// ordering, but ties are then moved (stable-sort loses its stability).
func c14less(c *core.Ctx, r *core.Reporter) {
	const rule = "C14.less"
	r.Rule(rule, "every less(i, j) closure pkg/cl hands to sort.Slice / sort.SliceStable compares (element i, element j) in that order, through :key or not, and answers with `predicate result != nil` (never the negation of the swapped comparison): the strict order stable-sort's stability rests on", 4)
	for _, fn := range c.ModuleFuncs() {
		if fn.Pkg == nil || core.RelPkg(fn.Pkg.Pkg.Path()) != "pkg/cl" {
			continue
		}
		n := 0
		for _, b := range fn.Blocks {
			for _, in := range b.Instrs {
				call, ok := in.(*ssa.Call)
				if !ok {
					continue
				}
				g := call.Call.StaticCallee()
				if g == nil || g.Pkg == nil || g.Pkg.Pkg.Path() != "sort" || (g.Name() != "Slice" && g.Name() != "SliceStable") || len(call.Call.Args) != 2 {
					continue
				}
				var less *ssa.Function
				switch x := call.Call.Args[1].(type) {
				case *ssa.MakeClosure:
					less, _ = x.Fn.(*ssa.Function)
				case *ssa.Function:
					less = x
				}
				if less == nil || len(less.Params) != 2 {
					continue
				}
				n++
				key := fmt.Sprintf("%s|less #%d for sort.%s", core.SSAName(fn), n, g.Name())
				ok2, why := lessOrdered(less)
				r.Decide(ok2, rule, key, c.Pos(call.Pos()), why)
			}
		}
	}
}

// origin: 0 = derives from element i, 1 = from element j, -1 = neither / both
func lessOrigin(less *ssa.Function, v ssa.Value, depth int) int {
	if depth > 8 || v == nil {
		return -1
	}
	fromIdx := func(idx ssa.Value) int {
		for k, p := range less.Params {
			if idx == ssa.Value(p) {
				return k
			}
		}
		return -1
	}
	switch x := v.(type) {
	case *ssa.UnOp:
		if x.Op == token.MUL {
			if ia, ok := x.X.(*ssa.IndexAddr); ok {
				return fromIdx(ia.Index)
			}
		}
	case *ssa.Index:
		return fromIdx(x.Index)
	case *ssa.Phi:
		o := -2
		for _, e := range x.Edges {
			eo := lessOrigin(less, e, depth+1)
			if o == -2 {
				o = eo
			} else if o != eo {
				return -1
			}
		}
		if o == -2 {
			return -1
		}
		return o
	case *ssa.Call:
		// key function applied to one element
		if x.Call.IsInvoke() && len(x.Call.Args) >= 2 {
			if els, ok := listLiteral(x.Call.Args[1]); ok && len(els) == 1 {
				return lessOrigin(less, els[0], depth+1)
			}
		}
	case *ssa.TypeAssert:
		return lessOrigin(less, x.X, depth+1)
	case *ssa.Extract:
		return lessOrigin(less, x.Tuple, depth+1)
	case *ssa.MakeInterface:
		return lessOrigin(less, x.X, depth+1)
	case *ssa.ChangeType:
		return lessOrigin(less, x.X, depth+1)
	case *ssa.Convert:
		return lessOrigin(less, x.X, depth+1)
	}
	return -1
}

func lessOrdered(less *ssa.Function) (bool, string) {
	found := false
	for _, b := range less.Blocks {
		ret, ok := b.Instrs[len(b.Instrs)-1].(*ssa.Return)
		if !ok || len(ret.Results) != 1 {
			continue
		}
		var leaves []ssa.Value
		var walk func(v ssa.Value, d int)
		walk = func(v ssa.Value, d int) {
			if phi, ok := v.(*ssa.Phi); ok && d < 5 {
				for _, e := range phi.Edges {
					walk(e, d+1)
				}
				return
			}
			leaves = append(leaves, v)
		}
		walk(ret.Results[0], 0)
		for _, v := range leaves {
			switch x := v.(type) {
			case *ssa.Const:
				continue
			case *ssa.BinOp:
				// predicate.Call(s, List{a, b}, d) != nil
				var callv *ssa.Call
				if k, ok := x.Y.(*ssa.Const); ok && k.IsNil() {
					callv, _ = x.X.(*ssa.Call)
				} else if k, ok := x.X.(*ssa.Const); ok && k.IsNil() {
					callv, _ = x.Y.(*ssa.Call)
				}
				if callv != nil && callv.Call.IsInvoke() && len(callv.Call.Args) >= 2 {
					els, ok := listLiteral(callv.Call.Args[1])
					if !ok || len(els) != 2 {
						return false, "the predicate is not called with a two element list"
					}
					found = true
					a, bb := lessOrigin(less, els[0], 0), lessOrigin(less, els[1], 0)
					if a != 0 || bb != 1 {
						return false, fmt.Sprintf("the predicate is asked about (element %s, element %s): less(i, j) must ask about (element i, element j)", ijName(a), ijName(bb))
					}
					if x.Op != token.NEQ {
						return false, "less is the negation of the predicate's answer: not a strict order, ties are moved"
					}
					continue
				}
				// plain Go comparison of two values derived from the elements (strings, numbers)
				a, bb := lessOrigin(less, x.X, 0), lessOrigin(less, x.Y, 0)
				if a >= 0 && bb >= 0 {
					found = true
					if !((x.Op == token.LSS && a == 0 && bb == 1) || (x.Op == token.GTR && a == 1 && bb == 0)) {
						return false, "the Go comparison is not strictly element i before element j"
					}
				}
			case *ssa.Call:
				g := x.Call.StaticCallee()
				if g != nil && len(x.Call.Args) == 2 {
					found = true
					a, bb := lessOrigin(less, x.Call.Args[0], 0), lessOrigin(less, x.Call.Args[1], 0)
					if a != 0 || bb != 1 {
						return false, fmt.Sprintf("%s is asked about (element %s, element %s): less(i, j) must ask about (element i, element j)", g.Name(), ijName(a), ijName(bb))
					}
				}
			case *ssa.UnOp:
				if x.Op == token.NOT {
					return false, "less is a negated comparison: not a strict order, ties are moved"
				}
			}
		}
	}
	if !found {
		return true, "no comparison of the two elements recognised in the closure (not judged)"
	}
	return true, "compares (element i, element j) in that order and answers with the predicate's own verdict"
}

func ijName(o int) string {
	switch o {
	case 0:
		return "i"
	case 1:
		return "j"
	}
	return "?"
}
