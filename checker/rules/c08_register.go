package rules

import (
	"fmt"
	"go/token"
	"sort"

	"golang.org/x/tools/go/ssa"

	"slipcheck/core"
)

// c08register: calls compiled before their function exists are bound to the *Lambda that CompileList stores
// in Package.lambdas under the name. A definition that registers a fresh FuncInfo under that name without
// rewriting that lambda leaves every such compiled call on a body that raises undefined-function (or, before
// the repair b434f4e, on an argument list of length zero). The rule: every function of package slip that stores
// a freshly allocated *FuncInfo into a Package.funcs map reaches (itself or through static calls inside package
// slip, depth <= 2) either a store into the Forms field of a Lambda obtained from a Package.lambdas lookup
// (the patch) or a store into Package.lambdas under the same function (the placeholder's creation).
func c08register(c *core.Ctx, r *core.Reporter) {
	const rule = "C08.register"
	r.Rule(rule, "every function of package slip that registers a freshly allocated FuncInfo in a Package.funcs map also rewrites (Forms of) the Lambda found under that name in Package.lambdas, or creates that entry: otherwise calls compiled before the definition stay bound to the undefined placeholder", 3)
	var fns []*ssa.Function
	for _, fn := range c.ModuleFuncs() {
		p := fn.Pkg
		if p == nil && fn.Parent() != nil {
			p = fn.Parent().Pkg
		}
		if p != nil && p.Pkg.Path() == core.SlipPath {
			fns = append(fns, fn)
		}
	}
	sort.Slice(fns, func(i, j int) bool { return core.SSAName(fns[i]) < core.SSAName(fns[j]) })
	for _, fn := range fns {
		if !registersFreshFuncInfo(fn) {
			continue
		}
		ok := reachesLambdaPatch(fn, 0, map[*ssa.Function]bool{})
		r.Decide(ok, rule, core.SSAName(fn), c.Pos(fn.Pos()), fmt.Sprintf("registers a fresh FuncInfo in Package.funcs; rewrites or creates the Package.lambdas entry of the name: %v", ok))
	}
}

func isPackageMapField(v ssa.Value, field string) bool {
	// v is the map operand: a load of a FieldAddr of Package.<field>
	u, ok := v.(*ssa.UnOp)
	if !ok {
		return false
	}
	fa, ok := u.X.(*ssa.FieldAddr)
	if !ok || !core.IsNamed(fa.X.Type(), core.SlipPath, "Package") {
		return false
	}
	return fieldName(fa) == field
}

func registersFreshFuncInfo(fn *ssa.Function) bool {
	for _, b := range fn.Blocks {
		for _, in := range b.Instrs {
			mu, ok := in.(*ssa.MapUpdate)
			if !ok || !isPackageMapField(mu.Map, "funcs") {
				continue
			}
			if al, ok := mu.Value.(*ssa.Alloc); ok && core.IsNamed(al.Type(), core.SlipPath, "FuncInfo") {
				return true
			}
		}
	}
	return false
}

func lambdaFromLambdasMap(v ssa.Value, depth int) bool {
	if depth > 6 {
		return false
	}
	switch x := v.(type) {
	case *ssa.Lookup:
		return isPackageMapField(x.X, "lambdas")
	case *ssa.Extract:
		return lambdaFromLambdasMap(x.Tuple, depth+1)
	case *ssa.Phi:
		for _, e := range x.Edges {
			if lambdaFromLambdasMap(e, depth+1) {
				return true
			}
		}
	case *ssa.UnOp:
		return lambdaFromLambdasMap(x.X, depth+1)
	}
	return false
}

func reachesLambdaPatch(fn *ssa.Function, depth int, seen map[*ssa.Function]bool) bool {
	if fn == nil || seen[fn] || depth > 2 || fn.Blocks == nil {
		return false
	}
	seen[fn] = true
	for _, b := range fn.Blocks {
		for _, in := range b.Instrs {
			switch x := in.(type) {
			case *ssa.MapUpdate:
				if isPackageMapField(x.Map, "lambdas") {
					return true
				}
			case *ssa.Store:
				if fa, ok := x.Addr.(*ssa.FieldAddr); ok && fieldName(fa) == "Forms" &&
					core.IsNamed(fa.X.Type(), core.SlipPath, "Lambda") && lambdaFromLambdasMap(fa.X, 0) {
					return true
				}
			case ssa.CallInstruction:
				if cal := x.Common().StaticCallee(); cal != nil && cal.Pkg != nil && cal.Pkg.Pkg.Path() == core.SlipPath {
					if reachesLambdaPatch(cal, depth+1, seen) {
						return true
					}
				}
			}
		}
	}
	return false
}

// c08visible: the placeholder FuncInfo (no Doc) that CompileList registers for a forward reference must not
// be handed out as a definition: with it fboundp, symbol-function, describe, defgeneric and defmethod answered
// differently depending on whether some caller of the name had been compiled earlier. The rule: every exported
// function of package slip that returns a *FuncInfo read from a Package.funcs map (directly or through
// unexported functions of package slip) compares the Doc field of a FuncInfo with nil.
func c08visible(c *core.Ctx, r *core.Reporter) {
	const rule = "C08.visible"
	r.Rule(rule, "every exported function of package slip that returns a *FuncInfo looked up in a Package.funcs map tests its Doc field against nil (the forward-reference placeholder has none and is not a definition)", 2)
	for _, fn := range c.ModuleFuncs() {
		if fn.Pkg == nil || fn.Pkg.Pkg.Path() != core.SlipPath || fn.Parent() != nil {
			continue
		}
		obj := fn.Object()
		if obj == nil || !obj.Exported() {
			continue
		}
		res := fn.Signature.Results()
		idx := -1
		for i := 0; i < res.Len(); i++ {
			if core.IsNamed(res.At(i).Type(), core.SlipPath, "FuncInfo") {
				idx = i
			}
		}
		if idx < 0 {
			continue
		}
		if !returnsFuncsLookup(fn, idx, 0, map[*ssa.Function]bool{}) {
			continue
		}
		ok := testsDocNil(fn)
		r.Decide(ok, rule, core.SSAName(fn), c.Pos(fn.Pos()), fmt.Sprintf("returns a FuncInfo read from Package.funcs; Doc compared with nil before returning: %v", ok))
	}
}

func returnsFuncsLookup(fn *ssa.Function, idx, depth int, seen map[*ssa.Function]bool) bool {
	if fn == nil || fn.Blocks == nil || seen[fn] || depth > 3 {
		return false
	}
	seen[fn] = true
	for _, b := range fn.Blocks {
		ret, ok := b.Instrs[len(b.Instrs)-1].(*ssa.Return)
		if !ok || idx >= len(ret.Results) {
			continue
		}
		if fromFuncsLookup(ret.Results[idx], depth, seen, map[ssa.Value]bool{}) {
			return true
		}
	}
	return false
}

func fromFuncsLookup(v ssa.Value, depth int, seen map[*ssa.Function]bool, vs map[ssa.Value]bool) bool {
	if vs[v] {
		return false
	}
	vs[v] = true
	switch x := v.(type) {
	case *ssa.Lookup:
		return isPackageMapField(x.X, "funcs")
	case *ssa.Extract:
		return fromFuncsLookup(x.Tuple, depth, seen, vs)
	case *ssa.Phi:
		for _, e := range x.Edges {
			if fromFuncsLookup(e, depth, seen, vs) {
				return true
			}
		}
	case *ssa.UnOp:
		if al, ok := x.X.(*ssa.Alloc); ok {
			// a named result or local: any store into it
			for _, ref := range *al.Referrers() {
				if st, ok := ref.(*ssa.Store); ok && st.Addr == ssa.Value(al) && fromFuncsLookup(st.Val, depth, seen, vs) {
					return true
				}
			}
			return false
		}
		return fromFuncsLookup(x.X, depth, seen, vs)
	case *ssa.Call:
		if cal := x.Call.StaticCallee(); cal != nil && cal.Pkg != nil && cal.Pkg.Pkg.Path() == core.SlipPath && cal.Object() != nil && !cal.Object().Exported() {
			res := cal.Signature.Results()
			for i := 0; i < res.Len(); i++ {
				if core.IsNamed(res.At(i).Type(), core.SlipPath, "FuncInfo") && returnsFuncsLookup(cal, i, depth+1, seen) {
					return true
				}
			}
		}
	}
	return false
}

func testsDocNil(fn *ssa.Function) bool {
	for _, b := range fn.Blocks {
		for _, in := range b.Instrs {
			bo, ok := in.(*ssa.BinOp)
			if !ok || (bo.Op != token.EQL && bo.Op != token.NEQ) {
				continue
			}
			for _, side := range [][2]ssa.Value{{bo.X, bo.Y}, {bo.Y, bo.X}} {
				cst, isC := side[1].(*ssa.Const)
				if !isC || !cst.IsNil() {
					continue
				}
				if u, ok := side[0].(*ssa.UnOp); ok {
					if fa, ok := u.X.(*ssa.FieldAddr); ok && fieldName(fa) == "Doc" && core.IsNamed(fa.X.Type(), core.SlipPath, "FuncInfo") {
						return true
					}
				}
			}
		}
	}
	return false
}
