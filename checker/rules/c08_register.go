package rules

import (
	"fmt"
	"go/token"
	"go/types"
	"sort"

	"golang.org/x/tools/go/ssa"

	"slipcheck/core"
)

// c08register: calls compiled before their function exists are bound to the *Lambda that CompileList stores
// in Package.lambdas under the name. A definition that registers a fresh FuncInfo under that name without
// rewriting that lambda leaves every such compiled call on a body that raises undefined-function (or, before
// the repair b434f4e, on an argument list of length zero). The rule: every function of package slip that stores
// a freshly allocated *FuncInfo into a Package.funcs map reaches (itself or through static calls inside package
// slip, depth <= 2) either a store into the Forms field of a Lambda obtained from a Package.lambdas lookup
// (the patch) or a store into Package.lambdas under the same function (the placeholder's creation).
func c08register(c *core.Ctx, r *core.Reporter) {
	const rule = "C08.register"
	r.Rule(rule, "every store of a freshly allocated FuncInfo into the funcs table of a package is accompanied, in the same function, by a rewrite (Forms of the Lambda found under that name) or the creation of the entry in the lambdas table of that same package, directly or through a method called on that package: otherwise calls compiled before the definition stay bound to the undefined placeholder", 5)
	var fns []*ssa.Function
	for _, fn := range c.ModuleFuncs() {
		p := fn.Pkg
		if p == nil && fn.Parent() != nil {
			p = fn.Parent().Pkg
		}
		if p != nil && p.Pkg.Path() == core.SlipPath {
			fns = append(fns, fn)
		}
	}
	sort.Slice(fns, func(i, j int) bool { return core.SSAName(fns[i]) < core.SSAName(fns[j]) })
	for _, fn := range fns {
		n := 0
		for _, b := range fn.Blocks {
			for _, in := range b.Instrs {
				mu, ok := in.(*ssa.MapUpdate)
				if !ok {
					continue
				}
				owner := packageOfTable(mu.Map, "funcs")
				if owner == nil {
					continue
				}
				if al, ok := mu.Value.(*ssa.Alloc); !ok || !core.IsNamed(al.Type(), core.SlipPath, "FuncInfo") {
					continue
				}
				n++
				ok2 := patchesLambdasOf(fn, owner, 0, map[*ssa.Function]bool{})
				r.Decide(ok2, rule, fmt.Sprintf("%s|registration #%d", core.SSAName(fn), n), c.Pos(mu.Pos()), fmt.Sprintf("a fresh FuncInfo is stored in a package's funcs; the lambdas entry of the same package is rewritten or created: %v", ok2))
			}
		}
	}
}

// packageOfTable: v is a load of field `field` of a Package; returns the package value.
func packageOfTable(v ssa.Value, field string) ssa.Value {
	u, ok := v.(*ssa.UnOp)
	if !ok {
		return nil
	}
	fa, ok := u.X.(*ssa.FieldAddr)
	if !ok || !core.IsNamed(fa.X.Type(), core.SlipPath, "Package") || fieldName(fa) != field {
		return nil
	}
	return fa.X
}

func isPackageMapField(v ssa.Value, field string) bool {
	return packageOfTable(v, field) != nil
}

func lambdaFromLambdasOf(v ssa.Value, owner ssa.Value, depth int) bool {
	if depth > 6 {
		return false
	}
	switch x := v.(type) {
	case *ssa.Lookup:
		o := packageOfTable(x.X, "lambdas")
		return o != nil && sameValue(o, owner)
	case *ssa.Extract:
		return lambdaFromLambdasOf(x.Tuple, owner, depth+1)
	case *ssa.Phi:
		for _, e := range x.Edges {
			if lambdaFromLambdasOf(e, owner, depth+1) {
				return true
			}
		}
	case *ssa.UnOp:
		return lambdaFromLambdasOf(x.X, owner, depth+1)
	}
	return false
}

// patchesLambdasOf: fn stores into owner.lambdas, or into Forms of a Lambda looked up in owner.lambdas, or
// calls a method of package slip with owner as receiver that does so on its receiver.
func patchesLambdasOf(fn *ssa.Function, owner ssa.Value, depth int, seen map[*ssa.Function]bool) bool {
	if fn == nil || depth > 2 || fn.Blocks == nil {
		return false
	}
	for _, b := range fn.Blocks {
		for _, in := range b.Instrs {
			switch x := in.(type) {
			case *ssa.MapUpdate:
				if o := packageOfTable(x.Map, "lambdas"); o != nil && sameValue(o, owner) {
					return true
				}
			case *ssa.Store:
				if fa, ok := x.Addr.(*ssa.FieldAddr); ok && fieldName(fa) == "Forms" &&
					core.IsNamed(fa.X.Type(), core.SlipPath, "Lambda") && lambdaFromLambdasOf(fa.X, owner, 0) {
					return true
				}
			case ssa.CallInstruction:
				cal := x.Common().StaticCallee()
				if cal == nil || cal.Pkg == nil || cal.Pkg.Pkg.Path() != core.SlipPath || cal.Signature.Recv() == nil || len(x.Common().Args) == 0 {
					continue
				}
				if !sameValue(x.Common().Args[0], owner) || len(cal.Params) == 0 || seen[cal] {
					continue
				}
				seen[cal] = true
				if patchesLambdasOf(cal, cal.Params[0], depth+1, seen) {
					return true
				}
			}
		}
	}
	return false
}

// c08visible: the placeholder FuncInfo (no Doc) that CompileList registers for a forward reference must not
// be handed out as a definition: with it fboundp, symbol-function, describe, defgeneric and defmethod answered
// differently depending on whether some caller of the name had been compiled earlier. The rule: every exported
// function of package slip that returns a *FuncInfo read from a Package.funcs map (directly or through
// unexported functions of package slip) compares the Doc field of a FuncInfo with nil.
func c08visible(c *core.Ctx, r *core.Reporter) {
	const rule = "C08.visible"
	r.Rule(rule, "every exported function of package slip that returns a *FuncInfo looked up in a Package.funcs map tests its Doc field against nil (the forward-reference placeholder has none and is not a definition)", 2)
	for _, fn := range c.ModuleFuncs() {
		if fn.Pkg == nil || fn.Pkg.Pkg.Path() != core.SlipPath || fn.Parent() != nil {
			continue
		}
		obj := fn.Object()
		if obj == nil || !obj.Exported() {
			continue
		}
		res := fn.Signature.Results()
		idx := -1
		for i := 0; i < res.Len(); i++ {
			if core.IsNamed(res.At(i).Type(), core.SlipPath, "FuncInfo") {
				idx = i
			}
		}
		if idx < 0 {
			continue
		}
		if !returnsFuncsLookup(fn, idx, 0, map[*ssa.Function]bool{}) {
			continue
		}
		ok := testsDocNil(fn)
		r.Decide(ok, rule, core.SSAName(fn), c.Pos(fn.Pos()), fmt.Sprintf("returns a FuncInfo read from Package.funcs; Doc compared with nil before returning: %v", ok))
	}
}

func returnsFuncsLookup(fn *ssa.Function, idx, depth int, seen map[*ssa.Function]bool) bool {
	if fn == nil || fn.Blocks == nil || seen[fn] || depth > 3 {
		return false
	}
	seen[fn] = true
	for _, b := range fn.Blocks {
		ret, ok := b.Instrs[len(b.Instrs)-1].(*ssa.Return)
		if !ok || idx >= len(ret.Results) {
			continue
		}
		if fromFuncsLookup(ret.Results[idx], depth, seen, map[ssa.Value]bool{}) {
			return true
		}
	}
	return false
}

func fromFuncsLookup(v ssa.Value, depth int, seen map[*ssa.Function]bool, vs map[ssa.Value]bool) bool {
	if vs[v] {
		return false
	}
	vs[v] = true
	switch x := v.(type) {
	case *ssa.Lookup:
		return isPackageMapField(x.X, "funcs")
	case *ssa.Extract:
		return fromFuncsLookup(x.Tuple, depth, seen, vs)
	case *ssa.Phi:
		for _, e := range x.Edges {
			if fromFuncsLookup(e, depth, seen, vs) {
				return true
			}
		}
	case *ssa.UnOp:
		if al, ok := x.X.(*ssa.Alloc); ok {
			// a named result or local: any store into it
			for _, ref := range *al.Referrers() {
				if st, ok := ref.(*ssa.Store); ok && st.Addr == ssa.Value(al) && fromFuncsLookup(st.Val, depth, seen, vs) {
					return true
				}
			}
			return false
		}
		return fromFuncsLookup(x.X, depth, seen, vs)
	case *ssa.Call:
		if cal := x.Call.StaticCallee(); cal != nil && cal.Pkg != nil && cal.Pkg.Pkg.Path() == core.SlipPath && cal.Object() != nil && !cal.Object().Exported() {
			res := cal.Signature.Results()
			for i := 0; i < res.Len(); i++ {
				if core.IsNamed(res.At(i).Type(), core.SlipPath, "FuncInfo") && returnsFuncsLookup(cal, i, depth+1, seen) {
					return true
				}
			}
		}
	}
	return false
}

func testsDocNil(fn *ssa.Function) bool {
	for _, b := range fn.Blocks {
		for _, in := range b.Instrs {
			bo, ok := in.(*ssa.BinOp)
			if !ok || (bo.Op != token.EQL && bo.Op != token.NEQ) {
				continue
			}
			for _, side := range [][2]ssa.Value{{bo.X, bo.Y}, {bo.Y, bo.X}} {
				cst, isC := side[1].(*ssa.Const)
				if !isC || !cst.IsNil() {
					continue
				}
				if u, ok := side[0].(*ssa.UnOp); ok {
					if fa, ok := u.X.(*ssa.FieldAddr); ok && fieldName(fa) == "Doc" && core.IsNamed(fa.X.Type(), core.SlipPath, "FuncInfo") {
						return true
					}
				}
			}
		}
	}
	return false
}

// c08canon: "redefine a function between evaluations": compiled calls hold the *Lambda they will run. The
// package patches the lambda registered first under the name (C08.patch), so every call, whenever it was
// compiled, must hold that registered lambda. A creator handed to DefLambda builds calls on the lambda of the
// definition being made; where an older lambda is registered, the creator stored in FuncInfo.Create must be a
// closure over that registered lambda (it re-points the calls it creates). Before 1769684 the bare creator was
// stored: (defun g () (f)) (defun f () 1) (defun h () (f)) (defun f () 2) (h) => 1.
func c08canon(c *core.Ctx, r *core.Reporter) {
	const rule = "C08.canon"
	r.Rule(rule, "where Package.DefLambda finds a lambda already registered under the name, the creator it stores into FuncInfo.Create is a closure over that registered lambda, so calls compiled from then on are bound to the same lambda as the calls compiled before", 1)
	fnObj := c.LookupFunc("", "Package.DefLambda")
	if fnObj == nil {
		r.Undecided(rule, "slip.(Package).DefLambda", "-", "anchor does not resolve")
		return
	}
	fn := c.SSAFunc(fnObj)
	// the closures that capture a lambda read from the lambdas table
	capturing := map[ssa.Value]bool{}
	for _, b := range fn.Blocks {
		for _, in := range b.Instrs {
			mc, ok := in.(*ssa.MakeClosure)
			if !ok {
				continue
			}
			for _, bd := range mc.Bindings {
				if core.IsNamed(bd.Type(), core.SlipPath, "Lambda") && fromMapLookup(bd, 0) {
					capturing[mc] = true
				}
				// captured by reference: the variable holding the looked-up lambda
				if al, ok := bd.(*ssa.Alloc); ok {
					for _, ref := range *al.Referrers() {
						if s2, ok := ref.(*ssa.Store); ok && s2.Addr == ssa.Value(al) && core.IsNamed(s2.Val.Type(), core.SlipPath, "Lambda") && fromMapLookup(s2.Val, 0) {
							capturing[mc] = true
						}
					}
				}
			}
		}
	}
	n := 0
	for _, b := range fn.Blocks {
		for _, in := range b.Instrs {
			st, ok := in.(*ssa.Store)
			if !ok {
				continue
			}
			fa, ok := st.Addr.(*ssa.FieldAddr)
			if !ok || fieldName(fa) != "Create" || !core.IsNamed(fa.X.Type(), core.SlipPath, "FuncInfo") {
				continue
			}
			n++
			// the stored value: a phi of the parameter (no lambda registered yet) and the capturing closure
			okv := false
			var visit func(v ssa.Value, depth int)
			seen := map[ssa.Value]bool{}
			visit = func(v ssa.Value, depth int) {
				if depth > 6 || seen[v] {
					return
				}
				seen[v] = true
				switch x := v.(type) {
				case *ssa.Phi:
					for _, e := range x.Edges {
						visit(e, depth+1)
					}
				case *ssa.MakeClosure:
					if capturing[x] {
						okv = true
					}
				case *ssa.UnOp:
					if al, ok := x.X.(*ssa.Alloc); ok {
						for _, ref := range *al.Referrers() {
							if s2, ok := ref.(*ssa.Store); ok && s2.Addr == ssa.Value(al) {
								visit(s2.Val, depth+1)
							}
						}
					}
				}
			}
			visit(st.Val, 0)
			r.Decide(okv, rule, fmt.Sprintf("slip.(Package).DefLambda|FuncInfo.Create store #%d", n), c.Pos(st.Pos()), fmt.Sprintf("the creator registered can be the closure that binds new calls to the lambda already registered: %v", okv))
		}
	}
}

// c08refresh: a call compiled before its function exists runs through a forwarding placeholder that holds the
// creator of the function registered later (Package.Define: generics, structure functions, Go extensions).
// When the name is registered again the placeholder must be given the new creator, or calls compiled early keep
// running the first definition (arity, documentation and behaviour of a function that no longer exists).
// Obligations: every function that builds a forwarding placeholder also has, for a placeholder it finds
// already in place (a value obtained by a type test, not allocated there), a store of the creator it was
// given into that placeholder's creator field.
func c08refresh(c *core.Ctx, r *core.Reporter, rule string) {
	r.Rule(rule, "every function that installs a forwarding placeholder (allocates a slip.forward and stores a creator into it) also refreshes one it finds already installed: it stores the creator into the create field of a forward obtained by a type test, so a second registration of the name reaches calls compiled before the first", 1)
	isCreate := func(a ssa.Value) (*ssa.FieldAddr, bool) {
		fa, ok := a.(*ssa.FieldAddr)
		if !ok || fieldName(fa) != "create" {
			return nil, false
		}
		pt, ok := fa.X.Type().Underlying().(*types.Pointer)
		if !ok || !core.IsNamed(pt.Elem(), core.SlipPath, "forward") {
			return nil, false
		}
		return fa, true
	}
	for _, fn := range c.ModuleFuncs() {
		installs, refreshes := false, false
		var pos token.Pos
		for _, b := range fn.Blocks {
			for _, in := range b.Instrs {
				st, ok := in.(*ssa.Store)
				if !ok {
					continue
				}
				fa, ok := isCreate(st.Addr)
				if !ok {
					continue
				}
				if _, isAlloc := fa.X.(*ssa.Alloc); isAlloc {
					installs = true
					pos = st.Pos()
				} else {
					refreshes = true
				}
			}
		}
		if installs {
			r.Decide(refreshes, rule, core.SSAName(fn)+"|placeholder refreshed", c.Pos(pos), fmt.Sprintf("the function also stores the creator into a placeholder already in place: %v", refreshes))
		}
	}
}
