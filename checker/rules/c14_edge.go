package rules

import (
	"fmt"
	"go/token"
	"sort"

	"golang.org/x/tools/go/ssa"

	"slipcheck/core"
	"slipcheck/lenflow"
)

// c14edge: bounding indices designate the gaps between elements, so a :start or :end equal to the length of
// the sequence is legal (the empty range at the end, and the default :end). A validator that raises for
// `len(x) <= v` and then slices x[v:...] or x[...:v] is stricter than the slice it protects:
// (write-string "hello" s :end 5), (write-sequence "hello" s :end 5) and (mismatch "abc" "abc" :start1 3
// :start2 3) were errors (bbd26b4, 414c105, 6cd6110). The rule: a comparison of an integer v with len(x) whose
// raising edge includes v == len(x) does not guard a slice expression of x bounded by v.
func c14edge(c *core.Ctx, r *core.Reporter) {
	const rule = "C14.edge"
	r.Rule(rule, "a bounding index that is later used as a slice bound of x is rejected only when it exceeds len(x): the raising edge of its comparison with len(x) does not include equality", 10)
	an := lenflow.New(c)
	type site struct {
		fn  *ssa.Function
		ifi *ssa.If
		ok  bool
		why string
	}
	var sites []site
	lenArg := func(v ssa.Value) ssa.Value {
		call, ok := v.(*ssa.Call)
		if !ok {
			return nil
		}
		bi, ok := call.Call.Value.(*ssa.Builtin)
		if !ok || bi.Name() != "len" || len(call.Call.Args) != 1 {
			return nil
		}
		return call.Call.Args[0]
	}
	for _, fn := range c.ModuleFuncs() {
		if fn.Blocks == nil || fn.Pkg == nil || takesTestingT(fn) {
			continue
		}
		rel := core.RelPkg(fn.Pkg.Pkg.Path())
		if rel != "pkg/cl" && rel != "pkg/gi" && rel != "slip" {
			continue
		}
		var g *core.Guards
		for _, b := range fn.Blocks {
			ifi, ok := b.Instrs[len(b.Instrs)-1].(*ssa.If)
			if !ok || len(b.Succs) != 2 {
				continue
			}
			bo, ok := ifi.Cond.(*ssa.BinOp)
			if !ok {
				continue
			}
			// normalise to: v OP len(x)
			var v, x ssa.Value
			op := bo.Op
			if a := lenArg(bo.Y); a != nil {
				v, x = bo.X, a
			} else if a := lenArg(bo.X); a != nil {
				v, x = bo.Y, a
				op = mirrorOp(op)
			} else {
				continue
			}
			if _, isC := v.(*ssa.Const); isC {
				continue
			}
			if g == nil {
				g = core.ComputeGuards(fn, an.NoReturn)
			}
			// which edge raises?
			raises := func(sb *ssa.BasicBlock) bool { return g.Dead[sb] || g.Facts(sb) == nil }
			tRaise, fRaise := raises(b.Succs[0]), raises(b.Succs[1])
			if tRaise == fRaise {
				continue
			}
			// does the raising edge include v == len(x)?
			includesEq := false
			switch op {
			case token.GEQ: // v >= len: true edge includes equality
				includesEq = tRaise
			case token.LSS: // v < len: false edge (v >= len) includes equality
				includesEq = fRaise
			case token.GTR: // v > len: false edge (v <= len) includes equality
				includesEq = fRaise
			case token.LEQ: // v <= len: true edge includes equality
				includesEq = tRaise
			default:
				continue
			}
			// is v used as a slice bound of x?
			bounds := false
			xr := sliceRootOf(x)
			for _, sb := range fn.Blocks {
				for _, in := range sb.Instrs {
					sl, ok := in.(*ssa.Slice)
					if !ok || sliceRootOf(sl.X) != xr {
						continue
					}
					if sameIntValue(sl.Low, v) || sameIntValue(sl.High, v) {
						bounds = true
					}
				}
			}
			if !bounds {
				continue
			}
			// raising on v > len / v >= len+... is the legitimate upper bound; raising on the small side
			// (v < len false...) is not an upper-bound check at all
			upper := (op == token.GEQ && tRaise) || (op == token.GTR && tRaise) || (op == token.LSS && fRaise) || (op == token.LEQ && fRaise)
			if !upper {
				continue
			}
			sites = append(sites, site{fn, ifi, !includesEq, fmt.Sprintf("the bound is compared with len of the sequence it slices; the raising edge includes equality: %v", includesEq)})
		}
	}
	sort.SliceStable(sites, func(i, j int) bool {
		if core.SSAName(sites[i].fn) != core.SSAName(sites[j].fn) {
			return core.SSAName(sites[i].fn) < core.SSAName(sites[j].fn)
		}
		return sites[i].ifi.Pos() < sites[j].ifi.Pos()
	})
	seen := map[string]int{}
	for _, s := range sites {
		key := core.SSAName(s.fn) + "|bound vs len"
		seen[key]++
		if seen[key] > 1 {
			key = fmt.Sprintf("%s#%d", key, seen[key])
		}
		pos := s.ifi.Cond.Pos()
		if why, ok := edgeExceptions[key]; ok && !s.ok {
			r.Hold(rule, key, c.Pos(pos), "accepted by reading: "+why)
			continue
		}
		r.Decide(s.ok, rule, key, c.Pos(pos), s.why)
	}
}

var edgeExceptions = map[string]string{}

func mirrorOp(op token.Token) token.Token {
	switch op {
	case token.LSS:
		return token.GTR
	case token.GTR:
		return token.LSS
	case token.LEQ:
		return token.GEQ
	case token.GEQ:
		return token.LEQ
	}
	return op
}

// sliceRootOf: the value a slice or string expression is cut from (through re-slices, conversions and loads of
// one local).
func sliceRootOf(v ssa.Value) ssa.Value {
	for i := 0; i < 8; i++ {
		switch x := v.(type) {
		case *ssa.Slice:
			v = x.X
		case *ssa.ChangeType:
			v = x.X
		case *ssa.Phi:
			return x
		default:
			return v
		}
	}
	return v
}

// sameIntValue: a and b are one value, possibly through integer conversions.
func sameIntValue(a, b ssa.Value) bool {
	if a == nil || b == nil {
		return false
	}
	strip := func(v ssa.Value) ssa.Value {
		for i := 0; i < 4; i++ {
			if cv, ok := v.(*ssa.Convert); ok {
				v = cv.X
				continue
			}
			break
		}
		return v
	}
	if strip(a) == strip(b) {
		return true
	}
	// the bound is a variable that took the compared value on one path (end := len(x); if given { end = n })
	if ph, ok := strip(a).(*ssa.Phi); ok {
		for _, e := range ph.Edges {
			if strip(e) == strip(b) {
				return true
			}
		}
	}
	return false
}
