package rules

import (
	"fmt"
	"go/ast"
	"go/constant"
	"go/token"
	"go/types"
	"math"
	"sort"
	"strings"

	"golang.org/x/tools/go/ssa"

	"slipcheck/core"
	"slipcheck/lenflow"
	"slipcheck/own"
)

func init() {
	register(&Prop{
		ID:        "C05",
		Technique: "interprocedural origin (freshness/ownership) analysis on SSA: every destination of a mutating math/big call must be allocated in the activation, with caller-side checks for helpers; exhaustiveness of the number-type switches; lossy-conversion scan of the comparison paths",
		Explanation: "Numerical results are out of reach of static analysis, but how operands are handled is not. Decided: (C05.operand) for every call of a math/big method that sets its receiver (or an out parameter) anywhere in the module, the destination object is allocated in the current activation, or belongs to a parameter of a helper all of whose callers pass an object allocated by them - never an object reachable from a Lisp argument or from shared storage; " +
			"a violation is exactly 'an arithmetic built-in alters its operand'. (C05.norm) every number type is handled by the pairwise promotion in both positions. (C05.cmp) the numeric comparison paths never convert an integer or ratio operand to a machine float before comparing. Exactness and canonical form of results are not decided.",
		NotCovered: "the numerical results themselves (rounding divisions, gcd, expt), canonical ratio form, fixnum overflow (see DESIGN: declared but not armed)",
		Trusted:    commonTrusted,
		Run:        runC05,
	})
}

func bigSink(in ssa.Instruction) []ssa.Value {
	call, ok := in.(*ssa.Call)
	if !ok {
		return nil
	}
	g := call.Call.StaticCallee()
	if g == nil || !own.BigMutator(g) || len(call.Call.Args) == 0 {
		return nil
	}
	out := []ssa.Value{call.Call.Args[0]}
	switch g.Name() {
	case "DivMod", "QuoRem":
		if len(call.Call.Args) >= 4 {
			out = append(out, call.Call.Args[3])
		}
	}
	return out
}

func runC05(c *core.Ctx, r *core.Reporter) {
	c.BuildSSA()
	c05operand(c, r)
	c05norm(c, r)
	c05conv(c, r)
	c05ovf(c, r)
	c05int64(c, r)
	c05canon(c, r)
	c05bigarm(c, r)
	c05twos(c, r)
}

// flowsToComparison: the value, possibly after further arithmetic, is an operand of a comparison.
func flowsToComparison(v ssa.Value, depth int) bool {
	if depth > 3 {
		return false
	}
	refs := v.Referrers()
	if refs == nil {
		return false
	}
	for _, rf := range *refs {
		switch x := rf.(type) {
		case *ssa.BinOp:
			switch x.Op {
			case token.LSS, token.GTR, token.LEQ, token.GEQ, token.EQL, token.NEQ:
				return true
			case token.QUO, token.SUB, token.ADD, token.XOR, token.AND, token.SHR:
				if flowsToComparison(x, depth+1) {
					return true
				}
			}
		case *ssa.Convert:
			if flowsToComparison(x, depth+1) {
				return true
			}
		}
	}
	return false
}

// c05ovf: arithmetic on values of type Fixnum must not wrap silently.
func c05ovf(c *core.Ctx, r *core.Reporter) {
	const rule = "C05.ovf"
	r.Rule(rule, "every +, -, *, << and unary - whose result has the Lisp type Fixnum (64-bit two's complement) and whose operands are not both constants is accompanied by an overflow test: the operands are range-tested before, or the result flows into a comparison that detects the wrap (sign tests, math/bits, comparison with an operand), or the operation is redone in math/big; otherwise (+ most-positive-fixnum 1) silently becomes negative", 20)
	seen := map[string]int{}
	for _, fn := range c.ModuleFuncs() {
		if takesTestingT(fn) || fn.Pkg == nil {
			continue
		}
		for _, b := range fn.Blocks {
			for _, in := range b.Instrs {
				var res ssa.Value
				var ops []ssa.Value
				opname := ""
				switch x := in.(type) {
				case *ssa.BinOp:
					switch x.Op {
					case token.ADD, token.SUB, token.MUL, token.SHL:
						res, ops, opname = x, []ssa.Value{x.X, x.Y}, x.Op.String()
					}
				case *ssa.UnOp:
					if x.Op == token.SUB {
						res, ops, opname = x, []ssa.Value{x.X}, "neg"
					}
				}
				if res == nil {
					continue
				}
				if !core.IsNamed(res.Type(), core.SlipPath, "Fixnum") {
					// the same arithmetic done on the machine representation of a fixnum and converted back:
					// slip.Fixnum(uint64(n) << k)
					fromFix := false
					for _, o := range ops {
						v := o
						for {
							if cv, ok := v.(*ssa.Convert); ok {
								v = cv.X
								continue
							}
							break
						}
						if v != o && core.IsNamed(v.Type(), core.SlipPath, "Fixnum") {
							fromFix = true
						}
					}
					backToFix := false
					if refs := res.Referrers(); refs != nil {
						for _, rf := range *refs {
							if cv, ok := rf.(*ssa.Convert); ok && core.IsNamed(cv.Type(), core.SlipPath, "Fixnum") {
								backToFix = true
							}
						}
					}
					if !fromFix || !backToFix {
						continue
					}
				}
				allConst := true
				for _, o := range ops {
					if _, isK := o.(*ssa.Const); !isK {
						allConst = false
					}
				}
				if allConst {
					continue
				}
				// small constant adjustments of a value that is bounded by construction (len, loop index) are
				// not Fixnum typed; anything typed Fixnum is a Lisp integer
				checked := flowsToComparison(res, 0)
				key := fmt.Sprintf("%s|%s", core.SSAName(fn), opname)
				seen[key]++
				if n := seen[key]; n > 1 {
					key = fmt.Sprintf("%s#%d", key, n)
				}
				if checked {
					r.Hold(rule, key, c.Pos(in.Pos()), "the result flows into a comparison (overflow test)")
					continue
				}
				if opname == "neg" && notMinInt64At(fn, in.Block(), ops[0]) {
					r.Hold(rule, key, c.Pos(in.Pos()), "the operand was compared with math.MinInt64, the one fixnum whose negation wraps, and this is the unequal outcome")
					continue
				}
				if ex, ok := ovfExceptions[key]; ok {
					r.Hold(rule, key, c.Pos(in.Pos()), "accepted by reading: "+ex)
					continue
				}
				if ovfJudgedKeys[key] && strings.HasSuffix(key, "|*") && comparesWithMinInt64(fn) {
					r.Hold(rule, key, c.Pos(in.Pos()), "q*d with q = n/d: the one pair whose quotient wraps, most-negative-fixnum by -1, is tested for and handed to the bignum arm before this arm is reached (the function compares the dividend with math.MinInt64)")
					continue
				}
				if ex, ok := ovfFuncExceptions[core.SSAName(fn)]; ok && !ovfJudgedKeys[key] {
					r.Hold(rule, key, c.Pos(in.Pos()), "accepted by reading: "+ex)
					continue
				}
				r.Violate(rule, key, c.Pos(in.Pos()), "no overflow test follows and no bound on the operands was found")
			}
		}
	}
}

// c05conv: machine integers enter math/big through value-preserving conversions.
func c05conv(c *core.Ctx, r *core.Reporter) {
	const rule = "C05.conv"
	r.Rule(rule, "every machine integer handed to math/big (NewInt, SetInt64, SetUint64, NewRat, SetFrac64, ...) reaches it through value-preserving conversions only: widening, or a same-width change of signedness that a dominating comparison shows to be harmless (operand >= 0); uint64(negative fixnum) or int64(large unsigned) silently changes the number", 40)
	an := lenflow.New(c)
	type ik struct {
		signed bool
		bits   int
	}
	kindOf := func(t types.Type) (ik, bool) {
		bt, ok := t.Underlying().(*types.Basic)
		if !ok {
			return ik{}, false
		}
		switch bt.Kind() {
		case types.Int, types.Int64:
			return ik{true, 64}, true
		case types.Int32:
			return ik{true, 32}, true
		case types.Int16:
			return ik{true, 16}, true
		case types.Int8:
			return ik{true, 8}, true
		case types.Uint, types.Uint64, types.Uintptr:
			return ik{false, 64}, true
		case types.Uint32:
			return ik{false, 32}, true
		case types.Uint16:
			return ik{false, 16}, true
		case types.Uint8:
			return ik{false, 8}, true
		}
		return ik{}, false
	}
	guards := map[*ssa.Function]*core.Guards{}
	seenKey := map[string]int{}
	for _, fn := range c.ModuleFuncs() {
		if takesTestingT(fn) {
			continue
		}
		for _, b := range fn.Blocks {
			for _, in := range b.Instrs {
				call, ok := in.(*ssa.Call)
				if !ok {
					continue
				}
				g := call.Call.StaticCallee()
				if g == nil || g.Pkg == nil || g.Pkg.Pkg.Path() != "math/big" || !bigValueEntry[g.Name()] {
					continue
				}
				for ai, arg := range call.Call.Args {
					if _, isInt := kindOf(arg.Type()); !isInt {
						continue
					}
					if g.Signature.Recv() != nil && ai == 0 {
						continue
					}
					// walk the conversion chain
					bad := ""
					v := arg
					for depth := 0; depth < 6; depth++ {
						cv, ok := v.(*ssa.Convert)
						if !ok {
							break
						}
						from, ok1 := kindOf(cv.X.Type())
						to, ok2 := kindOf(cv.Type())
						if !ok1 || !ok2 {
							break
						}
						lossless := (from.signed == to.signed && to.bits >= from.bits) || (!from.signed && to.signed && to.bits > from.bits)
						if !lossless {
							okGuard := false
							if from.signed && !to.signed && to.bits >= from.bits {
								gs := guards[fn]
								if gs == nil {
									gs = core.ComputeGuards(fn, an.NoReturn)
									guards[fn] = gs
								}
								if lb, has := lowerBoundFromFacts(cv.X, gs.Facts(cv.Block())); has && lb >= 0 {
									okGuard = true
								}
								if k, isK := cv.X.(*ssa.Const); isK && k.Value != nil && constant.Sign(k.Value) >= 0 {
									okGuard = true
								}
							}
							if !okGuard {
								bad = fmt.Sprintf("%s(%s) at %s is not value preserving and no dominating test bounds the operand", cv.Type(), cv.X.Type(), c.Pos(cv.Pos()))
								break
							}
						}
						v = cv.X
					}
					key := fmt.Sprintf("%s|big.%s arg%d", core.SSAName(fn), core.SSAName(g), ai)
					seenKey[key]++
					if n := seenKey[key]; n > 1 {
						key = fmt.Sprintf("%s#%d", key, n)
					}
					r.Decide(bad == "", rule, key, c.Pos(call.Pos()), orOKs(bad, "conversions on the way are value preserving"))
				}
			}
		}
	}
}

var ovfExceptions = map[string]string{
	"slip.(BitVector).AsFixnum|<<":    "documented bit reinterpretation: the first 64 bits of the vector form the fixnum and the boolean result reports truncation",
	"pkg/cl.(Gensym).Call|+":          "the gensym counter, not a number computed from the program's data; 2^63 generated symbols are out of reach",
	"pkg/cl.(IntegerLength).Call|+":   "ta + 1 is taken only for ta < 0, so it cannot exceed 0",
	"pkg/cl.(IntegerLength).Call|neg": "-(ta + 1) with ta < 0 lies in 0 .. 2^63-1",
	"pkg/cl.(Logcount).Call|+":        "a count of at most 64 one-bits",
	"pkg/cl.(Logcount).Call|+#2":      "a count of at most 64 one-bits",
	"pkg/cl.(Logcount).Call|+#3":      "a count of at most 64 one-bits",
	"pkg/cl.(Logcount).Call|-":        "64 minus a count of at most 64",
}

// ovfFuncExceptions: the rounding divisions compute q = n/d, r = n - q*d and then move q by one and r by d
// when the remainder has the wrong sign. The product q*d is the one place where a wrapped quotient
// (most-negative-fixnum / -1) enters and is judged; the adjustments only run with a non-zero remainder,
// hence |d| >= 2, |q| <= 2^62 and |r| < |d|, so they cannot overflow.
// ovfJudgedKeys: the sites of those functions where the wrapped value enters; they are judged (and listed as
// findings with the input that shows the wrong result).
var ovfJudgedKeys = map[string]bool{
	"pkg/cl.floor|*":    true,
	"pkg/cl.ceiling|*":  true,
	"pkg/cl.truncate|*": true,
	"pkg/cl.round|*":    true,
	"pkg/cl.round|neg":  true,
}

var ovfFuncExceptions = map[string]string{
	"pkg/cl.floor":    "adjustment of a quotient/remainder pair with a non-zero remainder: |d| >= 2, |q| <= 2^62, |r| < |d|",
	"pkg/cl.ceiling":  "adjustment of a quotient/remainder pair with a non-zero remainder: |d| >= 2, |q| <= 2^62, |r| < |d|",
	"pkg/cl.truncate": "r = n - q*d with |q*d| <= |n|",
	"pkg/cl.round":    "operates on the absolute values after the exact case r = 0 was taken out: |d| >= 2, |q| <= 2^62, 2r <= 2|d|-2; the two places where a wrapped value enters (the first product and the negation of the dividend) are judged separately",
}

// bigValueEntry: the math/big functions and methods whose integer parameters are the number itself
// (as opposed to a base, a bit index or a precision).
var bigValueEntry = map[string]bool{"NewInt": true, "SetInt64": true, "SetUint64": true, "NewRat": true, "SetFrac64": true}

// lowerBoundFromFacts: the largest C with v >= C implied by the comparisons that hold.
func lowerBoundFromFacts(v ssa.Value, facts map[core.EdgeFact]bool) (int64, bool) {
	var best int64
	found := false
	for f := range facts {
		bo, ok := f.If.Cond.(*ssa.BinOp)
		if !ok {
			continue
		}
		op := bo.Op
		var kc *ssa.Const
		switch {
		case bo.X == v:
			kc, _ = bo.Y.(*ssa.Const)
		case bo.Y == v:
			kc, _ = bo.X.(*ssa.Const)
			switch op {
			case token.LSS:
				op = token.GTR
			case token.LEQ:
				op = token.GEQ
			case token.GTR:
				op = token.LSS
			case token.GEQ:
				op = token.LEQ
			}
		}
		if kc == nil || kc.Value == nil || kc.Value.Kind() != constant.Int {
			continue
		}
		cv, _ := constant.Int64Val(kc.Value)
		if !f.Branch {
			switch op {
			case token.LSS:
				op = token.GEQ
			case token.LEQ:
				op = token.GTR
			case token.GTR:
				op = token.LEQ
			case token.GEQ:
				op = token.LSS
			default:
				continue
			}
		}
		var lb int64
		switch op {
		case token.GEQ, token.EQL:
			lb = cv
		case token.GTR:
			lb = cv + 1
		default:
			continue
		}
		if !found || lb > best {
			best, found = lb, true
		}
	}
	return best, found
}

type callSiteIndex struct {
	callers map[*ssa.Function][]*ssa.Call
}

func buildCallSites(c *core.Ctx) *callSiteIndex {
	idx := &callSiteIndex{callers: map[*ssa.Function][]*ssa.Call{}}
	for _, fn := range c.ModuleFuncs() {
		for _, b := range fn.Blocks {
			for _, in := range b.Instrs {
				if call, ok := in.(*ssa.Call); ok {
					if g := call.Call.StaticCallee(); g != nil {
						idx.callers[g] = append(idx.callers[g], call)
					}
				}
			}
		}
	}
	return idx
}

// checkParamAtCallers: parameter pi of fn receives, at every static call site, an object that is fresh there
// (transitively). Returns a witness chain of the first offending call site.
func checkParamAtCallers(c *core.Ctx, an *own.Analyzer, lf *lenflow.Analyzer, idx *callSiteIndex, fn *ssa.Function, pi int, depth int, seen map[string]bool) (bool, string) {
	key := fmt.Sprintf("%p/%d", fn, pi)
	if seen[key] {
		return true, ""
	}
	seen[key] = true
	if depth > 5 {
		return false, "call chain too deep"
	}
	if lf.Dynamic(fn) {
		return false, fmt.Sprintf("%s is an entry point (callable through an interface or function value): its parameter #%d is a caller's object", core.SSAName(fn), pi)
	}
	cs := idx.callers[fn]
	if len(cs) == 0 {
		if fn.Parent() != nil {
			return false, fmt.Sprintf("%s is a closure: captured values are not tracked", core.SSAName(fn))
		}
		// no caller inside the module: only reachable through the Go API
		return true, ""
	}
	for _, call := range cs {
		if pi >= len(call.Call.Args) {
			return false, "argument not found at " + c.Pos(call.Pos())
		}
		os := an.Origins(call.Call.Args[pi])
		if d, ok := os.HasShared(); ok {
			return false, fmt.Sprintf("%s passes an object from shared storage (%s) at %s", core.SSAName(call.Parent()), d, c.Pos(call.Pos()))
		}
		for _, p := range os.Params() {
			ok, why := checkParamAtCallers(c, an, lf, idx, call.Parent(), p, depth+1, seen)
			if !ok {
				return false, fmt.Sprintf("%s <- %s", c.Pos(call.Pos()), why)
			}
		}
	}
	return true, ""
}

// checkContentsAtCallers: parameter pi of fn is a container (a struct behind a pointer, a slice) out of which fn
// loads the object it mutates. At every static caller the container passed is either allocated there — then every
// pointer-like value the caller stores into it must be its own allocation, or come from a parameter whose callers
// satisfy the same — or is the caller's own parameter (recursively). A caller that is an entry point and stores one
// of its arguments (or something loaded from them) into the container hands a Lisp object to the mutation.
func checkContentsAtCallers(c *core.Ctx, an *own.Analyzer, lf *lenflow.Analyzer, idx *callSiteIndex, fn *ssa.Function, pi int, depth int, seen map[string]bool) (bool, string) {
	key := fmt.Sprintf("%p/%d", fn, pi)
	if seen[key] {
		return true, ""
	}
	seen[key] = true
	if depth > 5 {
		return false, "call chain too deep"
	}
	for _, call := range idx.callers[fn] {
		if pi >= len(call.Call.Args) {
			return false, "argument not found at " + c.Pos(call.Pos())
		}
		caller := call.Parent()
		arg := call.Call.Args[pi]
		for o := range an.Origins(arg) {
			switch o.Kind {
			case own.Shared:
				return false, fmt.Sprintf("%s passes a container from shared storage at %s", core.SSAName(caller), c.Pos(call.Pos()))
			case own.Param:
				if lf.Dynamic(caller) {
					return false, fmt.Sprintf("%s, an entry point, passes (part of) its own argument #%d at %s", core.SSAName(caller), o.Param, c.Pos(call.Pos()))
				}
				if ok, why := checkContentsAtCallers(c, an, lf, idx, caller, o.Param, depth+1, seen); !ok {
					return false, fmt.Sprintf("%s <- %s", c.Pos(call.Pos()), why)
				}
			}
		}
		// what the caller stores into a container it allocated
		root := arg
		for {
			switch x := root.(type) {
			case *ssa.Slice:
				root = x.X
				continue
			case *ssa.ChangeType:
				root = x.X
				continue
			}
			break
		}
		if root.Referrers() == nil {
			continue
		}
		for _, rf := range *root.Referrers() {
			var addr ssa.Value
			switch x := rf.(type) {
			case *ssa.FieldAddr:
				addr = x
			case *ssa.IndexAddr:
				addr = x
			default:
				continue
			}
			if addr.Referrers() == nil {
				continue
			}
			for _, r2 := range *addr.Referrers() {
				st, ok := r2.(*ssa.Store)
				if !ok || st.Addr != addr {
					continue
				}
				for o := range an.Origins(st.Val) {
					switch o.Kind {
					case own.Shared:
						return false, fmt.Sprintf("%s stores an object from shared storage into the container at %s", core.SSAName(caller), c.Pos(st.Pos()))
					case own.Param:
						if lf.Dynamic(caller) {
							return false, fmt.Sprintf("%s, an entry point, stores (part of) its argument #%d into the container at %s", core.SSAName(caller), o.Param, c.Pos(st.Pos()))
						}
						if ok, why := checkParamAtCallers(c, an, lf, idx, caller, o.Param, depth+1, map[string]bool{}); !ok {
							return false, fmt.Sprintf("%s <- %s", c.Pos(st.Pos()), why)
						}
					}
				}
			}
		}
	}
	return true, ""
}

func c05operand(c *core.Ctx, r *core.Reporter) {
	const rule = "C05.operand"
	r.Rule(rule, "the destination of every mutating math/big call (a method that sets and returns its receiver, Set*, and the out parameter of DivMod/QuoRem) is an object allocated in the current activation, or a parameter of a helper whose every (transitive) static caller passes an object it allocated; never an object reachable from an argument of an entry point or from shared storage", 200)
	an := own.New(c, bigSink)
	lf := lenflow.New(c)
	idx := buildCallSites(c)
	nSites := 0
	for _, fn := range c.ModuleFuncs() {
		var sites []*ssa.Call
		for _, b := range fn.Blocks {
			for _, in := range b.Instrs {
				if vs := bigSink(in); len(vs) > 0 {
					sites = append(sites, in.(*ssa.Call))
				}
			}
		}
		if len(sites) == 0 {
			continue
		}
		sort.Slice(sites, func(i, j int) bool { return sites[i].Pos() < sites[j].Pos() })
		for _, call := range sites {
			nSites++
			g := call.Call.StaticCallee()
			recvT := strings.TrimPrefix(g.Signature.Recv().Type().String(), "*math/big.")
			for di, dst := range bigSink(call) {
				os := an.Origins(dst)
				key := fmt.Sprintf("%s|big.%s.%s", core.SSAName(fn), recvT, g.Name())
				if di > 0 {
					key += fmt.Sprintf("#out%d", di)
				}
				if os.OnlyFresh() {
					r.Hold(rule, key, c.Pos(call.Pos()), "destination allocated in this activation")
					continue
				}
				if d, ok := os.HasShared(); ok {
					r.Violate(rule, key, c.Pos(call.Pos()), "destination may be an object from shared storage: "+d)
					continue
				}
				okAll := true
				why := ""
				// an object loaded out of a parameter's storage (a field of the receiver, an element of a slice):
				// that the callers allocated the container says nothing about what they put into it
				for o := range os {
					if o.Kind == own.Param && o.Elem && okAll && !lf.Dynamic(fn) {
						if ok, w := checkContentsAtCallers(c, an, lf, idx, fn, o.Param, 0, map[string]bool{}); !ok {
							okAll = false
							why = fmt.Sprintf("destination is loaded out of parameter #%d: %s", o.Param, w)
						}
					}
				}
				if !okAll {
					r.Violate(rule, key, c.Pos(call.Pos()), why)
					continue
				}
				for _, p := range os.Params() {
					ok, w := checkParamAtCallers(c, an, lf, idx, fn, p, 0, map[string]bool{})
					if !ok {
						okAll = false
						why = fmt.Sprintf("destination belongs to parameter #%d: %s", p, w)
						break
					}
				}
				if okAll {
					r.Hold(rule, key, c.Pos(call.Pos()), fmt.Sprintf("destination belongs to parameter(s) %v; every static caller passes an object it allocated", os.Params()))
				} else {
					r.Violate(rule, key, c.Pos(call.Pos()), why)
				}
			}
		}
	}
	r.Count("operand.mutating_big_calls", nSites)
}

// c05norm reads the promotion table off NormalizeNumber's nested type switches.
func c05norm(c *core.Ctx, r *core.Reporter) {
	const rule = "C05.norm"
	r.Rule(rule, "the pairwise promotion (NormalizeNumber) has an arm for every pair of number types, and for two exact operands (fixnum, octet, bignum, ratio, signed/unsigned byte) both promoted values are of an exact type (fixnum, bignum, ratio): promoting an exact pair to a float makes integer/rational arithmetic inexact", 60)
	fnObj := c.LookupFunc("", "NormalizeNumber")
	if fnObj == nil {
		r.Undecided(rule, "slip.NormalizeNumber", "-", "anchor does not resolve")
		return
	}
	fd := c.Decls[fnObj]
	p := c.DeclPkg[fnObj]
	info := p.TypesInfo
	exact := map[string]bool{"Fixnum": true, "Octet": true, "*Bignum": true, "*Ratio": true, "*SignedByte": true, "*UnsignedByte": true}
	exactOut := map[string]bool{"Fixnum": true, "*Bignum": true, "*Ratio": true, "Octet": true}
	machineFloat := map[string]bool{"SingleFloat": true, "DoubleFloat": true, "ShortFloat": true}
	cmpLossy := map[string]bool{}
	cmpSeen := map[string]int{}
	tname := func(t types.Type) string {
		if t == nil {
			return "?"
		}
		return types.TypeString(t, func(*types.Package) string { return "" })
	}
	// result variable names
	var res []string
	if fd.Type.Results != nil {
		for _, f := range fd.Type.Results.List {
			for _, n := range f.Names {
				res = append(res, n.Name)
			}
		}
	}
	if len(res) != 2 {
		r.Undecided(rule, "slip.NormalizeNumber|results", c.Pos(fd.Pos()), "expected two named results")
		return
	}
	params := []string{}
	for _, f := range fd.Type.Params.List {
		for _, n := range f.Names {
			params = append(params, n.Name)
		}
	}
	// walk: outer type switch on v0
	var outer *ast.TypeSwitchStmt
	ast.Inspect(fd.Body, func(n ast.Node) bool {
		if ts, ok := n.(*ast.TypeSwitchStmt); ok && outer == nil {
			outer = ts
			return false
		}
		return true
	})
	if outer == nil {
		r.Undecided(rule, "slip.NormalizeNumber|switch", c.Pos(fd.Pos()), "outer type switch not found")
		return
	}
	caseTypes := func(cc *ast.CaseClause) []string {
		var out []string
		for _, e := range cc.List {
			out = append(out, tname(info.TypeOf(e)))
		}
		return out
	}
	// leavesOf: the possible final static types of the result variables after a statement list, following if/else
	// and nested type switches (one leaf per path)
	var leavesOf func(stmts []ast.Stmt, cur map[string]string, bind map[string]string) []map[string]string
	cp := func(m map[string]string) map[string]string {
		n := map[string]string{}
		for k, v := range m {
			n[k] = v
		}
		return n
	}
	leavesOf = func(stmts []ast.Stmt, cur map[string]string, bind map[string]string) []map[string]string {
		leaves := []map[string]string{cp(cur)}
		for _, st := range stmts {
			switch x := st.(type) {
			case *ast.AssignStmt:
				for i, l := range x.Lhs {
					id, ok := l.(*ast.Ident)
					if !ok || i >= len(x.Rhs) {
						continue
					}
					if id.Name == res[0] || id.Name == res[1] {
						t := tname(info.TypeOf(x.Rhs[i]))
						if rid, ok := x.Rhs[i].(*ast.Ident); ok {
							if bt, ok := bind[rid.Name]; ok {
								t = bt
							}
						}
						for _, lf := range leaves {
							lf[id.Name] = t
						}
					}
				}
			case *ast.IfStmt:
				var next []map[string]string
				for _, lf := range leaves {
					next = append(next, leavesOf(x.Body.List, lf, bind)...)
					switch e := x.Else.(type) {
					case *ast.BlockStmt:
						next = append(next, leavesOf(e.List, lf, bind)...)
					case *ast.IfStmt:
						next = append(next, leavesOf([]ast.Stmt{e}, lf, bind)...)
					default:
						next = append(next, cp(lf))
					}
				}
				leaves = next
			case *ast.TypeSwitchStmt:
				var next []map[string]string
				for _, lf := range leaves {
					for _, s5 := range x.Body.List {
						nc := s5.(*ast.CaseClause)
						b2 := cp(bind)
						if as, ok := x.Assign.(*ast.AssignStmt); ok && len(nc.List) == 1 {
							if id, ok := as.Lhs[0].(*ast.Ident); ok {
								b2[id.Name] = tname(info.TypeOf(nc.List[0]))
							}
						}
						next = append(next, leavesOf(nc.Body, lf, b2)...)
					}
				}
				leaves = next
			}
		}
		return leaves
	}
	switchesOn := func(ts *ast.TypeSwitchStmt, name string) bool {
		found := false
		ast.Inspect(ts.Assign, func(n ast.Node) bool {
			if ta, ok := n.(*ast.TypeAssertExpr); ok {
				if id, ok := ta.X.(*ast.Ident); ok && id.Name == name {
					found = true
				}
			}
			return true
		})
		return found
	}
	nPairs := 0
	outerSeen := map[string]bool{}
	numberTypes := []string{"Fixnum", "SingleFloat", "DoubleFloat", "*LongFloat", "*Bignum", "*Ratio", "Complex"}
	for _, st := range outer.Body.List {
		oc := st.(*ast.CaseClause)
		for _, t0 := range caseTypes(oc) {
			outerSeen[t0] = true
			// find the inner switch on the second operand
			var inner *ast.TypeSwitchStmt
			var before []ast.Stmt
			for _, s2 := range oc.Body {
				if ts, ok := s2.(*ast.TypeSwitchStmt); ok && len(params) == 2 && switchesOn(ts, params[1]) {
					inner = ts
					break
				}
				before = append(before, s2)
			}
			if inner == nil {
				continue // re-dispatch arms (convert the first operand and goto top)
			}
			bindOuter := map[string]string{}
			if as, ok := outer.Assign.(*ast.AssignStmt); ok {
				if id, ok := as.Lhs[0].(*ast.Ident); ok {
					bindOuter[id.Name] = t0
				}
			}
			innerSeen := map[string]bool{}
			for _, s3 := range inner.Body.List {
				ic := s3.(*ast.CaseClause)
				for _, t1 := range caseTypes(ic) {
					innerSeen[t1] = true
					bind := cp(bindOuter)
					if as, ok := inner.Assign.(*ast.AssignStmt); ok {
						if id, ok := as.Lhs[0].(*ast.Ident); ok {
							bind[id.Name] = t1
						}
					}
					bind[params[0]] = t0
					bind[params[1]] = t1
					var leaves []map[string]string
					for _, pre := range leavesOf(before, map[string]string{}, bind) {
						leaves = append(leaves, leavesOf(ic.Body, pre, bind)...)
					}
					// an exact operand paired with a machine float: the promotion decides what the comparison
					// predicates (= < > ...) compare, and a fixnum above 2^53 (2^24) does not survive it
					if (exact[t0] && machineFloat[t1]) || (machineFloat[t0] && exact[t1]) {
						ft := t1
						if machineFloat[t0] {
							ft = t0
						}
						lossy := false
						for _, leaf := range leaves {
							a, b := leaf[res[0]], leaf[res[1]]
							if machineFloat[a] && machineFloat[b] {
								lossy = true
							}
						}
						cmpLossy[ft] = cmpLossy[ft] || lossy
						cmpSeen[ft]++
					}
					if !(exact[t0] && exact[t1]) {
						continue
					}
					nPairs++
					ok := true
					var got []string
					for _, leaf := range leaves {
						a, b := leaf[res[0]], leaf[res[1]]
						got = append(got, a+","+b)
						if !exactOut[a] || !exactOut[b] {
							ok = false
						}
					}
					r.Decide(ok, rule, fmt.Sprintf("slip.NormalizeNumber|(%s, %s)", t0, t1), c.Pos(ic.Pos()), fmt.Sprintf("exact operands promoted to %v", got))
				}
			}
			for _, nt := range numberTypes {
				r.Decide(innerSeen[nt], rule, fmt.Sprintf("slip.NormalizeNumber|(%s, %s) arm exists", t0, nt), c.Pos(oc.Pos()), fmt.Sprintf("second-operand arm for %s under first operand %s: %v", nt, t0, innerSeen[nt]))
			}
		}
	}
	for _, nt := range numberTypes {
		r.Decide(outerSeen[nt], rule, fmt.Sprintf("slip.NormalizeNumber|first operand %s arm exists", nt), c.Pos(outer.Pos()), fmt.Sprintf("%v", outerSeen[nt]))
	}
	r.Count("norm.exact_pairs", nPairs)
	const cmp = "C05.cmp"
	r.Rule(cmp, "the promotion that the numeric comparison predicates apply to an exact operand (fixnum, bignum, ratio) and a machine float does not convert the exact operand to that float format: an integer above 2^53 (2^24 for single floats) is rounded by the conversion, so = holds between numbers that differ and <, > miss the difference", 2)
	var fts []string
	for ft := range cmpSeen {
		fts = append(fts, ft)
	}
	sort.Strings(fts)
	for _, ft := range fts {
		r.Decide(!cmpLossy[ft], cmp, "slip.NormalizeNumber|(exact, "+ft+")", c.Pos(outer.Pos()), fmt.Sprintf("%d arms pair an exact type with %s; the exact operand is converted to %s: %v", cmpSeen[ft], ft, ft, cmpLossy[ft]))
	}
}

// comparesWithMinInt64: the function tests a fixnum for equality with math.MinInt64.
func comparesWithMinInt64(fn *ssa.Function) bool {
	for _, b := range fn.Blocks {
		for _, in := range b.Instrs {
			bo, ok := in.(*ssa.BinOp)
			if !ok || bo.Op != token.EQL {
				continue
			}
			for _, side := range []ssa.Value{bo.X, bo.Y} {
				if k, ok := side.(*ssa.Const); ok && k.Value != nil && k.Value.Kind() == constant.Int {
					if v, exact := constant.Int64Val(k.Value); exact && v == math.MinInt64 {
						return true
					}
				}
			}
		}
	}
	return false
}

// notMinInt64At: every path to b crosses the unequal outcome of a comparison of v with math.MinInt64.
func notMinInt64At(fn *ssa.Function, b *ssa.BasicBlock, v ssa.Value) bool {
	return core.Separates(fn, b, func(*ssa.Function) bool { return false }, func(ifi *ssa.If, branch bool) bool {
		bo, ok := ifi.Cond.(*ssa.BinOp)
		if !ok || (bo.Op != token.EQL && bo.Op != token.NEQ) {
			return false
		}
		isMin := func(x ssa.Value) bool {
			k, ok := x.(*ssa.Const)
			if !ok || k.Value == nil || k.Value.Kind() != constant.Int {
				return false
			}
			n, exact := constant.Int64Val(k.Value)
			return exact && n == math.MinInt64
		}
		if !((bo.X == v && isMin(bo.Y)) || (bo.Y == v && isMin(bo.X))) {
			return false
		}
		return (bo.Op == token.EQL && !branch) || (bo.Op == token.NEQ && branch)
	})
}
