package rules

import (
	"fmt"
	"go/constant"
	"go/token"
	"go/types"
	"sort"
	"strings"

	"golang.org/x/tools/go/ssa"

	"slipcheck/core"
)

// C14.testorder: the user's two-argument test receives its arguments in the order of the function's own
// parameters: (item, element) for member/assoc/find/..., (element of list-1, element of list-2) for the set
// functions, (old, element) for subst. Decided with a small positional taint analysis: every value is labelled
// with the set of argument positions of the built-in it derives from (through element loads, range loops,
// type assertions, one-argument :key calls, the keyword record's fields and statically called helpers).

type posSet uint16 // bit i: derives from argument i of the built-in

func (p posSet) min() int {
	for i := 0; i < 16; i++ {
		if p&(1<<uint(i)) != 0 {
			return i
		}
	}
	return -1
}

func (p posSet) max() int {
	for i := 15; i >= 0; i-- {
		if p&(1<<uint(i)) != 0 {
			return i
		}
	}
	return -1
}

func (p posSet) String() string {
	var out []string
	for i := 0; i < 16; i++ {
		if p&(1<<uint(i)) != 0 {
			out = append(out, fmt.Sprintf("arg%d", i))
		}
	}
	if len(out) == 0 {
		return "-"
	}
	return strings.Join(out, "+")
}

type orderCtx struct {
	c        *core.Ctx
	fields   map[string]posSet // type.field -> labels stored anywhere in this built-in's code
	memo     map[string]posSet
	sites    map[ssa.Instruction][2]posSet
	inFlight map[string]bool
}

type orderFrame struct {
	oc     *orderCtx
	fn     *ssa.Function
	params map[*ssa.Parameter]posSet
	// argsParam: the argument list of the built-in itself (only in the root frame): element k is argument k
	argsParam *ssa.Parameter
	// argsAlias: parameters that are the built-in's argument list handed on (possibly resliced): element k is
	// argument k+offset
	argsAlias map[*ssa.Parameter]int
	cache     map[ssa.Value]posSet
	visiting  map[ssa.Value]bool
	depth     int
	// parentFrame: for a closure, the frame of the function that created it
	parentFrame *orderFrame
}

func fieldKeyOf(fa *ssa.FieldAddr) string {
	t := fa.X.Type()
	if pt, ok := t.Underlying().(*types.Pointer); ok {
		t = pt.Elem()
	}
	return fmt.Sprintf("%s.%d", types.TypeString(t, nil), fa.Field)
}

// listLiteral returns the elements of a slice built as a composite literal (new [n]T; stores; slice).
func listLiteral(v ssa.Value) ([]ssa.Value, bool) {
	sl, ok := v.(*ssa.Slice)
	if !ok {
		if ct, isCT := v.(*ssa.ChangeType); isCT {
			return listLiteral(ct.X)
		}
		return nil, false
	}
	al, ok := sl.X.(*ssa.Alloc)
	if !ok {
		return nil, false
	}
	at, ok := al.Type().Underlying().(*types.Pointer).Elem().Underlying().(*types.Array)
	if !ok {
		return nil, false
	}
	elems := make([]ssa.Value, at.Len())
	for _, rf := range *al.Referrers() {
		ia, ok := rf.(*ssa.IndexAddr)
		if !ok {
			continue
		}
		k, ok := ia.Index.(*ssa.Const)
		if !ok {
			return nil, false
		}
		for _, rf2 := range *ia.Referrers() {
			if st, ok := rf2.(*ssa.Store); ok && st.Addr == ssa.Value(ia) {
				i := int(k.Int64())
				if i >= 0 && i < len(elems) {
					elems[i] = st.Val
				}
			}
		}
	}
	for _, e := range elems {
		if e == nil {
			return nil, false
		}
	}
	return elems, true
}

// foldIndex evaluates pos := 0; pos++ style index arithmetic over constants.
func foldIndex(v ssa.Value, depth int) (int, bool) {
	if depth > 8 {
		return 0, false
	}
	switch x := v.(type) {
	case *ssa.Const:
		if x.Value != nil && x.Value.Kind() == constant.Int {
			return int(x.Int64()), true
		}
	case *ssa.BinOp:
		a, ok1 := foldIndex(x.X, depth+1)
		b, ok2 := foldIndex(x.Y, depth+1)
		if ok1 && ok2 {
			switch x.Op {
			case token.ADD:
				return a + b, true
			case token.SUB:
				return a - b, true
			}
		}
	case *ssa.Convert:
		return foldIndex(x.X, depth+1)
	}
	return 0, false
}

func (f *orderFrame) lab(v ssa.Value) posSet {
	if v == nil {
		return 0
	}
	if l, ok := f.cache[v]; ok {
		return l
	}
	if f.visiting[v] {
		return 0
	}
	f.visiting[v] = true
	defer delete(f.visiting, v)
	var l posSet
	switch x := v.(type) {
	case *ssa.Parameter:
		l = f.params[x]
	case *ssa.UnOp:
		if x.Op == token.MUL {
			switch a := x.X.(type) {
			case *ssa.IndexAddr:
				if off, isArgs := f.argsOffset(a.X); isArgs {
					if i, isK := foldIndex(a.Index, 0); isK {
						if i+off >= 0 && i+off < 16 {
							l = 1 << uint(i+off)
						}
					}
				} else {
					l = f.lab(a.X)
				}
			case *ssa.FieldAddr:
				l = f.oc.fields[fieldKeyOf(a)]
			case *ssa.Alloc:
				for _, rf := range *a.Referrers() {
					if st, ok := rf.(*ssa.Store); ok && st.Addr == ssa.Value(a) {
						l |= f.lab(st.Val)
					}
				}
			case *ssa.FreeVar:
				if bv := freeVarBinding(a); bv != nil && f.fn.Parent() != nil {
					// captured variable cell: labels of what the enclosing function stores in it
					if al, ok := bv.(*ssa.Alloc); ok {
						pf := &orderFrame{oc: f.oc, fn: al.Parent(), params: map[*ssa.Parameter]posSet{}, cache: map[ssa.Value]posSet{}, visiting: map[ssa.Value]bool{}, depth: f.depth + 1}
						if parent := f.parentFrame; parent != nil {
							pf = parent
						}
						for _, rf := range *al.Referrers() {
							if st, ok := rf.(*ssa.Store); ok && st.Addr == ssa.Value(al) {
								l |= pf.lab(st.Val)
							}
						}
					}
				}
			default:
				l = f.lab(x.X)
			}
		} else {
			l = f.lab(x.X)
		}
	case *ssa.FreeVar:
		if bv := freeVarBinding(x); bv != nil && f.parentFrame != nil {
			l = f.parentFrame.lab(bv)
		}
	case *ssa.Extract:
		l = f.lab(x.Tuple)
	case *ssa.TypeAssert:
		l = f.lab(x.X)
	case *ssa.ChangeType:
		l = f.lab(x.X)
	case *ssa.ChangeInterface:
		l = f.lab(x.X)
	case *ssa.Convert:
		l = f.lab(x.X)
	case *ssa.MakeInterface:
		l = f.lab(x.X)
	case *ssa.Slice:
		l = f.lab(x.X)
	case *ssa.Index:
		l = f.lab(x.X)
	case *ssa.Lookup:
		l = f.lab(x.X)
	case *ssa.Range:
		l = f.lab(x.X)
	case *ssa.Next:
		l = f.lab(x.Iter)
	case *ssa.Phi:
		for _, e := range x.Edges {
			l |= f.lab(e)
		}
	case *ssa.MakeSlice:
		l = f.storedInto(x)
	case *ssa.Call:
		l = f.labCall(x)
	}
	f.cache[v] = l
	return l
}

// argsOffset: v is the built-in's own argument list (offset 0) or a reslice args[k:] of it (offset k).
func (f *orderFrame) argsOffset(v ssa.Value) (int, bool) {
	switch x := v.(type) {
	case *ssa.Parameter:
		if x == f.argsParam && x != nil {
			return 0, true
		}
		if off, ok := f.argsAlias[x]; ok {
			return off, true
		}
	case *ssa.Slice:
		if off, ok := f.argsOffset(x.X); ok && x.High == nil {
			if x.Low == nil {
				return off, true
			}
			if k, isK := foldIndex(x.Low, 0); isK {
				return off + k, true
			}
		}
	case *ssa.ChangeType:
		return f.argsOffset(x.X)
	}
	return 0, false
}

// storedInto: labels of everything stored into the elements of a locally built slice (make + stores, copy).
func (f *orderFrame) storedInto(v ssa.Value) posSet {
	var l posSet
	refs := v.Referrers()
	if refs == nil {
		return 0
	}
	for _, rf := range *refs {
		switch x := rf.(type) {
		case *ssa.IndexAddr:
			if x.X != v {
				continue
			}
			for _, rf2 := range *x.Referrers() {
				if st, ok := rf2.(*ssa.Store); ok && st.Addr == ssa.Value(x) {
					l |= f.lab(st.Val)
				}
			}
		case *ssa.Call:
			if bi, ok := x.Call.Value.(*ssa.Builtin); ok && bi.Name() == "copy" && len(x.Call.Args) == 2 && x.Call.Args[0] == v {
				l |= f.lab(x.Call.Args[1])
			}
		}
	}
	return l
}

func (f *orderFrame) labCall(call *ssa.Call) posSet {
	if bi, ok := call.Call.Value.(*ssa.Builtin); ok {
		if bi.Name() == "append" {
			var l posSet
			for _, a := range call.Call.Args {
				l |= f.lab(a)
			}
			return l
		}
		return 0
	}
	// a one-argument call of a Lisp function value (the :key function): its result stands for its argument
	if callMethodName(call) == "Call" {
		args := call.Call.Args
		var listArg ssa.Value
		for _, a := range args {
			if isObjectSlice(a.Type()) {
				listArg = a
			}
		}
		if elems, ok := listLiteral(listArg); ok && len(elems) == 1 {
			return f.lab(elems[0])
		}
		return 0
	}
	g := call.Call.StaticCallee()
	if g == nil || g.Pkg == nil || !core.InModule(g.Pkg.Pkg) || g.Blocks == nil || f.depth > 4 {
		// methods of values (Car, Cdr, AsList, ...) keep the labels of their receiver
		if call.Call.IsInvoke() {
			return f.lab(call.Call.Value)
		}
		if g != nil && g.Signature.Recv() != nil && len(call.Call.Args) > 0 {
			return f.lab(call.Call.Args[0])
		}
		return 0
	}
	sub := f.enter(g, call.Call.Args, nil)
	if sub == nil {
		return 0
	}
	return sub.returns()
}

func (f *orderFrame) enter(g *ssa.Function, args []ssa.Value, parent *orderFrame) *orderFrame {
	pl := map[*ssa.Parameter]posSet{}
	alias := map[*ssa.Parameter]int{}
	key := fmt.Sprintf("%p", g)
	for i, p := range g.Params {
		if i < len(args) {
			pl[p] = f.lab(args[i])
			if off, ok := f.argsOffset(args[i]); ok {
				alias[p] = off
				key += fmt.Sprintf("@%d", off)
			}
		}
		key += fmt.Sprintf(",%d", pl[p])
	}
	if f.oc.inFlight[key] {
		return nil
	}
	f.oc.inFlight[key] = true
	defer delete(f.oc.inFlight, key)
	sub := &orderFrame{oc: f.oc, fn: g, params: pl, argsAlias: alias, cache: map[ssa.Value]posSet{}, visiting: map[ssa.Value]bool{}, depth: f.depth + 1, parentFrame: parent}
	sub.scan()
	return sub
}

func (f *orderFrame) returns() posSet {
	var l posSet
	for _, b := range f.fn.Blocks {
		if ret, ok := b.Instrs[len(b.Instrs)-1].(*ssa.Return); ok {
			for _, r := range ret.Results {
				l |= f.lab(r)
			}
		}
	}
	return l
}

// scan records field stores, test-call sites and descends into callees and closures.
func (f *orderFrame) scan() {
	for _, b := range f.fn.Blocks {
		for _, in := range b.Instrs {
			switch x := in.(type) {
			case *ssa.Store:
				if fa, ok := x.Addr.(*ssa.FieldAddr); ok {
					f.oc.fields[fieldKeyOf(fa)] |= f.lab(x.Val)
				}
			case *ssa.MakeClosure:
				if af, ok := x.Fn.(*ssa.Function); ok && f.depth < 5 {
					sub := &orderFrame{oc: f.oc, fn: af, params: map[*ssa.Parameter]posSet{}, cache: map[ssa.Value]posSet{}, visiting: map[ssa.Value]bool{}, depth: f.depth + 1, parentFrame: f}
					sub.scan()
				}
			case *ssa.Call:
				if callMethodName(x) == "Call" {
					var listArg ssa.Value
					for _, a := range x.Call.Args {
						if isObjectSlice(a.Type()) {
							listArg = a
						}
					}
					if elems, ok := listLiteral(listArg); ok && len(elems) == 2 {
						e0, e1 := f.lab(elems[0]), f.lab(elems[1])
						old := f.oc.sites[in]
						f.oc.sites[in] = [2]posSet{old[0] | e0, old[1] | e1}
					}
					continue
				}
				_ = f.lab(x) // descends into static callees
				if g := x.Call.StaticCallee(); g != nil && g.Pkg != nil && core.InModule(g.Pkg.Pkg) && g.Blocks != nil && f.depth <= 4 {
					// results may be unused: make sure the callee is scanned for its sites
					f.enter(g, x.Call.Args, nil)
				}
			}
		}
	}
}

func c14testorder(c *core.Ctx, r *core.Reporter) {
	const rule = "C14.testorder"
	r.Rule(rule, "wherever a built-in of pkg/cl calls a user-supplied function with exactly two arguments that derive from two different parameters of the built-in (the item and an element of the sequence; an element of each of two lists; the old value and a node of the tree), the first argument derives from the earlier parameter: Common Lisp passes the item (or the element of the first sequence) first, so an asymmetric :test such as #'< gives a different answer when the order is swapped", 25)
	for _, b := range c.Registry() {
		if b.Call == nil || !strings.HasPrefix(b.Key(), "pkg/cl:") {
			continue
		}
		fn := c.SSAFunc(b.Call)
		if fn == nil || len(fn.Params) < 3 {
			continue
		}
		var argsP *ssa.Parameter
		for _, p := range fn.Params {
			if isObjectSlice(p.Type()) {
				argsP = p
			}
		}
		if argsP == nil {
			continue
		}
		oc := &orderCtx{c: c, fields: map[string]posSet{}, memo: map[string]posSet{}, sites: map[ssa.Instruction][2]posSet{}, inFlight: map[string]bool{}}
		// two passes: the first collects what is stored into the keyword record's fields
		for pass := 0; pass < 2; pass++ {
			oc.sites = map[ssa.Instruction][2]posSet{}
			root := &orderFrame{oc: oc, fn: fn, params: map[*ssa.Parameter]posSet{}, argsParam: argsP, cache: map[ssa.Value]posSet{}, visiting: map[ssa.Value]bool{}}
			root.scan()
		}
		var ins []ssa.Instruction
		for in := range oc.sites {
			ins = append(ins, in)
		}
		sort.Slice(ins, func(i, j int) bool { return ins[i].Pos() < ins[j].Pos() })
		n := 0
		for _, in := range ins {
			e := oc.sites[in]
			if e[0] == 0 || e[1] == 0 || e[0]&e[1] != 0 {
				continue // not two values from two different parameters: not judged
			}
			n++
			key := fmt.Sprintf("%s|%s", b.Key(), core.SSAName(in.Parent()))
			if n > 1 {
				key = fmt.Sprintf("%s#%d", key, n)
			}
			ok := e[0].max() < e[1].max()
			r.Decide(ok, rule, key, c.Pos(in.Pos()), fmt.Sprintf("first test argument derives from %s, second from %s", e[0], e[1]))
		}
	}
}
