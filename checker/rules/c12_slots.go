package rules

import (
	"fmt"
	"go/token"
	"go/types"
	"sort"

	"golang.org/x/tools/go/ssa"

	"slipcheck/core"
)

// c12shared: "make-instance fills each slot from the matching initarg" with initargs shared between slots
// (the property's quantifier names them). The class's table from initarg to slot definition must be able to
// hold more than one slot per initarg, and the code that applies an initarg must visit every entry.
//
//	(a) the element type of StandardClass.initArgs is a slice (or map) of slot definitions;
//	(b) every function of pkg/clos that obtains the slots of an initarg (a call whose callee returns a value
//	    looked up in the initArgs field) iterates over the result: the result is indexed by a non-constant
//	    index. A result only tested for nil/len or indexed by a constant applies the initarg to one slot.
func c12shared(c *core.Ctx, r *core.Reporter) {
	const rule = "C12.shared"
	r.Rule(rule, "the class's initarg table maps an initarg to every slot that names it (multi-valued element type), and each place that applies an initarg iterates over all of them", 3)
	st := c.LookupType("pkg/clos", "StandardClass")
	if st == nil {
		r.Undecided(rule, "pkg/clos.StandardClass", "-", "type does not resolve")
		return
	}
	str, _ := st.Underlying().(*types.Struct)
	var fld *types.Var
	for i := 0; str != nil && i < str.NumFields(); i++ {
		if str.Field(i).Name() == "initArgs" {
			fld = str.Field(i)
		}
	}
	if fld == nil {
		r.Undecided(rule, "pkg/clos.StandardClass.initArgs", "-", "the initarg table field does not resolve (renamed?)")
		return
	}
	multi := false
	if mt, ok := fld.Type().Underlying().(*types.Map); ok {
		switch mt.Elem().Underlying().(type) {
		case *types.Slice, *types.Map:
			multi = true
		}
	}
	r.Decide(multi, rule, "pkg/clos.StandardClass.initArgs|multi-valued", c.Pos(fld.Pos()), fmt.Sprintf("type %s; an initarg can name several slots: %v", types.TypeString(fld.Type(), func(p *types.Package) string { return p.Name() }), multi))
	if !multi {
		return
	}
	// accessor methods: return a Lookup in the initArgs field
	accessors := map[string]bool{}
	var fns []*ssa.Function
	for _, fn := range c.ModuleFuncs() {
		if fn.Pkg != nil && core.RelPkg(fn.Pkg.Pkg.Path()) == "pkg/clos" {
			fns = append(fns, fn)
		}
	}
	isInitArgsLookup := func(v ssa.Value) bool {
		lk, ok := v.(*ssa.Lookup)
		if !ok {
			return false
		}
		u, ok := lk.X.(*ssa.UnOp)
		if !ok {
			return false
		}
		fa, ok := u.X.(*ssa.FieldAddr)
		return ok && fieldName(fa) == "initArgs"
	}
	for _, fn := range fns {
		for _, b := range fn.Blocks {
			if ret, ok := b.Instrs[len(b.Instrs)-1].(*ssa.Return); ok {
				for _, rv := range ret.Results {
					if isInitArgsLookup(rv) {
						accessors[fn.Name()] = true
					}
				}
			}
		}
	}
	type use struct {
		fn   *ssa.Function
		call ssa.Value
		n    int
	}
	var uses []use
	for _, fn := range fns {
		n := 0
		for _, b := range fn.Blocks {
			for _, in := range b.Instrs {
				var v ssa.Value
				switch x := in.(type) {
				case *ssa.Call:
					name := ""
					if x.Call.IsInvoke() {
						name = x.Call.Method.Name()
					} else if cal := x.Call.StaticCallee(); cal != nil {
						name = cal.Name()
					}
					if accessors[name] {
						v = x
					}
				case *ssa.Lookup:
					if isInitArgsLookup(x) && !accessors[fn.Name()] {
						v = x
					}
				}
				if v != nil {
					n++
					uses = append(uses, use{fn, v, n})
				}
			}
		}
	}
	sort.SliceStable(uses, func(i, j int) bool { return core.SSAName(uses[i].fn) < core.SSAName(uses[j].fn) })
	for _, u := range uses {
		iter := false
		var visit func(v ssa.Value, depth int)
		visit = func(v ssa.Value, depth int) {
			if depth > 3 || v.Referrers() == nil {
				return
			}
			for _, ref := range *v.Referrers() {
				switch x := ref.(type) {
				case *ssa.IndexAddr:
					if _, isC := x.Index.(*ssa.Const); !isC {
						iter = true
					}
				case *ssa.Range:
					iter = true
				case *ssa.Phi:
					visit(x, depth+1)
				case *ssa.Call:
					// handed to append(existing, ...) as the base: the whole collection is kept
					if bi, ok := x.Call.Value.(*ssa.Builtin); ok && bi.Name() == "append" {
						iter = true
					}
				}
			}
		}
		visit(u.call, 0)
		r.Decide(iter, rule, fmt.Sprintf("%s|slots of initarg #%d iterated", core.SSAName(u.fn), u.n), c.Pos(u.call.Pos()), fmt.Sprintf("the slots named by the initarg are all visited (indexed by a loop variable / ranged / extended): %v", iter))
	}
}

// c12unbound: "otherwise leaves it unbound; readers, writers and accessors act on that slot only". A slot
// left unbound holds the marker slip.Unbound. A function of pkg/clos that implements a Lisp-visible read of a
// slot (its Call method hands the value of Instance.SlotValue back as the result) must test the value against
// slip.Unbound: otherwise the marker escapes as an ordinary value where slot-value raises unbound-slot.
func c12unbound(c *core.Ctx, r *core.Reporter) {
	const rule = "C12.unbound"
	r.Rule(rule, "every Call method of pkg/clos that returns the value obtained from Instance.SlotValue compares it with slip.Unbound (an unbound slot is reported through slot-unbound, never returned as a value)", 2)
	for _, fn := range c.ModuleFuncs() {
		if fn.Pkg == nil || core.RelPkg(fn.Pkg.Pkg.Path()) != "pkg/clos" || fn.Name() != "Call" || fn.Parent() != nil {
			continue
		}
		var got []ssa.Value
		for _, b := range fn.Blocks {
			for _, in := range b.Instrs {
				call, ok := in.(*ssa.Call)
				if !ok {
					continue
				}
				name := ""
				if call.Call.IsInvoke() {
					name = call.Call.Method.Name()
				} else if cal := call.Call.StaticCallee(); cal != nil {
					name = cal.Name()
				}
				if name == "SlotValue" && call.Type().(*types.Tuple) != nil {
					got = append(got, call)
				}
			}
		}
		if len(got) == 0 {
			continue
		}
		// does the first result flow to a return?
		returned := false
		compared := false
		for _, g := range got {
			seen := map[ssa.Value]bool{}
			var walk func(v ssa.Value, depth int)
			walk = func(v ssa.Value, depth int) {
				if depth > 6 || seen[v] || v.Referrers() == nil {
					return
				}
				seen[v] = true
				for _, ref := range *v.Referrers() {
					switch x := ref.(type) {
					case *ssa.Extract:
						if x.Index == 0 {
							walk(x, depth+1)
						}
					case *ssa.Phi:
						walk(x, depth+1)
					case *ssa.Return:
						returned = true
					case *ssa.Store:
						// named result: stored then loaded at the return
						if al, ok := x.Addr.(*ssa.Alloc); ok && x.Val == v {
							for _, r2 := range *al.Referrers() {
								if ld, ok := r2.(*ssa.UnOp); ok && ld.Op == token.MUL {
									walk(ld, depth+1)
								}
							}
						}
					case *ssa.BinOp:
						if x.Op == token.EQL || x.Op == token.NEQ {
							other := x.Y
							if other == v {
								other = x.X
							}
							if isUnboundMarker(other) {
								compared = true
							}
						}
					}
				}
			}
			walk(g, 0)
		}
		if !returned {
			continue
		}
		r.Decide(compared, rule, core.SSAName(fn), c.Pos(fn.Pos()), fmt.Sprintf("returns the value of Instance.SlotValue; compared with slip.Unbound first: %v", compared))
	}
}

func isUnboundMarker(v ssa.Value) bool {
	for i := 0; i < 4; i++ {
		switch x := v.(type) {
		case *ssa.MakeInterface:
			v = x.X
			continue
		case *ssa.ChangeInterface:
			v = x.X
			continue
		case *ssa.UnOp:
			if g, ok := x.X.(*ssa.Global); ok && g.Name() == "Unbound" && g.Pkg != nil && g.Pkg.Pkg.Path() == core.SlipPath {
				return true
			}
			return false
		case *ssa.Const:
			// Unbound may be a typed constant
			if n, ok := x.Type().(*types.Named); ok && n.Obj().Pkg() != nil && n.Obj().Pkg().Path() == core.SlipPath {
				return true
			}
			return false
		}
		break
	}
	return false
}

// c12slotkey: one slot is described by a different SlotDef object in every class of the precedence list that
// declares it (shadowing); what identifies the slot is its name. Any table of pkg/clos that records something
// per slot (filled during initialisation, merged definitions, initforms) must therefore be keyed by the name:
// keyed by *SlotDef, an initarg declared at one level and an initform declared at another are taken for two
// slots and the initform overwrites the supplied initarg.
func c12slotkey(c *core.Ctx, r *core.Reporter) {
	const rule = "C12.slotkey"
	r.Rule(rule, "no map of pkg/clos is keyed by a slot definition object: per-slot tables (struct fields of map type that hold SlotDefs, and every map made while initialising an instance) are keyed by the slot's name", 4)
	isSlotDefPtr := func(t types.Type) bool {
		if p, ok := t.(*types.Pointer); ok {
			t = p.Elem()
		}
		n, ok := t.(*types.Named)
		return ok && n.Obj().Name() == "SlotDef" && n.Obj().Pkg() != nil && core.RelPkg(n.Obj().Pkg().Path()) == "pkg/clos"
	}
	mentionsSlotDef := func(t types.Type) bool {
		switch x := t.(type) {
		case *types.Slice:
			return isSlotDefPtr(x.Elem())
		}
		return isSlotDefPtr(t)
	}
	p := c.Pkg("pkg/clos")
	if p == nil {
		r.Undecided(rule, "pkg/clos", "-", "package does not resolve")
		return
	}
	// struct fields
	names := p.Types.Scope().Names()
	sort.Strings(names)
	for _, nm := range names {
		tn, ok := p.Types.Scope().Lookup(nm).(*types.TypeName)
		if !ok {
			continue
		}
		st, ok := tn.Type().Underlying().(*types.Struct)
		if !ok {
			continue
		}
		for i := 0; i < st.NumFields(); i++ {
			f := st.Field(i)
			mt, ok := f.Type().Underlying().(*types.Map)
			if !ok || !(mentionsSlotDef(mt.Elem()) || isSlotDefPtr(mt.Key())) {
				continue
			}
			ok2 := !isSlotDefPtr(mt.Key())
			r.Decide(ok2, rule, fmt.Sprintf("pkg/clos.%s.%s", nm, f.Name()), c.Pos(f.Pos()), fmt.Sprintf("map type %s keyed by name, not by definition object: %v", types.TypeString(f.Type(), func(*types.Package) string { return "" }), ok2))
		}
	}
	// maps made by the instance initialisers (functions that call setSlot) and by the merge
	for _, fn := range c.ModuleFuncs() {
		if fn.Pkg == nil || core.RelPkg(fn.Pkg.Pkg.Path()) != "pkg/clos" {
			continue
		}
		relevant := fn.Name() == "mergeSupers"
		for _, b := range fn.Blocks {
			for _, in := range b.Instrs {
				if call, ok := in.(*ssa.Call); ok {
					if cal := call.Call.StaticCallee(); cal != nil && cal.Name() == "setSlot" {
						relevant = true
					}
				}
			}
		}
		if !relevant {
			continue
		}
		n := 0
		for _, b := range fn.Blocks {
			for _, in := range b.Instrs {
				mm, ok := in.(*ssa.MakeMap)
				if !ok {
					continue
				}
				n++
				mt := mm.Type().Underlying().(*types.Map)
				ok2 := !isSlotDefPtr(mt.Key())
				r.Decide(ok2, rule, fmt.Sprintf("%s|map #%d", core.SSAName(fn), n), c.Pos(mm.Pos()), fmt.Sprintf("map type %s keyed by name, not by definition object: %v", types.TypeString(mm.Type(), func(*types.Package) string { return "" }), ok2))
			}
		}
	}
}

// c12nilvalue: nil is a value. A slot filled with nil - by an initarg given as nil, by :initform nil - is bound;
// only the Unbound marker says "no value". Every call of SlotValue in the module is an instance: its value is
// never compared with nil (the test that distinguishes "no value" is the comparison with slip.Unbound, or the
// second result). slot-boundp with `v != nil && v != Unbound` reports a nil slot as unbound while slot-value
// returns nil for it.
func c12nilvalue(c *core.Ctx, r *core.Reporter) {
	const rule = "C12.nilvalue"
	r.Rule(rule, "the value a SlotValue call returns is never compared with nil: nil is a slot value like any other and a slot holding it is bound; only the Unbound marker (or the call's second result) means there is no value", 10)
	for _, fn := range c.ModuleFuncs() {
		if fn.Blocks == nil || takesTestingT(fn) {
			continue
		}
		n := 0
		for _, b := range fn.Blocks {
			for _, in := range b.Instrs {
				call, ok := in.(*ssa.Call)
				if !ok {
					continue
				}
				name := ""
				if call.Call.IsInvoke() {
					name = call.Call.Method.Name()
				} else if cal := call.Call.StaticCallee(); cal != nil && cal.Pkg != nil && core.InModule(cal.Pkg.Pkg) {
					name = cal.Name()
				}
				if name != "SlotValue" {
					continue
				}
				if _, isTuple := call.Type().(*types.Tuple); !isTuple {
					continue
				}
				n++
				bad := ""
				if call.Referrers() != nil {
					for _, rf := range *call.Referrers() {
						ex, ok := rf.(*ssa.Extract)
						if !ok || ex.Index != 0 {
							continue
						}
						for _, v := range valueAliases(ex, nil) {
							if v.Referrers() == nil {
								continue
							}
							for _, r2 := range *v.Referrers() {
								bo, ok := r2.(*ssa.BinOp)
								if !ok || (bo.Op != token.EQL && bo.Op != token.NEQ) {
									continue
								}
								other := bo.Y
								if other == v {
									other = bo.X
								}
								if k, ok := other.(*ssa.Const); ok && k.IsNil() {
									bad = c.Pos(bo.Pos())
								}
							}
						}
					}
				}
				key := fmt.Sprintf("%s|SlotValue #%d", core.SSAName(fn), n)
				if why, ok := nilValueExceptions[key]; ok {
					r.Hold(rule, key, c.Pos(call.Pos()), "exception by reading: "+why)
					continue
				}
				r.Decide(bad == "", rule, key, c.Pos(call.Pos()), fmt.Sprintf("the value is compared with nil at %q", bad))
			}
		}
	}
}

// nilValueExceptions: one construct each.
var nilValueExceptions = map[string]string{
	"pkg/cl.SimpleCondMsg|SlotValue #1": "chooses which text to build for a condition: a message of nil means no message text was given and the format-control is used; boundness is not reported to anybody",
}
