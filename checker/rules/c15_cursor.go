package rules

import (
	"go/token"

	"golang.org/x/tools/go/ssa"

	"slipcheck/core"
	"slipcheck/lenflow"
)

// c15cursor: the directives read the arguments at the cursor c.argPos; most of them test it only against the
// length. That is sound as long as the cursor is never negative, which is an invariant its writers have to keep:
// every store that can lower the cursor (a subtraction, ~n:*) is followed, on every path to the return, by a
// raising test of the cursor against zero. Without it (format nil "~1:*~?" "") indexed the arguments at -1
// (2b305ff).
func c15cursor(c *core.Ctx, r *core.Reporter) {
	const rule = "C15.cursor"
	r.Rule(rule, "every store that can lower the argument cursor of the format engine (a subtraction) is followed on every path to the return by a raising test of the cursor against zero: the directives rely on the cursor never being negative", 1)
	an := lenflow.New(c)
	for _, fn := range c.ModuleFuncs() {
		if fn.Blocks == nil || fn.Signature.Recv() == nil || !core.IsNamed(fn.Signature.Recv().Type(), core.SlipPath+"/pkg/cl", "control") {
			continue
		}
		var g *core.Guards
		n := 0
		for _, b := range fn.Blocks {
			for _, in := range b.Instrs {
				st, ok := in.(*ssa.Store)
				if !ok {
					continue
				}
				fa, ok := st.Addr.(*ssa.FieldAddr)
				if !ok {
					continue
				}
				if owner, field := fieldOwnerNameAny(fa); owner != "control" || field != "argPos" {
					continue
				}
				bo, ok := st.Val.(*ssa.BinOp)
				if !ok || bo.Op != token.SUB {
					continue
				}
				if k, isK := bo.Y.(*ssa.Const); isK && k.Int64() == 1 {
					// cursor-- directly after a cursor++ of the same directive (~:P backs up over the argument it
					// re-reads): judged by C15.args at the read
					continue
				}
				if g == nil {
					g = core.ComputeGuards(fn, an.NoReturn)
				}
				n++
				// a block that tests the cursor against zero with a raising edge, reachable from the store and
				// dominating every return reachable from the store
				reach := core.ReachableBlocks(b, nil)
				ok2 := false
				for _, tb := range fn.Blocks {
					if !reach[tb] && tb != b {
						continue
					}
					ifi, isIf := tb.Instrs[len(tb.Instrs)-1].(*ssa.If)
					if !isIf || !(g.Dead[tb.Succs[0]] != g.Dead[tb.Succs[1]]) {
						continue
					}
					cmp, isCmp := ifi.Cond.(*ssa.BinOp)
					if !isCmp || (cmp.Op != token.LSS && cmp.Op != token.GEQ && cmp.Op != token.GTR && cmp.Op != token.LEQ) {
						continue
					}
					zero := func(v ssa.Value) bool { k, ok := v.(*ssa.Const); return ok && k.Value != nil && k.Int64() == 0 }
					cur := func(v ssa.Value) bool { return loadsField(v, core.SlipPath+"/pkg/cl", "control", "argPos") }
					if !((cur(cmp.X) && zero(cmp.Y)) || (zero(cmp.X) && cur(cmp.Y))) {
						continue
					}
					dominatesAll := true
					for rb := range reach {
						if _, isRet := rb.Instrs[len(rb.Instrs)-1].(*ssa.Return); isRet && !tb.Dominates(rb) {
							dominatesAll = false
						}
					}
					if dominatesAll {
						ok2 = true
					}
				}
				key := core.SSAName(fn) + "|cursor lowered"
				if n > 1 {
					key += "#" + string(rune('0'+n))
				}
				r.Decide(ok2, rule, key, c.Pos(st.Pos()), "the cursor is lowered by a subtraction; a raising test against zero follows on every path to the return: "+boolStr(ok2))
			}
		}
	}
}
