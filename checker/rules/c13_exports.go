package rules

import (
	"go/constant"
	"go/types"
	"sort"

	"golang.org/x/tools/go/ssa"

	"slipcheck/core"
)

// c13exportlist: a package keeps the export state twice: the Export flag on each function and variable entry
// (what symbol resolution reads) and the Exports name list (what describe shows and what the package load
// form and the snapshot write as (:export ...)). A function of package slip that clears an Export flag and
// leaves the list alone makes the two disagree: the name is private for resolution and is exported again by a
// restored snapshot. The rule: every function that stores the constant false into FuncInfo.Export or
// VarVal.Export also assigns Package.Exports, and so does every function that appends to the list also set a
// flag or own a list-only purpose (Export itself).
func c13exportlist(c *core.Ctx, r *core.Reporter) {
	const rule = "C13.exportlist"
	r.Rule(rule, "every function that clears the Export flag of a function or variable entry also rewrites the package's Exports list (the list describe, the load form and the snapshot report)", 1)
	var fns []*ssa.Function
	for _, fn := range c.ModuleFuncs() {
		if takesTestingT(fn) || fn.Blocks == nil || fn.Pkg == nil {
			continue
		}
		fns = append(fns, fn)
	}
	sort.Slice(fns, func(i, j int) bool { return core.SSAName(fns[i]) < core.SSAName(fns[j]) })
	for _, fn := range fns {
		clears, rewrites := false, false
		pos := ""
		for _, b := range fn.Blocks {
			for _, in := range b.Instrs {
				st, ok := in.(*ssa.Store)
				if !ok {
					continue
				}
				fa, ok := st.Addr.(*ssa.FieldAddr)
				if !ok {
					continue
				}
				owner, field := fieldOwnerName(fa)
				switch {
				case field == "Export" && (owner == "FuncInfo" || owner == "VarVal"):
					if cst, ok := st.Val.(*ssa.Const); ok && cst.Value != nil && cst.Value.Kind() == constant.Bool && !constant.BoolVal(cst.Value) {
						clears = true
						if pos == "" {
							pos = c.Pos(st.Pos())
						}
					}
				case field == "Exports" && owner == "Package":
					rewrites = true
				}
			}
		}
		if !clears {
			continue
		}
		r.Decide(rewrites, rule, core.SSAName(fn), pos, "clears an Export flag; also assigns Package.Exports: "+boolStr(rewrites))
	}
}

func boolStr(b bool) string {
	if b {
		return "yes"
	}
	return "no"
}

// fieldOwnerName: the named struct type (in package slip) and the field name of a field address.
func fieldOwnerName(fa *ssa.FieldAddr) (string, string) {
	t := fa.X.Type()
	if p, ok := t.Underlying().(*types.Pointer); ok {
		t = p.Elem()
	}
	nt, ok := types.Unalias(t).(*types.Named)
	if !ok || nt.Obj().Pkg() == nil || nt.Obj().Pkg().Path() != core.SlipPath {
		return "", ""
	}
	st, ok := nt.Underlying().(*types.Struct)
	if !ok || fa.Field >= st.NumFields() {
		return "", ""
	}
	return nt.Obj().Name(), st.Field(fa.Field).Name()
}
