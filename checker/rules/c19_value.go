package rules

import (
	"fmt"
	"go/types"
	"sort"

	"golang.org/x/tools/go/ssa"

	"slipcheck/core"
)

// c19value: saved source text is code. A runtime *value* (of a variable, a constant, a slot, a table entry)
// put into a code position evaluates as code when the text is loaded: a symbol becomes a variable reference, a
// list a call. Every writer therefore passes a value through a function that turns it into a form first
// (quoting symbols and lists). The rule: in the load-form and snapshot writers, the result of a call that
// reads a runtime value (VarVal.Value, Instance.SlotValue, Scope.LocalGet, a range over a HashTable receiver)
// is never stored as an element of a form being built; it may only be handed to another function, tested, or
// type-switched. Before the repairs the snapshot wrote (defconstant +k+ foo), the hash-table load form
// (setf (gethash 'k table) v) and the instance load form (setf (slot-value inst 's3) four).
func c19value(c *core.Ctx, r *core.Reporter) {
	const rule = "C19.value"
	r.Rule(rule, "in the load-form and snapshot writers a runtime value read from a variable, slot or table is never stored directly as an element of the form being built: it goes through a function that makes a form of it (quoting symbols and lists)", 5)
	writer := func(fn *ssa.Function) bool {
		if fn.Pkg == nil {
			return false
		}
		switch core.RelPkg(fn.Pkg.Pkg.Path()) {
		case "pkg/gi":
			// the snapshot writer functions
			if fn.Syntax() != nil {
				return c.Prog.Fset.Position(fn.Pos()).Filename != "" && baseName(c.Prog.Fset.Position(fn.Pos()).Filename) == "snapshot.go"
			}
		case "slip", "pkg/clos", "pkg/flavors", "pkg/generic":
			n := fn.Name()
			return len(n) >= 8 && n[len(n)-8:] == "LoadForm"
		}
		return false
	}
	var fns []*ssa.Function
	for _, fn := range c.ModuleFuncs() {
		if fn.Parent() == nil && writer(fn) {
			fns = append(fns, fn)
		}
	}
	sort.Slice(fns, func(i, j int) bool { return core.SSAName(fns[i]) < core.SSAName(fns[j]) })
	for _, fn := range fns {
		n := 0
		for _, b := range fn.Blocks {
			for _, in := range b.Instrs {
				var src ssa.Value
				what := ""
				switch x := in.(type) {
				case *ssa.Call:
					name := ""
					if x.Call.IsInvoke() {
						name = x.Call.Method.Name()
					} else if cal := x.Call.StaticCallee(); cal != nil {
						name = cal.Name()
					}
					switch name {
					case "Value":
						if !x.Call.IsInvoke() && len(x.Call.Args) > 0 && core.IsNamed(x.Call.Args[0].Type(), core.SlipPath, "VarVal") {
							src, what = x, "VarVal.Value()"
						}
					case "SlotValue", "LocalGet":
						src, what = x, name+"()"
					}
				case *ssa.Next:
					if rg, ok := x.Iter.(*ssa.Range); ok {
						if _, isMap := rg.X.Type().Underlying().(*types.Map); isMap && core.IsNamed(rg.X.Type(), core.SlipPath, "HashTable") {
							src, what = x, "range over a hash table"
						}
					}
				}
				if src == nil {
					continue
				}
				n++
				raw := storedRaw(src, 0, map[ssa.Value]bool{})
				key := fmt.Sprintf("%s|%s #%d", core.SSAName(fn), what, n)
				r.Decide(raw == nil, rule, key, c.Pos(src.Pos()), fmt.Sprintf("the value is never stored directly into the form being built: %v", raw == nil))
			}
		}
	}
}

func baseName(p string) string {
	for i := len(p) - 1; i >= 0; i-- {
		if p[i] == '/' {
			return p[i+1:]
		}
	}
	return p
}

// storedRaw: v (or a component extracted from it, or a phi of it) is the value operand of a store into a slice
// element or of an append; returns that instruction.
func storedRaw(v ssa.Value, depth int, seen map[ssa.Value]bool) ssa.Instruction {
	if depth > 5 || seen[v] || v.Referrers() == nil {
		return nil
	}
	seen[v] = true
	for _, ref := range *v.Referrers() {
		switch x := ref.(type) {
		case *ssa.Extract:
			// the value component of (value, has) tuples and of map iteration (key, value): components of
			// interface type slip.Object only
			if core.IsNamed(x.Type(), core.SlipPath, "Object") {
				if in := storedRaw(x, depth+1, seen); in != nil {
					return in
				}
			}
		case *ssa.Phi:
			if in := storedRaw(x, depth+1, seen); in != nil {
				return in
			}
		case *ssa.Store:
			if x.Val != v {
				continue
			}
			if _, ok := x.Addr.(*ssa.IndexAddr); ok {
				return x
			}
			// a local variable: follow its loads
			if al, ok := x.Addr.(*ssa.Alloc); ok {
				for _, r2 := range *al.Referrers() {
					if ld, ok := r2.(*ssa.UnOp); ok {
						if in := storedRaw(ld, depth+1, seen); in != nil {
							return in
						}
					}
				}
			}
		}
	}
	return nil
}
