package rules

import (
	"fmt"
	"go/constant"
	"go/token"
	"sort"
	"strings"

	"golang.org/x/tools/go/ssa"

	"slipcheck/core"
	"slipcheck/lenflow"
)

func init() {
	register(&Prop{
		ID:        "C17",
		Technique: "lock-set (must-hold) dataflow on SSA with deferred-release modelling: lock/unlock pairing on every path, no condition-raising call inside a non-deferred critical section, guarded-by tables for the shared interpreter tables, goroutine bodies that recover",
		Explanation: "Linearizability and exactly-once delivery are history properties and are not decided. Lock discipline is: (C17.pair) every Lock in the module is released on every normal path, and when a call that can raise a Lisp condition (transitively reaches a panic, or evaluates user code) executes while the lock is held, the release is deferred - otherwise the mutex stays locked after the exit, which contradicts 'the mutex is free again after any exit'; " +
			"(C17.guard) the interpreter's shared tables that have a mutex (package tables, generic-function tables, scope variables) are only accessed with that mutex held by the same object; (C17.run) every goroutine started by a built-in recovers panics of its body. A violation of C17.guard is a data race on a Go map, i.e. corruption or an abort of the interpreter under concurrent use.",
		NotCovered: "exactly-once and FIFO delivery on channels, serialisability of programs (properties of Go's channels and mutexes and of schedules); globals without any mutex (printer state, trace hooks) are listed as information only",
		Trusted:    commonTrusted,
		Run:        runC17,
	})
}

// lockKeyOf renders the identity of a mutex: the access path of its address with locals that are stored once
// and captured variables resolved to the value they hold.
func lockKeyOf(v ssa.Value, fn *ssa.Function, depth int) string {
	if depth > 10 || v == nil {
		return "?"
	}
	switch x := v.(type) {
	case *ssa.Parameter:
		return "param:" + x.Name()
	case *ssa.Global:
		return "global:" + x.Name()
	case *ssa.FieldAddr:
		return lockKeyOf(x.X, fn, depth+1) + "." + fieldName(x)
	case *ssa.UnOp:
		if x.Op != token.MUL {
			return "?"
		}
		switch a := x.X.(type) {
		case *ssa.Alloc:
			if st := onlyStore(a); st != nil {
				return lockKeyOf(st, fn, depth+1)
			}
			return fmt.Sprintf("local@%d", a.Pos())
		case *ssa.FreeVar:
			// resolve through the closure binding
			if pv := freeVarBinding(a); pv != nil {
				if al, ok := pv.(*ssa.Alloc); ok {
					if st := onlyStore(al); st != nil {
						return lockKeyOf(st, al.Parent(), depth+1)
					}
				}
				return lockKeyOf(pv, fn.Parent(), depth+1)
			}
			return "free:" + a.Name()
		}
		return "*" + lockKeyOf(x.X, fn, depth+1)
	case *ssa.FreeVar:
		if pv := freeVarBinding(x); pv != nil {
			return lockKeyOf(pv, fn.Parent(), depth+1)
		}
		return "free:" + x.Name()
	case *ssa.Alloc:
		return fmt.Sprintf("local@%d", x.Pos())
	case *ssa.Phi:
		return "phi:" + x.Comment
	case *ssa.TypeAssert:
		return "assert(" + lockKeyOf(x.X, fn, depth+1) + ")"
	case *ssa.Extract:
		return fmt.Sprintf("extract%d(%s)", x.Index, lockKeyOf(x.Tuple, fn, depth+1))
	case *ssa.MakeInterface:
		return lockKeyOf(x.X, fn, depth+1)
	case *ssa.ChangeType:
		return lockKeyOf(x.X, fn, depth+1)
	case *ssa.Convert:
		return lockKeyOf(x.X, fn, depth+1)
	case *ssa.IndexAddr:
		return lockKeyOf(x.X, fn, depth+1) + "[]"
	case *ssa.Call:
		return fmt.Sprintf("call@%d", x.Pos())
	case *ssa.Lookup:
		return fmt.Sprintf("lookup@%d", x.Pos())
	case *ssa.Next:
		return fmt.Sprintf("next@%p", x.Iter)
	}
	return "?"
}

func onlyStore(al *ssa.Alloc) ssa.Value {
	var v ssa.Value
	n := 0
	var visit func(a ssa.Value)
	visit = func(a ssa.Value) {
		for _, rf := range *a.Referrers() {
			switch y := rf.(type) {
			case *ssa.Store:
				if y.Addr == a {
					n++
					v = y.Val
				}
			case *ssa.MakeClosure:
				for i, b := range y.Bindings {
					if b == a {
						visit(y.Fn.(*ssa.Function).FreeVars[i])
					}
				}
			}
		}
	}
	visit(al)
	if n == 1 {
		return v
	}
	return nil
}

func freeVarBinding(fv *ssa.FreeVar) ssa.Value {
	fn := fv.Parent()
	p := fn.Parent()
	if p == nil {
		return nil
	}
	for i, f := range fn.FreeVars {
		if f != fv {
			continue
		}
		for _, b := range p.Blocks {
			for _, in := range b.Instrs {
				if mk, ok := in.(*ssa.MakeClosure); ok && mk.Fn == ssa.Value(fn) && i < len(mk.Bindings) {
					return mk.Bindings[i]
				}
			}
		}
	}
	return nil
}

type raiseInfo struct {
	memo    map[*ssa.Function]int // 0 unknown 1 no 2 yes 3 in progress
	lf      *lenflow.Analyzer
	callers map[*ssa.Function][]*ssa.Call
}

func cf2s(c *ssa.Call) string { return core.SSAName(c.Parent()) }

// canRaise: the call may raise a Lisp condition (a Go panic carrying it).
func (ri *raiseInfo) canRaise(call *ssa.Call, depth int) (bool, string) {
	if call.Call.IsInvoke() {
		switch call.Call.Method.Name() {
		case "Call", "Eval", "Apply", "BoundCall", "Receive", "BoundReceive", "SetSlotValue", "Place", "Set":
			return true, "evaluates user code or sets a slot (" + call.Call.Method.Name() + ")"
		}
		return false, ""
	}
	g := call.Call.StaticCallee()
	if g == nil {
		if _, ok := call.Call.Value.(*ssa.Builtin); ok {
			return false, ""
		}
		// a callback parameter: look at what the static callers pass
		if p, ok := call.Call.Value.(*ssa.Parameter); ok && ri.callers != nil {
			fn := p.Parent()
			pi := -1
			for i, q := range fn.Params {
				if q == p {
					pi = i
				}
			}
			cs := ri.callers[fn]
			if pi >= 0 && len(cs) > 0 && !ri.lf.Dynamic(fn) {
				for _, cc := range cs {
					if pi >= len(cc.Call.Args) {
						return true, "calls a function value"
					}
					var cf *ssa.Function
					switch v := cc.Call.Args[pi].(type) {
					case *ssa.MakeClosure:
						cf = v.Fn.(*ssa.Function)
					case *ssa.Function:
						cf = v
					}
					if cf == nil || ri.fnRaises(cf, depth+1) {
						return true, "calls a callback that can raise (passed at " + cf2s(cc) + ")"
					}
				}
				return false, ""
			}
		}
		return true, "calls a function value"
	}
	if ri.fnRaises(g, depth) {
		return true, "calls " + g.Name() + ", which can raise"
	}
	return false, ""
}

func (ri *raiseInfo) fnRaises(g *ssa.Function, depth int) bool {
	switch ri.memo[g] {
	case 1, 3:
		return false
	case 2:
		return true
	}
	if g.Blocks == nil || depth > 6 {
		ri.memo[g] = 1
		return false
	}
	if ri.lf.NoReturn(g) {
		ri.memo[g] = 2
		return true
	}
	ri.memo[g] = 3
	res := false
	if g.Pkg != nil && core.InModule(g.Pkg.Pkg) {
		for _, b := range g.Blocks {
			for _, in := range b.Instrs {
				switch x := in.(type) {
				case *ssa.Panic:
					res = true
				case *ssa.Call:
					if r, _ := ri.canRaise(x, depth+1); r {
						res = true
					}
				}
			}
		}
	}
	if res {
		ri.memo[g] = 2
	} else {
		ri.memo[g] = 1
	}
	return res
}

func runC17(c *core.Ctx, r *core.Reporter) {
	c.BuildSSA()
	c17pair(c, r)
	guardedBy(c, r, "C17.guard.package", core.SlipPath, "Package", []string{"vars", "funcs", "lambdas", "classes", "Uses", "Users"}, "mu",
		"every read or write of Package.vars/funcs/lambdas/classes/Uses/Users happens with Package.mu of the same package held (lock-set dataflow with caller-holds summaries; construction of a package not yet published is exempt)", 60)
	guardedBy(c, r, "C17.guard.generic", genericPath, "Aux", []string{"cache", "methods", "defaultCaller"}, "moo",
		"every read or write of Aux.cache, Aux.methods and Aux.defaultCaller happens with Aux.moo of the same Aux value held", 8)
	c17run(c, r)
	c17relock(c, r)
	c17recheck(c, r)
	c17printer(c, r, "C17.printer")
	c17callerscope(c, r, "C17.callerscope")
	// a pointer left nil by the losing side of a race inside a critical section
	r.Rule("C17.lockednil", "in every function of the interpreter that takes a mutex (Lock/RLock), a pointer variable that is nil on some path (a branch inside or around the critical section leaves it unassigned: the entry was there when re-checked) is dereferenced only where the facts that hold exclude that path", 3)
	nilPhi(c, r, "C17.lockednil", func(fn *ssa.Function) bool {
		rel := core.RelPkg(fn.Pkg.Pkg.Path())
		if rel != "slip" && !strings.HasPrefix(rel, "pkg/") {
			return false
		}
		for _, b := range fn.Blocks {
			for _, in := range b.Instrs {
				if call, ok := in.(*ssa.Call); ok && !call.Call.IsInvoke() {
					if g := call.Call.StaticCallee(); g != nil && (g.Name() == "Lock" || g.Name() == "RLock") && g.Pkg != nil && g.Pkg.Pkg.Path() == "sync" {
						return true
					}
				}
			}
		}
		return false
	}, lenflow.New(c).NoReturn)
}

// c17relock: turning synchronisation on installs a new mutex. Doing that on an instance that is already
// synchronised replaces a lock other routines may hold or wait on.
func c17relock(c *core.Ctx, r *core.Reporter) {
	const rule = "C17.relock"
	r.Rule(rule, "in the Call method of every registered built-in, a call that turns synchronisation on for an instance taken from the arguments (SetSynchronized with an argument that is not the constant false) is reached only through a branch on which Synchronized() of the same instance returned false: installing a new mutex on a synchronised instance drops the lock other routines hold", 1)
	an := lenflow.New(c)
	for _, b := range c.Registry() {
		if b.Call == nil {
			continue
		}
		fn := c.SSAFunc(b.Call)
		if fn == nil {
			continue
		}
		var g *core.Guards
		n := 0
		for _, bb := range fn.Blocks {
			for _, in := range bb.Instrs {
				call, ok := in.(*ssa.Call)
				if !ok || callMethodName(call) != "SetSynchronized" {
					continue
				}
				recv := callReceiver(call)
				if recv == nil {
					continue
				}
				var arg ssa.Value
				if call.Call.IsInvoke() {
					if len(call.Call.Args) > 0 {
						arg = call.Call.Args[0]
					}
				} else if len(call.Call.Args) > 1 {
					arg = call.Call.Args[1]
				}
				if k, isK := arg.(*ssa.Const); isK && k.Value != nil && k.Value.Kind() == constant.Bool && !constant.BoolVal(k.Value) {
					continue
				}
				// only instances taken from the arguments: a fresh instance (result of a constructor) is not shared yet
				if !fromArgs(recv, 0) {
					continue
				}
				if g == nil {
					g = core.ComputeGuards(fn, an.NoReturn)
				}
				guarded := false
				for f := range g.Facts(bb) {
					// Synchronized() == false: `if !x.Synchronized()` lowers to If(call) with the false edge taken,
					// or If(not call) with the true edge taken
					cond := f.If.Cond
					want := false
					if u, isNot := cond.(*ssa.UnOp); isNot && u.Op == token.NOT {
						cond = u.X
						want = true
					}
					cc, isCall := cond.(*ssa.Call)
					if !isCall || callMethodName(cc) != "Synchronized" || callReceiver(cc) != recv {
						continue
					}
					if f.Branch == want {
						guarded = true
					}
				}
				n++
				key := b.Key()
				if n > 1 {
					key = fmt.Sprintf("%s#%d", key, n)
				}
				r.Decide(guarded, rule, key, c.Pos(call.Pos()), fmt.Sprintf("reached only when Synchronized() of the same instance was false: %v", guarded))
			}
		}
	}
}

// fromArgs: v is an element of a list parameter, possibly type-asserted or converted.
func fromArgs(v ssa.Value, depth int) bool {
	if depth > 6 {
		return false
	}
	if _, _, ok := listElemLoad(v); ok {
		return true
	}
	switch x := v.(type) {
	case *ssa.TypeAssert:
		return fromArgs(x.X, depth+1)
	case *ssa.Extract:
		return fromArgs(x.Tuple, depth+1)
	case *ssa.ChangeInterface:
		return fromArgs(x.X, depth+1)
	case *ssa.MakeInterface:
		return fromArgs(x.X, depth+1)
	case *ssa.Phi:
		for _, e := range x.Edges {
			if fromArgs(e, depth+1) {
				return true
			}
		}
	}
	return false
}

func callMethodName(call *ssa.Call) string {
	if call.Call.IsInvoke() {
		return call.Call.Method.Name()
	}
	if g := call.Call.StaticCallee(); g != nil && g.Signature.Recv() != nil {
		return g.Name()
	}
	return ""
}

func callReceiver(call *ssa.Call) ssa.Value {
	if call.Call.IsInvoke() {
		return call.Call.Value
	}
	if len(call.Call.Args) > 0 {
		return call.Call.Args[0]
	}
	return nil
}

func c17pair(c *core.Ctx, r *core.Reporter) {
	const rule = "C17.pair"
	r.Rule(rule, "every Lock()/RLock() in the module is released on every path to a return of the function (directly, or by a deferred Unlock registered in that function); while a lock taken in the function is held and not yet covered by a deferred release, no call executes that can raise a Lisp condition", 60)
	lf := lenflow.New(c)
	ri := &raiseInfo{memo: map[*ssa.Function]int{}, lf: lf, callers: buildCallSites(c).callers}
	nLocks := 0
	for _, fn := range c.ModuleFuncs() {
		var locks []*ssa.Call
		for _, b := range fn.Blocks {
			for _, in := range b.Instrs {
				if call, ok := in.(*ssa.Call); ok {
					if op, _ := lockOp(call.Call); op == "lock" {
						locks = append(locks, call)
					}
				}
			}
		}
		if len(locks) == 0 {
			continue
		}
		// lock wrappers (func (s *Scope) Lock() { s.locker.Lock() }) hand the lock to their caller by design
		if (fn.Name() == "Lock" || fn.Name() == "RLock" || fn.Name() == "TryLock") && fn.Signature.Recv() != nil {
			for range locks {
				nLocks++
			}
			r.Hold(rule, core.SSAName(fn)+"|wrapper", c.Pos(fn.Pos()), "lock wrapper: returns with the lock held for its caller")
			continue
		}
		// deferred releases: key -> the Defer instruction
		type rel struct {
			d   *ssa.Defer
			key string
		}
		var rels []rel
		for _, b := range fn.Blocks {
			for _, in := range b.Instrs {
				d, ok := in.(*ssa.Defer)
				if !ok {
					continue
				}
				if op, mu := lockOp(d.Call); op == "unlock" {
					rels = append(rels, rel{d, lockKeyOf(mu, fn, 0)})
					continue
				}
				if mc, ok := d.Call.Value.(*ssa.MakeClosure); ok {
					cf := mc.Fn.(*ssa.Function)
					for _, cb := range cf.Blocks {
						for _, cin := range cb.Instrs {
							if cc, ok := cin.(*ssa.Call); ok {
								if op, mu := lockOp(cc.Call); op == "unlock" {
									rels = append(rels, rel{d, lockKeyOf(mu, cf, 0)})
								}
							}
						}
					}
				}
			}
		}
		// Per instruction: the locks that may be held without a deferred release registered on the same path.
		// State = (U: may-set of unprotected held locks, R: must-set of registered deferred releases).
		// Lock(k): k joins U unless k is in R (defer first, then lock). Defer-unlock(k): k joins R and leaves U.
		// Unlock(k): k leaves U. Join: U union, R intersection.
		type lstate struct{ u, r map[string]bool }
		clone := func(s lstate) lstate {
			n := lstate{map[string]bool{}, map[string]bool{}}
			for k := range s.u {
				n.u[k] = true
			}
			for k := range s.r {
				n.r[k] = true
			}
			return n
		}
		relKeys := map[*ssa.Defer][]string{}
		for _, rl := range rels {
			relKeys[rl.d] = append(relKeys[rl.d], rl.key)
		}
		held := map[ssa.Instruction]map[string]bool{}
		in := map[*ssa.BasicBlock]lstate{fn.Blocks[0]: {map[string]bool{}, map[string]bool{}}}
		work := []*ssa.BasicBlock{fn.Blocks[0]}
		for iter := 0; len(work) > 0 && iter < 5000; iter++ {
			b := work[0]
			work = work[1:]
			st := clone(in[b])
			for _, ins := range b.Instrs {
				cp := map[string]bool{}
				for k := range st.u {
					cp[k] = true
				}
				held[ins] = cp
				switch x := ins.(type) {
				case *ssa.Call:
					if op, mu := lockOp(x.Call); op != "" {
						k := lockKeyOf(mu, fn, 0)
						if op == "lock" {
							if !st.r[k] {
								st.u[k] = true
							}
						} else {
							delete(st.u, k)
						}
					}
				case *ssa.Defer:
					for _, k := range relKeys[x] {
						st.r[k] = true
						delete(st.u, k)
					}
				}
			}
			for _, s := range b.Succs {
				old, ok := in[s]
				if !ok {
					in[s] = clone(st)
					work = append(work, s)
					continue
				}
				changed := false
				for k := range st.u {
					if !old.u[k] {
						old.u[k] = true
						changed = true
					}
				}
				for k := range old.r {
					if !st.r[k] {
						delete(old.r, k)
						changed = true
					}
				}
				if changed {
					work = append(work, s)
				}
			}
		}
		sort.Slice(locks, func(i, j int) bool { return locks[i].Pos() < locks[j].Pos() })
		for _, lk := range locks {
			nLocks++
			_, mu := lockOp(lk.Call)
			key := lockKeyOf(mu, fn, 0)
			okey := fmt.Sprintf("%s|%s", core.SSAName(fn), shortLock(key))
			// (1) released on every path: at every Return, the key is not held or a deferred release covers it
			leak := ""
			for _, b := range fn.Blocks {
				ret, ok := b.Instrs[len(b.Instrs)-1].(*ssa.Return)
				if !ok || !held[ret][key] {
					continue
				}
				leak = c.Pos(ret.Pos())
			}
			// (2) raising calls while held and not covered by a dominating deferred release
			raise := ""
			for _, b := range fn.Blocks {
				for _, ins := range b.Instrs {
					call, ok := ins.(*ssa.Call)
					if !ok || !held[ins][key] || call == lk {
						continue
					}
					if op, _ := lockOp(call.Call); op != "" {
						continue
					}
					can, why := ri.canRaise(call, 0)
					if !can {
						continue
					}
					if raise == "" {
						raise = fmt.Sprintf("%s %s while the lock is held without a deferred release", c.Pos(call.Pos()), why)
					}
				}
			}
			if why, ok := pairNotJudged[okey]; ok && leak == "" {
				r.Infof("C17.pair not judged: %s: %s (%s)", okey, why, raise)
				continue
			}
			switch {
			case leak != "":
				r.Violate(rule, okey+"|released on every path", c.Pos(lk.Pos()), "a return at "+leak+" is reachable with the lock still held and no deferred release")
			case raise != "":
				r.Violate(rule, okey+"|no raise inside", c.Pos(lk.Pos()), raise)
			default:
				r.Hold(rule, okey, c.Pos(lk.Pos()), "released on every path; no raising call inside an undeferred critical section")
			}
		}
	}
	r.Count("pair.lock_sites", nLocks)
}

// pairNotJudged: critical sections in which the engine sees a possibly raising call but no raising input could be
// constructed; they are reported as information, neither as holding nor as violated.
var pairNotJudged = map[string]string{
	"slip.(Package).EachClassName|obj.mu": "the callbacks passed by the callers only collect or format names",
	"slip.(Package).EachFuncInfo|obj.mu":  "the callbacks passed by apropos, do-external-symbols and the completer only collect or format text (printer errors disabled)",
	"slip.(Package).EachVarVal|obj.mu":    "as EachFuncInfo",
	"slip.(Scope).get|*s.locker":          "the raising call is Ref.Get; Ref values live only in with-slots scopes, whose locker is the no-op locker",
	"slip.(Scope).localGet|*s.locker":     "as Scope.get",
	"slip.(Scope).set|*s.locker":          "the raising call is SetSlotValue on a Ref; Ref values live only in with-slots scopes, whose locker is the no-op locker",
}

func shortLock(k string) string {
	k = strings.ReplaceAll(k, "param:", "")
	return k
}

// c17run: goroutines started by built-ins must recover.
func c17run(c *core.Ctx, r *core.Reporter) {
	const rule = "C17.run"
	r.Rule(rule, "every goroutine started from the Call method of a registered built-in runs a function that installs a deferred recover before evaluating anything: a condition raised in a routine must not abort the whole interpreter", 1)
	for _, b := range c.Registry() {
		if b.Call == nil {
			continue
		}
		fn := c.SSAFunc(b.Call)
		if fn == nil {
			continue
		}
		for _, bb := range fn.Blocks {
			for _, in := range bb.Instrs {
				g, ok := in.(*ssa.Go)
				if !ok {
					continue
				}
				var body *ssa.Function
				if mc, ok := g.Call.Value.(*ssa.MakeClosure); ok {
					body = mc.Fn.(*ssa.Function)
				} else {
					body = g.Call.StaticCallee()
				}
				rec := false
				if body != nil && len(body.Blocks) > 0 {
					// the deferred recover must be registered in the entry block before any call executes
				entry:
					for _, cin := range body.Blocks[0].Instrs {
						switch x := cin.(type) {
						case *ssa.Defer:
							if df := deferredFn(x); df != nil && callsRecover(df) {
								rec = true
								break entry
							}
						case *ssa.Call:
							if _, isBuiltin := x.Call.Value.(*ssa.Builtin); !isBuiltin {
								break entry
							}
						}
					}
				}
				r.Decide(rec, rule, b.Key()+"|goroutine recovers", c.Pos(g.Pos()), fmt.Sprintf("the routine body defers a function that calls recover before its first call: %v", rec))
			}
		}
	}
}

func deferredFn(d *ssa.Defer) *ssa.Function {
	if mc, ok := d.Call.Value.(*ssa.MakeClosure); ok {
		return mc.Fn.(*ssa.Function)
	}
	return d.Call.StaticCallee()
}

func callsRecover(f *ssa.Function) bool {
	for _, b := range f.Blocks {
		for _, in := range b.Instrs {
			if call, ok := in.(*ssa.Call); ok {
				if bi, ok := call.Call.Value.(*ssa.Builtin); ok && bi.Name() == "recover" {
					return true
				}
			}
		}
	}
	return false
}
