package rules

import (
	"go/constant"
	"go/token"
	"go/types"

	"golang.org/x/tools/go/ssa"

	"slipcheck/core"
)

// c01kwself: a keyword evaluates to itself. The compiler of function bodies (Lambda.Compile) replaces a symbol in
// body position by a variable reference (*VarVal, created unbound when the variable does not exist yet). A
// keyword must never take that route: (defun ff () :foo) (ff) returned the unbound marker (28437d2). The rule:
// every creation of an unbound variable placeholder (newUnboundVar) whose name derives from a Symbol, and every
// store of a *VarVal over a form, is reached only through the false edge of a comparison of the name's first
// byte with ':'.
func c01kwself(c *core.Ctx, r *core.Reporter) {
	const rule = "C01.kwself"
	r.Rule(rule, "a symbol form is turned into a variable placeholder only on paths where a test established that it is not a keyword (first byte compared with ':')", 1)
	nu := c.LookupFunc("", "newUnboundVar")
	if nu == nil {
		r.Undecided(rule, "slip.newUnboundVar", "-", "anchor does not resolve")
		return
	}
	nuFn := c.SSAFunc(nu)
	symT := c.LookupType("", "Symbol")
	isSym := func(t types.Type) bool {
		nt, ok := types.Unalias(t).(*types.Named)
		return ok && symT != nil && nt.Obj() == symT.Obj()
	}
	for _, fn := range c.ModuleFuncs() {
		if fn.Blocks == nil || fn.Pkg == nil || fn.Pkg.Pkg.Path() != core.SlipPath || takesTestingT(fn) {
			continue
		}
		for _, b := range fn.Blocks {
			for _, in := range b.Instrs {
				call, ok := in.(*ssa.Call)
				if !ok || call.Call.StaticCallee() != nuFn || len(call.Call.Args) != 1 {
					continue
				}
				// the name is string(sym) for a Symbol-typed value
				var sym ssa.Value
				switch x := call.Call.Args[0].(type) {
				case *ssa.ChangeType:
					if isSym(x.X.Type()) {
						sym = x.X
					}
				case *ssa.Convert:
					if isSym(x.X.Type()) {
						sym = x.X
					}
				}
				if sym == nil {
					continue // a name that is not a form (Package.Export takes the name of an existing declaration)
				}
				guarded := core.Separates(fn, b, nil, func(ifi *ssa.If, branch bool) bool {
					return !branch && (firstByteIsColon(ifi.Cond, sym) || lenPositiveOf(ifi.Cond, sym))
				})
				r.Decide(guarded, rule, core.SSAName(fn)+"|placeholder for a form symbol", c.Pos(call.Pos()), "the placeholder is created only where the symbol's first byte was compared with ':' and differed")
			}
		}
	}
}

// firstByteIsColon: cond is `sym[0] == ':'` (possibly conjoined after a length test, which go/ssa splits into
// blocks) for the given Symbol value.
func firstByteIsColon(cond ssa.Value, sym ssa.Value) bool {
	bo, ok := cond.(*ssa.BinOp)
	if !ok || bo.Op != token.EQL {
		return false
	}
	for _, pair := range [][2]ssa.Value{{bo.X, bo.Y}, {bo.Y, bo.X}} {
		k, ok := pair[1].(*ssa.Const)
		if !ok || k.Value == nil || k.Value.Kind() != constant.Int {
			continue
		}
		if v, _ := constant.Int64Val(k.Value); v != ':' {
			continue
		}
		// string indexing is *ssa.Index in current go/ssa (*ssa.Lookup in older releases)
		var x, idx ssa.Value
		switch lk := pair[0].(type) {
		case *ssa.Index:
			x, idx = lk.X, lk.Index
		case *ssa.Lookup:
			x, idx = lk.X, lk.Index
		default:
			continue
		}
		if z, ok := idx.(*ssa.Const); !ok || z.Value == nil || z.Int64() != 0 {
			continue
		}
		if ct, ok := x.(*ssa.ChangeType); ok {
			x = ct.X
		}
		if x == sym {
			return true
		}
	}
	return false
}

// lenPositiveOf: cond is `0 < len(sym)` / `len(sym) > 0` / `len(sym) != 0`: on its false edge the symbol is empty
// and cannot be a keyword.
func lenPositiveOf(cond ssa.Value, sym ssa.Value) bool {
	bo, ok := cond.(*ssa.BinOp)
	if !ok {
		return false
	}
	isLen := func(v ssa.Value) bool {
		call, ok := v.(*ssa.Call)
		if !ok {
			return false
		}
		bi, ok := call.Call.Value.(*ssa.Builtin)
		if !ok || bi.Name() != "len" || len(call.Call.Args) != 1 {
			return false
		}
		x := call.Call.Args[0]
		if ct, ok := x.(*ssa.ChangeType); ok {
			x = ct.X
		}
		return x == sym
	}
	isZero := func(v ssa.Value) bool {
		k, ok := v.(*ssa.Const)
		return ok && k.Value != nil && k.Value.Kind() == constant.Int && k.Int64() == 0
	}
	switch bo.Op {
	case token.LSS:
		return isZero(bo.X) && isLen(bo.Y)
	case token.GTR, token.NEQ:
		return isLen(bo.X) && isZero(bo.Y)
	}
	return false
}
