package rules

import (
	"go/token"
	"go/types"
	"sort"

	"golang.org/x/tools/go/ssa"

	"slipcheck/core"
)

// c04absent: nil is a value. A parameter that was given nil is bound (to nil), and the default pass of
// Lambda.Call (`if !ss.Bound(p) { Let(p, default) }`) must leave it alone: ((lambda (a &optional (b 5)) (list a
// b)) 1 nil) is (1 nil). The scope keeps its bindings in a Go map, where a one-result lookup cannot tell "bound
// to nil" from "not bound". The rule: every lookup in Scope.Vars (and in the Vars of a flavors instance, the
// same type) whose result decides presence uses the two-result form: a one-result lookup is never compared with
// nil.
func c04absent(c *core.Ctx, r *core.Reporter) {
	const rule = "C04.absent"
	r.Rule(rule, "a lookup in a scope's variable table that decides whether the variable is bound uses the two-result form: a one-result lookup is never compared with nil (a variable bound to nil is bound)", 8)
	scT := c.LookupType("", "Scope")
	if scT == nil {
		r.Undecided(rule, "slip.Scope", "-", "anchor does not resolve")
		return
	}
	isVars := func(v ssa.Value) bool {
		u, ok := v.(*ssa.UnOp)
		if !ok || u.Op != token.MUL {
			return false
		}
		fa, ok := u.X.(*ssa.FieldAddr)
		if !ok {
			return false
		}
		t := fa.X.Type()
		if p, ok := t.Underlying().(*types.Pointer); ok {
			t = p.Elem()
		}
		nt, ok := types.Unalias(t).(*types.Named)
		if !ok || nt.Obj() != scT.Obj() {
			return false
		}
		st, ok := nt.Underlying().(*types.Struct)
		return ok && fa.Field < st.NumFields() && st.Field(fa.Field).Name() == "Vars"
	}
	type site struct {
		key, pos string
		ok       bool
		why      string
	}
	var sites []site
	for _, fn := range c.ModuleFuncs() {
		if fn.Blocks == nil || fn.Pkg == nil || takesTestingT(fn) {
			continue
		}
		n := 0
		for _, b := range fn.Blocks {
			for _, in := range b.Instrs {
				lk, ok := in.(*ssa.Lookup)
				if !ok || !isVars(lk.X) {
					continue
				}
				n++
				key := core.SSAName(fn) + "|Vars lookup"
				if n > 1 {
					key += "#" + string(rune('0'+n))
				}
				if lk.CommaOk {
					sites = append(sites, site{key, c.Pos(lk.Pos()), true, "two-result lookup"})
					continue
				}
				cmpNil := ""
				if lk.Referrers() != nil {
					for _, rf := range *lk.Referrers() {
						if bo, ok := rf.(*ssa.BinOp); ok && (bo.Op == token.EQL || bo.Op == token.NEQ) {
							for _, side := range []ssa.Value{bo.X, bo.Y} {
								if k, ok := side.(*ssa.Const); ok && k.IsNil() {
									cmpNil = c.Pos(bo.Pos())
								}
							}
						}
					}
				}
				sites = append(sites, site{key, c.Pos(lk.Pos()), cmpNil == "", orOKs(map[bool]string{true: "", false: "one-result lookup compared with nil at " + cmpNil + ": a variable bound to nil reads as not bound"}[cmpNil == ""], "one-result lookup used for its value only")})
			}
		}
	}
	sort.Slice(sites, func(i, j int) bool { return sites[i].key < sites[j].key })
	for _, s := range sites {
		r.Decide(s.ok, rule, s.key, s.pos, s.why)
	}
}
