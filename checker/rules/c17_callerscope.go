package rules

import (
	"sort"

	"golang.org/x/tools/go/ssa"

	"slipcheck/core"
)

// c17callerscope: a built-in is called with the scope of its caller. Forms that bind (let, do, dolist, select,
// with-...) create a child scope for their bindings; binding in the caller's scope instead leaks the variable
// into the enclosing form and, since `run` evaluates its form in the scope it was started from, makes two
// routines started from one body share it: one consumer's item is overwritten by the other's. The rule: the Call
// method of a registered built-in (and the helpers of its package it hands its scope to unchanged) never calls
// Scope.Let or Scope.UnsafeLet on the scope parameter it received.
func c17callerscope(c *core.Ctx, r *core.Reporter, rule string) {
	r.Rule(rule, "no built-in binds a variable (Scope.Let / UnsafeLet) in the scope it was called with: bindings go into a child scope, so that they end with the form and are not shared between routines started from one body", 300)
	let := c.LookupFunc("", "Scope.Let")
	ulet := c.LookupFunc("", "Scope.UnsafeLet")
	if let == nil || ulet == nil {
		r.Undecided(rule, "slip.(Scope).Let / UnsafeLet", "-", "anchor does not resolve")
		return
	}
	letFn, uletFn := c.SSAFunc(let), c.SSAFunc(ulet)
	type site struct {
		key, pos string
		ok       bool
	}
	var sites []site
	seenFn := map[*ssa.Function]bool{}
	for _, b := range c.Registry() {
		if b.Call == nil {
			continue
		}
		fn := c.SSAFunc(b.Call)
		if fn == nil || fn.Blocks == nil || seenFn[fn] || len(fn.Params) < 2 {
			continue
		}
		seenFn[fn] = true
		scope := fn.Params[1]
		bad := ""
		var scan func(f *ssa.Function, sc ssa.Value, depth int)
		scan = func(f *ssa.Function, sc ssa.Value, depth int) {
			for _, blk := range f.Blocks {
				for _, in := range blk.Instrs {
					call, ok := in.(*ssa.Call)
					if !ok {
						continue
					}
					cal := call.Call.StaticCallee()
					if cal == nil {
						continue
					}
					if (cal == letFn || cal == uletFn) && len(call.Call.Args) > 0 && call.Call.Args[0] == sc {
						bad = c.Pos(call.Pos())
					}
					// a helper of the same package that is handed the scope unchanged
					if depth < 2 && cal.Pkg == f.Pkg && cal.Blocks != nil {
						for i, a := range call.Call.Args {
							if a == sc && i < len(cal.Params) {
								scan(cal, cal.Params[i], depth+1)
							}
						}
					}
				}
			}
		}
		scan(fn, scope, 0)
		key := b.Key()
		if why, ok := callerScopeExceptions[key]; ok && bad != "" {
			sites = append(sites, site{key, bad, true})
			_ = why
			continue
		}
		sites = append(sites, site{key, orOKs(bad, c.Pos(fn.Pos())), bad == ""})
	}
	sort.Slice(sites, func(i, j int) bool { return sites[i].key < sites[j].key })
	for _, s := range sites {
		if why, ok := callerScopeExceptions[s.key]; ok {
			r.Hold(rule, s.key, s.pos, "accepted by reading: "+why)
			continue
		}
		r.Decide(s.ok, rule, s.key, s.pos, "binds a variable in the caller's scope: "+boolStr(!s.ok))
	}
}

var callerScopeExceptions = map[string]string{}
