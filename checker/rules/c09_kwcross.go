package rules

import (
	"fmt"
	"go/token"
	"sort"

	"golang.org/x/tools/go/ssa"

	"slipcheck/core"
	"slipcheck/lenflow"
)

// c09kwcross: keywords may come in any order. A parser that stores each keyword's value into a field inside its
// loop over the arguments can validate one field against a constant or a length right there, but a validation
// that relates two such fields (":end less than :start") sees the other one only if it happened to be parsed
// first: (position 2 '(1 2 3) :end 1 :start 2) passed the check and faulted in the slice expression. The rule: a
// raising comparison between two fields of one struct that are both assigned inside the same loop is not itself
// inside that loop.
func c09kwcross(c *core.Ctx, r *core.Reporter) {
	const rule = "C09.kwcross"
	r.Rule(rule, "a raising comparison that relates two fields both assigned inside one loop (two keyword values) stands after the loop, not inside it where it depends on the order of the keywords", 2)
	an := lenflow.New(c)
	type site struct {
		key, pos string
		ok       bool
		why      string
	}
	var sites []site
	fieldLoad := func(v ssa.Value) (*ssa.FieldAddr, bool) {
		for i := 0; i < 3; i++ {
			switch x := v.(type) {
			case *ssa.Convert:
				v = x.X
				continue
			case *ssa.UnOp:
				if x.Op == token.MUL {
					if fa, ok := x.X.(*ssa.FieldAddr); ok {
						return fa, true
					}
				}
			}
			break
		}
		return nil, false
	}
	for _, fn := range c.ModuleFuncs() {
		if fn.Blocks == nil || fn.Pkg == nil || takesTestingT(fn) {
			continue
		}
		// stores per field id
		stores := map[string][]*ssa.BasicBlock{}
		for _, b := range fn.Blocks {
			for _, in := range b.Instrs {
				if st, ok := in.(*ssa.Store); ok {
					if fa, ok := st.Addr.(*ssa.FieldAddr); ok {
						id := fmt.Sprintf("%s#%d", fa.X.Type().String(), fa.Field)
						stores[id] = append(stores[id], b)
					}
				}
			}
		}
		if len(stores) < 2 {
			continue
		}
		var g *core.Guards
		reach := map[*ssa.BasicBlock]map[*ssa.BasicBlock]bool{}
		reaches := func(a, b *ssa.BasicBlock) bool {
			if reach[a] == nil {
				reach[a] = core.ReachableBlocks(a, nil)
			}
			return reach[a][b]
		}
		inCycleWith := func(a, b *ssa.BasicBlock) bool { return reaches(a, b) && reaches(b, a) }
		n := 0
		for _, b := range fn.Blocks {
			ifi, ok := b.Instrs[len(b.Instrs)-1].(*ssa.If)
			if !ok {
				continue
			}
			bo, ok := ifi.Cond.(*ssa.BinOp)
			if !ok {
				continue
			}
			switch bo.Op {
			case token.LSS, token.LEQ, token.GTR, token.GEQ:
			default:
				continue
			}
			fx, okx := fieldLoad(bo.X)
			fy, oky := fieldLoad(bo.Y)
			if !okx || !oky || fx.Field == fy.Field || fx.X.Type() != fy.X.Type() {
				continue
			}
			if g == nil {
				g = core.ComputeGuards(fn, an.NoReturn)
			}
			if !(g.Dead[b.Succs[0]] != g.Dead[b.Succs[1]]) {
				continue // not a raising validation
			}
			idx := fmt.Sprintf("%s#%d", fx.X.Type().String(), fx.Field)
			idy := fmt.Sprintf("%s#%d", fy.X.Type().String(), fy.Field)
			bothInLoop := false
			for _, sx := range stores[idx] {
				for _, sy := range stores[idy] {
					if sx != sy && inCycleWith(sx, sy) && inCycleWith(sx, b) {
						bothInLoop = true
					}
				}
			}
			if len(stores[idx]) == 0 || len(stores[idy]) == 0 {
				continue
			}
			n++
			key := fmt.Sprintf("%s|cross check #%d", core.SSAName(fn), n)
			sites = append(sites, site{key, c.Pos(bo.Pos()), !bothInLoop, fmt.Sprintf("relates two fields assigned in this function; the comparison lies inside the loop that assigns both: %v", bothInLoop)})
		}
	}
	sort.Slice(sites, func(i, j int) bool { return sites[i].key < sites[j].key })
	for _, s := range sites {
		r.Decide(s.ok, rule, s.key, s.pos, s.why)
	}
}
