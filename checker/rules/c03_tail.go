package rules

import (
	"fmt"
	"go/types"

	"golang.org/x/tools/go/ssa"

	"slipcheck/core"
	"slipcheck/lenflow"
)

// c03tail: a list is a Go slice; a dotted list ends in a slip.Tail holding the final cdr. A Tail that holds a
// list or nil is a second representation of an ordinary list: (a . (1 2)) prints with the dot, reads back as
// (a 1 2), and the two are not equal - nor do length, nth or equal treat it as the list it denotes. Every
// construction of a Tail is an instance: the value stored into Tail.Value is of a static type that cannot be a
// list (a string, number, symbol ... converted to Object), or every path to the construction crosses the failing
// outcome of a type test of that value against slip.List and a non-nil outcome (type switch with nil and List
// arms, comma-ok test, nil comparison).
func c03tail(c *core.Ctx, r *core.Reporter, rule string) {
	r.Rule(rule, "a slip.Tail (the final cdr of a dotted list) is built only around a value that cannot be a list or nil - by its static type, or because every path to the construction crosses the failing outcome of a type test against slip.List and a non-nil outcome: a Tail holding a list is a second, unequal representation of the ordinary list it prints as", 20)
	an := lenflow.New(c)
	for _, fn := range c.ModuleFuncs() {
		if fn.Blocks == nil || takesTestingT(fn) {
			continue
		}
		n := 0
		for _, b := range fn.Blocks {
			for _, in := range b.Instrs {
				st, ok := in.(*ssa.Store)
				if !ok {
					continue
				}
				f := fieldOfAddr(st.Addr)
				if f == nil || f.Name() != "Value" {
					continue
				}
				fa := st.Addr.(*ssa.FieldAddr)
				pt, _ := fa.X.Type().Underlying().(*types.Pointer)
				if pt == nil || !core.IsNamed(pt.Elem(), core.SlipPath, "Tail") {
					continue
				}
				n++
				key := fmt.Sprintf("%s|Tail #%d", core.SSAName(fn), n)
				if why, ok := tailExceptions[key]; ok {
					r.Hold(rule, key, c.Pos(st.Pos()), "exception by reading: "+why)
					continue
				}
				ok2, why := notListValue(fn, b, st.Val, an.NoReturn)
				r.Decide(ok2, rule, key, c.Pos(st.Pos()), why)
			}
		}
	}
}

// tailExceptions: one construct each.
var tailExceptions = map[string]string{
	"slip.SimpleObject|Tail #1": "the Go bridge's marker of a map entry: (key . value) whatever the value, which ObjectToBag and Simplify use to tell a JSON object from an array; building the entry with Cons made {a:[1 2]} come back as [[a 1 2]] (my own repair 4ea46cc, reverted for this site by 9a0277e, C18.mappair)",
	"pkg/watch.(periodic).details|Tail #3": "the (op . <operation>) pair of the watch protocol's description of a periodic: it is only printed onto the connection, where (op . (f x)) and (op f x) are the same text for the client's reader to take the cdr of; TestServerConnections pins the dotted form",
}

func notListValue(fn *ssa.Function, at *ssa.BasicBlock, v ssa.Value, noReturn func(*ssa.Function) bool) (bool, string) {
	switch x := v.(type) {
	case *ssa.MakeInterface:
		t := x.X.Type()
		if core.IsNamed(t, core.SlipPath, "List") {
			return false, "the value is a slip.List"
		}
		if _, isIface := t.Underlying().(*types.Interface); !isIface {
			return true, "value of static type " + types.TypeString(t, func(*types.Package) string { return "" }) + ", not a list"
		}
	case *ssa.Const:
		if x.IsNil() {
			return false, "the value is nil"
		}
	case *ssa.ChangeInterface:
		return notListValue(fn, at, x.X, noReturn)
	}
	// every path crosses "not a List" and "not nil" for this value
	notList := core.Separates(fn, at, noReturn, func(ifi *ssa.If, br bool) bool {
		ex, ok := ifi.Cond.(*ssa.Extract)
		if !ok || ex.Index != 1 || br {
			return false
		}
		ta, ok := ex.Tuple.(*ssa.TypeAssert)
		return ok && sameKeyValue(ta.X, v) && core.IsNamed(ta.AssertedType, core.SlipPath, "List")
	})
	notNil := core.Separates(fn, at, noReturn, func(ifi *ssa.If, br bool) bool {
		bo, ok := ifi.Cond.(*ssa.BinOp)
		if !ok {
			return false
		}
		var other ssa.Value
		if sameKeyValue(bo.X, v) {
			other = bo.Y
		} else if sameKeyValue(bo.Y, v) {
			other = bo.X
		} else {
			return false
		}
		k, ok := other.(*ssa.Const)
		if !ok || !k.IsNil() {
			return false
		}
		return (bo.Op.String() == "==" && !br) || (bo.Op.String() == "!=" && br)
	})
	if notList && notNil {
		return true, "every path crosses a failed test against slip.List and a non-nil outcome"
	}
	return false, fmt.Sprintf("the value may be a list or nil (tested not a List on every path: %v, not nil: %v): (a . (1 2)) is not equal to (a 1 2)", notList, notNil)
}
