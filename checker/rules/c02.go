package rules

import (
	"fmt"
	"go/constant"
	"go/token"
	"go/types"
	"sort"
	"strings"

	"golang.org/x/tools/go/ssa"

	"slipcheck/core"
)

func init() {
	register(&Prop{
		ID:        "C02",
		Technique: "constant-table extraction (reader mode strings located by data flow into reader.mode) + SSA loop/phi inspection + who-reads analysis of token bytes vs the carry buffer",
		Explanation: "The reader is a table-driven byte machine. Decided statically: (C02.tables) every mode table that can flow into reader.mode is total over all 256 byte values and every action byte in it has a handler in the dispatch switch of the byte loop (and vice versa); " +
			"(C02.state) the byte loop keeps no lexer state in locals across iterations, so that resuming with the next stream block continues in the same state; (C02.carry) every read of the source block relative to the token start is joined with the carry buffer, " +
			"the save at the end of a block accumulates into the carry and happens only inside a token; (C02.eof) every mode that denotes an unfinished construct is handled when the input ends. These are necessary conditions for 'reading is independent of delivery'; equality of the objects read is not decided.",
		NotCovered: "that equal texts give equal objects (number parsing, position arithmetic of ReadOne)",
		Trusted:    commonTrusted,
		Run:        runC02,
	})
}

type readerInfo struct {
	typ      *types.Named
	st       *types.Struct
	fieldIdx map[string]int
	modes    map[string]string // table value -> constant name
	read     *ssa.Function
}

func constNames(c *core.Ctx, rel string) map[string]string {
	out := map[string]string{}
	p := c.Pkg(rel)
	if p == nil {
		return out
	}
	sc := p.Types.Scope()
	for _, n := range sc.Names() {
		if k, ok := sc.Lookup(n).(*types.Const); ok && k.Val().Kind() == constant.String {
			v := constant.StringVal(k.Val())
			if len(v) >= 200 {
				if _, dup := out[v]; !dup {
					out[v] = n
				}
			}
		}
	}
	return out
}

func isFieldOf(fa *ssa.FieldAddr, pkg, typ, field string) bool {
	pt, ok := fa.X.Type().Underlying().(*types.Pointer)
	if !ok {
		return false
	}
	return core.IsNamed(pt.Elem(), pkg, typ) && fieldName(fa) == field
}

// loadsField: v is a load of field 'field' of a value of the named type.
func loadsField(v ssa.Value, pkg, typ, field string) bool {
	u, ok := v.(*ssa.UnOp)
	if !ok || u.Op != token.MUL {
		return false
	}
	fa, ok := u.X.(*ssa.FieldAddr)
	return ok && isFieldOf(fa, pkg, typ, field)
}

func runC02(c *core.Ctx, r *core.Reporter) {
	c.BuildSSA()
	c02deliver(c, r, "C02.deliver")
	c02wrapped(c, r)
	c02shortread(c, r)
	names := constNames(c, "")
	// mode tables: every string constant stored into reader.mode / reader.nextMode anywhere in the module
	tables := map[string]bool{}
	for _, fn := range c.ModuleFuncs() {
		for _, b := range fn.Blocks {
			for _, in := range b.Instrs {
				st, ok := in.(*ssa.Store)
				if !ok {
					continue
				}
				fa, ok := st.Addr.(*ssa.FieldAddr)
				if !ok || !(isFieldOf(fa, core.SlipPath, "reader", "mode") || isFieldOf(fa, core.SlipPath, "reader", "nextMode")) {
					continue
				}
				if s, ok := core.StringConst(st.Val); ok {
					tables[s] = true
				}
			}
		}
	}
	readObj := c.LookupFunc("", "reader.read")
	if readObj == nil || len(tables) == 0 {
		r.Undecided("C02.tables", "slip.(reader).read", "-", "anchor role does not resolve: no constant flows into reader.mode or reader.read is missing")
		return
	}
	read := c.SSAFunc(readObj)
	c02tables(c, r, read, tables, names)
	c02state(c, r, read)
	c02carry(c, r)
	c02eof(c, r, read, tables, names)
	c02reentrant(c, r, read)
}

// c02reentrant: the built-ins that drive the reader keep no state in their function object. The object is the
// call site: bytes or positions left there by one evaluation would be seen by the next read from another stream.
func c02reentrant(c *core.Ctx, r *core.Reporter, read *ssa.Function) {
	const rule = "C02.reentrant"
	r.Rule(rule, "every registered built-in from whose Call the reader is statically reachable (read, read-from-string, load, ...) stores nothing into its own function object, also not through the methods it calls on itself or closures: pending bytes kept at the call site make the objects read depend on what an earlier evaluation of the same form left behind", 4)
	// entry points: functions of package slip that call (*reader).read directly
	entries := map[*ssa.Function]bool{}
	for _, fn := range c.ModuleFuncs() {
		for _, b := range fn.Blocks {
			for _, in := range b.Instrs {
				if call, ok := in.(*ssa.Call); ok && call.Call.StaticCallee() == read {
					entries[fn] = true
				}
			}
		}
	}
	reaches := func(fn *ssa.Function) bool {
		seen := map[*ssa.Function]bool{}
		var walk func(f *ssa.Function, d int) bool
		walk = func(f *ssa.Function, d int) bool {
			if f == nil || seen[f] || d > 4 || f.Blocks == nil {
				return false
			}
			seen[f] = true
			if entries[f] {
				return true
			}
			for _, b := range f.Blocks {
				for _, in := range b.Instrs {
					if call, ok := in.(*ssa.Call); ok {
						if g := call.Call.StaticCallee(); g != nil && g.Pkg != nil && core.InModule(g.Pkg.Pkg) && walk(g, d+1) {
							return true
						}
					}
				}
			}
			for _, af := range f.AnonFuncs {
				if walk(af, d) {
					return true
				}
			}
			return false
		}
		return walk(fn, 0)
	}
	for _, b := range c.Registry() {
		if b.Call == nil || b.Name == "" {
			continue
		}
		fn := c.SSAFunc(b.Call)
		if fn == nil || len(fn.Params) == 0 || !reaches(fn) {
			continue
		}
		bad, pos := selfStores(fn)
		r.Decide(len(bad) == 0, rule, b.Key(), c.Pos(pos), fmt.Sprintf("fields of the function object written while reading: %v", bad))
	}
}

func tableName(names map[string]string, t string) string {
	if n, ok := names[t]; ok {
		return n
	}
	return fmt.Sprintf("table@%d", len(t))
}

// dispatchLabels: byte constants compared with a value looked up as r.mode[b].
func dispatchLabels(read *ssa.Function) (map[byte]bool, int) {
	labels := map[byte]bool{}
	n := 0
	for _, b := range read.Blocks {
		for _, in := range b.Instrs {
			bo, ok := in.(*ssa.BinOp)
			if !ok || bo.Op != token.EQL {
				continue
			}
			for i, side := range []ssa.Value{bo.X, bo.Y} {
				if !isModeIndex(side) {
					continue
				}
				other := bo.Y
				if i == 1 {
					other = bo.X
				}
				if k, ok := other.(*ssa.Const); ok && k.Value != nil && k.Value.Kind() == constant.Int {
					if v, ok := constant.Int64Val(k.Value); ok && v >= 0 && v < 256 {
						labels[byte(v)] = true
						n++
					}
				}
			}
		}
	}
	return labels, n
}

// isModeIndex: v is r.mode[b] (string indexing is ssa.Index in recent x/tools, ssa.Lookup in older ones).
func isModeIndex(v ssa.Value) bool {
	switch x := v.(type) {
	case *ssa.Lookup:
		return loadsField(x.X, core.SlipPath, "reader", "mode")
	case *ssa.Index:
		return loadsField(x.X, core.SlipPath, "reader", "mode")
	}
	return false
}

func c02tables(c *core.Ctx, r *core.Reporter, read *ssa.Function, tables map[string]bool, names map[string]string) {
	const rule = "C02.tables"
	r.Rule(rule, "every constant that can flow into reader.mode/nextMode has at least 256 entries; every action byte in its first 256 positions is a case label of the switch over r.mode[b] in the byte loop, or the single error action; every case label occurs in some table", 15)
	labels, _ := dispatchLabels(read)
	r.Count("reader.mode_tables", len(tables))
	r.Count("reader.dispatch_labels", len(labels))
	if len(labels) < 10 {
		r.Undecided(rule, "slip.(reader).read|dispatch", c.Pos(read.Pos()), "the switch over r.mode[b] was not recognised")
		return
	}
	var ts []string
	for t := range tables {
		ts = append(ts, t)
	}
	sort.Slice(ts, func(i, j int) bool { return tableName(names, ts[i]) < tableName(names, ts[j]) })
	used := map[byte]bool{}
	nonLabel := map[byte][]string{}
	for _, t := range ts {
		nm := tableName(names, t)
		r.Decide(len(t) >= 256, rule, nm+"|total", c.Pos(read.Pos()), fmt.Sprintf("table has %d entries (r.mode[b] must not fault for any byte)", len(t)))
		lim := len(t)
		if lim > 256 {
			lim = 256
		}
		for i := 0; i < lim; i++ {
			a := t[i]
			if labels[a] {
				used[a] = true
			} else {
				nonLabel[a] = append(nonLabel[a], fmt.Sprintf("%s[0x%02x]", nm, i))
			}
		}
	}
	// the error action is the non-label byte used by the most tables; any other non-label byte is a typo
	var errAct byte
	best := -1
	for a, where := range nonLabel {
		if len(where) > best || (len(where) == best && a < errAct) {
			best, errAct = len(where), a
		}
	}
	var nl []int
	for a := range nonLabel {
		nl = append(nl, int(a))
	}
	sort.Ints(nl)
	for _, ai := range nl {
		a := byte(ai)
		if a == errAct {
			r.Hold(rule, fmt.Sprintf("action %q|error", a), c.Pos(read.Pos()), fmt.Sprintf("the error action (falls to the raising default branch), %d positions", len(nonLabel[a])))
			continue
		}
		w := nonLabel[a]
		if len(w) > 4 {
			w = w[:4]
		}
		r.Violate(rule, fmt.Sprintf("action %q|unhandled", a), c.Pos(read.Pos()), fmt.Sprintf("action byte %q occurs at %s but has no case in the dispatch switch: those bytes silently become errors", a, strings.Join(w, ",")))
	}
	var ls []int
	for a := range labels {
		ls = append(ls, int(a))
	}
	sort.Ints(ls)
	for _, ai := range ls {
		a := byte(ai)
		r.Decide(used[a], rule, fmt.Sprintf("label %q|used", a), c.Pos(read.Pos()), fmt.Sprintf("case %q of the dispatch switch occurs in some mode table: %v", a, used[a]))
	}
}

func c02state(c *core.Ctx, r *core.Reporter, read *ssa.Function) {
	const rule = "C02.state"
	r.Rule(rule, "in the byte loop of reader.read no local variable carries lexer state from one byte to the next (the loop header has no phi other than the range index), so the state that must survive a block boundary lives in the reader struct", 1)
	loops := core.Loops(read)
	var byteLoop *core.Loop
	for _, l := range loops {
		if l.Parent != nil {
			continue
		}
		// the loop that contains the dispatch lookups
		for b := range l.Blocks {
			for _, in := range b.Instrs {
				if v, ok := in.(ssa.Value); ok && isModeIndex(v) {
					byteLoop = l
				}
			}
		}
	}
	if byteLoop == nil {
		r.Undecided(rule, "slip.(reader).read|loop", c.Pos(read.Pos()), "byte loop not recognised")
		return
	}
	for b := range byteLoop.Blocks {
		for _, in := range b.Instrs {
			phi, ok := in.(*ssa.Phi)
			if !ok {
				continue
			}
			if b != byteLoop.Header {
				continue
			}
			if phi.Comment == "rangeindex" {
				r.Hold(rule, "slip.(reader).read|phi:rangeindex", c.Pos(read.Pos()), "range index")
				continue
			}
			if !influencesLoop(phi, byteLoop) {
				r.Hold(rule, "slip.(reader).read|phi:"+phi.Comment, c.Pos(phi.Pos()), "a pure accumulator: inside the loop its value is only combined arithmetically with itself (it is consumed after the loop), so it carries no lexer state")
				continue
			}
			r.Violate(rule, "slip.(reader).read|phi:"+phi.Comment, c.Pos(phi.Pos()), fmt.Sprintf("local %q is live across iterations of the byte loop and steers it: its value is lost when a token straddles two stream blocks", phi.Comment))
		}
	}
}

// influencesLoop: the value of a loop-header phi reaches, inside the loop, anything other than
// arithmetic that only feeds the phi itself (a comparison, a call, a store, an index ...).
func influencesLoop(phi *ssa.Phi, l *core.Loop) bool {
	seen := map[ssa.Value]bool{}
	work := []ssa.Value{phi}
	for len(work) > 0 {
		v := work[len(work)-1]
		work = work[:len(work)-1]
		if seen[v] {
			continue
		}
		seen[v] = true
		refs := v.Referrers()
		if refs == nil {
			continue
		}
		for _, in := range *refs {
			if !l.Blocks[in.Block()] {
				continue
			}
			switch x := in.(type) {
			case *ssa.Phi:
				work = append(work, x)
			case *ssa.Convert:
				work = append(work, x)
			case *ssa.ChangeType:
				work = append(work, x)
			case *ssa.BinOp:
				switch x.Op {
				case token.EQL, token.NEQ, token.LSS, token.LEQ, token.GTR, token.GEQ:
					return true
				}
				work = append(work, x)
			case *ssa.UnOp:
				if x.Op == token.MUL || x.Op == token.ARROW {
					return true
				}
				work = append(work, x)
			case *ssa.DebugRef:
			default:
				return true
			}
		}
	}
	return false
}

// c02carry: who reads the source block relative to tokenStart.
func c02carry(c *core.Ctx, r *core.Reporter) {
	const rule = "C02.carry"
	r.Rule(rule, "a token may straddle two stream blocks, so (a) every slice/index of a []byte by reader.tokenStart must be joined with reader.carry in the same copy/append destination, "+
		"(b) the value stored into reader.carry at the end of a block must be append(<the current r.carry, unsliced>, ...), and (c) that save must be control-dependent on a test of the reader's mode (only inside a token is tokenStart meaningful)", 8)
	for _, fn := range c.ModuleFuncs() {
		if fn.Signature.Recv() == nil || !core.IsNamed(fn.Signature.Recv().Type(), core.SlipPath, "reader") {
			continue
		}
		n := 0
		for _, b := range fn.Blocks {
			for _, in := range b.Instrs {
				var val ssa.Value
				kind := ""
				switch x := in.(type) {
				case *ssa.Slice:
					if x.Low != nil && derivesFromField(x.Low, "tokenStart", 0) && isByteSlice(x.X.Type()) {
						val, kind = x, "slice"
					}
				case *ssa.IndexAddr:
					if derivesFromField(x.Index, "tokenStart", 0) && isByteSlice(x.X.Type()) {
						val, kind = x, "index"
					}
				}
				if val == nil {
					continue
				}
				n++
				joined, how := joinedWithCarry(val)
				key := fmt.Sprintf("%s|src[tokenStart]%s->%s", core.SSAName(fn), kind, useDesc(val))
				if !joined {
					// strings and |symbols| continue in the escape buffer r.buf: the part read so far is appended
					// to it (at an escape, or at the end of a block), and the block is used directly only while the
					// buffer is empty — which is the whole token only if the end-of-block code moves the part of an
					// unfinished string into the buffer
					if appendedToBuf(val) {
						joined, how = true, "appended to r.buf, the buffer a string or |symbol| continues in"
					} else if bufEmptyAt(fn, b) {
						if bufSavedAtBlockEnd(fn) {
							joined, how = true, "used directly only while r.buf is empty; the end-of-block code moves the part of an unfinished string into r.buf"
						}
					}
				}
				if joined {
					r.Hold(rule, key, c.Pos(in.Pos()), "joined with r.carry: "+how)
				} else {
					r.Violate(rule, key, c.Pos(in.Pos()), "bytes of the current block are read from the token start without the carried-over beginning of the token: a token that straddles two stream reads is truncated to its tail")
				}
			}
		}
		_ = n
		// (b),(c): stores into r.carry
		for _, b := range fn.Blocks {
			for _, in := range b.Instrs {
				st, ok := in.(*ssa.Store)
				if !ok {
					continue
				}
				fa, ok := st.Addr.(*ssa.FieldAddr)
				if !ok || !isFieldOf(fa, core.SlipPath, "reader", "carry") {
					continue
				}
				call, ok := st.Val.(*ssa.Call)
				if !ok {
					// r.carry = r.carry[:0] (reset after consumption) and similar
					if sl, ok := st.Val.(*ssa.Slice); ok && loadsField(sl.X, core.SlipPath, "reader", "carry") {
						if joinedReset(fn) {
							r.Hold(rule, core.SSAName(fn)+"|carry reset", c.Pos(st.Pos()), "reset in the function that consumes the carry")
						} else {
							r.Violate(rule, core.SSAName(fn)+"|carry reset", c.Pos(st.Pos()), "the carry is reset in a function that does not consume it")
						}
					}
					continue
				}
				bi, ok := call.Call.Value.(*ssa.Builtin)
				if !ok || bi.Name() != "append" {
					continue
				}
				base := call.Call.Args[0]
				acc := loadsField(base, core.SlipPath, "reader", "carry")
				r.Decide(acc, rule, core.SSAName(fn)+"|carry save accumulates", c.Pos(st.Pos()),
					fmt.Sprintf("the save appends to the unsliced current carry: %v (a re-sliced or fresh base loses the part of the token carried from earlier blocks)", acc))
				modeDep := controlDependsOnMode(st.Block())
				r.Decide(modeDep, rule, core.SSAName(fn)+"|carry save inside token only", c.Pos(st.Pos()),
					fmt.Sprintf("the save is control-dependent on a test of r.mode: %v (outside a token tokenStart is stale and already-consumed bytes are carried into the next token)", modeDep))
			}
		}
	}
}

func isByteSlice(t types.Type) bool {
	sl, ok := t.Underlying().(*types.Slice)
	if !ok {
		return false
	}
	b, ok := sl.Elem().Underlying().(*types.Basic)
	return ok && b.Kind() == types.Uint8
}

func derivesFromField(v ssa.Value, field string, depth int) bool {
	if depth > 4 {
		return false
	}
	if loadsField(v, core.SlipPath, "reader", field) {
		return true
	}
	if bo, ok := v.(*ssa.BinOp); ok && (bo.Op == token.ADD || bo.Op == token.SUB) {
		return derivesFromField(bo.X, field, depth+1) || derivesFromField(bo.Y, field, depth+1)
	}
	return false
}

// joinedWithCarry: the value is appended to r.carry, or copied into a buffer
// that also receives r.carry.
func joinedWithCarry(v ssa.Value) (bool, string) {
	refs := v.Referrers()
	if refs == nil {
		return false, ""
	}
	for _, rf := range *refs {
		call, ok := rf.(*ssa.Call)
		if !ok {
			continue
		}
		bi, ok := call.Call.Value.(*ssa.Builtin)
		if !ok {
			continue
		}
		switch bi.Name() {
		case "append":
			if len(call.Call.Args) == 2 && call.Call.Args[1] == v && loadsField(call.Call.Args[0], core.SlipPath, "reader", "carry") {
				return true, "append(r.carry, src[tokenStart:...]...)"
			}
		case "copy":
			if len(call.Call.Args) == 2 && call.Call.Args[1] == v {
				dst := sliceRoot(call.Call.Args[0])
				// another copy into the same destination whose source is r.carry
				if drefs := dst.Referrers(); drefs != nil {
					for _, dr := range *drefs {
						var c2 *ssa.Call
						switch y := dr.(type) {
						case *ssa.Call:
							c2 = y
						case *ssa.Slice:
							if yr := y.Referrers(); yr != nil {
								for _, z := range *yr {
									if zc, ok := z.(*ssa.Call); ok {
										c2 = zc
									}
								}
							}
						}
						if c2 == nil {
							continue
						}
						if b2, ok := c2.Call.Value.(*ssa.Builtin); ok && b2.Name() == "copy" && len(c2.Call.Args) == 2 && loadsField(c2.Call.Args[1], core.SlipPath, "reader", "carry") && sliceRoot(c2.Call.Args[0]) == dst {
							return true, "copied behind r.carry into the same buffer"
						}
					}
				}
			}
		}
	}
	return false, ""
}

func sliceRoot(v ssa.Value) ssa.Value {
	for i := 0; i < 8; i++ {
		if s, ok := v.(*ssa.Slice); ok {
			v = s.X
			continue
		}
		break
	}
	return v
}

func joinedReset(fn *ssa.Function) bool {
	for _, b := range fn.Blocks {
		for _, in := range b.Instrs {
			if call, ok := in.(*ssa.Call); ok {
				if bi, ok := call.Call.Value.(*ssa.Builtin); ok && bi.Name() == "copy" && len(call.Call.Args) == 2 && loadsField(call.Call.Args[1], core.SlipPath, "reader", "carry") {
					return true
				}
			}
		}
	}
	return false
}

func useDesc(v ssa.Value) string {
	refs := v.Referrers()
	if refs == nil || len(*refs) == 0 {
		return "unused"
	}
	var ds []string
	for _, rf := range *refs {
		switch x := rf.(type) {
		case *ssa.Call:
			if bi, ok := x.Call.Value.(*ssa.Builtin); ok {
				ds = append(ds, bi.Name())
			} else if g := x.Call.StaticCallee(); g != nil {
				ds = append(ds, g.Name())
			} else {
				ds = append(ds, "call")
			}
		case *ssa.Convert:
			ds = append(ds, "convert:"+types.TypeString(x.Type(), func(p *types.Package) string { return "" }))
		case *ssa.ChangeType:
			ds = append(ds, "as:"+types.TypeString(x.Type(), func(p *types.Package) string { return "" }))
		case *ssa.UnOp:
			ds = append(ds, "load")
		case *ssa.Range:
			ds = append(ds, "range")
		case *ssa.DebugRef:
		default:
			ds = append(ds, fmt.Sprintf("%T", rf))
		}
	}
	sort.Strings(ds)
	return strings.Join(ds, "+")
}

// controlDependsOnMode: some dominator of b ends in a branch whose condition
// compares a load of reader.mode.
func controlDependsOnMode(b *ssa.BasicBlock) bool {
	// every path from the entry to b crosses the equal outcome of a comparison of r.mode with something: the
	// if-form and the switch-form (several cases sharing one body, so the body has several predecessors)
	return core.Separates(b.Parent(), b, func(*ssa.Function) bool { return false }, func(ifi *ssa.If, branch bool) bool {
		bo, ok := ifi.Cond.(*ssa.BinOp)
		if !ok || !(loadsField(bo.X, core.SlipPath, "reader", "mode") || loadsField(bo.Y, core.SlipPath, "reader", "mode")) {
			return false
		}
		return (bo.Op == token.EQL && branch) || (bo.Op == token.NEQ && !branch)
	})
}

// eofExempt: modes in which the end of the input is not inside a construct.
var eofExempt = map[string]string{
	"valueMode":   "between objects",
	"commentMode": "a line comment ends with the input",
}

func c02eof(c *core.Ctx, r *core.Reporter, read *ssa.Function, tables map[string]bool, names map[string]string) {
	const rule = "C02.eof"
	r.Rule(rule, "when the input ends (not r.more) every mode that denotes an unfinished construct is handled by the end-of-input switch of reader.read (pushes the pending token or raises); a mode that is not handled lets a truncated or final construct vanish silently", 12)
	loops := core.Loops(read)
	handled := map[string]bool{}
	guards := core.ComputeGuards(read, nil)
	// atEnd: the block is reached only with r.more false (the switch under `if r.more` saves a token that
	// straddles two blocks; it handles nothing at the end of the input)
	atEnd := func(b *ssa.BasicBlock) bool {
		for f := range guards.Facts(b) {
			cond, outcome := f.If.Cond, f.Branch
			for {
				u, ok := cond.(*ssa.UnOp)
				if !ok || u.Op != token.NOT {
					break
				}
				cond, outcome = u.X, !outcome
			}
			if loadsField(cond, core.SlipPath, "reader", "more") && !outcome {
				return true
			}
		}
		return false
	}
	for _, b := range read.Blocks {
		if core.InnermostLoop(loops, b) != nil || !atEnd(b) {
			continue
		}
		for _, in := range b.Instrs {
			bo, ok := in.(*ssa.BinOp)
			if !ok || bo.Op != token.EQL {
				continue
			}
			var other ssa.Value
			if loadsField(bo.X, core.SlipPath, "reader", "mode") {
				other = bo.Y
			} else if loadsField(bo.Y, core.SlipPath, "reader", "mode") {
				other = bo.X
			}
			if other == nil {
				continue
			}
			if s, ok := core.StringConst(other); ok {
				handled[s] = true
			}
		}
	}
	if len(handled) == 0 {
		r.Undecided(rule, "slip.(reader).read|eof switch", c.Pos(read.Pos()), "end-of-input switch over r.mode not recognised")
		return
	}
	var ts []string
	for t := range tables {
		ts = append(ts, t)
	}
	sort.Slice(ts, func(i, j int) bool { return tableName(names, ts[i]) < tableName(names, ts[j]) })
	for _, t := range ts {
		nm := tableName(names, t)
		if why, ok := eofExempt[nm]; ok {
			r.Hold(rule, nm, c.Pos(read.Pos()), "exempt: "+why)
			continue
		}
		r.Decide(handled[t], rule, nm, c.Pos(read.Pos()), fmt.Sprintf("mode handled at end of input: %v", handled[t]))
	}
}

// appendedToBuf: v is the second operand of append(r.buf, v...).
func appendedToBuf(v ssa.Value) bool {
	if v.Referrers() == nil {
		return false
	}
	for _, rf := range *v.Referrers() {
		call, ok := rf.(*ssa.Call)
		if !ok {
			continue
		}
		if bi, ok := call.Call.Value.(*ssa.Builtin); ok && bi.Name() == "append" && len(call.Call.Args) == 2 && call.Call.Args[1] == v && loadsField(call.Call.Args[0], core.SlipPath, "reader", "buf") {
			return true
		}
	}
	return false
}

// bufEmptyAt: every path to b crosses the outcome of a test that says len(r.buf) is zero.
func bufEmptyAt(fn *ssa.Function, b *ssa.BasicBlock) bool {
	return core.Separates(fn, b, func(*ssa.Function) bool { return false }, func(ifi *ssa.If, branch bool) bool {
		bo, ok := ifi.Cond.(*ssa.BinOp)
		if !ok {
			return false
		}
		lenOfBuf := func(v ssa.Value) bool {
			call, ok := v.(*ssa.Call)
			if !ok {
				return false
			}
			bi, ok := call.Call.Value.(*ssa.Builtin)
			return ok && bi.Name() == "len" && len(call.Call.Args) == 1 && loadsField(call.Call.Args[0], core.SlipPath, "reader", "buf")
		}
		zero := func(v ssa.Value) bool {
			k, ok := v.(*ssa.Const)
			return ok && k.Value != nil && k.Int64() == 0
		}
		switch {
		case lenOfBuf(bo.X) && zero(bo.Y): // len(buf) OP 0
			return (bo.Op == token.EQL && branch) || (bo.Op == token.NEQ && !branch) || (bo.Op == token.GTR && !branch) || (bo.Op == token.LEQ && branch)
		case zero(bo.X) && lenOfBuf(bo.Y): // 0 OP len(buf)
			return (bo.Op == token.EQL && branch) || (bo.Op == token.NEQ && !branch) || (bo.Op == token.LSS && !branch) || (bo.Op == token.GEQ && branch)
		}
		return false
	})
}

// bufSavedAtBlockEnd: reader.read, outside its byte loop, stores append(r.buf, src[tokenStart:...]...) into r.buf
// under a test of r.more and of r.mode.
func bufSavedAtBlockEnd(fn *ssa.Function) bool {
	loops := core.Loops(fn)
	for _, b := range fn.Blocks {
		if core.InnermostLoop(loops, b) != nil {
			continue
		}
		for _, in := range b.Instrs {
			st, ok := in.(*ssa.Store)
			if !ok {
				continue
			}
			fa, ok := st.Addr.(*ssa.FieldAddr)
			if !ok || !isFieldOf(fa, core.SlipPath, "reader", "buf") {
				continue
			}
			call, ok := st.Val.(*ssa.Call)
			if !ok {
				continue
			}
			bi, ok := call.Call.Value.(*ssa.Builtin)
			if !ok || bi.Name() != "append" || len(call.Call.Args) != 2 || !loadsField(call.Call.Args[0], core.SlipPath, "reader", "buf") {
				continue
			}
			sl, ok := call.Call.Args[1].(*ssa.Slice)
			if !ok || sl.Low == nil || !derivesFromField(sl.Low, "tokenStart", 0) {
				continue
			}
			more := core.Separates(fn, b, func(*ssa.Function) bool { return false }, func(ifi *ssa.If, branch bool) bool {
				return branch && loadsField(ifi.Cond, core.SlipPath, "reader", "more")
			})
			if more && controlDependsOnMode(b) {
				return true
			}
		}
	}
	return false
}
