package rules

import (
	"fmt"
	"go/token"
	"sort"

	"golang.org/x/tools/go/ssa"

	"slipcheck/core"
	"slipcheck/lenflow"
)

// c14nillist: nil is the empty list, and a Go type assertion to slip.List fails for it. A built-in that takes
// "a list" by asserting its argument and raising a type error when the assertion fails therefore rejects the
// empty list unless it looks at nil first: (mapcar #'car nil), (assoc 1 nil), (every #'evenp nil), (subseq nil
// 0) were type errors and (map 'list #'1+ nil), (reduce #'+ nil) Go interface conversion panics (7646e86). The
// rule: in the built-ins of pkg/cl, a two-result assertion of an element of the argument list to slip.List
// whose failure edge raises is reached only where that element was compared with nil (or the assertion is made
// by the helper that maps nil to the empty list).
func c14nillist(c *core.Ctx, r *core.Reporter) {
	const rule = "C14.nillist"
	r.Rule(rule, "a built-in that asserts an argument to be a list and raises when the assertion fails handles nil, the empty list, first", 26)
	an := lenflow.New(c)
	type site struct {
		key, pos string
		ok       bool
	}
	var sites []site
	for _, b := range c.Registry() {
		if b.Call == nil || core.RelPkg(b.Pkg.PkgPath) != "pkg/cl" || b.HasSkip {
			continue // special forms assert pieces of syntax (a binding specifier, a clause), where nil is malformed
		}
		fn := c.SSAFunc(b.Call)
		if fn == nil || fn.Blocks == nil || len(fn.Params) < 3 {
			continue
		}
		argsP := fn.Params[2]
		var g *core.Guards
		n := 0
		for _, blk := range fn.Blocks {
			for _, in := range blk.Instrs {
				ta, ok := in.(*ssa.TypeAssert)
				if !ok || !ta.CommaOk || !core.IsNamed(ta.AssertedType, core.SlipPath, "List") {
					continue
				}
				// operand: a load of args[i] (the parameter, possibly re-sliced)
				u, ok := ta.X.(*ssa.UnOp)
				if !ok || u.Op != token.MUL {
					continue
				}
				ia, ok := u.X.(*ssa.IndexAddr)
				if !ok || sliceRootOf(ia.X) != ssa.Value(argsP) {
					continue
				}
				// the failure edge raises?
				var okv *ssa.Extract
				for _, rf := range *ta.Referrers() {
					if ex, isEx := rf.(*ssa.Extract); isEx && ex.Index == 1 {
						okv = ex
					}
				}
				if okv == nil || okv.Referrers() == nil {
					continue
				}
				if g == nil {
					g = core.ComputeGuards(fn, an.NoReturn)
				}
				raises := false
				for _, rf := range *okv.Referrers() {
					ifi, isIf := rf.(*ssa.If)
					if !isIf {
						continue
					}
					ib := ifi.Block()
					if len(ib.Succs) == 2 && g.Dead[ib.Succs[1]] && !g.Dead[ib.Succs[0]] {
						raises = true
					}
				}
				if !raises {
					continue
				}
				// nil handled: a comparison of a load of the same element with nil holds (false edge of == nil)
				nilHandled := false
				for f := range g.Facts(blk) {
					bo, isBo := f.If.Cond.(*ssa.BinOp)
					if !isBo || (bo.Op != token.EQL && bo.Op != token.NEQ) {
						continue
					}
					for _, pair := range [][2]ssa.Value{{bo.X, bo.Y}, {bo.Y, bo.X}} {
						k, isK := pair[1].(*ssa.Const)
						if !isK || !k.IsNil() {
							continue
						}
						if lu, isU := pair[0].(*ssa.UnOp); isU {
							if lia, isIA := lu.X.(*ssa.IndexAddr); isIA && sliceRootOf(lia.X) == ssa.Value(argsP) && sameIndex(lia.Index, ia.Index) {
								nilHandled = true
							}
						}
					}
				}
				n++
				key := b.Key()
				if b.Name == "" && b.Type != nil {
					key = core.RelPkg(b.Pkg.PkgPath) + ":<" + b.Type.Obj().Name() + ">"
				}
				if n > 1 {
					key = fmt.Sprintf("%s#%d", key, n)
				}
				sites = append(sites, site{key, c.Pos(ta.Pos()), nilHandled})
			}
		}
	}
	sort.Slice(sites, func(i, j int) bool { return sites[i].key < sites[j].key })
	for _, s := range sites {
		if why, ok := nillistExceptions[s.key]; ok && !s.ok {
			r.Hold(rule, s.key, s.pos, "accepted by reading: "+why)
			continue
		}
		r.Decide(s.ok, rule, s.key, s.pos, "asserts an argument to slip.List and raises on failure; nil was tested first: "+boolStr(s.ok))
	}
}

var nillistExceptions = map[string]string{
	"pkg/cl:rplaca":        "the argument is a cons to be modified; nil has no car to replace and the type error is what Common Lisp specifies",
	"pkg/cl:rplacd":        "the argument is a cons to be modified; nil has no cdr to replace",
	"pkg/cl:byte-size":     "the argument is a byte specifier as made by (byte size position), a cons; nil is not one",
	"pkg/cl:byte-position": "the argument is a byte specifier as made by (byte size position), a cons; nil is not one",
	"pkg/cl:make-array":    "the dimension list; slip has no zero-rank arrays, so the empty dimension list is rejected like any list with a non-positive entry",
	"pkg/cl:adjust-array":  "the dimension list; slip has no zero-rank arrays, so the empty dimension list is rejected",
	"pkg/cl:make-sequence": "the argument is a compound type specifier such as (vector t 3); nil names the empty type and make-sequence of it is an error",
}

func sameIndex(a, b ssa.Value) bool {
	if a == b {
		return true
	}
	ka, ok1 := a.(*ssa.Const)
	kb, ok2 := b.(*ssa.Const)
	return ok1 && ok2 && ka.Value != nil && kb.Value != nil && ka.Int64() == kb.Int64()
}
