package rules

import (
	"fmt"
	"go/ast"
	"go/token"
	"go/types"
	"slipcheck/lenflow"
	"sort"
	"strings"

	"golang.org/x/tools/go/ssa"

	"slipcheck/core"
)

func init() {
	register(&Prop{
		ID:        "C16",
		Technique: "constant-table agreement (class table chains vs the Hierarchy() literals of the prototype types); key discipline of every operation on the hash-table map (hashability, presence tests); sibling check of the equality predicates",
		Explanation: "Decided statically: (C16.hier) for every built-in class with a prototype, the chain class -> inherit -> ... in the class table equals the symbol list returned by the prototype type's Hierarchy() (typep reads the latter, subtypep and class precedence the former), and every symbol in a Hierarchy() literal names a class of the table; " +
			"(C16.key) every lookup, store and delete on a hash table's Go map has a key that passed a test excluding the unhashable object types (lists, vectors, octets, hash tables...), which otherwise fault the host; (C16.presence) every lookup in a hash table uses the comma-ok form and branches on it, because nil is a legal stored value and a missing key must not look like a key bound to nil. " +
			"Necessary conditions only: symmetry/transitivity of Equal on values, equivalence of keys under the table's test, and subtypep transitivity are not decided.",
		NotCovered: "transitivity/symmetry of Equal on values, key equivalence for pointer numbers (bignum keys hash by identity), hash-table histories, coerce result types",
		Trusted:    commonTrusted,
		Run:        runC16,
	})
}

func runC16(c *core.Ctx, r *core.Reporter) {
	c.BuildSSA()
	c16hier(c, r)
	c16key(c, r)
	c16coerce(c, r)
	c16total(c, r)
	c16samekey(c, r)
	c16widen(c, r)
	c16flavorprec(c, r)
}

// hierarchyLiterals returns the symbol lists a Hierarchy() method can return.
func hierarchyLiterals(c *core.Ctx, t types.Type) [][]string {
	obj, _, _ := types.LookupFieldOrMethod(t, true, nil, "Hierarchy")
	fn, _ := obj.(*types.Func)
	if fn == nil {
		if p, ok := t.(*types.Pointer); ok {
			obj, _, _ = types.LookupFieldOrMethod(p.Elem(), true, nil, "Hierarchy")
			fn, _ = obj.(*types.Func)
		}
	}
	if fn == nil {
		return nil
	}
	fd := c.Decls[fn]
	p := c.DeclPkg[fn]
	if fd == nil || p == nil || fd.Body == nil {
		return nil
	}
	var out [][]string
	ast.Inspect(fd.Body, func(n ast.Node) bool {
		rs, ok := n.(*ast.ReturnStmt)
		if !ok || len(rs.Results) != 1 {
			return true
		}
		cl, ok := rs.Results[0].(*ast.CompositeLit)
		if !ok {
			return true
		}
		var syms []string
		for _, e := range cl.Elts {
			if s, ok := core.ConstString(p.TypesInfo, e); ok {
				syms = append(syms, s)
			} else {
				syms = append(syms, "?")
			}
		}
		out = append(out, syms)
		return true
	})
	return out
}

func c16hier(c *core.Ctx, r *core.Reporter) {
	const rule = "C16.hier"
	r.Rule(rule, "for every BuiltInClass literal with a prototype, the names along class -> inherit -> ... equal the symbols returned by the prototype type's Hierarchy() method (without the final t); every symbol of such a Hierarchy() literal names a class in the table", 15)
	p := c.Pkg("pkg/clos")
	if p == nil {
		r.Undecided(rule, "pkg/clos", "-", "package not found")
		return
	}
	type cls struct {
		name    string
		inherit types.Object
		proto   ast.Expr
		pos     token.Pos
	}
	classes := map[types.Object]*cls{}
	names := map[string]bool{}
	for _, f := range p.Syntax {
		for _, d := range f.Decls {
			gd, ok := d.(*ast.GenDecl)
			if !ok {
				continue
			}
			for _, sp := range gd.Specs {
				vs, ok := sp.(*ast.ValueSpec)
				if !ok {
					continue
				}
				for i, nm := range vs.Names {
					if i >= len(vs.Values) {
						continue
					}
					cl, ok := vs.Values[i].(*ast.CompositeLit)
					if !ok || !core.IsNamed(p.TypesInfo.TypeOf(cl), closPath, "BuiltInClass") {
						continue
					}
					k := &cls{pos: cl.Pos()}
					for _, el := range cl.Elts {
						kv, ok := el.(*ast.KeyValueExpr)
						if !ok {
							continue
						}
						id, _ := kv.Key.(*ast.Ident)
						if id == nil {
							continue
						}
						switch id.Name {
						case "name":
							k.name, _ = core.ConstString(p.TypesInfo, kv.Value)
						case "inherit":
							if ue, ok := kv.Value.(*ast.UnaryExpr); ok {
								if x, ok := ue.X.(*ast.Ident); ok {
									k.inherit = p.TypesInfo.Uses[x]
								}
							}
						case "prototype":
							k.proto = kv.Value
						}
					}
					classes[p.TypesInfo.Defs[nm]] = k
					names[k.name] = true
				}
			}
		}
	}
	r.Count("hier.builtin_classes", len(classes))
	var objs []types.Object
	for o := range classes {
		objs = append(objs, o)
	}
	sort.Slice(objs, func(i, j int) bool { return classes[objs[i]].name < classes[objs[j]].name })
	for _, o := range objs {
		k := classes[o]
		if k.proto == nil {
			continue
		}
		var chain []string
		for x := k; x != nil; {
			chain = append(chain, x.name)
			if x.inherit == nil {
				break
			}
			x = classes[x.inherit]
			if len(chain) > 20 {
				break
			}
		}
		t := p.TypesInfo.TypeOf(k.proto)
		lits := hierarchyLiterals(c, t)
		if len(lits) == 0 {
			r.Undecided(rule, "class "+k.name, c.Pos(k.pos), fmt.Sprintf("no Hierarchy() literal found for prototype type %s", t))
			continue
		}
		ok := false
		var shown []string
		for _, l := range lits {
			h := l
			if len(h) > 0 && h[len(h)-1] == "t" {
				h = h[:len(h)-1]
			}
			shown = append(shown, "("+strings.Join(h, " ")+")")
			if strings.Join(h, " ") == strings.Join(chain, " ") {
				ok = true
			}
		}
		r.Decide(ok, rule, "class "+k.name, c.Pos(k.pos), fmt.Sprintf("class table chain (%s); Hierarchy() of %s returns %s", strings.Join(chain, " "), types.TypeString(t, func(*types.Package) string { return "" }), strings.Join(shown, " or ")))
		for _, l := range lits {
			for _, s := range l {
				if s == "t" || s == "?" {
					continue
				}
				if !names[s] {
					r.Violate(rule, "class "+k.name+"|hierarchy symbol "+s, c.Pos(k.pos), fmt.Sprintf("Hierarchy() of the prototype names %q, which is not a class of the built-in table", s))
				}
			}
		}
	}
}

// unhashableGuard: the key value was tested to be of a hashable kind on the way to the map operation.
func c16key(c *core.Ctx, r *core.Reporter) { hashKeyRules(c, r, "C16.key", true) }

// hashKeyRules: keyID names the hashability rule (C16.key, or C09.key when run for C09, which names the
// unhashable key among the host faults); the equivalence and presence rules belong to C16 only.
func hashKeyRules(c *core.Ctx, r *core.Reporter, key string, all bool) {
	const pres = "C16.presence"
	r.Rule(key, "every lookup, store or delete on a value of type slip.HashTable has a key that is a constant, a value of a statically hashable type, or an Object that passed a type test on the way (a type switch or assertion restricting it to hashable kinds): an arbitrary Object key faults the host for lists, vectors, octets and hash tables", 3)
	const equiv = "C16.equiv"
	if all {
		r.Rule(equiv, "every lookup, store or delete on a slip.HashTable uses a key that is a constant, a value of a type for which Go's == is the language's eql (fixnum, character, octet ...), or the result of a key-normalising call: the table is a Go map, so an arbitrary Object key is compared by Go identity and two eql bignums, ratios or long-floats (pointers), symbols that differ in case, or equalp strings are different keys", 3)
		r.Rule(pres, "every lookup in a slip.HashTable uses the comma-ok form and the ok value is used: nil is a legal stored value, so a missing key must be told apart from a key bound to nil (equalp on tables, gethash)", 2)
	}
	hg := newHashGuards(c, lenflow.New(c).NoReturn)
	r.Infof("C16.key: hashability predicates found by structure: %d; ensuring functions: %d", len(hg.pred), len(hg.ensure))
	for _, fn := range c.ModuleFuncs() {
		for _, b := range fn.Blocks {
			for _, in := range b.Instrs {
				var m, k ssa.Value
				kind := ""
				switch x := in.(type) {
				case *ssa.Lookup:
					m, k, kind = x.X, x.Index, "lookup"
				case *ssa.MapUpdate:
					m, k, kind = x.Map, x.Key, "store"
				case *ssa.Call:
					if bi, ok := x.Call.Value.(*ssa.Builtin); ok && bi.Name() == "delete" && len(x.Call.Args) == 2 {
						m, k, kind = x.Call.Args[0], x.Call.Args[1], "delete"
					}
				}
				if m == nil || !core.IsNamed(m.Type(), core.SlipPath, "HashTable") {
					continue
				}
				name := core.SSAName(fn) + "|" + kind
				// presence
				if lk, ok := in.(*ssa.Lookup); ok && all {
					used := false
					if lk.CommaOk {
						for _, rf := range *lk.Referrers() {
							if ex, ok := rf.(*ssa.Extract); ok && ex.Index == 1 && len(*ex.Referrers()) > 0 {
								used = true
							}
						}
					}
					// ranging keys of the same table and looking them up again needs no presence test
					if !used && keyFromRangeOf(k, m) {
						used = true
					}
					r.Decide(used, pres, name, c.Pos(in.Pos()), fmt.Sprintf("comma-ok lookup with the presence value used: %v", used))
				}
				// hashability of the key
				okKey, why := hashableKey(k, 0)
				if !okKey && keyFromRangeOfAny(k) {
					okKey, why = true, "key taken from a map being ranged over"
				}
				if !okKey {
					if g, gw := hg.guarded(in, k); g {
						okKey, why = true, gw
					}
				}
				r.Decide(okKey, key, name, c.Pos(in.Pos()), why)
				if !all {
					continue
				}
				// equivalence of keys: the table is a Go map, whose key equality is Go's ==
				okEq, whyEq := equivalentKey(k, 0)
				if !okEq && keyFromRangeOfAny(k) {
					okEq, whyEq = true, "key taken from a map being ranged over (already stored in that form)"
				}
				r.Decide(okEq, equiv, name, c.Pos(in.Pos()), whyEq)
			}
		}
	}
}

func keyFromRangeOf(k, m ssa.Value) bool {
	ex, ok := k.(*ssa.Extract)
	if !ok {
		return false
	}
	nx, ok := ex.Tuple.(*ssa.Next)
	if !ok {
		return false
	}
	rg, ok := nx.Iter.(*ssa.Range)
	return ok && rg.X == m
}

func keyFromRangeOfAny(k ssa.Value) bool {
	ex, ok := k.(*ssa.Extract)
	if !ok {
		return false
	}
	_, ok = ex.Tuple.(*ssa.Next)
	return ok
}

func hashableKey(k ssa.Value, depth int) (bool, string) {
	if depth > 6 {
		return false, "key provenance too deep"
	}
	switch x := k.(type) {
	case *ssa.Const:
		return true, "constant key"
	case *ssa.MakeInterface:
		if types.Comparable(x.X.Type()) {
			if _, isIface := x.X.Type().Underlying().(*types.Interface); !isIface {
				return true, "key of statically hashable type " + types.TypeString(x.X.Type(), func(*types.Package) string { return "" })
			}
		}
		return false, "key of type " + x.X.Type().String() + " is not hashable"
	case *ssa.TypeAssert:
		if _, isIface := x.AssertedType.Underlying().(*types.Interface); !isIface && types.Comparable(x.AssertedType) {
			return true, "key asserted to a hashable type"
		}
		return hashableKey(x.X, depth+1)
	case *ssa.Extract:
		if ta, ok := x.Tuple.(*ssa.TypeAssert); ok && x.Index == 0 {
			if _, isIface := ta.AssertedType.Underlying().(*types.Interface); !isIface && types.Comparable(ta.AssertedType) {
				return true, "key asserted to a hashable type"
			}
		}
		return false, "key is an arbitrary Object (no type test on the way): a list, vector, octets or hash-table key faults the host with 'hash of unhashable type'"
	case *ssa.Phi:
		for _, e := range x.Edges {
			if ok, why := hashableKey(e, depth+1); !ok {
				return false, why
			}
		}
		return true, "all incoming keys hashable"
	case *ssa.ChangeInterface:
		return hashableKey(x.X, depth+1)
	}
	return false, "key is an arbitrary Object (no type test on the way): a list, vector, octets or hash-table key faults the host with 'hash of unhashable type'"
}

// equivalentKey: Go equality of the key value coincides with the table's notion of an equivalent key.
func equivalentKey(k ssa.Value, depth int) (bool, string) {
	if depth > 6 {
		return false, "key provenance too deep"
	}
	switch x := k.(type) {
	case *ssa.Const:
		return true, "constant key"
	case *ssa.MakeInterface:
		t := x.X.Type()
		if _, isPtr := t.Underlying().(*types.Pointer); isPtr {
			return false, "key is a pointer: equal values are different keys"
		}
		if core.IsNamed(t, core.SlipPath, "Symbol") {
			return false, "symbols compare without regard to case but the map key is case sensitive"
		}
		if bt, ok := t.Underlying().(*types.Basic); ok && bt.Info()&(types.IsInteger|types.IsString|types.IsBoolean) != 0 {
			return true, "key of a type whose Go equality is eql"
		}
		return false, "key of type " + t.String()
	case *ssa.Call:
		if g := x.Call.StaticCallee(); g != nil && g.Pkg != nil && core.InModule(g.Pkg.Pkg) {
			return true, "key produced by " + g.Name() + " (a normalising call)"
		}
	case *ssa.Phi:
		for _, e := range x.Edges {
			if ok, why := equivalentKey(e, depth+1); !ok {
				return false, why
			}
		}
		return true, "all incoming keys normalised"
	case *ssa.ChangeInterface:
		return equivalentKey(x.X, depth+1)
	}
	return false, "key is an arbitrary Object compared by Go identity: (setf (gethash k h) v) followed by (gethash k2 h) with k2 eql k misses for bignums, ratios, long-floats and symbols that differ in case"
}

// c16total: the equality predicates answer for every pair of objects.
func c16total(c *core.Ctx, r *core.Reporter) {
	const rule = "C16.total"
	r.Rule(rule, "in the Call method of eq, eql, equal and equalp every call that can raise a condition, other than the argument-count check, is reached only through successful type tests of both operands (the numeric comparison raises for anything that is not a number): the equivalence predicates are total, (eql 'a 'b) is nil, not an error", 4)
	lf := lenflow.New(c)
	ri := &raiseInfo{memo: map[*ssa.Function]int{}, lf: lf, callers: buildCallSites(c).callers}
	for _, name := range []string{"eq", "eql", "equal", "equalp"} {
		b := c.ByName("pkg/cl", name)
		if b == nil || b.Call == nil {
			r.Undecided(rule, "pkg/cl:"+name, "-", "built-in not found in the registry")
			continue
		}
		fn := c.SSAFunc(b.Call)
		var argsP *ssa.Parameter
		for _, p := range fn.Params {
			if isObjectSlice(p.Type()) {
				argsP = p
			}
		}
		var bad []string
		n := 0
		visited := map[*ssa.Function]bool{}
		// operand(v): which of the two operands v denotes in function f (-1: neither)
		var check func(f *ssa.Function, operand func(ssa.Value) int, depth int)
		check = func(f *ssa.Function, operand func(ssa.Value) int, depth int) {
			if visited[f] || depth > 4 {
				return
			}
			visited[f] = true
			g := core.ComputeGuards(f, lf.NoReturn)
			for _, bb := range f.Blocks {
				for _, in := range bb.Instrs {
					call, ok := in.(*ssa.Call)
					if !ok {
						continue
					}
					cg := call.Call.StaticCallee()
					if cg != nil && strings.HasPrefix(cg.Name(), "CheckArgCount") {
						continue
					}
					can, why := ri.canRaise(call, 0)
					if !can {
						continue
					}
					// both operands must have passed a type test on the way
					tested := map[int]bool{}
					for fct := range g.Facts(bb) {
						ex, ok := fct.If.Cond.(*ssa.Extract)
						if !ok || ex.Index != 1 || !fct.Branch {
							continue
						}
						ta, ok := ex.Tuple.(*ssa.TypeAssert)
						if !ok || !ta.CommaOk {
							continue
						}
						if i := operand(ta.X); i >= 0 {
							tested[i] = true
						}
					}
					if tested[0] && tested[1] {
						n++
						continue
					}
					// a helper of the module that receives the operands: judged inside
					if cg != nil && cg.Pkg != nil && core.InModule(cg.Pkg.Pkg) && cg.Blocks != nil {
						pmap := map[*ssa.Parameter]int{}
						for ai, a := range call.Call.Args {
							if i := operand(a); i >= 0 && ai < len(cg.Params) {
								pmap[cg.Params[ai]] = i
							}
						}
						if len(pmap) >= 2 || visited[cg] {
							sub := func(v ssa.Value) int {
								if p, ok := v.(*ssa.Parameter); ok {
									if i, has := pmap[p]; has {
										return i
									}
								}
								return -1
							}
							check(cg, sub, depth+1)
							continue
						}
					}
					n++
					bad = append(bad, fmt.Sprintf("%s %s", c.Pos(call.Pos()), why))
				}
			}
		}
		check(fn, func(v ssa.Value) int {
			if ia, p, ok := listElemLoad(v); ok && p == argsP {
				if k, isK := ia.Index.(*ssa.Const); isK && (k.Int64() == 0 || k.Int64() == 1) {
					return int(k.Int64())
				}
			}
			return -1
		}, 0)
		sort.Strings(bad)
		r.Decide(len(bad) == 0, rule, "pkg/cl:"+name, c.Pos(fn.Pos()), orOKs(strings.Join(bad, "; "), fmt.Sprintf("%d raising calls, all behind type tests of both operands", n)))
	}
}
