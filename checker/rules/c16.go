package rules

import (
	"fmt"
	"go/ast"
	"go/token"
	"go/types"
	"sort"
	"strings"

	"golang.org/x/tools/go/ssa"

	"slipcheck/core"
)

func init() {
	register(&Prop{
		ID:        "C16",
		Technique: "constant-table agreement (class table chains vs the Hierarchy() literals of the prototype types); key discipline of every operation on the hash-table map (hashability, presence tests); sibling check of the equality predicates",
		Explanation: "Decided statically: (C16.hier) for every built-in class with a prototype, the chain class -> inherit -> ... in the class table equals the symbol list returned by the prototype type's Hierarchy() (typep reads the latter, subtypep and class precedence the former), and every symbol in a Hierarchy() literal names a class of the table; " +
			"(C16.key) every lookup, store and delete on a hash table's Go map has a key that passed a test excluding the unhashable object types (lists, vectors, octets, hash tables...), which otherwise fault the host; (C16.presence) every lookup in a hash table uses the comma-ok form and branches on it, because nil is a legal stored value and a missing key must not look like a key bound to nil. " +
			"Necessary conditions only: symmetry/transitivity of Equal on values, equivalence of keys under the table's test, and subtypep transitivity are not decided.",
		NotCovered: "transitivity/symmetry of Equal on values, key equivalence for pointer numbers (bignum keys hash by identity), hash-table histories, coerce result types",
		Trusted:    commonTrusted,
		Run:        runC16,
	})
}

func runC16(c *core.Ctx, r *core.Reporter) {
	c.BuildSSA()
	c16hier(c, r)
	c16key(c, r)
	c16coerce(c, r)
}

// hierarchyLiterals returns the symbol lists a Hierarchy() method can return.
func hierarchyLiterals(c *core.Ctx, t types.Type) [][]string {
	obj, _, _ := types.LookupFieldOrMethod(t, true, nil, "Hierarchy")
	fn, _ := obj.(*types.Func)
	if fn == nil {
		if p, ok := t.(*types.Pointer); ok {
			obj, _, _ = types.LookupFieldOrMethod(p.Elem(), true, nil, "Hierarchy")
			fn, _ = obj.(*types.Func)
		}
	}
	if fn == nil {
		return nil
	}
	fd := c.Decls[fn]
	p := c.DeclPkg[fn]
	if fd == nil || p == nil || fd.Body == nil {
		return nil
	}
	var out [][]string
	ast.Inspect(fd.Body, func(n ast.Node) bool {
		rs, ok := n.(*ast.ReturnStmt)
		if !ok || len(rs.Results) != 1 {
			return true
		}
		cl, ok := rs.Results[0].(*ast.CompositeLit)
		if !ok {
			return true
		}
		var syms []string
		for _, e := range cl.Elts {
			if s, ok := core.ConstString(p.TypesInfo, e); ok {
				syms = append(syms, s)
			} else {
				syms = append(syms, "?")
			}
		}
		out = append(out, syms)
		return true
	})
	return out
}

func c16hier(c *core.Ctx, r *core.Reporter) {
	const rule = "C16.hier"
	r.Rule(rule, "for every BuiltInClass literal with a prototype, the names along class -> inherit -> ... equal the symbols returned by the prototype type's Hierarchy() method (without the final t); every symbol of such a Hierarchy() literal names a class in the table", 15)
	p := c.Pkg("pkg/clos")
	if p == nil {
		r.Undecided(rule, "pkg/clos", "-", "package not found")
		return
	}
	type cls struct {
		name    string
		inherit types.Object
		proto   ast.Expr
		pos     token.Pos
	}
	classes := map[types.Object]*cls{}
	names := map[string]bool{}
	for _, f := range p.Syntax {
		for _, d := range f.Decls {
			gd, ok := d.(*ast.GenDecl)
			if !ok {
				continue
			}
			for _, sp := range gd.Specs {
				vs, ok := sp.(*ast.ValueSpec)
				if !ok {
					continue
				}
				for i, nm := range vs.Names {
					if i >= len(vs.Values) {
						continue
					}
					cl, ok := vs.Values[i].(*ast.CompositeLit)
					if !ok || !core.IsNamed(p.TypesInfo.TypeOf(cl), closPath, "BuiltInClass") {
						continue
					}
					k := &cls{pos: cl.Pos()}
					for _, el := range cl.Elts {
						kv, ok := el.(*ast.KeyValueExpr)
						if !ok {
							continue
						}
						id, _ := kv.Key.(*ast.Ident)
						if id == nil {
							continue
						}
						switch id.Name {
						case "name":
							k.name, _ = core.ConstString(p.TypesInfo, kv.Value)
						case "inherit":
							if ue, ok := kv.Value.(*ast.UnaryExpr); ok {
								if x, ok := ue.X.(*ast.Ident); ok {
									k.inherit = p.TypesInfo.Uses[x]
								}
							}
						case "prototype":
							k.proto = kv.Value
						}
					}
					classes[p.TypesInfo.Defs[nm]] = k
					names[k.name] = true
				}
			}
		}
	}
	r.Count("hier.builtin_classes", len(classes))
	var objs []types.Object
	for o := range classes {
		objs = append(objs, o)
	}
	sort.Slice(objs, func(i, j int) bool { return classes[objs[i]].name < classes[objs[j]].name })
	for _, o := range objs {
		k := classes[o]
		if k.proto == nil {
			continue
		}
		var chain []string
		for x := k; x != nil; {
			chain = append(chain, x.name)
			if x.inherit == nil {
				break
			}
			x = classes[x.inherit]
			if len(chain) > 20 {
				break
			}
		}
		t := p.TypesInfo.TypeOf(k.proto)
		lits := hierarchyLiterals(c, t)
		if len(lits) == 0 {
			r.Undecided(rule, "class "+k.name, c.Pos(k.pos), fmt.Sprintf("no Hierarchy() literal found for prototype type %s", t))
			continue
		}
		ok := false
		var shown []string
		for _, l := range lits {
			h := l
			if len(h) > 0 && h[len(h)-1] == "t" {
				h = h[:len(h)-1]
			}
			shown = append(shown, "("+strings.Join(h, " ")+")")
			if strings.Join(h, " ") == strings.Join(chain, " ") {
				ok = true
			}
		}
		r.Decide(ok, rule, "class "+k.name, c.Pos(k.pos), fmt.Sprintf("class table chain (%s); Hierarchy() of %s returns %s", strings.Join(chain, " "), types.TypeString(t, func(*types.Package) string { return "" }), strings.Join(shown, " or ")))
		for _, l := range lits {
			for _, s := range l {
				if s == "t" || s == "?" {
					continue
				}
				if !names[s] {
					r.Violate(rule, "class "+k.name+"|hierarchy symbol "+s, c.Pos(k.pos), fmt.Sprintf("Hierarchy() of the prototype names %q, which is not a class of the built-in table", s))
				}
			}
		}
	}
}

// unhashableGuard: the key value was tested to be of a hashable kind on the way to the map operation.
func c16key(c *core.Ctx, r *core.Reporter) {
	const key = "C16.key"
	const pres = "C16.presence"
	r.Rule(key, "every lookup, store or delete on a value of type slip.HashTable has a key that is a constant, a value of a statically hashable type, or an Object that passed a type test on the way (a type switch or assertion restricting it to hashable kinds): an arbitrary Object key faults the host for lists, vectors, octets and hash tables", 3)
	r.Rule(pres, "every lookup in a slip.HashTable uses the comma-ok form and the ok value is used: nil is a legal stored value, so a missing key must be told apart from a key bound to nil (equalp on tables, gethash)", 2)
	for _, fn := range c.ModuleFuncs() {
		for _, b := range fn.Blocks {
			for _, in := range b.Instrs {
				var m, k ssa.Value
				kind := ""
				switch x := in.(type) {
				case *ssa.Lookup:
					m, k, kind = x.X, x.Index, "lookup"
				case *ssa.MapUpdate:
					m, k, kind = x.Map, x.Key, "store"
				case *ssa.Call:
					if bi, ok := x.Call.Value.(*ssa.Builtin); ok && bi.Name() == "delete" && len(x.Call.Args) == 2 {
						m, k, kind = x.Call.Args[0], x.Call.Args[1], "delete"
					}
				}
				if m == nil || !core.IsNamed(m.Type(), core.SlipPath, "HashTable") {
					continue
				}
				name := core.SSAName(fn) + "|" + kind
				// presence
				if lk, ok := in.(*ssa.Lookup); ok {
					used := false
					if lk.CommaOk {
						for _, rf := range *lk.Referrers() {
							if ex, ok := rf.(*ssa.Extract); ok && ex.Index == 1 && len(*ex.Referrers()) > 0 {
								used = true
							}
						}
					}
					// ranging keys of the same table and looking them up again needs no presence test
					if !used && keyFromRangeOf(k, m) {
						used = true
					}
					r.Decide(used, pres, name, c.Pos(in.Pos()), fmt.Sprintf("comma-ok lookup with the presence value used: %v", used))
				}
				// hashability of the key
				okKey, why := hashableKey(k, 0)
				if !okKey && keyFromRangeOfAny(k) {
					okKey, why = true, "key taken from a map being ranged over"
				}
				r.Decide(okKey, key, name, c.Pos(in.Pos()), why)
			}
		}
	}
}

func keyFromRangeOf(k, m ssa.Value) bool {
	ex, ok := k.(*ssa.Extract)
	if !ok {
		return false
	}
	nx, ok := ex.Tuple.(*ssa.Next)
	if !ok {
		return false
	}
	rg, ok := nx.Iter.(*ssa.Range)
	return ok && rg.X == m
}

func keyFromRangeOfAny(k ssa.Value) bool {
	ex, ok := k.(*ssa.Extract)
	if !ok {
		return false
	}
	_, ok = ex.Tuple.(*ssa.Next)
	return ok
}

func hashableKey(k ssa.Value, depth int) (bool, string) {
	if depth > 6 {
		return false, "key provenance too deep"
	}
	switch x := k.(type) {
	case *ssa.Const:
		return true, "constant key"
	case *ssa.MakeInterface:
		if types.Comparable(x.X.Type()) {
			if _, isIface := x.X.Type().Underlying().(*types.Interface); !isIface {
				return true, "key of statically hashable type " + types.TypeString(x.X.Type(), func(*types.Package) string { return "" })
			}
		}
		return false, "key of type " + x.X.Type().String() + " is not hashable"
	case *ssa.TypeAssert:
		if _, isIface := x.AssertedType.Underlying().(*types.Interface); !isIface && types.Comparable(x.AssertedType) {
			return true, "key asserted to a hashable type"
		}
		return hashableKey(x.X, depth+1)
	case *ssa.Extract:
		if ta, ok := x.Tuple.(*ssa.TypeAssert); ok && x.Index == 0 {
			if _, isIface := ta.AssertedType.Underlying().(*types.Interface); !isIface && types.Comparable(ta.AssertedType) {
				return true, "key asserted to a hashable type"
			}
		}
		return false, "key is an arbitrary Object (no type test on the way): a list, vector, octets or hash-table key faults the host with 'hash of unhashable type'"
	case *ssa.Phi:
		for _, e := range x.Edges {
			if ok, why := hashableKey(e, depth+1); !ok {
				return false, why
			}
		}
		return true, "all incoming keys hashable"
	case *ssa.ChangeInterface:
		return hashableKey(x.X, depth+1)
	}
	return false, "key is an arbitrary Object (no type test on the way): a list, vector, octets or hash-table key faults the host with 'hash of unhashable type'"
}
