package rules

import (
	"fmt"
	"go/token"
	"go/types"
	"sort"

	"golang.org/x/tools/go/ssa"

	"slipcheck/core"
)

// staticReach: the module functions reachable from fn through static calls (including calls inside closures).
func staticReach(fn *ssa.Function) map[*ssa.Function]bool {
	seen := map[*ssa.Function]bool{}
	var walk func(f *ssa.Function)
	walk = func(f *ssa.Function) {
		if f == nil || seen[f] || f.Blocks == nil {
			return
		}
		seen[f] = true
		for _, af := range f.AnonFuncs {
			walk(af)
		}
		for _, b := range f.Blocks {
			for _, in := range b.Instrs {
				if call, ok := in.(ssa.CallInstruction); ok {
					if g := call.Common().StaticCallee(); g != nil && g.Pkg != nil && core.InModule(g.Pkg.Pkg) {
						walk(g)
					}
				}
			}
		}
	}
	walk(fn)
	return seen
}

// c12initform: "make-instance fills each slot ... from the most specific initform". The initform of a slot
// definition (SlotDef.initform) is a form. Two structural conditions, both violated on the pinned tree:
//
//	(value) the form is never stored as the value of an instance slot (a map update on StandardObject.vars) or
//	        handed to setSlot as it is: it is evaluated first. change-class gave a slot the old class did not have
//	        the list (+ 1 2) (d2aafc4).
//	(nil)   nil is a form: a method is invoked on the loaded initform only under a nil test. shared-initialize did
//	        sd.initform.Eval(...) under the comment "will not be nil": (defclass d () ((n :initform nil)))
//	        (make-instance 'd) was a nil dereference (ae7c03f).
//
// (accessors) The slot options :reader, :writer and :accessor are documented for defclass and define-condition
// alike: every built-in whose Call reaches NewSlotDef also reaches the three functions that define them
// (define-condition parsed them and defined nothing: a90b550).
func c12initform(c *core.Ctx, r *core.Reporter) {
	const rule = "C12.initform"
	r.Rule(rule, "a slot's initform is a form: it is evaluated before it becomes a slot value, a method is invoked on it only under a nil test, and every definer that parses slot specifiers defines the readers, writers and accessors they name", 5)
	sdT := c.LookupType("pkg/clos", "SlotDef")
	soT := c.LookupType("pkg/clos", "StandardObject")
	if sdT == nil || soT == nil {
		r.Undecided(rule, "pkg/clos.SlotDef / StandardObject", "-", "anchor does not resolve")
		return
	}
	fieldOf := func(fa *ssa.FieldAddr, nt *types.Named, name string) bool {
		t := fa.X.Type()
		if p, ok := t.Underlying().(*types.Pointer); ok {
			t = p.Elem()
		}
		n, ok := types.Unalias(t).(*types.Named)
		if !ok || n.Obj() != nt.Obj() {
			return false
		}
		st, ok := n.Underlying().(*types.Struct)
		return ok && fa.Field < st.NumFields() && st.Field(fa.Field).Name() == name
	}
	isInitformLoad := func(v ssa.Value) bool {
		u, ok := v.(*ssa.UnOp)
		if !ok || u.Op != token.MUL {
			return false
		}
		fa, ok := u.X.(*ssa.FieldAddr)
		return ok && fieldOf(fa, sdT, "initform")
	}
	var fns []*ssa.Function
	for _, fn := range c.ModuleFuncs() {
		if fn.Blocks != nil && fn.Pkg != nil && core.RelPkg(fn.Pkg.Pkg.Path()) == "pkg/clos" && !takesTestingT(fn) {
			fns = append(fns, fn)
		}
	}
	sort.Slice(fns, func(i, j int) bool { return core.SSAName(fns[i]) < core.SSAName(fns[j]) })
	for _, fn := range fns {
		n := 0
		for _, b := range fn.Blocks {
			for _, in := range b.Instrs {
				switch x := in.(type) {
				case *ssa.MapUpdate:
					if !isInitformLoad(x.Value) {
						continue
					}
					// the map: a load of StandardObject.vars
					mu, ok := x.Map.(*ssa.UnOp)
					if !ok {
						continue
					}
					fa, ok := mu.X.(*ssa.FieldAddr)
					if !ok {
						continue
					}
					// vars lives in the embedded HasSlots of an instance (StandardObject) and of a class
					// (StandardClass); class-level storage is evaluated when the class is made ready
					inner, ok := fa.X.(*ssa.FieldAddr)
					if !ok || !fieldOf(inner, soT, "HasSlots") {
						continue
					}
					n++
					key := fmt.Sprintf("%s|value#%d", core.SSAName(fn), n)
					if why, ok := initformExceptions[key]; ok {
						r.Hold(rule, key, c.Pos(x.Pos()), "accepted by reading: "+why)
						continue
					}
					r.Violate(rule, key, c.Pos(x.Pos()), "stores a slot definition's initform, unevaluated, as the value of an instance slot")
				case ssa.CallInstruction:
					cc := x.Common()
					if cc.IsInvoke() && isInitformLoad(cc.Value) {
						n++
						guarded := core.Separates(fn, b, nil, func(ifi *ssa.If, branch bool) bool {
							bo, ok := ifi.Cond.(*ssa.BinOp)
							if !ok {
								return false
							}
							isNilCmp := func(a, z ssa.Value) bool {
								k, ok := z.(*ssa.Const)
								return ok && k.IsNil() && isInitformLoad(a)
							}
							if !(isNilCmp(bo.X, bo.Y) || isNilCmp(bo.Y, bo.X)) {
								return false
							}
							return (bo.Op == token.NEQ && branch) || (bo.Op == token.EQL && !branch)
						})
						r.Decide(guarded, rule, fmt.Sprintf("%s|nil#%d", core.SSAName(fn), n), c.Pos(in.Pos()), "invokes a method on a slot definition's initform; nil is a legal form, so a nil test must dominate: "+boolStr(guarded))
					}
					if f := cc.StaticCallee(); f != nil && f.Name() == "setSlot" {
						for _, a := range cc.Args {
							if isInitformLoad(a) {
								n++
								r.Violate(rule, fmt.Sprintf("%s|value#%d", core.SSAName(fn), n), c.Pos(in.Pos()), "hands a slot definition's initform, unevaluated, to setSlot")
							}
						}
					}
				}
			}
		}
	}
	// (accessors)
	newSD := c.LookupFunc("pkg/clos", "NewSlotDef")
	if newSD == nil {
		r.Undecided(rule, "pkg/clos.NewSlotDef", "-", "anchor does not resolve")
		return
	}
	newSDFn := c.SSAFunc(newSD)
	for _, b := range c.Registry() {
		if core.RelPkg(b.Pkg.PkgPath) != "pkg/clos" || b.Call == nil {
			continue
		}
		callFn := c.SSAFunc(b.Call)
		if callFn == nil {
			continue
		}
		reach := staticReach(callFn)
		if !reach[newSDFn] {
			continue
		}
		missing := ""
		for _, want := range []string{"defReaderMethods", "defWriterMethods", "defAccessorMethods"} {
			found := false
			for f := range reach {
				if f.Name() == want && f.Signature.Recv() != nil {
					found = true
				}
			}
			if !found {
				missing += " " + want
			}
		}
		r.Decide(missing == "", rule, "accessors|"+b.Key(), c.Pos(b.Pos), "parses slot specifiers (reaches NewSlotDef); defines the readers, writers and accessors they name (missing:"+missing+")")
	}
	// the evaluated uses are the witnesses that the rule looked at something
	for _, fn := range fns {
		for _, b := range fn.Blocks {
			for _, in := range b.Instrs {
				if call, ok := in.(*ssa.Call); ok {
					if f := call.Call.StaticCallee(); f != nil && f.Name() == "Eval" && f.Signature.Recv() != nil && len(call.Call.Args) >= 2 && isInitformLoad(call.Call.Args[1]) {
						r.Hold(rule, core.SSAName(fn)+"|evaluated", c.Pos(call.Pos()), "the initform is evaluated with Scope.Eval, which accepts the form nil")
					}
				}
			}
		}
	}
}

var initformExceptions = map[string]string{
	"pkg/clos.(StandardClass).initObjSlots|value#1": "allocation pre-fill by MakeInstance: shared-initialize, which every creation path runs next (make-instance, make-condition, allocate-instance, the Go constructors of conditions through Init), overwrites every slot that has an initform with the value of the form; a slot without one holds the Unbound marker, which is its own value",
	"pkg/clos.(StandardClass).initObjSlots|value#2": "as value#1, for the slots inherited from the superclasses",
}
