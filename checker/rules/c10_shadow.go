package rules

import (
	"go/constant"
	"go/types"
	"sort"

	"golang.org/x/tools/go/ssa"

	"slipcheck/core"
)

// c10shadow: the location of a running around method or whopper (~whopper-location~ in the scope) is what
// call-next-method and continue-whopper continue from. The before, primary and after methods are not wrappers:
// run with a location in scope, a (call-next-method) in a primary method found the location of the last around
// method, which has no wrapper left, and ran the daemons again, for ever; and a generic function without around
// methods called from an around method of another one continued the caller's chain (30a597e, 28d1c93, b21c372).
// The rule: every function that invokes a daemon held in a Combination (a call through the Before, Primary or
// After field) binds ~whopper-location~ to nil in the scope it passes on.
func c10shadow(c *core.Ctx, r *core.Reporter, rule string) {
	r.Rule(rule, "every function that invokes the before/primary/after daemons of a method combination shadows the wrapper location (binds ~whopper-location~ to nil) for them", 2)
	combT := c.LookupType("", "Combination")
	let := c.LookupFunc("", "Scope.Let")
	if combT == nil || let == nil {
		r.Undecided(rule, "slip.Combination / (Scope).Let", "-", "anchor does not resolve")
		return
	}
	letFn := c.SSAFunc(let)
	daemonField := func(v ssa.Value) bool {
		// value loaded from (or asserted from a load of) field Before/Primary/After of a Combination
		for i := 0; i < 4; i++ {
			switch x := v.(type) {
			case *ssa.TypeAssert:
				v = x.X
			case *ssa.Extract:
				v = x.Tuple
			case *ssa.UnOp:
				fa, ok := x.X.(*ssa.FieldAddr)
				if !ok {
					return false
				}
				t := fa.X.Type()
				if p, ok := t.Underlying().(*types.Pointer); ok {
					t = p.Elem()
				}
				nt, ok := types.Unalias(t).(*types.Named)
				if !ok || nt.Obj() != combT.Obj() {
					return false
				}
				st := nt.Underlying().(*types.Struct)
				switch st.Field(fa.Field).Name() {
				case "Before", "Primary", "After":
					return true
				}
				return false
			default:
				return false
			}
		}
		return false
	}
	var fns []*ssa.Function
	for _, fn := range c.ModuleFuncs() {
		if fn.Blocks != nil && fn.Pkg != nil && !takesTestingT(fn) {
			fns = append(fns, fn)
		}
	}
	sort.Slice(fns, func(i, j int) bool { return core.SSAName(fns[i]) < core.SSAName(fns[j]) })
	for _, fn := range fns {
		invokes, shadows := false, false
		pos := ""
		for _, b := range fn.Blocks {
			for _, in := range b.Instrs {
				call, ok := in.(ssa.CallInstruction)
				if !ok {
					continue
				}
				cc := call.Common()
				if cc.IsInvoke() && daemonField(cc.Value) && (cc.Method.Name() == "Call" || cc.Method.Name() == "BoundCall") {
					invokes = true
					if pos == "" {
						pos = c.Pos(in.Pos())
					}
				}
				if cc.StaticCallee() == letFn && len(cc.Args) == 3 {
					if k, ok := cc.Args[1].(*ssa.Const); ok && k.Value != nil && k.Value.Kind() == constant.String && constant.StringVal(k.Value) == "~whopper-location~" {
						if v, ok := cc.Args[2].(*ssa.Const); ok && v.IsNil() {
							shadows = true
						}
					}
				}
			}
		}
		if invokes {
			r.Decide(shadows, rule, core.SSAName(fn), pos, "invokes the daemons of a combination; binds ~whopper-location~ to nil for them: "+boolStr(shadows))
		}
	}
}
