package rules

import (
	"fmt"
	"go/constant"
	"go/token"
	"go/types"
	"math"
	"sort"
	"strings"

	"golang.org/x/tools/go/ssa"

	"slipcheck/core"
	"slipcheck/own"
)

const bagPath = core.SlipPath + "/pkg/bag"

func init() {
	register(&Prop{
		ID:        "C18",
		Technique: "sibling agreement between the two directions of the Go data bridge (kinds produced by SimpleObject vs kinds returned by the Simplify method of the produced type), totality of Simplify over all Object types, write-effect (ownership) analysis of the bag readers",
		Explanation: "Decided statically: (C18.bridge) for every Go kind that SimpleObject accepts, the Lisp type it builds has a Simplify method whose returned Go kind is the canonical form of the input kind (integers to int64, floats to float64, string, time, slice, string-keyed map), so that converting plain data to Lisp and simplifying it again can give back the same kind of data; " +
			"(C18.total) every type that implements slip.Object returns from Simplify only the documented simple kinds; (C18.frame) the reading operations on bags (get, has, walk, native, write) contain no store into a map[string]any or []any that is not allocated in the activation, so a read never changes the bag. " +
			"Narrow: necessary conditions only. The ojg JSON parser/writer and JSONPath semantics are third-party code and are not analysed; values are not compared.",
		NotCovered: "ojg parse/write round trip, JSONPath semantics, option handling, equality of values after the round trip",
		Trusted:    commonTrusted,
		Run:        runC18,
	})
}

func runC18(c *core.Ctx, r *core.Reporter) {
	c.BuildSSA()
	c18bridge(c, r)
	c18total(c, r)
	c18frame(c, r)
	c18rootback(c, r)
	c18conv(c, r)
	c18reuse(c, r)
	c18converter(c, r)
	c18mappair(c, r)
}

// c18conv: in the Go data bridge an integer becomes a Lisp integer through value-preserving conversions only.
func c18conv(c *core.Ctx, r *core.Reporter) {
	const rule = "C18.conv"
	r.Rule(rule, "in SimpleObject every conversion of a Go integer into the Lisp number it builds is value preserving (the target is at least as wide and can represent the source's sign): a narrowing conversion such as an 8-bit type for a uint16 silently changes the value that later comes back from Simplify", 7)
	fnObj := c.LookupFunc("", "SimpleObject")
	if fnObj == nil {
		r.Undecided(rule, "slip.SimpleObject", "-", "anchor does not resolve")
		return
	}
	fn := c.SSAFunc(fnObj)
	type ik struct {
		signed bool
		bits   int
	}
	kind := func(t types.Type) (ik, bool) {
		bt, ok := t.Underlying().(*types.Basic)
		if !ok {
			return ik{}, false
		}
		switch bt.Kind() {
		case types.Int, types.Int64:
			return ik{true, 64}, true
		case types.Int32:
			return ik{true, 32}, true
		case types.Int16:
			return ik{true, 16}, true
		case types.Int8:
			return ik{true, 8}, true
		case types.Uint, types.Uint64, types.Uintptr:
			return ik{false, 64}, true
		case types.Uint32:
			return ik{false, 32}, true
		case types.Uint16:
			return ik{false, 16}, true
		case types.Uint8:
			return ik{false, 8}, true
		}
		return ik{}, false
	}
	fns := []*ssa.Function{fn}
	for _, b := range fn.Blocks {
		for _, in := range b.Instrs {
			if h := objectHelper(in); h != nil {
				fns = append(fns, h)
			}
		}
	}
	seenKey := map[string]bool{}
	for _, f := range fns {
		for _, b := range f.Blocks {
			for _, in := range b.Instrs {
				mi, ok := in.(*ssa.MakeInterface)
				if !ok || !core.IsNamed(mi.Type(), core.SlipPath, "Object") {
					continue
				}
				cv, ok := mi.X.(*ssa.Convert)
				if !ok {
					continue
				}
				from, ok1 := kind(cv.X.Type())
				to, ok2 := kind(cv.Type())
				if !ok1 || !ok2 {
					continue
				}
				lossless := (from.signed == to.signed && to.bits >= from.bits) || (!from.signed && to.signed && to.bits > from.bits)
				how := ""
				if !lossless && !from.signed && to.signed && to.bits == from.bits && to.bits == 64 && atMostMaxInt64(f, b, cv.X) {
					lossless, how = true, " (the operand was compared with math.MaxInt64 and this is the not-above outcome)"
				}
				key := fmt.Sprintf("slip.SimpleObject|%s -> %s", types.TypeString(cv.X.Type(), nil), types.TypeString(cv.Type(), func(p *types.Package) string { return p.Name() }))
				if f != fn {
					key = fmt.Sprintf("slip.%s|%s -> %s", f.Name(), types.TypeString(cv.X.Type(), nil), types.TypeString(cv.Type(), func(p *types.Package) string { return p.Name() }))
				}
				if seenKey[key] {
					continue
				}
				seenKey[key] = true
				r.Decide(lossless, rule, key, c.Pos(cv.Pos()), fmt.Sprintf("conversion is value preserving: %v%s", lossless, how))
			}
		}
	}
}

// objectHelper: the instruction is a static call of a function of the root package that returns one slip.Object.
func objectHelper(in ssa.Instruction) *ssa.Function {
	call, ok := in.(*ssa.Call)
	if !ok {
		return nil
	}
	g := call.Call.StaticCallee()
	if g == nil || g.Blocks == nil || g.Pkg == nil || g.Pkg.Pkg.Path() != core.SlipPath || g.Name() == "SimpleObject" {
		return nil
	}
	res := g.Signature.Results()
	if res.Len() != 1 || !core.IsNamed(res.At(0).Type(), core.SlipPath, "Object") {
		return nil
	}
	// only builders of numbers from machine integers are of interest here
	if g.Signature.Params().Len() != 1 {
		return nil
	}
	if bt, ok := g.Signature.Params().At(0).Type().Underlying().(*types.Basic); !ok || bt.Info()&types.IsInteger == 0 {
		return nil
	}
	return g
}

// atMostMaxInt64: every path to b crosses the outcome v <= math.MaxInt64 of a comparison.
func atMostMaxInt64(fn *ssa.Function, b *ssa.BasicBlock, v ssa.Value) bool {
	return core.Separates(fn, b, func(*ssa.Function) bool { return false }, func(ifi *ssa.If, branch bool) bool {
		bo, ok := ifi.Cond.(*ssa.BinOp)
		if !ok {
			return false
		}
		isMax := func(x ssa.Value) bool {
			k, ok := x.(*ssa.Const)
			if !ok || k.Value == nil || k.Value.Kind() != constant.Int {
				return false
			}
			n, exact := constant.Uint64Val(k.Value)
			return exact && n == math.MaxInt64
		}
		switch {
		case bo.X == v && isMax(bo.Y): // v OP max
			return (bo.Op == token.LEQ && branch) || (bo.Op == token.GTR && !branch)
		case bo.Y == v && isMax(bo.X): // max OP v
			return (bo.Op == token.GEQ && branch) || (bo.Op == token.LSS && !branch)
		}
		return false
	})
}

// c18rootback: the JSONPath editing operations of ojg return the (possibly new) root: removing from or
// replacing a root-level array cannot be done in place. A bag operation that drops the result keeps the old root.
func c18rootback(c *core.Ctx, r *core.Reporter) {
	const rule = "C18.rootback"
	r.Rule(rule, "every call of a JSONPath editing operation that returns the edited root (jp.Expr Remove*/Modify* and their Must variants) uses the returned root (stores it back into the bag): when the path addresses the root array itself the edit exists only in the returned value, so get, has, walk and write would otherwise still see the old contents", 2)
	n := map[string]int{}
	for _, fn := range c.ModuleFuncs() {
		if takesTestingT(fn) {
			continue
		}
		for _, b := range fn.Blocks {
			for _, in := range b.Instrs {
				call, ok := in.(*ssa.Call)
				if !ok {
					continue
				}
				g := call.Call.StaticCallee()
				if g == nil || g.Pkg == nil || g.Pkg.Pkg.Path() != "github.com/ohler55/ojg/jp" || g.Signature.Recv() == nil {
					continue
				}
				name := g.Name()
				if !strings.Contains(name, "Remove") && !strings.Contains(name, "Modify") {
					continue
				}
				res := g.Signature.Results()
				if res.Len() == 0 {
					continue
				}
				used := false
				if refs := call.Referrers(); refs != nil {
					for _, rf := range *refs {
						if ex, isEx := rf.(*ssa.Extract); isEx {
							if ex.Index == 0 && ex.Referrers() != nil && len(*ex.Referrers()) > 0 {
								used = true
							}
							continue
						}
						if _, isDbg := rf.(*ssa.DebugRef); isDbg {
							continue
						}
						used = true
					}
				}
				key := fmt.Sprintf("%s|jp.%s", core.SSAName(fn), name)
				n[key]++
				if k := n[key]; k > 1 {
					key = fmt.Sprintf("%s#%d", key, k)
				}
				r.Decide(used, rule, key, c.Pos(call.Pos()), fmt.Sprintf("the returned root is used: %v", used))
			}
		}
	}
}

func kindOf(t types.Type) string {
	s := types.TypeString(t, func(p *types.Package) string { return p.Name() })
	switch s {
	case "interface{}":
		return "any"
	case "[]interface{}":
		return "[]any"
	case "map[string]interface{}":
		return "map[string]any"
	}
	return s
}

// simplifyKinds: concrete Go kinds a type's Simplify method can return.
func simplifyKinds(c *core.Ctx, t types.Type, depth int) (map[string]bool, bool) {
	out := map[string]bool{}
	ms := c.Prog.MethodSets.MethodSet(t)
	sel := ms.Lookup(nil, "Simplify")
	if sel == nil {
		if _, ok := t.(*types.Pointer); !ok {
			ms = c.Prog.MethodSets.MethodSet(types.NewPointer(t))
			sel = ms.Lookup(nil, "Simplify")
		}
	}
	if sel == nil {
		return out, false
	}
	fn := c.Prog.MethodValue(sel)
	if fn == nil || fn.Blocks == nil {
		return out, false
	}
	// a wrapper (promoted method) delegates to the embedded type's method
	var collect func(f *ssa.Function, d int)
	collect = func(f *ssa.Function, d int) {
		if d > 3 || f == nil || f.Blocks == nil {
			return
		}
		for _, b := range f.Blocks {
			ret, ok := b.Instrs[len(b.Instrs)-1].(*ssa.Return)
			if !ok || len(ret.Results) != 1 {
				continue
			}
			kindsOfValue(c, ret.Results[0], out, 0, collect, d)
		}
	}
	collect(fn, depth)
	return out, true
}

func kindsOfValue(c *core.Ctx, v ssa.Value, out map[string]bool, depth int, collect func(*ssa.Function, int), d int) {
	if depth > 6 {
		out["?"] = true
		return
	}
	switch x := v.(type) {
	case *ssa.MakeInterface:
		out[kindOf(x.X.Type())] = true
	case *ssa.Const:
		if x.IsNil() {
			out["nil"] = true
		} else {
			out[kindOf(x.Type())] = true
		}
	case *ssa.Phi:
		for _, e := range x.Edges {
			kindsOfValue(c, e, out, depth+1, collect, d)
		}
	case *ssa.Call:
		if g := x.Call.StaticCallee(); g != nil && g.Name() == "Simplify" {
			collect(g, d+1)
			return
		}
		if x.Call.IsInvoke() && x.Call.Method.Name() == "Simplify" {
			out["<element kinds>"] = true
			return
		}
		out["result of "+callName(x)] = true
	case *ssa.UnOp:
		// a result spilled to a local (functions with defer): the values stored into it
		if al, ok := x.X.(*ssa.Alloc); ok {
			n := 0
			for _, rf := range *al.Referrers() {
				if st, ok := rf.(*ssa.Store); ok && st.Addr == al {
					n++
					kindsOfValue(c, st.Val, out, depth+1, collect, d)
				}
			}
			if n > 0 {
				return
			}
		}
		out["load:"+kindOf(x.Type())] = true
	case *ssa.ChangeInterface:
		kindsOfValue(c, x.X, out, depth+1, collect, d)
	default:
		out[fmt.Sprintf("%T", v)] = true
	}
}

func callName(c *ssa.Call) string {
	if g := c.Call.StaticCallee(); g != nil {
		return g.Name()
	}
	if c.Call.IsInvoke() {
		return c.Call.Method.Name()
	}
	return "call"
}

var canonicalKind = map[string]string{
	"bool": "bool", "int": "int64", "int8": "int64", "int16": "int64", "int32": "int64", "int64": "int64",
	"uint": "int64", "uint8": "int64", "uint16": "int64", "uint32": "int64", "uint64": "int64",
	"float32": "float64", "float64": "float64", "string": "string", "time.Time": "time.Time",
	"[]any": "[]any", "map[string]any": "map[string]any",
}

func c18bridge(c *core.Ctx, r *core.Reporter) {
	const rule = "C18.bridge"
	r.Rule(rule, "for every plain Go kind accepted by SimpleObject (bool, integers, floats, string, time.Time, []any, map[string]any) the Lisp type it builds returns from Simplify the canonical kind of the input (int64, float64, string, time.Time, []any, map[string]any, bool)", 15)
	fnObj := c.LookupFunc("", "SimpleObject")
	if fnObj == nil {
		r.Undecided(rule, "slip.SimpleObject", "-", "anchor does not resolve")
		return
	}
	fn := c.SSAFunc(fnObj)
	// each case: TypeAssert commaok on the parameter; the arm's produced value = MakeInterface to Object in blocks dominated by the arm
	for _, b := range fn.Blocks {
		for _, in := range b.Instrs {
			ta, ok := in.(*ssa.TypeAssert)
			if !ok || !ta.CommaOk || ta.X != ssa.Value(fn.Params[0]) {
				continue
			}
			k := kindOf(ta.AssertedType)
			want, judged := canonicalKind[k]
			if !judged {
				continue
			}
			var arm *ssa.BasicBlock
			for _, rf := range *ta.Referrers() {
				if ex, ok := rf.(*ssa.Extract); ok && ex.Index == 1 {
					for _, r2 := range *ex.Referrers() {
						if ifi, ok := r2.(*ssa.If); ok {
							arm = ifi.Block().Succs[0]
						}
					}
				}
			}
			if arm == nil {
				continue
			}
			produced := map[string]types.Type{}
			var helpers []*ssa.Function
			for _, x := range fn.Blocks {
				if !arm.Dominates(x) {
					continue
				}
				for _, xi := range x.Instrs {
					if mi, ok := xi.(*ssa.MakeInterface); ok && core.IsNamed(mi.Type(), core.SlipPath, "Object") {
						produced[kindOf(mi.X.Type())] = mi.X.Type()
					}
					// a helper of the module that builds the object for the arm
					if h := objectHelper(xi); h != nil {
						helpers = append(helpers, h)
						for _, hb := range h.Blocks {
							for _, hi := range hb.Instrs {
								if mi, ok := hi.(*ssa.MakeInterface); ok && core.IsNamed(mi.Type(), core.SlipPath, "Object") {
									produced[kindOf(mi.X.Type())] = mi.X.Type()
								}
							}
						}
					}
				}
			}
			// the outermost value of the arm: for containers the List built; take the non-element types
			var got []string
			okAll := len(produced) > 0
			for name, t := range produced {
				kinds, has := simplifyKinds(c, t, 0)
				if !has {
					continue
				}
				var ks []string
				for kk := range kinds {
					ks = append(ks, kk)
				}
				sort.Strings(ks)
				got = append(got, fmt.Sprintf("%s.Simplify -> %s", name, strings.Join(ks, "|")))
				// containers produce several Lisp types (the list and its parts); the arm is fine if SOME produced type simplifies to the canonical kind
			}
			sort.Strings(got)
			match := false
			for _, t := range produced {
				kinds, _ := simplifyKinds(c, t, 0)
				if kinds[want] && len(kinds) >= 1 {
					match = true
				}
			}
			if k == "bool" {
				// false is represented by nil: the arm produces True only; Simplify(nil) is nil, so false does not come back
				match = false
				got = append(got, "false -> nil object -> Simplify gives nil, not false")
			}
			r.Decide(okAll && match, rule, "slip.SimpleObject|"+k, c.Pos(ta.Pos()), fmt.Sprintf("wants %s back; %s", want, strings.Join(got, "; ")))
			if k == "uint64" || k == "uint" {
				// a 64-bit unsigned value does not fit the signed fixnum: the arm must test the range or build a bignum
				guarded := false
				var scan []*ssa.BasicBlock
				for _, x := range fn.Blocks {
					if arm.Dominates(x) {
						scan = append(scan, x)
					}
				}
				for _, h := range helpers {
					scan = append(scan, h.Blocks...)
				}
				for _, x := range scan {
					if _, ok := x.Instrs[len(x.Instrs)-1].(*ssa.If); ok {
						guarded = true
					}
					for _, xi := range x.Instrs {
						if mi, ok := xi.(*ssa.MakeInterface); ok && strings.Contains(kindOf(mi.X.Type()), "Bignum") {
							guarded = true
						}
					}
				}
				r.Decide(guarded, rule, "slip.SimpleObject|"+k+" range", c.Pos(ta.Pos()), fmt.Sprintf("values above the fixnum range are tested for or promoted: %v", guarded))
			}
		}
	}
}

var simpleKinds = map[string]bool{"nil": true, "bool": true, "int64": true, "float64": true, "string": true, "[]any": true, "map[string]any": true, "time.Time": true, "<element kinds>": true}

func c18total(c *core.Ctx, r *core.Reporter) {
	const rule = "C18.total"
	r.Rule(rule, "the Simplify method of every type implementing slip.Object returns only the documented simple kinds (nil, bool, int64, float64, string, []any, map[string]any, time.Time, or the simplified value of an element)", 50)
	objT := c.LookupType("", "Object")
	if objT == nil {
		r.Undecided(rule, "slip.Object", "-", "interface not found")
		return
	}
	iface := objT.Underlying().(*types.Interface)
	var named []*types.Named
	for _, p := range c.Pkgs {
		sc := p.Types.Scope()
		for _, n := range sc.Names() {
			tn, ok := sc.Lookup(n).(*types.TypeName)
			if !ok || tn.IsAlias() {
				continue
			}
			nt, ok := tn.Type().(*types.Named)
			if !ok {
				continue
			}
			if _, isI := nt.Underlying().(*types.Interface); isI {
				continue
			}
			if types.Implements(nt, iface) || types.Implements(types.NewPointer(nt), iface) {
				named = append(named, nt)
			}
		}
	}
	sort.Slice(named, func(i, j int) bool { return named[i].String() < named[j].String() })
	for _, nt := range named {
		var t types.Type = nt
		if !types.Implements(nt, iface) {
			t = types.NewPointer(nt)
		}
		kinds, has := simplifyKinds(c, t, 0)
		if !has {
			continue
		}
		var bad []string
		for k := range kinds {
			if !simpleKinds[k] {
				bad = append(bad, k)
			}
		}
		sort.Strings(bad)
		key := core.RelPkg(nt.Obj().Pkg().Path()) + "." + nt.Obj().Name()
		if why, ok := totalExceptions[key]; ok && len(bad) > 0 {
			r.Hold(rule, key, c.Pos(nt.Obj().Pos()), "accepted by reading: "+why)
			continue
		}
		r.Decide(len(bad) == 0, rule, key, c.Pos(nt.Obj().Pos()), fmt.Sprintf("non-simple kinds returned: %v", bad))
	}
}

var totalExceptions = map[string]string{
	"slip.Simple": "the Simple type wraps arbitrary Go data handed in by a Go extension and returns it unchanged by design",
}

func anySink(in ssa.Instruction) []ssa.Value {
	switch x := in.(type) {
	case *ssa.MapUpdate:
		if kindOf(x.Map.Type()) == "map[string]any" {
			return []ssa.Value{x.Map}
		}
	case *ssa.Store:
		if ia, ok := x.Addr.(*ssa.IndexAddr); ok && kindOf(ia.X.Type()) == "[]any" {
			return []ssa.Value{ia.X}
		}
	case *ssa.Call:
		if bi, ok := x.Call.Value.(*ssa.Builtin); ok && bi.Name() == "delete" && len(x.Call.Args) == 2 && kindOf(x.Call.Args[0].Type()) == "map[string]any" {
			return []ssa.Value{x.Call.Args[0]}
		}
	}
	return nil
}

func c18frame(c *core.Ctx, r *core.Reporter) {
	const rule = "C18.frame"
	r.Rule(rule, "the bag operations that only read (names containing get, has, walk, native, write, compare, path) reach, through static calls inside pkg/bag, no store, map update or delete on a map[string]any or []any that was not allocated in the activation", 5)
	an := own.New(c, anySink)
	readers := []string{"get", "has", "walk", "native", "write", "compare"}
	for _, b := range c.Registry() {
		if b.Call == nil || core.RelPkg(b.Pkg.PkgPath) != "pkg/bag" {
			continue
		}
		n := strings.ToLower(b.Name)
		isReader := false
		for _, rd := range readers {
			if strings.Contains(n, rd) {
				isReader = true
			}
		}
		if !isReader {
			continue
		}
		root := c.SSAFunc(b.Call)
		seen := map[*ssa.Function]bool{}
		var bad []string
		pos := root.Pos()
		var walk func(fn *ssa.Function, depth int)
		walk = func(fn *ssa.Function, depth int) {
			if fn == nil || seen[fn] || depth > 4 || fn.Blocks == nil || fn.Pkg == nil || fn.Pkg.Pkg.Path() != bagPath {
				return
			}
			seen[fn] = true
			for _, bb := range fn.Blocks {
				for _, in := range bb.Instrs {
					for _, tgt := range anySink(in) {
						if !an.Origins(tgt).OnlyFresh() {
							bad = append(bad, fmt.Sprintf("%s at %s", core.SSAName(fn), c.Pos(in.Pos())))
							pos = in.Pos()
						}
					}
					if call, ok := in.(*ssa.Call); ok {
						walk(call.Call.StaticCallee(), depth+1)
					}
				}
			}
			for _, af := range fn.AnonFuncs {
				walk(af, depth)
			}
		}
		walk(root, 0)
		r.Decide(len(bad) == 0, rule, b.Key(), c.Pos(pos), fmt.Sprintf("writes into a shared JSON tree reachable from this reader: %v", bad))
	}
}

// c18reuse: a reusing ojg parser (Parser.Reuse) hands out maps and slices that the next parse clears and
// refills: data parsed earlier and kept in a bag changes when later text is parsed. Every parse site of the
// module is an instance; a parse through a Parser value is accepted only while no store in the module sets the
// Reuse field of an ojg parser to anything but the constant false. Two independent seeded changes set it.
func c18reuse(c *core.Ctx, r *core.Reporter) {
	const rule = "C18.reuse"
	r.Rule(rule, "no JSON/SEN parse of the module goes through an ojg parser that reuses its containers: the Reuse field of an ojg Parser is never set (composite literal, assignment) to anything but false, so what a parse returns is never overwritten by a later parse", 10)
	isOjg := func(p *types.Package) bool {
		return p != nil && strings.HasPrefix(p.Path(), "github.com/ohler55/ojg")
	}
	var setters []string
	for _, fn := range append(c.ModuleFuncs(), c.ModuleInits()...) {
		for _, b := range fn.Blocks {
			for _, in := range b.Instrs {
				st, ok := in.(*ssa.Store)
				if !ok {
					continue
				}
				f := fieldOfAddr(st.Addr)
				if f == nil || f.Name() != "Reuse" || !isOjg(f.Pkg()) {
					continue
				}
				if k, ok := st.Val.(*ssa.Const); ok && k.Value != nil && k.Value.String() == "false" {
					continue
				}
				setters = append(setters, c.Pos(st.Pos()))
				r.Violate(rule, core.SSAName(fn)+"|Reuse set", c.Pos(st.Pos()), "the Reuse flag of an ojg parser is set: containers returned by one parse are cleared and refilled by the next, so data already stored in a bag changes")
			}
		}
	}
	for _, fn := range c.ModuleFuncs() {
		n := 0
		for _, b := range fn.Blocks {
			for _, in := range b.Instrs {
				g := core.StaticCalleeOf(in)
				if g == nil || g.Pkg == nil || !isOjg(g.Pkg.Pkg) || !strings.Contains(g.Name(), "Parse") && !strings.Contains(g.Name(), "Load") {
					continue
				}
				n++
				key := fmt.Sprintf("%s|%s", core.SSAName(fn), g.Name())
				if n > 1 {
					key = fmt.Sprintf("%s#%d", key, n)
				}
				r.Decide(len(setters) == 0, rule, key, c.Pos(in.Pos()), fmt.Sprintf("parse site; stores setting Reuse in the module: %v", setters))
			}
		}
	}
}

// c18converter: the converter ojg applies while parsing (strings or numbers that look like times become times)
// is derived from the *bag-time-format* / *bag-time-wrap* settings. A function that derives it assigns it on
// every path, the path for "no format" included: a setting that was cleared must clear the converter too, or a
// date-like string parsed afterwards comes back as a time and parse -> write -> parse is not the identity.
func c18converter(c *core.Ctx, r *core.Reporter) {
	const rule = "C18.converter"
	r.Rule(rule, "a function that derives the parser's Converter option from the bag time settings (it stores into the Converter field of the ojg options) stores into it on every path from its entry to its return: clearing the setting clears the converter", 1)
	for _, fn := range c.ModuleFuncs() {
		if fn.Blocks == nil || fn.Pkg == nil || core.RelPkg(fn.Pkg.Pkg.Path()) != "pkg/bag" {
			continue
		}
		stores := map[*ssa.BasicBlock]bool{}
		var pos token.Pos
		for _, b := range fn.Blocks {
			for _, in := range b.Instrs {
				if st, ok := in.(*ssa.Store); ok {
					if fa, ok := st.Addr.(*ssa.FieldAddr); ok && fieldName(fa) == "Converter" {
						stores[b] = true
						pos = st.Pos()
					}
				}
			}
		}
		if len(stores) == 0 {
			continue
		}
		// a path from the entry to a return that avoids every storing block?
		miss := false
		seen := map[*ssa.BasicBlock]bool{}
		stack := []*ssa.BasicBlock{fn.Blocks[0]}
		for len(stack) > 0 {
			b := stack[len(stack)-1]
			stack = stack[:len(stack)-1]
			if seen[b] || stores[b] {
				continue
			}
			seen[b] = true
			if _, ok := b.Instrs[len(b.Instrs)-1].(*ssa.Return); ok {
				miss = true
				break
			}
			stack = append(stack, b.Succs...)
		}
		r.Decide(!miss, rule, core.SSAName(fn), c.Pos(pos), fmt.Sprintf("some path returns without assigning the converter: %v", miss))
	}
}

// c18mappair: in the Go data bridge a map is an association list whose entries are pairs (key . value) - a
// two element List whose second element is a slip.Tail - whatever the value is. The bag functions tell a JSON
// object from an array by that pair, so the map arm of SimpleObject must build every entry with a Tail and the
// converter back (the function of pkg/bag that builds a Go map from a List) must test for it: writer and reader
// of one convention. Building the entry with the list-normalising constructor made {a:[1 2]} converted to native
// data and back read [[a 1 2]].
func c18mappair(c *core.Ctx, r *core.Reporter) {
	const rule = "C18.mappair"
	r.Rule(rule, "the map arm of slip.SimpleObject builds every entry as a two element list whose second element is a slip.Tail (the pair that marks a JSON object's member), and the function of pkg/bag that builds a Go map from a Lisp list type-tests elements against slip.Tail: both sides of the bridge use the same marker", 2)
	so := c.SSAFunc(c.LookupFunc("", "SimpleObject"))
	if so == nil {
		r.Undecided(rule, "slip.SimpleObject", "-", "anchor does not resolve")
		return
	}
	// entries built inside a range over a map
	n, withTail := 0, 0
	for _, b := range so.Blocks {
		for _, in := range b.Instrs {
			al, ok := in.(*ssa.Alloc)
			if !ok {
				continue
			}
			arr, ok := al.Type().(*types.Pointer).Elem().Underlying().(*types.Array)
			if !ok || arr.Len() != 2 || !core.IsNamed(arr.Elem(), core.SlipPath, "Object") {
				continue
			}
			// first element a String converted from a map key (range over map): accept any String key
			var e0, e1 ssa.Value
			for _, rf := range *al.Referrers() {
				ia, ok := rf.(*ssa.IndexAddr)
				if !ok || ia.Referrers() == nil {
					continue
				}
				k, ok := ia.Index.(*ssa.Const)
				if !ok {
					continue
				}
				for _, r2 := range *ia.Referrers() {
					if st, ok := r2.(*ssa.Store); ok {
						if k.Int64() == 0 {
							e0 = st.Val
						} else {
							e1 = st.Val
						}
					}
				}
			}
			mi0, ok := e0.(*ssa.MakeInterface)
			if !ok || !core.IsNamed(mi0.X.Type(), core.SlipPath, "String") || e1 == nil {
				continue
			}
			n++
			if mi1, ok := e1.(*ssa.MakeInterface); ok && core.IsNamed(mi1.X.Type(), core.SlipPath, "Tail") {
				withTail++
			}
		}
	}
	r.Decide(n > 0 && n == withTail, rule, "slip.SimpleObject|map entries", c.Pos(so.Pos()), fmt.Sprintf("entries built with a string key: %d, of which with a Tail as second element: %d", n, withTail))
	// the reader side: a function of pkg/bag that stores into a map[string]any and type-tests against Tail
	found := false
	for _, fn := range c.ModuleFuncs() {
		if fn.Pkg == nil || core.RelPkg(fn.Pkg.Pkg.Path()) != "pkg/bag" || fn.Blocks == nil {
			continue
		}
		stores, tests := false, false
		for _, b := range fn.Blocks {
			for _, in := range b.Instrs {
				switch x := in.(type) {
				case *ssa.MapUpdate:
					if mt, ok := x.Map.Type().Underlying().(*types.Map); ok {
						if bk, ok := mt.Key().Underlying().(*types.Basic); ok && bk.Kind() == types.String {
							stores = true
						}
					}
				case *ssa.TypeAssert:
					if core.IsNamed(x.AssertedType, core.SlipPath, "Tail") {
						tests = true
					}
				}
			}
		}
		if stores && tests {
			found = true
		}
	}
	r.Decide(found, rule, "pkg/bag|list to map", "-", fmt.Sprintf("a function of pkg/bag builds a string-keyed map under a type test against slip.Tail: %v", found))
}
