package rules

import (
	"fmt"
	"go/ast"
	"go/constant"
	"go/token"
	"go/types"
	"regexp"
	"slipcheck/lenflow"
	"sort"
	"strings"

	"golang.org/x/tools/go/ssa"

	"slipcheck/core"
)

func init() {
	register(&Prop{
		ID:        "C03",
		Technique: "constant-table agreement: the printer's quoting/escape/prefix constants are fed through the reader's mode tables and regex constants (tables located by data-flow role, evaluated as constants)",
		Explanation: "Printer and reader are both driven by constants, so their agreement is static. Decided: (C03.sym) every byte the symbol printer emits unquoted is accepted by the reader's tables as token start and token constituent, and the duplicate quoting table in pkg/gi equals the printer's; " +
			"(C03.char) every character name the printer emits is a reader name for the same character and every character printed as #\\c is accepted by the reader's character mode; (C03.num) every radix prefix the integer printers emit is accepted by the sharp-dispatch tables and every exponent marker a float printer emits selects a reader regex whose arm builds the same float type. " +
			"Necessary conditions for print/read round trip only: digits, layout and string escaping values are not decided.",
		NotCovered: "pretty-printer layout, float digit generation, symbols whose name looks like a number, string escape values, swank framing",
		Trusted:    append([]string{"the reader model is read off the dispatch switch of reader.read: per action byte, the modes its arm stores and whether it re-dispatches"}, commonTrusted...),
		Run:        runC03,
	})
}

// constIndexTables finds, in fn, constant strings of >= 256 bytes that are
// indexed and compared with a byte constant: returns table -> marker.
func constIndexTables(fn *ssa.Function) map[string]byte {
	out := map[string]byte{}
	if fn == nil {
		return out
	}
	for _, b := range fn.Blocks {
		for _, in := range b.Instrs {
			bo, ok := in.(*ssa.BinOp)
			if !ok || (bo.Op != token.EQL && bo.Op != token.NEQ) {
				continue
			}
			for i, side := range []ssa.Value{bo.X, bo.Y} {
				var x ssa.Value
				switch y := side.(type) {
				case *ssa.Index:
					x = y.X
				case *ssa.Lookup:
					x = y.X
				}
				if x == nil {
					continue
				}
				s, ok := core.StringConst(x)
				if !ok || len(s) < 256 {
					continue
				}
				other := bo.Y
				if i == 1 {
					other = bo.X
				}
				if k, ok := other.(*ssa.Const); ok && k.Value != nil {
					if v, ok := constant.Int64Val(k.Value); ok {
						out[s] = byte(v)
					}
				}
			}
		}
	}
	return out
}

func runC03(c *core.Ctx, r *core.Reporter) {
	c.BuildSSA()
	c03tail(c, r, "C03.tail")
	// the printers of bignums and ratios take machine-word short cuts
	bigInt64Rule(c, r, "C03.int64")
	c03fname(c, r)
	c03symbol(c, r)
	m := buildReaderModel(c)
	if m == nil || m.initial == "" {
		r.Undecided("C03.sym", "reader model", "-", "the reader's dispatch switch or mode tables were not recognised")
		return
	}
	r.Count("reader.mode_tables", len(m.tables))
	r.Count("reader.dispatch_arms", len(m.arms))
	c03sym(c, r, m)
	c03char(c, r, m)
	c03num(c, r, m)
	c03local(c, r)
	c03base(c, r)
	c03hex(c, r)
}

// c03hex: a value written as hexadecimal digits through a 16-entry digit table must have all its bits written.
// For every value v whose nibbles index such a table in one function: the digits written are v&0xf, (v>>4)&0xf,
// ... up to the highest shift; they cover 4*(n) bits; v must be known to fit (a dominating test v < C with
// C <= 16^n) or the digits must cover the whole type. An unmasked v>>k additionally needs v < 16<<k (it is an index).
func c03hex(c *core.Ctx, r *core.Reporter) {
	const rule = "C03.hex"
	r.Rule(rule, "in the printer (package slip), every value written as hexadecimal digits through a 16-entry digit table has all its significant bits written: the digits cover the type's width, or a dominating comparison bounds the value below 16^(number of digits); otherwise an escape such as #\\uXXXX silently drops the high bits and reads back as a different character", 1)
	an := lenflow.New(c)
	for _, fn := range c.ModuleFuncs() {
		if fn.Pkg == nil || fn.Pkg.Pkg.Path() != core.SlipPath || takesTestingT(fn) {
			continue
		}
		type use struct {
			shift  int
			masked bool
			in     ssa.Instruction
		}
		uses := map[ssa.Value][]use{}
		for _, b := range fn.Blocks {
			for _, in := range b.Instrs {
				var tab, idx ssa.Value
				switch x := in.(type) {
				case *ssa.Index:
					tab, idx = x.X, x.Index
				case *ssa.Lookup:
					tab, idx = x.X, x.Index
				default:
					continue
				}
				ts, ok := core.StringConst(tab)
				if !ok {
					// a package-level variable initialised with a constant and never assigned elsewhere
					if gv := globalOf(tab); gv != nil && !globalStoredOutsideInit(c, gv) {
						if e, info := globalInit(c, gv.Object()); e != nil {
							if tv, has := info.Types[e]; has && tv.Value != nil && tv.Value.Kind() == constant.String {
								ts, ok = constant.StringVal(tv.Value), true
							}
						}
					}
				}
				if !ok || strings.ToLower(ts) != "0123456789abcdef" {
					continue
				}
				v, sh, masked, ok := nibbleOf(idx, 0)
				if !ok {
					continue
				}
				uses[v] = append(uses[v], use{sh, masked, in})
			}
		}
		if len(uses) == 0 {
			continue
		}
		var g *core.Guards
		var vals []ssa.Value
		for v := range uses {
			vals = append(vals, v)
		}
		sort.Slice(vals, func(i, j int) bool { return vals[i].Name() < vals[j].Name() })
		for _, v := range vals {
			us := uses[v]
			maxShift := 0
			for _, u := range us {
				if u.shift > maxShift {
					maxShift = u.shift
				}
			}
			bits := maxShift + 4
			width := 64
			if bt, ok := v.Type().Underlying().(*types.Basic); ok {
				switch bt.Kind() {
				case types.Int8, types.Uint8:
					width = 8
				case types.Int16, types.Uint16:
					width = 16
				case types.Int32, types.Uint32:
					width = 32
				}
			}
			if g == nil {
				g = core.ComputeGuards(fn, an.NoReturn)
			}
			// the value must be bounded at every digit site
			ok := true
			detail := ""
			for _, u := range us {
				ub, has := upperBoundFromFacts(v, g.Facts(u.in.Block()))
				need := bits
				if !u.masked && u.shift+4 < need {
					need = u.shift + 4 // an unmasked digit is also an index: v >> shift must be < 16
				}
				switch {
				case has && ub <= (1<<uint(need)):
				case !has && u.masked && bits >= width:
				default:
					ok = false
					if has {
						detail = fmt.Sprintf("the value is only known to be < %#x but %d bits are written", ub, need)
					} else {
						detail = fmt.Sprintf("no dominating comparison bounds the value; %d of its %d bits are written", bits, width)
					}
				}
			}
			if ok {
				detail = fmt.Sprintf("%d hexadecimal digits cover the value at every site", bits/4)
			}
			r.Decide(ok, rule, core.SSAName(fn)+"|"+rootDesc(v), c.Pos(us[0].in.Pos()), detail)
		}
	}
}

// globalStoredOutsideInit: some function other than the package initialiser assigns the variable.
func globalStoredOutsideInit(c *core.Ctx, g *ssa.Global) bool {
	for _, fn := range c.ModuleFuncs() {
		if fn.Name() == "init" && fn.Signature.Recv() == nil && fn.Parent() == nil && fn.Synthetic != "" {
			continue
		}
		for _, b := range fn.Blocks {
			for _, in := range b.Instrs {
				if st, ok := in.(*ssa.Store); ok && st.Addr == ssa.Value(g) {
					return true
				}
			}
		}
	}
	return false
}

// nibbleOf decomposes an index expression into (value, shift, masked): v&0xf, (v>>k)&0xf, v>>k, through conversions.
func nibbleOf(e ssa.Value, depth int) (ssa.Value, int, bool, bool) {
	if depth > 6 {
		return nil, 0, false, false
	}
	switch x := e.(type) {
	case *ssa.Convert:
		return nibbleOf(x.X, depth+1)
	case *ssa.ChangeType:
		return nibbleOf(x.X, depth+1)
	case *ssa.BinOp:
		k, isK := x.Y.(*ssa.Const)
		if !isK || k.Value == nil || k.Value.Kind() != constant.Int {
			return nil, 0, false, false
		}
		kv, _ := constant.Int64Val(k.Value)
		switch x.Op {
		case token.AND:
			if kv != 0xf {
				return nil, 0, false, false
			}
			if v, sh, _, ok := nibbleOf(x.X, depth+1); ok {
				return v, sh, true, true
			}
			return x.X, 0, true, true
		case token.SHR:
			if kv%4 != 0 {
				return nil, 0, false, false
			}
			inner := x.X
			for {
				if cv, ok := inner.(*ssa.Convert); ok {
					inner = cv.X
					continue
				}
				break
			}
			return inner, int(kv), false, true
		}
	}
	return nil, 0, false, false
}

// upperBoundFromFacts: the smallest C with v < C implied by the comparisons that hold (v < C, v <= C-1, ...).
func upperBoundFromFacts(v ssa.Value, facts map[core.EdgeFact]bool) (int64, bool) {
	var best int64
	found := false
	for f := range facts {
		bo, ok := f.If.Cond.(*ssa.BinOp)
		if !ok {
			continue
		}
		op := bo.Op
		var kc *ssa.Const
		strip := func(x ssa.Value) ssa.Value {
			for {
				if cv, ok := x.(*ssa.Convert); ok {
					x = cv.X
					continue
				}
				return x
			}
		}
		switch {
		case strip(bo.X) == v:
			kc, _ = bo.Y.(*ssa.Const)
		case strip(bo.Y) == v:
			kc, _ = bo.X.(*ssa.Const)
			switch op {
			case token.LSS:
				op = token.GTR
			case token.LEQ:
				op = token.GEQ
			case token.GTR:
				op = token.LSS
			case token.GEQ:
				op = token.LEQ
			}
		}
		if kc == nil || kc.Value == nil || kc.Value.Kind() != constant.Int {
			continue
		}
		cv, _ := constant.Int64Val(kc.Value)
		if !f.Branch {
			switch op {
			case token.LSS:
				op = token.GEQ
			case token.LEQ:
				op = token.GTR
			case token.GTR:
				op = token.LEQ
			case token.GEQ:
				op = token.LSS
			case token.EQL:
				op = token.NEQ
			case token.NEQ:
				op = token.EQL
			}
		}
		var ub int64
		switch op {
		case token.LSS:
			ub = cv
		case token.LEQ, token.EQL:
			ub = cv + 1
		default:
			continue
		}
		if !found || ub < best {
			best, found = ub, true
		}
	}
	return best, found
}

// c03local: a printing method that is handed the printer settings must use
// them: no Readably(b, p) method reads the package-level default printer.
func c03local(c *core.Ctx, r *core.Reporter) {
	const rule = "C03.local"
	r.Rule(rule, "every method Readably(b, p *Printer) takes the printer control settings from p only: it never loads the package-level default printer (a prefix from the local base with digits from the global base is unreadable)", 10)
	for _, fn := range c.ModuleFuncs() {
		if fn.Name() != "Readably" || fn.Signature.Recv() == nil || fn.Parent() != nil {
			continue
		}
		hasP := false
		for _, p := range fn.Params {
			if core.IsNamed(p.Type(), core.SlipPath, "Printer") {
				hasP = true
			}
		}
		if !hasP {
			continue
		}
		var bad []string
		pos := fn.Pos()
		for _, b := range fn.Blocks {
			for _, in := range b.Instrs {
				var rands [8]*ssa.Value
				for _, op := range in.Operands(rands[:0]) {
					if g, ok := (*op).(*ssa.Global); ok && core.IsNamed(g.Type(), core.SlipPath, "Printer") {
						// passing &printer on to another Readably is delegation with explicit settings only when p is absent; here p exists
						bad = append(bad, g.Name())
						pos = in.Pos()
					}
				}
			}
		}
		r.Decide(len(bad) == 0, rule, core.SSAName(fn), c.Pos(pos), fmt.Sprintf("reads of package-level printers inside the method: %v", bad))
	}
}

func c03sym(c *core.Ctx, r *core.Reporter, m *readerModel) {
	const rule = "C03.sym"
	r.Rule(rule, "for every byte b: if the symbol printer emits b without |quoting| (its quoting table does not mark b) then the reader's tables accept b as the first byte of a token and as a later byte of a token; copies of the quoting table in other packages are held to the same rule (obligations are contiguous byte ranges with one verdict)", 30)
	fnObj := c.LookupFunc("", "Symbol.Readably")
	if fnObj == nil {
		r.Undecided(rule, "slip.(Symbol).Readably", "-", "anchor does not resolve")
		return
	}
	tabs := constIndexTables(c.SSAFunc(fnObj))
	if len(tabs) != 1 {
		r.Undecided(rule, "slip.(Symbol).Readably|table", c.Pos(fnObj.Pos()), fmt.Sprintf("expected one 256-entry quoting table indexed in Symbol.Readably, found %d", len(tabs)))
		return
	}
	var pipe string
	var mark byte
	for t, k := range tabs {
		pipe, mark = t, k
	}
	// token start action and token mode by role: what the letter 'a' does in the initial mode
	tokModes, ok := m.step(m.initial, 'a', 0)
	if !ok || len(tokModes) == 0 {
		r.Undecided(rule, "reader|token mode", c.Pos(m.read.Pos()), "the letter 'a' does not start a token in the initial mode")
		return
	}
	tokenMode := tokModes[0]
	checkTable := func(label string, pipe string, mark byte, pos string) {
		type verdict struct {
			ok     bool
			detail string
		}
		byteVerdict := func(b byte) verdict {
			if pipe[b] == mark {
				// quoted by the printer: inside |...| every byte is a constituent except the terminators; checked below
				return verdict{true, "printer quotes"}
			}
			// as first byte
			n1, ok1 := m.step(m.initial, b, 0)
			startOK := false
			if ok1 {
				for _, x := range n1 {
					if x == tokenMode {
						startOK = true
					}
				}
			}
			// as a later byte
			n2, ok2 := m.step(tokenMode, b, 0)
			contOK := ok2 && len(n2) == 1 && n2[0] == tokenMode
			switch {
			case !startOK && !contOK:
				return verdict{false, "printed unquoted but rejected by the reader both as first and as later byte of a token"}
			case !startOK:
				return verdict{false, "printed unquoted but not accepted as the first byte of a token"}
			case !contOK:
				return verdict{false, "printed unquoted but terminates or is rejected inside a token"}
			}
			return verdict{true, "accepted"}
		}
		// group contiguous bytes with the same verdict text into one obligation
		start := 0
		cur := byteVerdict(0)
		flush := func(end int) {
			key := fmt.Sprintf("%sbytes 0x%02x-0x%02x", label, start, end)
			if start == end {
				key = fmt.Sprintf("%sbyte 0x%02x %s", label, start, quoteByte(byte(start)))
			}
			o := r.Decide(cur.ok, rule, key, pos, cur.detail)
			_ = o
		}
		for b := 1; b < 256; b++ {
			v := byteVerdict(byte(b))
			if v != cur {
				flush(b - 1)
				start, cur = b, v
			}
		}
		flush(255)
		// inside |...|: the closing | and the escape must be the only special bytes the printer has to avoid; the printer does not escape, so a | in the name must be quoted... it cannot be: report if '|' is not marked
		r.Decide(pipe['|'] == mark, rule, label+"byte '|' marked", pos, "the quoting table marks the | character itself")

	}
	checkTable("", pipe, mark, c.Pos(fnObj.Pos()))
	// Exceptions coded in Symbol.Readably: a byte the table marks, compared with a constant in the function, may be
	// written bare under a condition (repairs 4919295/476bcdd: a slash in a name without digits anywhere, an
	// ampersand as the first character). Each exception is held to what the reader accepts in that position, and an
	// exception the rule has not been told about is reported.
	conditional := map[byte]string{'/': "anywhere", '&': "first"}
	for _, b := range comparedByteConsts(c.SSAFunc(fnObj)) {
		if pipe[b] != mark {
			continue // not marked: the table decides, judged above
		}
		key := fmt.Sprintf("exception byte %s", quoteByte(b))
		kind, known := conditional[b]
		if !known {
			r.Violate(rule, key, c.Pos(fnObj.Pos()), "Symbol.Readably compares the name's bytes with this marked byte: an exception from quoting that has not been confirmed against the reader")
			continue
		}
		n1, ok1 := m.step(m.initial, b, 0)
		startOK := false
		if ok1 {
			for _, x := range n1 {
				if x == tokenMode {
					startOK = true
				}
			}
		}
		n2, ok2 := m.step(tokenMode, b, 0)
		contOK := ok2 && len(n2) == 1 && n2[0] == tokenMode
		switch kind {
		case "first":
			ok := startOK && firstOnlyGuard(c.SSAFunc(fnObj), b)
			r.Decide(ok, rule, key, c.Pos(fnObj.Pos()), fmt.Sprintf("written bare only as the first byte of a name (the exception is conjoined with a test of the position against 0: %v); the reader accepts it as the first byte of a token: %v", firstOnlyGuard(c.SSAFunc(fnObj), b), startOK))
		default:
			r.Decide(startOK && contOK, rule, key, c.Pos(fnObj.Pos()), fmt.Sprintf("may be written bare anywhere in a name; the reader accepts it as first byte: %v, as later byte: %v", startOK, contOK))
		}
	}
	// copies of the quoting table elsewhere (same role by content: a 256-entry constant that marks blank, parentheses,
	// double quote and | with one marker byte): each is held to the same rule (a copy may quote more, never less)
	for _, fn := range c.ModuleFuncs() {
		if fn.Pkg == nil || fn.Pkg.Pkg.Path() == core.SlipPath {
			continue
		}
		for t, k := range constIndexTables(fn) {
			if t[' '] != k || t['('] != k || t[')'] != k || t['|'] != k || t['"'] != k || t['a'] == k {
				continue
			}
			checkTable(core.SSAName(fn)+"|", t, k, c.Pos(fn.Pos()))
		}
	}
}

func globalMap(c *core.Ctx, fn *ssa.Function, keyKind string) (map[string]string, *ssa.Global) {
	// the map global that is indexed (Lookup) in fn
	if fn == nil {
		return nil, nil
	}
	for _, b := range fn.Blocks {
		for _, in := range b.Instrs {
			lk, ok := in.(*ssa.Lookup)
			if !ok {
				continue
			}
			g := globalOf(lk.X)
			if g == nil {
				continue
			}
			if _, ok := g.Type().(*types.Pointer).Elem().Underlying().(*types.Map); !ok {
				continue
			}
			e, info := globalInit(c, g.Object())
			if e == nil {
				continue
			}
			ks, vs := mapLiteral(e, info)
			out := map[string]string{}
			for i := range ks {
				out[constStr(ks[i])] = constStr(vs[i])
			}
			if len(out) > 0 {
				return out, g
			}
		}
	}
	return nil, nil
}

func constStr(v constant.Value) string {
	switch v.Kind() {
	case constant.String:
		return constant.StringVal(v)
	case constant.Int:
		i, _ := constant.Int64Val(v)
		return fmt.Sprintf("%d", i)
	}
	return v.ExactString()
}

func c03char(c *core.Ctx, r *core.Reporter, m *readerModel) {
	const rule = "C03.char"
	r.Rule(rule, "every #\\Name the character printer emits is a name the reader maps to the same character; every other printable ASCII character, printed as #\\c, is accepted by the reader's tables (\"#\\c \" is consumed without an error action and ends between objects)", 90)
	appendFn := c.SSAFunc(c.LookupFunc("", "Character.Append"))
	pushFn := c.SSAFunc(c.LookupFunc("", "reader.pushChar"))
	special, _ := globalMap(c, appendFn, "rune")
	names, _ := globalMap(c, pushFn, "string")
	if special == nil || names == nil {
		r.Undecided(rule, "character name tables", "-", "the printer's special-character map or the reader's name map was not found by role")
		return
	}
	var ks []string
	for k := range special {
		ks = append(ks, k)
	}
	sort.Strings(ks)
	specialRunes := map[int]bool{}
	for _, k := range ks {
		printed := special[k] // e.g. #\Space
		var rn int
		fmt.Sscanf(k, "%d", &rn)
		specialRunes[rn] = true
		nm := strings.ToLower(strings.TrimPrefix(printed, `#\`))
		got, ok := names[nm]
		r.Decide(ok && got == k, rule, "name "+printed, c.Pos(appendFn.Pos()), fmt.Sprintf("printer emits %s for rune %s; reader maps %q to %q", printed, k, nm, got))
		okA, why := m.accepts(printed + " ")
		r.Decide(okA, rule, "tables accept "+printed, c.Pos(appendFn.Pos()), "reader tables consume the printed name: "+why)
	}
	for ch := 0x21; ch < 0x7f; ch++ {
		if specialRunes[ch] {
			continue
		}
		s := `#\` + string(rune(ch)) + " "
		okA, why := m.accepts(s)
		if okA {
			// the character itself must be consumed as part of the #\ token, not terminate an empty one
			if modes := m.after(`#\`); len(modes) == 1 {
				// consumed: the step is accepted and does not take the machine back between objects (the
				// terminating action re-dispatches the byte in the initial mode)
				n, ok := m.step(modes[0], byte(ch), 0)
				ends := false
				for _, t := range n {
					if t == m.initial {
						ends = true
					}
				}
				if !ok || len(n) == 0 || ends {
					okA, why = false, "byte "+quoteByte(byte(ch))+" terminates the empty #\\ token instead of being its character"
				}
			}
		}
		r.Decide(okA, rule, fmt.Sprintf("char %s", quoteByte(byte(ch))), c.Pos(appendFn.Pos()), fmt.Sprintf("printed as #\\%c: %s", ch, orOK(why)))
	}
	// control characters are printed as #\u00XX
	okA, why := m.accepts(`#\u001f `)
	r.Decide(okA, rule, "char control #\\u00XX", c.Pos(appendFn.Pos()), orOK(why))
}

func orOK(s string) string {
	if s == "" {
		return "accepted by the reader tables"
	}
	return s
}

// appendedStringConsts collects the constant strings (and byte constants)
// appended to a buffer in fn.
func appendedConsts(fn *ssa.Function) (strs []string, bytes []byte) {
	if fn == nil {
		return
	}
	seenS := map[string]bool{}
	seenB := map[byte]bool{}
	for _, b := range fn.Blocks {
		for _, in := range b.Instrs {
			call, ok := in.(*ssa.Call)
			if !ok {
				continue
			}
			bi, ok := call.Call.Value.(*ssa.Builtin)
			if !ok || bi.Name() != "append" || len(call.Call.Args) != 2 {
				continue
			}
			arg := call.Call.Args[1]
			if s, ok := core.StringConst(arg); ok {
				if !seenS[s] {
					seenS[s] = true
					strs = append(strs, s)
				}
				continue
			}
			// append(b, 'x'): varargs slice of a one-element array
			if sl, ok := arg.(*ssa.Slice); ok {
				if al, ok := sl.X.(*ssa.Alloc); ok {
					for _, rf := range *al.Referrers() {
						if ia, ok := rf.(*ssa.IndexAddr); ok {
							for _, r2 := range *ia.Referrers() {
								if st, ok := r2.(*ssa.Store); ok {
									if k, ok := st.Val.(*ssa.Const); ok && k.Value != nil {
										if v, ok := constant.Int64Val(k.Value); ok && v >= 0 && v < 256 && !seenB[byte(v)] {
											seenB[byte(v)] = true
											bytes = append(bytes, byte(v))
										}
									}
								}
							}
						}
					}
				}
			}
		}
	}
	sort.Strings(strs)
	return
}

func c03num(c *core.Ctx, r *core.Reporter, m *readerModel) {
	const rule = "C03.num"
	r.Rule(rule, "every radix prefix constant an integer or ratio printer emits (#b #o #x, #NNr, trailing dot) is consumed by the reader's sharp-dispatch tables, for a ratio together with the numerator/denominator text that follows it; every exponent marker a float printer substitutes selects a reader regex whose arm builds a float of the same type", 8)
	for _, tn := range []string{"Fixnum", "Bignum", "Ratio"} {
		fnObj := c.LookupFunc("", tn+".Readably")
		if fnObj == nil {
			r.Undecided(rule, tn+".Readably", "-", "anchor does not resolve")
			continue
		}
		fn := c.SSAFunc(fnObj)
		strs, bs := appendedConsts(fn)
		hasR, hasSharp := false, false
		for _, b := range bs {
			if b == 'r' || b == 'R' {
				hasR = true
			}
			if b == '#' {
				hasSharp = true
			}
		}
		n := 0
		for _, s := range strs {
			if !strings.HasPrefix(s, "#") {
				continue
			}
			n++
			samples := []string{s + "1 ", s + "-1 ", s + "1)"}
			if tn == "Ratio" {
				// the printer writes numerator, a separator byte and denominator after the prefix
				sep := byte('/')
				hasSep := false
				for _, b := range bs {
					if b == sep {
						hasSep = true
					}
				}
				if !hasSep {
					r.Undecided(rule, "Ratio.Readably|separator", c.Pos(fn.Pos()), "the ratio printer does not append '/' (shape changed)")
				}
				samples = []string{s + "1/2 ", s + "-1/10 ", s + "1/2)"}
			}
			for _, sample := range samples {
				okA, why := m.accepts(strings.TrimSuffix(sample, ")"))
				if strings.HasSuffix(sample, ")") {
					okA, why = m.accepts("(" + sample)
				}
				r.Decide(okA, rule, fmt.Sprintf("%s prefix %q sample %q", tn, s, sample), c.Pos(fn.Pos()), orOK(why))
			}
		}
		if hasR && hasSharp {
			rsamples := []string{"#3r12 ", "#36rz ", "#36r-z "}
			if tn == "Ratio" {
				rsamples = []string{"#3r1/2 ", "#36rz/10 "}
			}
			for _, sample := range rsamples {
				okA, why := m.accepts(sample)
				r.Decide(okA, rule, fmt.Sprintf("%s radix sample %q", tn, sample), c.Pos(fn.Pos()), orOK(why))
			}
			n++
		}
		if n == 0 {
			r.Undecided(rule, tn+".Readably|prefixes", c.Pos(fn.Pos()), "no radix prefix constants found in the integer printer (shape changed)")
		}
	}
	// exponent markers
	resolve := c.SSAFunc(c.LookupFunc("", "reader.resolveToken"))
	if resolve == nil {
		r.Undecided(rule, "reader.resolveToken", "-", "anchor does not resolve")
		return
	}
	type arm struct {
		pat   string
		rx    *regexp.Regexp
		types map[string]bool
		order int
	}
	var arms []*arm
	for _, b := range resolve.Blocks {
		for _, in := range b.Instrs {
			call, ok := in.(*ssa.Call)
			if !ok {
				continue
			}
			g := call.Call.StaticCallee()
			if g == nil || g.Name() != "Match" || g.Pkg == nil || g.Pkg.Pkg.Path() != "regexp" {
				continue
			}
			gl := globalOf(call.Call.Args[0])
			if gl == nil {
				continue
			}
			e, info := globalInit(c, gl.Object())
			pat := ""
			if ce, ok := e.(*ast.CallExpr); ok && len(ce.Args) == 1 {
				pat, _ = core.ConstString(info, ce.Args[0])
			}
			if pat == "" {
				continue
			}
			rx, err := regexp.Compile(pat)
			if err != nil {
				continue
			}
			a := &arm{pat: pat, rx: rx, types: map[string]bool{}, order: b.Index}
			// the arm: blocks dominated by the true successor of the branch that uses this call
			for _, rf := range *call.Referrers() {
				ifi, ok := rf.(*ssa.If)
				if !ok {
					continue
				}
				body := ifi.Block().Succs[0]
				for _, x := range resolve.Blocks {
					if !body.Dominates(x) {
						continue
					}
					for _, xi := range x.Instrs {
						if mi, ok := xi.(*ssa.MakeInterface); ok {
							a.types[types.TypeString(mi.X.Type(), func(p *types.Package) string { return "" })] = true
						}
					}
				}
			}
			arms = append(arms, a)
		}
	}
	sort.Slice(arms, func(i, j int) bool { return arms[i].order < arms[j].order })
	r.Count("reader.regex_arms", len(arms))
	for _, ft := range []struct{ typ, recv string }{{"SingleFloat", "SingleFloat"}, {"DoubleFloat", "DoubleFloat"}, {"*LongFloat", "LongFloat"}} {
		fnObj := c.LookupFunc("", ft.recv+".Readably")
		if fnObj == nil {
			r.Undecided(rule, ft.recv+".Readably", "-", "anchor does not resolve")
			continue
		}
		marks := replaceAllMarkers(c, fnObj)
		if len(marks) == 0 {
			r.Undecided(rule, ft.recv+".Readably|marker", c.Pos(fnObj.Pos()), "no exponent marker substitution (bytes.ReplaceAll with constant byte slices) found")
			continue
		}
		for _, mk := range marks {
			for _, sample := range []string{"1.5" + mk + "+00", "-1" + mk + "-05", "1.25" + mk + "+21"} {
				low := strings.ToLower(sample)
				var hit *arm
				for _, a := range arms {
					if a.rx.MatchString(low) {
						hit = a
						break
					}
				}
				okT := hit != nil && hit.types[ft.typ] && len(hit.types) == 1
				det := "no reader regex matches"
				if hit != nil {
					det = fmt.Sprintf("first matching reader regex %q builds %v", hit.pat, keys(hit.types))
				}
				// and the token must be lexable at all
				okA, why := m.accepts(sample + " ")
				r.Decide(okT && okA, rule, fmt.Sprintf("%s marker %q sample %q", ft.recv, mk, sample), c.Pos(fnObj.Pos()), det+"; tables: "+orOK(why))
			}
		}
	}
}

// replaceAllMarkers: the constant replacement given to bytes.ReplaceAll in fn.
func replaceAllMarkers(c *core.Ctx, fnObj *types.Func) []string {
	fd := c.Decls[fnObj]
	p := c.DeclPkg[fnObj]
	if fd == nil || p == nil {
		return nil
	}
	seen := map[string]bool{}
	var out []string
	ast.Inspect(fd.Body, func(n ast.Node) bool {
		ce, ok := n.(*ast.CallExpr)
		if !ok {
			return true
		}
		fn := core.Callee(p.TypesInfo, ce)
		if fn == nil || fn.Pkg() == nil || fn.Pkg().Path() != "bytes" || fn.Name() != "ReplaceAll" || len(ce.Args) != 3 {
			return true
		}
		if cl, ok := ce.Args[2].(*ast.CompositeLit); ok {
			s := ""
			for _, el := range cl.Elts {
				if v, ok := core.ConstInt(p.TypesInfo, el); ok {
					s += string(rune(v))
				}
			}
			if s != "" && !seen[s] {
				seen[s] = true
				out = append(out, s)
			}
		}
		return true
	})
	return out
}

// c03fname: a function call object prints as "(" + Function.Name + arguments + ")". That text reads back as
// the same call only if the name the creator gives the object is a name the function is registered under.
// For every registration whose creator builds the object with a constant Name and whose FuncDoc has a constant
// Name, the two are equal (ignoring case). The `function` special form was built with Name "name" (its
// parameter): (print (read-from-string "#'car")) printed (name car).
func c03fname(c *core.Ctx, r *core.Reporter) {
	const rule = "C03.fname"
	r.Rule(rule, "for every registration, the constant Name of the slip.Function object the creator builds equals the registered (documented) name: a call object prints under a name that reads back as the same function", 700)
	for _, b := range c.Registry() {
		if !b.CreatorNameSet || !b.DocLit || b.Name == "" {
			continue
		}
		ok := strings.EqualFold(b.CreatorName, b.Name)
		r.Decide(ok, rule, b.Key(), c.Pos(b.Pos), fmt.Sprintf("creator builds the call object with Name %q; registered as %q", b.CreatorName, b.Name))
	}
}

// comparedByteConsts: the byte constants that fn compares (== or !=) with a byte of a string: the exceptions a
// table-driven function codes by hand.
func comparedByteConsts(fn *ssa.Function) []byte {
	seen := map[byte]bool{}
	var out []byte
	for _, b := range fn.Blocks {
		for _, in := range b.Instrs {
			bo, ok := in.(*ssa.BinOp)
			if !ok || (bo.Op != token.EQL && bo.Op != token.NEQ) {
				continue
			}
			for _, pair := range [][2]ssa.Value{{bo.X, bo.Y}, {bo.Y, bo.X}} {
				k, ok := pair[1].(*ssa.Const)
				if !ok || k.Value == nil || k.Value.Kind() != constant.Int {
					continue
				}
				bt, ok := pair[0].Type().Underlying().(*types.Basic)
				if !ok || (bt.Kind() != types.Uint8 && bt.Kind() != types.Int32) {
					continue
				}
				v, _ := constant.Int64Val(k.Value)
				if v < 0 || v > 255 || seen[byte(v)] {
					continue
				}
				seen[byte(v)] = true
				out = append(out, byte(v))
			}
		}
	}
	sort.Slice(out, func(i, j int) bool { return out[i] < out[j] })
	return out
}

// firstOnlyGuard: the block that fn reaches when a byte equals k tests an integer against the constant 0 (the
// position of the byte in the name) before anything else: `if c == k && i == 0`.
func firstOnlyGuard(fn *ssa.Function, k byte) bool {
	for _, b := range fn.Blocks {
		ifi, ok := b.Instrs[len(b.Instrs)-1].(*ssa.If)
		if !ok {
			continue
		}
		bo, ok := ifi.Cond.(*ssa.BinOp)
		if !ok || bo.Op != token.EQL {
			continue
		}
		cst, ok := bo.Y.(*ssa.Const)
		if !ok || cst.Value == nil || cst.Value.Kind() != constant.Int {
			continue
		}
		if v, _ := constant.Int64Val(cst.Value); v != int64(k) {
			continue
		}
		if bt, ok := bo.X.Type().Underlying().(*types.Basic); !ok || bt.Kind() != types.Uint8 {
			continue
		}
		// true successor: its condition is `i == 0`
		t := b.Succs[0]
		if len(t.Instrs) == 0 {
			return false
		}
		ti, ok := t.Instrs[len(t.Instrs)-1].(*ssa.If)
		if !ok {
			return false
		}
		tb, ok := ti.Cond.(*ssa.BinOp)
		if !ok || tb.Op != token.EQL {
			return false
		}
		z, ok := tb.Y.(*ssa.Const)
		if !ok || z.Value == nil || z.Value.Kind() != constant.Int {
			return false
		}
		zv, _ := constant.Int64Val(z.Value)
		if bt, ok := tb.X.Type().Underlying().(*types.Basic); !ok || bt.Kind() != types.Int || zv != 0 {
			return false
		}
		return true
	}
	return false
}
