package rules

import (
	"fmt"
	"go/token"
	"go/types"
	"sort"
	"strings"

	"golang.org/x/tools/go/callgraph"
	"golang.org/x/tools/go/ssa"

	"slipcheck/core"
	"slipcheck/lenflow"
)

func init() {
	register(&Prop{
		ID:        "C07",
		Technique: "SSA path rules: result-must-be-tested (against *ReturnResult and *GoTo) on every loop that evaluates its own elements; tagbody engines found by shape and checked for tag test, whole-body search and hand-up of an unresolved go; scope-marked-as-tagbody implies engine; result-must-be-tested on engine calls; control dependence of marker unwrapping on a tag comparison; dominance of cleanup registration (defer) over the protected evaluation; re-panic shape of recover handlers",
		Explanation: "Exits (return-from, go) are result objects that every body-evaluating form must recognise and pass up. Decided statically: (C07.forward) for every loop in the module that evaluates its own element as a body form, the value is type-tested against *slip.ReturnResult with the success edge leaving the loop; " +
			"(C07.target) a marker is unwrapped only under a comparison of its tag with the form's own block name and is otherwise returned unchanged; (C07.cleanup) unwind-protect, with-mutex-lock and stream-opening with- forms register their cleanup with defer before the first body evaluation; (C07.class) recover handlers of the evaluator re-panic. " +
			"Necessary conditions: a form that fails C07.forward provably swallows an exit placed in its body. Exactly-once/innermost-first ordering across nested forms follows from Go's defer semantics only for forms that use defer and is not otherwise decided.",
		NotCovered: "ordering of cleanups as a trace property; exits through argument positions of ordinary calls other than Function.Eval's own argument loop",
		Trusted:    commonTrusted,
		Run:        runC07,
	})
}

func runC07(c *core.Ctx, r *core.Reporter) {
	c.BuildSSA()
	c07tag(c, r)
	c.BuildSSA()
	c07forward(c, r)
	c07target(c, r)
	c07cleanup(c, r)
	c07class(c, r)
}

// isEvalSite classifies a call as an evaluation of a Lisp form and returns the
// operand that designates the form (and for EvalArg the index operand).
func isEvalSite(call *ssa.Call) (form ssa.Value, list ssa.Value, idx ssa.Value, ok bool) {
	if call.Call.IsInvoke() {
		if call.Call.Method.Name() == "Eval" && core.IsNamed(call.Call.Value.Type(), core.SlipPath, "Object") {
			return call.Call.Value, nil, nil, true
		}
		return
	}
	g := call.Call.StaticCallee()
	if g == nil {
		return
	}
	switch {
	case core.IsSSAFunc(g, core.SlipPath, "", "EvalArg") && len(call.Call.Args) >= 3:
		return nil, call.Call.Args[1], call.Call.Args[2], true
	case core.IsSSAFunc(g, core.SlipPath, "Scope", "Eval") && len(call.Call.Args) >= 2:
		return call.Call.Args[1], nil, nil, true
	}
	return
}

// dependsOnLoopVar: v is computed from a phi of the loop header (the
// induction variable), possibly through arithmetic.
func dependsOnLoopVar(v ssa.Value, l *core.Loop, depth int) bool {
	if depth > 6 || v == nil {
		return false
	}
	switch x := v.(type) {
	case *ssa.Phi:
		if x.Block() == l.Header {
			return true
		}
		if l.Blocks[x.Block()] {
			for _, e := range x.Edges {
				if dependsOnLoopVar(e, l, depth+1) {
					return true
				}
			}
		}
	case *ssa.BinOp:
		return dependsOnLoopVar(x.X, l, depth+1) || dependsOnLoopVar(x.Y, l, depth+1)
	case *ssa.Convert:
		return dependsOnLoopVar(x.X, l, depth+1)
	case *ssa.UnOp:
		if al, ok := x.X.(*ssa.Alloc); ok {
			// a spilled induction variable (captured by a closure): stores inside the loop
			for _, rf := range *al.Referrers() {
				if st, ok := rf.(*ssa.Store); ok && st.Addr == al && l.Blocks[st.Block()] {
					return true
				}
			}
		}
	}
	return false
}

// isLoopElem: v is (derived from) an element of a list indexed by the loop variable.
func isLoopElem(v ssa.Value, l *core.Loop, depth int) bool {
	if depth > 6 || v == nil {
		return false
	}
	switch x := v.(type) {
	case *ssa.UnOp:
		if x.Op == token.MUL {
			if ia, ok := x.X.(*ssa.IndexAddr); ok {
				return dependsOnLoopVar(ia.Index, l, 0)
			}
			if al, ok := x.X.(*ssa.Alloc); ok {
				for _, rf := range *al.Referrers() {
					if st, ok := rf.(*ssa.Store); ok && st.Addr == al && l.Blocks[st.Block()] && isLoopElem(st.Val, l, depth+1) {
						return true
					}
				}
			}
		}
	case *ssa.Call:
		// ListToFunc(s, elem.(List), d) and friends: compiled form of the element
		if g := x.Call.StaticCallee(); g != nil && (g.Name() == "ListToFunc" || g.Name() == "CompileList") {
			for _, a := range x.Call.Args {
				if isLoopElem(a, l, depth+1) {
					return true
				}
			}
		}
	case *ssa.TypeAssert:
		return isLoopElem(x.X, l, depth+1)
	case *ssa.Extract:
		return isLoopElem(x.Tuple, l, depth+1)
	case *ssa.MakeInterface:
		return isLoopElem(x.X, l, depth+1)
	case *ssa.ChangeInterface:
		return isLoopElem(x.X, l, depth+1)
	case *ssa.Phi:
		if l.Blocks[x.Block()] && x.Block() != l.Header {
			for _, e := range x.Edges {
				if isLoopElem(e, l, depth+1) {
					return true
				}
			}
		}
	}
	return false
}

// valueAliases: v plus loads of a local it is stored into (named results are
// allocs in functions with defer).
func valueAliases(v ssa.Value, l *core.Loop) []ssa.Value {
	out := []ssa.Value{v}
	if refs := v.Referrers(); refs != nil {
		for _, rf := range *refs {
			switch x := rf.(type) {
			case *ssa.Store:
				if al, ok := x.Addr.(*ssa.Alloc); ok && x.Val == v {
					for _, ar := range *al.Referrers() {
						if u, ok := ar.(*ssa.UnOp); ok && (l == nil || l.Blocks[u.Block()]) {
							out = append(out, u)
						}
					}
				}
			case *ssa.Phi:
				if l != nil && l.Blocks[x.Block()] && x.Block() != l.Header {
					out = append(out, x)
				}
			}
		}
	}
	return out
}

// assertedTo finds type tests of v against a pointer to the named type and
// returns the blocks entered on success.
func assertedTo(v ssa.Value, pkg, name string) []*ssa.BasicBlock {
	var out []*ssa.BasicBlock
	refs := v.Referrers()
	if refs == nil {
		return nil
	}
	for _, rf := range *refs {
		ta, ok := rf.(*ssa.TypeAssert)
		if !ok || !core.IsNamed(ta.AssertedType, pkg, name) {
			continue
		}
		if _, isPtr := ta.AssertedType.(*types.Pointer); !isPtr {
			continue
		}
		if !ta.CommaOk {
			// unconditional assertion: only reached when the type is known; not a test
			continue
		}
		for _, er := range *ta.Referrers() {
			ex, ok := er.(*ssa.Extract)
			if !ok {
				continue
			}
			for _, ir := range *ex.Referrers() {
				switch y := ir.(type) {
				case *ssa.If:
					if ex.Index == 1 {
						out = append(out, y.Block().Succs[0])
					}
				case *ssa.BinOp:
					// rr != nil / rr == nil on the extracted pointer
					if ex.Index == 0 && (y.Op == token.NEQ || y.Op == token.EQL) {
						for _, br := range *y.Referrers() {
							if ifi, ok := br.(*ssa.If); ok {
								if y.Op == token.NEQ {
									out = append(out, ifi.Block().Succs[0])
								} else {
									out = append(out, ifi.Block().Succs[1])
								}
							}
						}
					}
				}
			}
		}
	}
	return out
}

// forwardExempt: functions that drive evaluation from the top level, where no
// block can enclose the forms (return-from raises before a marker exists).
var forwardExempt = map[string]string{
	"cmd/slip.run":                  "evaluates the files/expressions given on the command line in the top-level scope",
	"pkg/repl.process":              "the REPL's top-level read-eval-print step",
	"slip.(AppArg).SetFlag$1":       "evaluates a command-line flag value in the application's top-level scope",
	"pkg/test.(testRunCaller).Call": "test forms run in the test instance's own scope, which has no enclosing block",
}

var usedForwardExempt = map[string]bool{}

// goForwardExempt: loops that need not hand a go up, one reason each.
var goForwardExempt = map[string]string{}

// nonNilSuccs: blocks entered when v != nil.
func nonNilSuccs(v ssa.Value) []*ssa.BasicBlock {
	var out []*ssa.BasicBlock
	refs := v.Referrers()
	if refs == nil {
		return nil
	}
	for _, rf := range *refs {
		bo, ok := rf.(*ssa.BinOp)
		if !ok || (bo.Op != token.NEQ && bo.Op != token.EQL) {
			continue
		}
		other := bo.Y
		if other == v {
			other = bo.X
		}
		k, ok := other.(*ssa.Const)
		if !ok || !k.IsNil() {
			continue
		}
		for _, br := range *bo.Referrers() {
			if ifi, ok := br.(*ssa.If); ok {
				if bo.Op == token.NEQ {
					out = append(out, ifi.Block().Succs[0])
				} else {
					out = append(out, ifi.Block().Succs[1])
				}
			}
		}
	}
	return out
}

// leavesLoop: from block b the loop header cannot be reached again without leaving the loop.
func leavesLoop(b *ssa.BasicBlock, l *core.Loop) bool {
	if !l.Blocks[b] {
		return true
	}
	seen := map[*ssa.BasicBlock]bool{}
	stack := []*ssa.BasicBlock{b}
	for len(stack) > 0 {
		x := stack[len(stack)-1]
		stack = stack[:len(stack)-1]
		if seen[x] || !l.Blocks[x] {
			continue
		}
		if x == l.Header {
			return false
		}
		seen[x] = true
		stack = append(stack, x.Succs...)
	}
	return true
}

type evalLoopSite struct {
	fn     *ssa.Function
	loop   *core.Loop
	call   *ssa.Call
	kind   string // body | argument
	tested bool
	goTo   bool
}

func isDeferredClosure(fn *ssa.Function) bool {
	p := fn.Parent()
	if p == nil {
		return false
	}
	for _, b := range p.Blocks {
		for _, in := range b.Instrs {
			if d, ok := in.(*ssa.Defer); ok {
				if mc, ok := d.Call.Value.(*ssa.MakeClosure); ok && mc.Fn == ssa.Value(fn) {
					return true
				}
			}
		}
	}
	return false
}

// reachableFromCall: functions reachable in the call graph from any method
// with the signature of slip.Caller.Call / Object.Eval in the module.
func reachableFromCall(c *core.Ctx) map[*ssa.Function]bool {
	cg := c.CallGraph()
	reach := map[*ssa.Function]bool{}
	var stack []*callgraph.Node
	for fn, n := range cg.Nodes {
		if fn == nil || fn.Signature.Recv() == nil || fn.Pkg == nil || !core.InModule(fn.Pkg.Pkg) {
			continue
		}
		if fn.Name() == "Call" || fn.Name() == "BoundCall" || fn.Name() == "Place" {
			stack = append(stack, n)
		}
	}
	for len(stack) > 0 {
		n := stack[len(stack)-1]
		stack = stack[:len(stack)-1]
		if reach[n.Func] {
			continue
		}
		reach[n.Func] = true
		for _, e := range n.Out {
			if !reach[e.Callee.Func] {
				stack = append(stack, e.Callee)
			}
		}
	}
	// closures belong to their parents
	for _, fn := range c.ModuleFuncs() {
		if p := fn.Parent(); p != nil && reach[p] {
			reach[fn] = true
		}
	}
	return reach
}

func c07forward(c *core.Ctx, r *core.Reporter) {
	const rule = "C07.forward"
	r.Rule(rule, "every loop that evaluates its own element as a body form (the value is not stored per index) type-tests the value against *slip.ReturnResult on the path to the next iteration, and the success edge leaves the loop; "+
		"the argument loop of (*Function).Eval is held to the same rule; loops inside deferred closures (cleanup forms run to completion) and in functions not reachable from any Call method (top-level drivers) are exempt", 35)
	const goRule = "C07.goforward"
	r.Rule(goRule, "every loop C07.forward judges also type-tests the value against *slip.GoTo (the object go evaluates to) with a success edge from which the loop can be left: a go in a body form leaves every form between it and the tagbody that has the tag", 30)
	reach := reachableFromCall(c)
	var nLoops, nArg, nExemptDefer, nExemptTop int
	for _, fn := range c.ModuleFuncs() {
		loops := core.Loops(fn)
		if len(loops) == 0 {
			continue
		}
		for _, b := range fn.Blocks {
			l := core.InnermostLoop(loops, b)
			if l == nil {
				continue
			}
			for _, in := range b.Instrs {
				call, ok := in.(*ssa.Call)
				if !ok {
					continue
				}
				form, _, idx, ok := isEvalSite(call)
				if !ok {
					continue
				}
				// which loop's element? the innermost enclosing loop whose variable selects the form
				var el *core.Loop
				for x := l; x != nil; x = x.Parent {
					if (idx != nil && dependsOnLoopVar(idx, x, 0)) || (form != nil && isLoopElem(form, x, 0)) {
						el = x
						break
					}
				}
				if el == nil {
					continue
				}
				nLoops++
				if isDeferredClosure(fn) {
					nExemptDefer++
					continue
				}
				if !reach[fn] {
					nExemptTop++
					continue
				}
				// argument loop: the value is stored per index or appended
				argLoop := false
				for _, a := range valueAliases(call, el) {
					if refs := a.Referrers(); refs != nil {
						for _, rf := range *refs {
							switch y := rf.(type) {
							case *ssa.Store:
								if _, ok := y.Addr.(*ssa.IndexAddr); ok && y.Val == a {
									argLoop = true
								}
							case *ssa.Call:
								if bi, ok := y.Call.Value.(*ssa.Builtin); ok && bi.Name() == "append" {
									argLoop = true
								}
							case *ssa.MakeInterface, *ssa.Slice:
							}
						}
					}
				}
				isFunEval := core.IsSSAFunc(fn, core.SlipPath, "Function", "Eval")
				if argLoop && !isFunEval {
					nArg++
					continue
				}
				tested, recognised := false, false
				for _, a := range valueAliases(call, el) {
					for _, succ := range assertedTo(a, core.SlipPath, "ReturnResult") {
						recognised = true
						if leavesLoop(succ, el) {
							tested = true
						}
					}
					// accepted idiom: leave the loop on any non-nil value (a marker is never nil): (or ...)
					for _, succ := range nonNilSuccs(a) {
						if leavesLoop(succ, el) {
							tested = true
						}
					}
				}
				key := core.SSAName(fn) + "|loop evaluating its element"
				if why, ok := forwardExempt[core.SSAName(fn)]; ok {
					r.Hold(rule, key, c.Pos(call.Pos()), "exempt top-level driver: "+why)
					usedForwardExempt[core.SSAName(fn)] = true
					continue
				}
				kind := "body loop"
				if argLoop {
					kind = "argument loop of Function.Eval"
				}
				detail := fmt.Sprintf("%s: result tested against *slip.ReturnResult with the success edge leaving the loop: %v", kind, tested)
				if recognised && !tested {
					detail = kind + ": the marker is recognised but on some path the loop continues with the next form (a marker for an outer block is dropped unless a special case applies)"
				}
				r.Decide(tested, rule, key, c.Pos(call.Pos()), detail)
				// the same loop and a go
				goTested := false
				for _, a := range valueAliases(call, el) {
					for _, succ := range assertedTo(a, core.SlipPath, "GoTo") {
						if canLeaveLoop(succ, el) {
							goTested = true
						}
					}
					for _, succ := range nonNilSuccs(a) {
						if leavesLoop(succ, el) {
							goTested = true
						}
					}
				}
				if why, ok := goForwardExempt[core.SSAName(fn)]; ok {
					r.Hold(goRule, key, c.Pos(call.Pos()), "exception by reading: "+why)
				} else {
					r.Decide(goTested, goRule, key, c.Pos(call.Pos()), fmt.Sprintf("%s: result tested against *slip.GoTo with a success edge from which the loop can be left: %v", kind, goTested))
				}
			}
		}
	}
	r.Count("forward.loops_evaluating_own_element", nLoops)
	r.Count("forward.argument_loops_not_judged", nArg)
	r.Count("forward.exempt_deferred_cleanup", nExemptDefer)
	r.Count("forward.exempt_not_reachable_from_Call", nExemptTop)
}

// c07target: unwrapping rr.Result must be control-dependent on a comparison of rr.Tag.
func c07target(c *core.Ctx, r *core.Reporter) {
	const rule = "C07.target"
	r.Rule(rule, "every read of ReturnResult.Result (consuming the marker) happens only under a comparison of ReturnResult.Tag on every path (the marker belongs to this block); a form that recognises a marker and neither matches its tag nor returns the marker drops or misdelivers the exit", 5)
	an := lenflow.New(c)
	for _, fn := range c.ModuleFuncs() {
		var g *core.Guards
		for _, b := range fn.Blocks {
			for _, in := range b.Instrs {
				u, ok := in.(*ssa.UnOp)
				if !ok || u.Op != token.MUL {
					continue
				}
				fa, ok := u.X.(*ssa.FieldAddr)
				if !ok || !isFieldOf(fa, core.SlipPath, "ReturnResult", "Result") {
					continue
				}
				// methods of ReturnResult itself (printing, Simplify) are not consumers
				if fn.Signature.Recv() != nil && core.IsNamed(fn.Signature.Recv().Type(), core.SlipPath, "ReturnResult") {
					continue
				}
				if g == nil {
					g = core.ComputeGuards(fn, an.NoReturn)
				}
				ok2 := false
				for f := range g.Facts(b) {
					if condReadsField(f.If.Cond, "ReturnResult", "Tag", 0) {
						ok2 = true
					}
				}
				r.Decide(ok2, rule, core.SSAName(fn)+"|rr.Result", c.Pos(u.Pos()), fmt.Sprintf("unwrap is guarded by a comparison of the marker's tag on every path: %v", ok2))
			}
		}
	}
}

func condReadsField(v ssa.Value, typ, field string, depth int) bool {
	if depth > 4 || v == nil {
		return false
	}
	switch x := v.(type) {
	case *ssa.BinOp:
		return condReadsField(x.X, typ, field, depth+1) || condReadsField(x.Y, typ, field, depth+1)
	case *ssa.UnOp:
		if x.Op == token.NOT {
			return condReadsField(x.X, typ, field, depth+1)
		}
		return loadsField(x, core.SlipPath, typ, field)
	case *ssa.Call:
		for _, a := range x.Call.Args {
			if condReadsField(a, typ, field, depth+1) {
				return true
			}
		}
	case *ssa.MakeInterface:
		return condReadsField(x.X, typ, field, depth+1)
	case *ssa.ChangeInterface:
		return condReadsField(x.X, typ, field, depth+1)
	}
	return false
}

// c07cleanup: acquire-then-evaluate forms must defer the release before the first evaluation.
func c07cleanup(c *core.Ctx, r *core.Reporter) {
	const rule = "C07.cleanup"
	r.Rule(rule, "unwind-protect evaluates its cleanup forms from a deferred closure registered before the protected form is evaluated; every built-in whose Call both acquires a resource (Lock, or opens a file/stream) and evaluates body forms defers the release before the first body evaluation", 3)
	type form struct {
		name string
		rel  string
	}
	for _, b := range c.Registry() {
		if b.Call == nil || b.Name == "" {
			continue
		}
		fn := c.SSAFunc(b.Call)
		if fn == nil || fn.Blocks == nil {
			continue
		}
		name := strings.ToLower(b.Name)
		// evaluation sites in Call itself (not in closures)
		var evals []*ssa.Call
		var defers []*ssa.Defer
		var acquires []ssa.Instruction
		for _, bb := range fn.Blocks {
			for _, in := range bb.Instrs {
				switch x := in.(type) {
				case *ssa.Call:
					if _, _, _, ok := isEvalSite(x); ok {
						evals = append(evals, x)
					}
					if isAcquire(x) {
						acquires = append(acquires, x)
					}
				case *ssa.Defer:
					defers = append(defers, x)
				}
			}
		}
		if name == "unwind-protect" {
			// the deferred closure must evaluate forms, and dominate every evaluation in Call
			var cleanup *ssa.Defer
			for _, d := range defers {
				if mc, ok := d.Call.Value.(*ssa.MakeClosure); ok {
					cf := mc.Fn.(*ssa.Function)
					for _, cb := range cf.Blocks {
						for _, cin := range cb.Instrs {
							if cc, ok := cin.(*ssa.Call); ok {
								if _, _, _, ok := isEvalSite(cc); ok {
									cleanup = d
								}
							}
						}
					}
				}
			}
			okAll := cleanup != nil && len(evals) > 0
			for _, e := range evals {
				if cleanup == nil || !instrDominates(cleanup, e) {
					okAll = false
				}
			}
			r.Decide(okAll, rule, b.Key()+"|cleanup deferred before protected form", c.Pos(fn.Pos()),
				fmt.Sprintf("a deferred closure evaluating the cleanup forms is registered before every evaluation in Call: %v (%d evaluation sites, %d defers)", okAll, len(evals), len(defers)))
			// inline evaluation of cleanup forms outside the deferred closure runs them a second time on the normal path
			continue
		}
		if len(acquires) == 0 || len(evals) == 0 {
			continue
		}
		for _, a := range acquires {
			// a deferred release after the acquire and before the first evaluation that the acquire dominates
			released := false
			for _, d := range defers {
				if !isReleaseDefer(d) {
					continue
				}
				if instrDominates(d, a) {
					// registered before the acquire on every path that takes it (defer ...; Lock())
					released = true
					continue
				}
				if instrDominates(a, d) {
					okBeforeAll := true
					for _, e := range evals {
						if instrDominates(a, e) && !instrDominates(d, e) {
							okBeforeAll = false
						}
					}
					if okBeforeAll {
						released = true
					}
				}
			}
			// the acquire protects body forms if an evaluation can follow it (the acquire may sit in a branch)
			protects := false
			after := core.ReachableBlocks(a.Block(), nil)
			for _, e := range evals {
				if instrDominates(a, e) || (after[e.Block()] && e.Block() != a.Block()) {
					protects = true
				}
			}
			if !protects {
				continue
			}
			r.Decide(released, rule, b.Key()+"|"+acquireName(a)+" released by defer before body", c.Pos(a.Pos()),
				fmt.Sprintf("release deferred between the acquire and the first body evaluation: %v", released))
		}
	}
}

func isAcquire(call *ssa.Call) bool {
	if call.Call.IsInvoke() {
		return call.Call.Method.Name() == "Lock"
	}
	g := call.Call.StaticCallee()
	if g == nil {
		return false
	}
	if g.Name() == "Lock" && g.Signature.Recv() != nil {
		return true
	}
	if g.Pkg != nil && g.Pkg.Pkg.Path() == "os" && (g.Name() == "Open" || g.Name() == "OpenFile" || g.Name() == "Create") {
		return true
	}
	if g.Name() == "openFile" {
		return true
	}
	return false
}

func acquireName(in ssa.Instruction) string {
	if call, ok := in.(*ssa.Call); ok {
		if call.Call.IsInvoke() {
			return call.Call.Method.Name()
		}
		if g := call.Call.StaticCallee(); g != nil {
			return g.Name()
		}
	}
	return "acquire"
}

func isReleaseDefer(d *ssa.Defer) bool {
	if d.Call.IsInvoke() {
		n := d.Call.Method.Name()
		return n == "Unlock" || n == "Close"
	}
	if g := d.Call.StaticCallee(); g != nil && (g.Name() == "Unlock" || g.Name() == "Close") {
		return true
	}
	if mc, ok := d.Call.Value.(*ssa.MakeClosure); ok {
		cf := mc.Fn.(*ssa.Function)
		for _, b := range cf.Blocks {
			for _, in := range b.Instrs {
				if cc, ok := in.(*ssa.Call); ok {
					n := ""
					if cc.Call.IsInvoke() {
						n = cc.Call.Method.Name()
					} else if g := cc.Call.StaticCallee(); g != nil {
						n = g.Name()
					}
					if (n == "Unlock" || n == "Close") && !underRecoverTest(cf, b) {
						return true
					}
				}
			}
		}
	}
	return false
}

// underRecoverTest: the block is reached only through the non-nil outcome of a test of recover()'s result: a
// release there runs when the body panicked and not when it returned (an exit marker handed up is a return).
func underRecoverTest(fn *ssa.Function, b *ssa.BasicBlock) bool {
	fromRecover := func(v ssa.Value) bool {
		for i := 0; i < 4; i++ {
			switch x := v.(type) {
			case *ssa.Call:
				bi, ok := x.Call.Value.(*ssa.Builtin)
				return ok && bi.Name() == "recover"
			case *ssa.ChangeInterface:
				v = x.X
			case *ssa.MakeInterface:
				v = x.X
			default:
				return false
			}
		}
		return false
	}
	return core.Separates(fn, b, nil, func(ifi *ssa.If, br bool) bool {
		bo, ok := ifi.Cond.(*ssa.BinOp)
		if !ok || (bo.Op != token.NEQ && bo.Op != token.EQL) {
			return false
		}
		if !(fromRecover(bo.X) || fromRecover(bo.Y)) {
			return false
		}
		return (bo.Op == token.NEQ) == br
	})
}

// instrDominates: a executes before b on every path reaching b.
func instrDominates(a, b ssa.Instruction) bool {
	if a.Parent() != b.Parent() {
		return false
	}
	if a.Block() == b.Block() {
		for _, x := range a.Block().Instrs {
			if x == a {
				return true
			}
			if x == b {
				return false
			}
		}
		return false
	}
	return a.Block().Dominates(b.Block())
}

// c07class: recover handlers on the evaluation path must re-panic.
func c07class(c *core.Ctx, r *core.Reporter) {
	const rule = "C07.class"
	r.Rule(rule, "the evaluator's own recover handlers (functions of package slip that call recover and are deferred by Function.Eval or installed as its after-hook) re-panic on every path after a non-nil recover: an unhandled condition is never swallowed or downgraded at a function boundary", 1)
	n := 0
	for _, fn := range c.ModuleFuncs() {
		if fn.Pkg == nil || fn.Pkg.Pkg.Path() != core.SlipPath {
			continue
		}
		var rec *ssa.Call
		for _, b := range fn.Blocks {
			for _, in := range b.Instrs {
				if call, ok := in.(*ssa.Call); ok {
					if bi, ok := call.Call.Value.(*ssa.Builtin); ok && bi.Name() == "recover" {
						rec = call
					}
				}
			}
		}
		if rec == nil || !strings.Contains(strings.ToLower(fn.Name()), "after") {
			continue
		}
		n++
		// every Return reachable from the recover call must be on the rec == nil side: approximate by requiring that
		// each block that is reachable after a `rec != nil` true edge ends in panic
		swallow := false
		var nonNilSucc []*ssa.BasicBlock
		for _, rf := range *rec.Referrers() {
			if bo, ok := rf.(*ssa.BinOp); ok && (bo.Op == token.NEQ || bo.Op == token.EQL) {
				for _, br := range *bo.Referrers() {
					if ifi, ok := br.(*ssa.If); ok {
						if bo.Op == token.NEQ {
							nonNilSucc = append(nonNilSucc, ifi.Block().Succs[0])
						} else {
							nonNilSucc = append(nonNilSucc, ifi.Block().Succs[1])
						}
					}
				}
			}
		}
		for _, s := range nonNilSucc {
			for b := range core.ReachableBlocks(s, nil) {
				// s is entered only with a non-nil recovered value, so any return reachable from it swallows the condition
				if _, ok := b.Instrs[len(b.Instrs)-1].(*ssa.Return); ok {
					swallow = true
				}
			}
		}
		if len(nonNilSucc) == 0 {
			r.Undecided(rule, core.SSAName(fn), c.Pos(fn.Pos()), "recover result is not tested against nil in a recognised way")
			continue
		}
		r.Decide(!swallow, rule, core.SSAName(fn), c.Pos(fn.Pos()), fmt.Sprintf("a path from a non-nil recover() reaches a normal return: %v", swallow))
	}
	_ = sort.Strings
	r.Count("class.recover_handlers", n)
}

func isElementLoad(v ssa.Value) bool {
	u, ok := v.(*ssa.UnOp)
	if !ok {
		return false
	}
	_, ok = u.X.(*ssa.IndexAddr)
	return ok
}
