package rules

import (
	"fmt"
	"go/token"
	"sort"

	"golang.org/x/tools/go/ssa"

	"slipcheck/core"
)

// c11walk: the position of a running wrapper (whopper / :around method) in the combination list is a
// WhopLoc. call-next-method, next-method-p and continue-whopper all consult it, possibly several times from
// one wrapper body, and wrappers nest. Two structural conditions make "every remaining wrapper runs, in
// order" independent of how often the location is consulted:
//
//	(a) no method of WhopLoc assigns a field of its receiver (a query or a continuation that advances the
//	    shared location makes the next continuation skip a wrapper: before 454f2d0 HasNext did, so with two
//	    :around methods the second never ran);
//	(b) wherever a WhopLoc is created next to the call of a combination's Wrap, its Current field holds the
//	    very index that combination was read with (Current+1 there made every second whopper be skipped).
func c11walk(c *core.Ctx, r *core.Reporter, rule string) {
	r.Rule(rule, "a wrapper location is immutable and names the wrapper it belongs to: no method of WhopLoc stores into its receiver, and every WhopLoc built where a combination's Wrap is invoked carries the index that combination was read with", 8)
	wt := c.LookupType("", "WhopLoc")
	if wt == nil {
		r.Undecided(rule, "slip.WhopLoc", "-", "type does not resolve")
		return
	}
	var fns []*ssa.Function
	for _, fn := range c.ModuleFuncs() {
		fns = append(fns, fn)
	}
	sort.SliceStable(fns, func(i, j int) bool { return core.SSAName(fns[i]) < core.SSAName(fns[j]) })
	for _, fn := range fns {
		if fn.Parent() != nil || fn.Signature.Recv() == nil || !core.IsNamed(fn.Signature.Recv().Type(), core.SlipPath, "WhopLoc") {
			continue
		}
		recv := fn.Params[0]
		var bad ssa.Instruction
		for _, b := range fn.Blocks {
			for _, in := range b.Instrs {
				if st, ok := in.(*ssa.Store); ok {
					if fa, ok := st.Addr.(*ssa.FieldAddr); ok && fa.X == ssa.Value(recv) {
						bad = st
					}
				}
			}
		}
		pos := fn.Pos()
		if bad != nil {
			pos = bad.Pos()
		}
		r.Decide(bad == nil, rule, core.SSAName(fn)+"|receiver not assigned", c.Pos(pos), fmt.Sprintf("no field of the location is assigned by this method: %v", bad == nil))
	}
	// (b) creation sites
	for _, fn := range fns {
		var allocs []*ssa.Alloc
		for _, b := range fn.Blocks {
			for _, in := range b.Instrs {
				if al, ok := in.(*ssa.Alloc); ok && core.IsNamed(al.Type(), core.SlipPath, "WhopLoc") {
					allocs = append(allocs, al)
				}
			}
		}
		if len(allocs) == 0 {
			continue
		}
		// indexes with which a Combinations element whose Wrap is read were loaded
		wrapIdx := map[ssa.Value]bool{}
		for _, b := range fn.Blocks {
			for _, in := range b.Instrs {
				fa, ok := in.(*ssa.FieldAddr)
				if !ok || fieldName(fa) != "Wrap" {
					continue
				}
				// fa.X = load of IndexAddr(Combinations, idx)
				if u, ok := fa.X.(*ssa.UnOp); ok && u.Op == token.MUL {
					if ia, ok := u.X.(*ssa.IndexAddr); ok {
						wrapIdx[ia.Index] = true
					}
				}
			}
		}
		if len(wrapIdx) == 0 {
			continue
		}
		for n, al := range allocs {
			var cur ssa.Value
			for _, ref := range *al.Referrers() {
				if fa, ok := ref.(*ssa.FieldAddr); ok && fieldName(fa) == "Current" {
					for _, r2 := range *fa.Referrers() {
						if st, ok := r2.(*ssa.Store); ok && st.Addr == ssa.Value(fa) {
							cur = st.Val
						}
					}
				}
			}
			ok := cur != nil && wrapIdx[cur]
			r.Decide(ok, rule, fmt.Sprintf("%s|location #%d names its wrapper", core.SSAName(fn), n+1), c.Pos(al.Pos()), fmt.Sprintf("Current is the index the invoked combination was read with: %v", ok))
		}
	}
}

// c11insertpos: a daemon defined after the flavors that inherit it is inserted into each inheritor's
// combination list. "Precedence is the flavor itself followed by its components depth-first" whatever the
// order of definition, so the insertion position must be found by walking the inheritor's precedence list
// up to the defining flavor: the loop that advances the position ends when the element of
// class.InheritsList() IS the defining class. Before abba55f it ended when the combination at the position
// came from the defining class, which never happens for a new combination, and the position ran to the end.
func c11insertpos(c *core.Ctx, r *core.Reporter) {
	const rule = "C11.insertpos"
	r.Rule(rule, "every function that inserts a combination into an inheritor's list at a computed position (a Combinations store built from X[:pos], the combination, X[pos:]) bounds the position search by the place of the defining class in the inheritor's precedence list: an element of InheritsList() is compared with the defining class parameter", 1)
	for _, fn := range c.ModuleFuncs() {
		if fn.Parent() != nil {
			continue
		}
		// does it splice Combinations at a variable position?
		// X[:pos] and X[pos:] of a Combinations list with the same non-constant pos: an insertion at pos
		// (a removal uses X[:i] and X[i+1:])
		splices := false
		highs, lows := map[ssa.Value]bool{}, map[ssa.Value]bool{}
		for _, b := range fn.Blocks {
			for _, in := range b.Instrs {
				sl, ok := in.(*ssa.Slice)
				if !ok {
					continue
				}
				u, ok := sl.X.(*ssa.UnOp)
				if !ok {
					continue
				}
				if fa, ok := u.X.(*ssa.FieldAddr); !ok || fieldName(fa) != "Combinations" {
					continue
				}
				if sl.High != nil && sl.Low == nil {
					if _, isC := sl.High.(*ssa.Const); !isC {
						highs[sl.High] = true
					}
				}
				if sl.Low != nil && sl.High == nil {
					if _, isC := sl.Low.(*ssa.Const); !isC {
						lows[sl.Low] = true
					}
				}
			}
		}
		for v := range highs {
			if lows[v] {
				splices = true
			}
		}
		if !splices {
			continue
		}
		// class parameters
		params := map[ssa.Value]bool{}
		for _, p := range fn.Params {
			if core.IsNamed(p.Type(), core.SlipPath, "Class") {
				params[p] = true
			}
		}
		fromInheritsList := func(v ssa.Value) bool {
			u, ok := v.(*ssa.UnOp)
			if !ok {
				return false
			}
			ia, ok := u.X.(*ssa.IndexAddr)
			if !ok {
				return false
			}
			call, ok := ia.X.(*ssa.Call)
			if !ok {
				return false
			}
			name := ""
			if call.Call.IsInvoke() {
				name = call.Call.Method.Name()
			} else if cal := call.Call.StaticCallee(); cal != nil {
				name = cal.Name()
			}
			return name == "InheritsList"
		}
		found := false
		for _, b := range fn.Blocks {
			for _, in := range b.Instrs {
				bo, ok := in.(*ssa.BinOp)
				if !ok || (bo.Op != token.EQL && bo.Op != token.NEQ) {
					continue
				}
				if (fromInheritsList(bo.X) && params[bo.Y]) || (fromInheritsList(bo.Y) && params[bo.X]) {
					// the comparison decides a branch
					if _, ok := b.Instrs[len(b.Instrs)-1].(*ssa.If); ok {
						found = true
					}
				}
			}
		}
		r.Decide(found, rule, core.SSAName(fn), c.Pos(fn.Pos()), fmt.Sprintf("the position search compares an element of the inheritor's precedence list with the defining class: %v", found))
	}
}
