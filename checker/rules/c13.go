package rules

import (
	"fmt"
	"go/token"
	"go/types"
	"strings"

	"golang.org/x/tools/go/ssa"

	"slipcheck/core"
	"slipcheck/lenflow"
)

func init() {
	register(&Prop{
		ID:        "C13",
		Technique: "SSA must-guard (control-dependence) analysis of every cross-package store/delete on the denormalised package tables; wholesale-reset detection; sibling comparison of define/undefine; export test on qualified lookups",
		Explanation: "Each package keeps copies of the entries it can see (its own and the exported ones of used packages), so visibility is exactly as coherent as the copying code. Decided statically for every map operation on Package.vars/funcs/classes: " +
			"(C13.push) a store of an entry into another package's table, or of another package's entry into one's own, is control-dependent on the entry being exported and on the slot being empty or already owned by the pushing package; " +
			"(C13.own) a table is never reset wholesale outside nil-guarded construction; (C13.retract) deletions from a user's table are control-dependent on the entry being owned by the retracting package, and every operation that deletes an own function or variable also retracts it from users; " +
			"(C13.resolve) functions that resolve a package-qualified name test the export flag (or the :: marker). A site failing C13.push/own provably loses an own definition or exposes a private one for some history; the closure over arbitrary histories is not decided.",
		NotCovered: "the resulting visibility relation over arbitrary histories; classes are checked only for pushes, not for retraction",
		Trusted:    commonTrusted,
		Run:        runC13,
	})
}

var pkgTables = map[string]bool{"vars": true, "funcs": true} // the property speaks of variables and functions; classes have no export flag

// tableOf: v is a load of a table field of a Package; returns the owner path and field.
func tableOf(v ssa.Value) (owner ssa.Value, field string, ok bool) {
	u, isU := v.(*ssa.UnOp)
	if !isU || u.Op != token.MUL {
		return nil, "", false
	}
	fa, isF := u.X.(*ssa.FieldAddr)
	if !isF {
		return nil, "", false
	}
	f := fieldName(fa)
	if !pkgTables[f] || !isFieldOf(fa, core.SlipPath, "Package", f) {
		return nil, "", false
	}
	return fa.X, f, true
}

// entrySource: where a stored entry came from: the owner of the table it was
// read from (range or lookup), or nil for a value created in this function.
func entrySource(v ssa.Value, depth int) (owner ssa.Value, field string) {
	if depth > 8 || v == nil {
		return nil, ""
	}
	switch x := v.(type) {
	case *ssa.Extract:
		return entrySource(x.Tuple, depth+1)
	case *ssa.Next:
		if rg, ok := x.Iter.(*ssa.Range); ok {
			if o, f, ok := tableOf(rg.X); ok {
				return o, f
			}
		}
	case *ssa.Lookup:
		if o, f, ok := tableOf(x.X); ok {
			return o, f
		}
	case *ssa.Phi:
		for _, e := range x.Edges {
			if o, f := entrySource(e, depth+1); o != nil {
				return o, f
			}
		}
	case *ssa.UnOp:
		if al, ok := x.X.(*ssa.Alloc); ok {
			for _, rf := range *al.Referrers() {
				if st, ok := rf.(*ssa.Store); ok && st.Addr == al {
					if o, f := entrySource(st.Val, depth+1); o != nil {
						return o, f
					}
				}
			}
		}
	case *ssa.MakeInterface:
		return entrySource(x.X, depth+1)
	case *ssa.ChangeInterface:
		return entrySource(x.X, depth+1)
	}
	return nil, ""
}

// canonVal strips loads of locals that are stored exactly once (a parameter
// captured by a closure is spilled to such a local).
func canonVal(v ssa.Value) ssa.Value {
	for i := 0; i < 4; i++ {
		u, ok := v.(*ssa.UnOp)
		if !ok || u.Op != token.MUL {
			return v
		}
		al, ok := u.X.(*ssa.Alloc)
		if !ok {
			return v
		}
		var stored ssa.Value
		n := 0
		for _, rf := range *al.Referrers() {
			if st, ok := rf.(*ssa.Store); ok && st.Addr == al {
				n++
				stored = st.Val
			}
		}
		if n != 1 {
			return v
		}
		v = stored
	}
	return v
}

func sameValue(a, b ssa.Value) bool {
	a, b = canonVal(a), canonVal(b)
	if a == b {
		return true
	}
	return lockPath(a, 0) == lockPath(b, 0) && !strings.Contains(lockPath(a, 0), "?")
}

// condMentionsFieldOf: the condition reads field `field` of the object v points to.
func condMentionsFieldOf(cond ssa.Value, v ssa.Value, field string, depth int) bool {
	if depth > 5 || cond == nil {
		return false
	}
	switch x := cond.(type) {
	case *ssa.UnOp:
		if x.Op == token.NOT {
			return condMentionsFieldOf(x.X, v, field, depth+1)
		}
		if fa, ok := x.X.(*ssa.FieldAddr); ok && fieldName(fa) == field && sameEntry(fa.X, v) {
			return true
		}
	case *ssa.BinOp:
		return condMentionsFieldOf(x.X, v, field, depth+1) || condMentionsFieldOf(x.Y, v, field, depth+1)
	case *ssa.Call:
		// c.Pkg() for classes
		if x.Call.IsInvoke() && x.Call.Method.Name() == field && sameEntry(x.Call.Value, v) {
			return true
		}
		for _, a := range x.Call.Args {
			if condMentionsFieldOf(a, v, field, depth+1) {
				return true
			}
		}
	case *ssa.MakeInterface:
		return condMentionsFieldOf(x.X, v, field, depth+1)
	}
	return false
}

// sameEntry: two SSA values denote the same entry (identical, or both derive from the same extract/lookup).
func sameEntry(a, b ssa.Value) bool {
	if a == b {
		return true
	}
	strip := func(v ssa.Value) ssa.Value {
		for i := 0; i < 4; i++ {
			switch x := v.(type) {
			case *ssa.UnOp:
				// loads of the same local (a named result or captured variable) denote the same entry
				if al, ok := x.X.(*ssa.Alloc); ok {
					return al
				}
				return v
			case *ssa.MakeInterface:
				v = x.X
			case *ssa.ChangeInterface:
				v = x.X
			case *ssa.TypeAssert:
				v = x.X
			default:
				return v
			}
		}
		return v
	}
	return strip(a) == strip(b)
}

// lookupOnSameTable: the condition derives from a lookup in the same table (same owner and field).
func condFromLookup(cond ssa.Value, owner ssa.Value, field string, depth int) (ssa.Value, bool) {
	if depth > 5 || cond == nil {
		return nil, false
	}
	switch x := cond.(type) {
	case *ssa.Lookup:
		if o, f, ok := tableOf(x.X); ok && f == field && sameValue(o, owner) {
			return x, true
		}
	case *ssa.Extract:
		return condFromLookup(x.Tuple, owner, field, depth+1)
	case *ssa.BinOp:
		if v, ok := condFromLookup(x.X, owner, field, depth+1); ok {
			return v, true
		}
		return condFromLookup(x.Y, owner, field, depth+1)
	case *ssa.UnOp:
		if x.Op == token.NOT {
			return condFromLookup(x.X, owner, field, depth+1)
		}
		if fa, ok := x.X.(*ssa.FieldAddr); ok {
			return condFromLookup(fa.X, owner, field, depth+1)
		}
	case *ssa.Call:
		if x.Call.IsInvoke() {
			return condFromLookup(x.Call.Value, owner, field, depth+1)
		}
	case *ssa.MakeInterface:
		return condFromLookup(x.X, owner, field, depth+1)
	case *ssa.Phi:
		for _, e := range x.Edges {
			if v, ok := condFromLookup(e, owner, field, depth+1); ok {
				return v, true
			}
		}
	}
	return nil, false
}

// retractors: the Lisp functions whose purpose is to take a definition away.
var retractors = map[string]bool{"fmakunbound": true, "makunbound": true, "unintern": true, "unexport": true, "undefflavor": true, "delete-package": true}

// c13callers: who may call the retracting methods of Package.
func c13callers(c *core.Ctx, r *core.Reporter) {
	const rule = "C13.callers"
	r.Rule(rule, "the methods of Package that take a definition away from the package and from the packages using it (Undefine, Remove, Unexport) are called, outside package slip itself, only from the built-ins whose purpose that is (fmakunbound, makunbound, unintern, unexport, undefflavor, delete-package): a defining form that retracts first silently undoes an earlier export", 4)
	byCall := map[*ssa.Function]string{}
	byRecv := map[string]string{}
	recvKey := func(fn *ssa.Function) string {
		if fn.Signature.Recv() == nil {
			return ""
		}
		rt := fn.Signature.Recv().Type()
		if pt, isP := rt.(*types.Pointer); isP {
			rt = pt.Elem()
		}
		return types.TypeString(rt, nil)
	}
	for _, b := range c.Registry() {
		if b.Call != nil {
			if fn := c.SSAFunc(b.Call); fn != nil {
				byCall[fn] = strings.ToLower(b.Name)
				if k := recvKey(fn); k != "" {
					if old, dup := byRecv[k]; !dup || !retractors[old] {
						byRecv[k] = strings.ToLower(b.Name)
					}
				}
			}
		}
	}
	n := map[string]int{}
	for _, fn := range c.ModuleFuncs() {
		if takesTestingT(fn) || fn.Pkg == nil || fn.Pkg.Pkg.Path() == core.SlipPath {
			continue
		}
		for _, b := range fn.Blocks {
			for _, in := range b.Instrs {
				call, ok := in.(*ssa.Call)
				if !ok {
					continue
				}
				g := call.Call.StaticCallee()
				if g == nil || g.Signature.Recv() == nil {
					continue
				}
				rt := g.Signature.Recv().Type()
				if pt, isP := rt.(*types.Pointer); isP {
					rt = pt.Elem()
				}
				if !core.IsNamed(rt, core.SlipPath, "Package") {
					continue
				}
				switch g.Name() {
				case "Undefine", "Remove", "Unexport":
				default:
					continue
				}
				root := fn
				for root.Parent() != nil {
					root = root.Parent()
				}
				who, isBuiltin := byCall[root]
				if !isBuiltin {
					// a helper method of the built-in's own type
					who, isBuiltin = byRecv[recvKey(root)]
				}
				key := fmt.Sprintf("%s|Package.%s", core.SSAName(fn), g.Name())
				n[key]++
				if k := n[key]; k > 1 {
					key = fmt.Sprintf("%s#%d", key, k)
				}
				ok2 := isBuiltin && retractors[who]
				r.Decide(ok2, rule, key, c.Pos(call.Pos()), fmt.Sprintf("called from the built-in %q; a retracting built-in: %v", who, ok2))
			}
		}
	}
}

func runC13(c *core.Ctx, r *core.Reporter) {
	c.BuildSSA()
	c13callers(c, r)
	c13foreign(c, r)
	c13owner(c, r)
	c13internal(c, r)
	c13exportlist(c, r)
	c13curpkg(c, r)
	c13qualified(c, r)
	c13pkgarg(c, r)
	c13useexport(c, r)
	an := lenflow.New(c)
	const push = "C13.push"
	const own = "C13.own"
	const retract = "C13.retract"
	r.Rule(push, "every store that copies an entry across packages (into a table of a package other than the receiver, or of an entry read from another package's table) is control-dependent on every path on (a) the entry's Export flag (or Export was just set true) and (b) a lookup showing the slot empty or owned by the pushing package; Import (explicit import through the Go extension interface) is exempt", 8)
	r.Rule(own, "a table of a package (vars, funcs, classes, lambdas) is assigned a fresh map only under a test that the table is nil (construction); a wholesale reset loses the package's own definitions", 3)
	r.Rule("C13.stale", "a method of Package that deletes an own function from its funcs table (un-definition), and retracts it from its users, also rewrites the lambda that calls already compiled in each of those packages are bound to: otherwise the removed function stays callable through them", 2)
	r.Rule(retract, "a delete from another package's table is control-dependent on the entry's owner being the retracting package; every method that deletes an own function or variable also retracts it from the users' tables", 3)
	for _, fn := range c.ModuleFuncs() {
		if fn.Pkg == nil || fn.Pkg.Pkg.Path() != core.SlipPath {
			continue
		}
		var recv ssa.Value
		if fn.Signature.Recv() != nil && core.IsNamed(fn.Signature.Recv().Type(), core.SlipPath, "Package") && len(fn.Params) > 0 {
			recv = fn.Params[0]
		}
		if recv == nil {
			// only the operations of a package on the use/export graph are judged; constructors and
			// package-level conveniences acting on the current package are not part of the graph protocol
			continue
		}
		var g *core.Guards
		guards := func() *core.Guards {
			if g == nil {
				g = core.ComputeGuards(fn, an.NoReturn)
			}
			return g
		}
		deletesOwn := map[string]ssa.Instruction{}
		retracts := map[string]bool{}
		for _, b := range fn.Blocks {
			for _, in := range b.Instrs {
				switch x := in.(type) {
				case *ssa.MapUpdate:
					owner, field, ok := tableOf(x.Map)
					if !ok || field == "lambdas" {
						continue
					}
					srcOwner, _ := entrySource(x.Value, 0)
					cross := false
					switch {
					case srcOwner != nil && !sameValue(srcOwner, owner):
						cross = true
					case recv != nil && !sameValue(owner, recv) && srcOwner == nil:
						cross = true // pushing a new own entry into another package's table
					case recv != nil && !sameValue(owner, recv) && srcOwner != nil && sameValue(srcOwner, recv):
						cross = true
					}
					if !cross {
						continue
					}
					name := core.SSAName(fn)
					key := fmt.Sprintf("%s|%s[..] = entry", name, ownerDesc(owner, recv)+"."+field)
					if core.IsSSAFunc(fn, core.SlipPath, "Package", "Import") {
						r.Hold(push, key, c.Pos(x.Pos()), "explicit import (Go extension interface) is exempt by the property")
						continue
					}
					// every path to the store crosses an edge on which the entry is known to be exported ...
					exported := core.Separates(fn, b, an.NoReturn, func(ifi *ssa.If, branch bool) bool {
						return branch && condMentionsFieldOf(ifi.Cond, x.Value, "Export", 0)
					})
					// ... and an edge of a test derived from a lookup of the same slot (empty, or owner compared)
					slot := core.Separates(fn, b, an.NoReturn, func(ifi *ssa.If, branch bool) bool {
						// `if ph := pkg.placeholderVar(name); ph != nil`: the slot holds only the unbound placeholder of
						// a compiled reference, which is not a definition
						if placeholderTest(ifi.Cond, owner, field) {
							return branch
						}
						_, ok := condFromLookup(ifi.Cond, owner, field, 0)
						if !ok {
							return false
						}
						// `x != nil` true / `x == nil` false say only that the slot is occupied: not a guard by themselves
						if bo, isB := ifi.Cond.(*ssa.BinOp); isB && (isNilConst(bo.X) || isNilConst(bo.Y)) {
							if (bo.Op == token.NEQ && branch) || (bo.Op == token.EQL && !branch) {
								return false
							}
						}
						if _, isEx := ifi.Cond.(*ssa.Extract); isEx && branch {
							return false // `has` true: occupied
						}
						return true
					})
					// ... or the slot was emptied on every path here: a delete of the same key from the same table
					// dominates the store and no store into that table lies between them (Undefine deletes the own
					// entry and then lets the exported function of a used package show through again)
					if !slot {
						slot = slotJustDeleted(fn, x, owner, field)
					}
					// Export was just set true on this entry
					if !exported && storesTrueTo(fn, x.Value, "Export", x) {
						exported = true
					}
					var miss []string
					if !exported {
						miss = append(miss, "not conditional on the entry being exported")
					}
					if !slot {
						miss = append(miss, "no test that the slot is empty or owned by the pushing package (an own definition of that name is overwritten)")
					}
					r.Decide(len(miss) == 0, push, key, c.Pos(x.Pos()), orOKs(strings.Join(miss, "; "), "guarded by export flag and slot test"))
				case *ssa.Store:
					fa, ok := x.Addr.(*ssa.FieldAddr)
					if !ok || !pkgTables[fieldName(fa)] || !isFieldOf(fa, core.SlipPath, "Package", fieldName(fa)) {
						continue
					}
					if _, ok := x.Val.(*ssa.MakeMap); !ok {
						continue
					}
					// construction of a fresh Package value
					if _, ok := fa.X.(*ssa.Alloc); ok {
						continue
					}
					nilGuard := false
					for f := range guards().Facts(b) {
						if bo, ok := f.If.Cond.(*ssa.BinOp); ok && bo.Op == token.EQL && f.Branch {
							if (loadsField(bo.X, core.SlipPath, "Package", fieldName(fa)) && isNilConst(bo.Y)) || (loadsField(bo.Y, core.SlipPath, "Package", fieldName(fa)) && isNilConst(bo.X)) {
								nilGuard = true
							}
						}
					}
					key := fmt.Sprintf("%s|%s = fresh map", core.SSAName(fn), ownerDesc(fa.X, recv)+"."+fieldName(fa))
					r.Decide(nilGuard, own, key, c.Pos(x.Pos()), fmt.Sprintf("reset only when the table is nil: %v", nilGuard))
				case *ssa.Call:
					bi, ok := x.Call.Value.(*ssa.Builtin)
					if !ok || bi.Name() != "delete" || len(x.Call.Args) != 2 {
						continue
					}
					owner, field, ok := tableOf(x.Call.Args[0])
					if !ok {
						continue
					}
					if recv != nil && sameValue(owner, recv) {
						// removing entries that are NOT owned by this package (inherited ones) is not the deletion of an own definition
						notOwn := core.Separates(fn, b, an.NoReturn, func(ifi *ssa.If, branch bool) bool {
							bo, ok := ifi.Cond.(*ssa.BinOp)
							if !ok || !condReadsAnyField(bo, "Pkg") {
								return false
							}
							return (bo.Op == token.NEQ && branch) || (bo.Op == token.EQL && !branch)
						})
						if (field == "funcs" || field == "vars") && !notOwn {
							deletesOwn[field] = x
						}
						continue
					}
					retracts[field] = true
					owned := false
					for f := range guards().Facts(b) {
						if !f.Branch {
							continue
						}
						bo, ok := f.If.Cond.(*ssa.BinOp)
						if !ok || bo.Op != token.EQL {
							continue
						}
						if _, ok := condFromLookup(bo, owner, field, 0); ok && (condReadsAnyField(bo, "Pkg")) {
							owned = true
						}
						// identity with the entry held in the retracting package's own table (`xv == vv` with
						// vv := obj.vars[name]) proves the same ownership
						if recv != nil {
							for _, pair := range [][2]ssa.Value{{bo.X, bo.Y}, {bo.Y, bo.X}} {
								uo, uf := entrySource(pair[0], 0)
								oo, of := entrySource(pair[1], 0)
								if uo != nil && oo != nil && uf == field && of == field && sameValue(uo, owner) && sameValue(oo, recv) {
									owned = true
								}
							}
						}
					}
					key := fmt.Sprintf("%s|delete(%s)", core.SSAName(fn), ownerDesc(owner, recv)+"."+field)
					r.Decide(owned, retract, key, c.Pos(x.Pos()), fmt.Sprintf("deletion from another package's table is conditional on the entry's owner (entry.Pkg == this package): %v", owned))
				}
			}
		}
		if in, ok := deletesOwn["funcs"]; ok {
			// C13.stale: un-defining a function must also reach the calls already compiled to it. They are
			// bound to the lambda registered under the name in the package's lambdas table; unless that lambda
			// is rewritten too (back to the undefined placeholder) (g) keeps running the body of f after
			// (fmakunbound 'f).
			okOwn := mustPatchLambdasAfter(fn, in, recv)
			r.Decide(okOwn, "C13.stale", core.SSAName(fn)+"|own compiled calls", c.Pos(in.Pos()), fmt.Sprintf("the method deletes an own function; the lambda compiled calls are bound to is rewritten as well: %v", okOwn))
			for _, b := range fn.Blocks {
				for _, in2 := range b.Instrs {
					call, ok := in2.(*ssa.Call)
					if !ok {
						continue
					}
					bi, ok := call.Call.Value.(*ssa.Builtin)
					if !ok || bi.Name() != "delete" || len(call.Call.Args) != 2 {
						continue
					}
					owner, field, ok := tableOf(call.Call.Args[0])
					if !ok || field != "funcs" || sameValue(owner, recv) {
						continue
					}
					okU := mustPatchLambdasAfter(fn, call, owner)
					r.Decide(okU, "C13.stale", core.SSAName(fn)+"|users' compiled calls", c.Pos(call.Pos()), fmt.Sprintf("the entry is retracted from a user's table; that user's lambda for the name is rewritten as well: %v", okU))
				}
			}
		}
		for field, in := range deletesOwn {
			key := fmt.Sprintf("%s|delete(own.%s) retracts from users", core.SSAName(fn), field)
			if why, ok := retractExceptions[key]; ok {
				r.Hold(retract, key, c.Pos(in.Pos()), "accepted by reading: "+why)
				continue
			}
			r.Decide(retracts[field], retract, key, c.Pos(in.Pos()), fmt.Sprintf("the method also deletes the entry from the users' %s tables: %v", field, retracts[field]))
		}
	}
	c13resolve(c, r)
}

var retractExceptions = map[string]string{
	"slip.(Package).DefLambda|delete(own.vars) retracts from users": "removes the unbound placeholder variable that Export creates for a not yet defined name; Export stores that placeholder in the package's own table only, so no user holds a copy",
}

func isNilConst(v ssa.Value) bool {
	k, ok := v.(*ssa.Const)
	return ok && k.IsNil()
}

func condReadsAnyField(v ssa.Value, field string) bool {
	switch x := v.(type) {
	case *ssa.BinOp:
		return condReadsAnyField(x.X, field) || condReadsAnyField(x.Y, field)
	case *ssa.UnOp:
		if fa, ok := x.X.(*ssa.FieldAddr); ok && fieldName(fa) == field {
			return true
		}
	case *ssa.Call:
		if x.Call.IsInvoke() && x.Call.Method.Name() == field {
			return true
		}
	case *ssa.MakeInterface:
		return condReadsAnyField(x.X, field)
	}
	return false
}

func ownerDesc(owner, recv ssa.Value) string {
	if recv != nil && sameValue(owner, recv) {
		return "own"
	}
	p := lockPath(owner, 0)
	if strings.HasPrefix(p, "param:") {
		return "arg"
	}
	if strings.Contains(p, "Users") {
		return "user"
	}
	if strings.Contains(p, "Uses") {
		return "used"
	}
	return "other"
}

// storesTrueTo: the function stores the constant true into field f of entry v before `before`.
func storesTrueTo(fn *ssa.Function, v ssa.Value, field string, before ssa.Instruction) bool {
	for _, b := range fn.Blocks {
		for _, in := range b.Instrs {
			st, ok := in.(*ssa.Store)
			if !ok {
				continue
			}
			fa, ok := st.Addr.(*ssa.FieldAddr)
			if !ok || fieldName(fa) != field || !sameEntry(fa.X, v) {
				continue
			}
			if k, ok := st.Val.(*ssa.Const); ok && k.Value != nil && k.Value.String() == "true" && instrDominates(st, before) {
				return true
			}
		}
	}
	return false
}

func c13resolve(c *core.Ctx, r *core.Reporter) {
	const rule = "C13.resolve"
	r.Rule(rule, "every function that resolves a package-qualified name through UnpackName and fetches a variable or function entry from that package branches on the entry's Export flag before using it", 2)
	for _, fn := range c.ModuleFuncs() {
		if fn.Pkg == nil || fn.Pkg.Pkg.Path() != core.SlipPath {
			continue // definers in other packages name the package to define in; only the core resolvers look entries up
		}
		var unpack *ssa.Call
		for _, b := range fn.Blocks {
			for _, in := range b.Instrs {
				if call, ok := in.(*ssa.Call); ok {
					if g := call.Call.StaticCallee(); g != nil && core.IsSSAFunc(g, core.SlipPath, "", "UnpackName") {
						unpack = call
					}
				}
			}
		}
		if unpack == nil {
			continue
		}
		// does the function fetch an entry (*VarVal / *FuncInfo) from a package?
		fetches := false
		testsExport := false
		for _, b := range fn.Blocks {
			for _, in := range b.Instrs {
				if v, ok := in.(ssa.Value); ok {
					t := v.Type()
					if core.IsNamed(t, core.SlipPath, "VarVal") || core.IsNamed(t, core.SlipPath, "FuncInfo") {
						if _, isPtr := t.(*types.Pointer); isPtr {
							switch in.(type) {
							case *ssa.Call, *ssa.Lookup, *ssa.Extract:
								fetches = true
							}
						}
					}
				}
				if ifi, ok := in.(*ssa.If); ok {
					if condReadsAnyField(ifi.Cond, "Export") {
						testsExport = true
					}
				}
			}
		}
		if !fetches {
			continue
		}
		r.Decide(testsExport, rule, core.SSAName(fn), c.Pos(unpack.Pos()), fmt.Sprintf("branches on the entry's Export flag: %v", testsExport))
	}
}

// slotJustDeleted: a `delete(owner.field, key)` with the same key dominates the map update mu, and no other
// update of that table can execute between the two.
func slotJustDeleted(fn *ssa.Function, mu *ssa.MapUpdate, owner ssa.Value, field string) bool {
	for _, b := range fn.Blocks {
		for _, in := range b.Instrs {
			call, ok := in.(*ssa.Call)
			if !ok {
				continue
			}
			bi, ok := call.Call.Value.(*ssa.Builtin)
			if !ok || bi.Name() != "delete" || len(call.Call.Args) != 2 {
				continue
			}
			o, f, ok := tableOf(call.Call.Args[0])
			if !ok || f != field || !sameValue(o, owner) || !sameValue(call.Call.Args[1], mu.Key) {
				continue
			}
			if !instrDominates(call, mu) {
				continue
			}
			clean := true
			for _, b2 := range fn.Blocks {
				for _, in2 := range b2.Instrs {
					mu2, ok := in2.(*ssa.MapUpdate)
					if !ok || mu2 == mu {
						continue
					}
					if o2, f2, ok := tableOf(mu2.Map); ok && f2 == field && sameValue(o2, owner) {
						if reachesInstr(call, mu2) && reachesInstr(mu2, mu) {
							clean = false
						}
					}
				}
			}
			if clean {
				return true
			}
		}
	}
	return false
}

// reachesInstr: control can flow from a to b.
func reachesInstr(a, b ssa.Instruction) bool {
	if a.Block() == b.Block() {
		ia, ib := -1, -1
		for i, in := range a.Block().Instrs {
			if in == a {
				ia = i
			}
			if in == b {
				ib = i
			}
		}
		if ia < ib {
			return true
		}
	}
	seen := map[*ssa.BasicBlock]bool{}
	stack := append([]*ssa.BasicBlock(nil), a.Block().Succs...)
	for len(stack) > 0 {
		blk := stack[len(stack)-1]
		stack = stack[:len(stack)-1]
		if seen[blk] {
			continue
		}
		seen[blk] = true
		if blk == b.Block() {
			return true
		}
		stack = append(stack, blk.Succs...)
	}
	return false
}

// mustPatchLambdasAfter: every path from instruction `from` to a return of fn passes an instruction that rewrites
// the lambdas entry of package `owner` (a direct store, or a call of a Package method on owner that does so on
// its receiver).
func mustPatchLambdasAfter(fn *ssa.Function, from ssa.Instruction, owner ssa.Value) bool {
	pass := map[*ssa.BasicBlock]int{}
	fromIdx := -1
	for _, b := range fn.Blocks {
		for i, in := range b.Instrs {
			if in == from {
				fromIdx = i
			}
			patches := false
			switch x := in.(type) {
			case *ssa.MapUpdate:
				if o := packageOfTable(x.Map, "lambdas"); o != nil && sameValue(o, owner) {
					patches = true
				}
			case *ssa.Store:
				if fa, ok := x.Addr.(*ssa.FieldAddr); ok && fieldName(fa) == "Forms" &&
					core.IsNamed(fa.X.Type(), core.SlipPath, "Lambda") && lambdaFromLambdasOf(fa.X, owner, 0) {
					patches = true
				}
			case ssa.CallInstruction:
				cal := x.Common().StaticCallee()
				if cal != nil && cal.Pkg != nil && cal.Pkg.Pkg.Path() == core.SlipPath && cal.Signature.Recv() != nil &&
					len(x.Common().Args) > 0 && len(cal.Params) > 0 && sameValue(x.Common().Args[0], owner) {
					patches = patchesLambdasOf(cal, cal.Params[0], 1, map[*ssa.Function]bool{cal: true})
				}
			}
			if patches {
				if b == from.Block() && fromIdx >= 0 && i > fromIdx {
					if cur, has := pass[b]; !has || cur <= fromIdx {
						pass[b] = i
					}
				} else if _, has := pass[b]; !has {
					pass[b] = i
				}
			}
		}
	}
	if fromIdx < 0 {
		return false
	}
	return !escapes(from.Block(), fromIdx, pass)
}

// placeholderTest: cond is `h(owner, key) != nil` where h is a method of package slip that returns an entry of its
// receiver's `field` table only under a comparison with the unbound marker (a placeholder test helper).
func placeholderTest(cond ssa.Value, owner ssa.Value, field string) bool {
	bo, ok := cond.(*ssa.BinOp)
	if !ok || bo.Op != token.NEQ {
		return false
	}
	var call *ssa.Call
	switch {
	case isNilConst(bo.Y):
		call, _ = bo.X.(*ssa.Call)
	case isNilConst(bo.X):
		call, _ = bo.Y.(*ssa.Call)
	}
	if call == nil {
		return false
	}
	cal := call.Call.StaticCallee()
	if cal == nil || cal.Pkg == nil || cal.Pkg.Pkg.Path() != core.SlipPath || cal.Signature.Recv() == nil || len(call.Call.Args) == 0 || len(cal.Params) == 0 {
		return false
	}
	if !sameValue(call.Call.Args[0], owner) {
		return false
	}
	looks, unboundCmp := false, false
	for _, b := range cal.Blocks {
		for _, in := range b.Instrs {
			switch x := in.(type) {
			case *ssa.Lookup:
				if o, f, ok := tableOf(x.X); ok && f == field && o == ssa.Value(cal.Params[0]) {
					looks = true
				}
			case *ssa.BinOp:
				if (x.Op == token.EQL || x.Op == token.NEQ) && (isUnboundMarker(x.X) || isUnboundMarker(x.Y)) {
					unboundCmp = true
				}
			}
		}
	}
	return looks && unboundCmp
}
