package rules

import (
	"fmt"
	"go/token"
	"go/types"
	"sort"

	"golang.org/x/tools/go/ssa"

	"slipcheck/core"
)

// Units: characters are not bytes. A Lisp string is UTF-8 text held in a Go string; positions the language
// talks about are character positions, positions the Go code slices with are byte offsets. A value that
// counts characters (utf8.RuneCount*, len([]rune(s)), or a module function that returns such a count) must
// never be used as an index or slice bound of a string or []byte, nor stored into a struct field that holds
// byte offsets (a field that somewhere receives len(string|[]byte), or is itself used to index one).
//
// Two independently seeded changes did exactly this to the format interpreter (control.end set from a
// character count: the last bytes of a control string with non-ASCII text are never interpreted).

type unitSite struct {
	fn   *ssa.Function
	pos  token.Pos
	what string
	key  string
	bad  bool
	why  string
}

// runeCounted: v is a character count.
type unitsInfo struct {
	c        *core.Ctx
	retCount map[*ssa.Function]bool
	byteFld  map[*types.Var]bool
	// runeFld: fields that carry character positions somewhere (see runeFields). A field in both sets is
	// unit-polymorphic (seqFunVars.end: an element position of whatever sequence type the worker handles) and
	// is judged by its role in the function at hand.
	runeFld map[*types.Var]bool
}

// localRole: how the function uses field f: as a position in bytes, in characters, or neither.
func localRole(fn *ssa.Function, f *types.Var) (byteRole, runeRole bool) {
	byteIdx, runeIdx := map[ssa.Value]bool{}, map[ssa.Value]bool{}
	note := func(t types.Type, vs ...ssa.Value) {
		for _, v := range vs {
			if v == nil {
				continue
			}
			if isRuneSlice(t) {
				runeIdx[v] = true
			} else if isBytesOrString(t) {
				byteIdx[v] = true
			}
		}
	}
	for _, b := range fn.Blocks {
		for _, in := range b.Instrs {
			switch x := in.(type) {
			case *ssa.IndexAddr:
				note(x.X.Type(), x.Index)
			case *ssa.Index:
				note(x.X.Type(), x.Index)
			case *ssa.Lookup:
				note(x.X.Type(), x.Index)
			case *ssa.Slice:
				note(x.X.Type(), x.Low, x.High)
			}
		}
	}
	isF := func(v ssa.Value) bool { return loadedField(v) == f }
	for v := range byteIdx {
		if isF(v) {
			byteRole = true
		}
	}
	for v := range runeIdx {
		if isF(v) {
			runeRole = true
		}
	}
	for _, b := range fn.Blocks {
		for _, in := range b.Instrs {
			bo, ok := in.(*ssa.BinOp)
			if !ok {
				continue
			}
			switch bo.Op {
			case token.LSS, token.LEQ, token.GTR, token.GEQ:
			default:
				continue
			}
			for _, pr := range [][2]ssa.Value{{bo.X, bo.Y}, {bo.Y, bo.X}} {
				if isF(pr[0]) {
					if byteIdx[pr[1]] {
						byteRole = true
					}
					if runeIdx[pr[1]] {
						runeRole = true
					}
				}
			}
		}
	}
	return
}

func isBytesOrString(t types.Type) bool {
	switch u := t.Underlying().(type) {
	case *types.Basic:
		return u.Info()&types.IsString != 0
	case *types.Slice:
		b, ok := u.Elem().Underlying().(*types.Basic)
		return ok && b.Kind() == types.Byte
	case *types.Pointer:
		if a, ok := u.Elem().Underlying().(*types.Array); ok {
			b, ok := a.Elem().Underlying().(*types.Basic)
			return ok && b.Kind() == types.Byte
		}
	}
	return false
}

func (u *unitsInfo) isRuneCount(v ssa.Value, depth int) bool {
	if depth > 6 || v == nil {
		return false
	}
	switch x := v.(type) {
	case *ssa.Call:
		if bi, ok := x.Call.Value.(*ssa.Builtin); ok {
			if bi.Name() == "len" && len(x.Call.Args) == 1 {
				// len([]rune(s))
				if cv, ok := x.Call.Args[0].(*ssa.Convert); ok {
					if sl, ok := cv.Type().Underlying().(*types.Slice); ok {
						if b, ok := sl.Elem().Underlying().(*types.Basic); ok && b.Kind() == types.Int32 && isBytesOrString(cv.X.Type()) {
							return true
						}
					}
				}
			}
			return false
		}
		g := x.Call.StaticCallee()
		if g == nil {
			return false
		}
		if g.Pkg != nil && g.Pkg.Pkg.Path() == "unicode/utf8" && (g.Name() == "RuneCount" || g.Name() == "RuneCountInString") {
			return true
		}
		return u.retCount[g]
	case *ssa.Convert:
		return u.isRuneCount(x.X, depth+1)
	case *ssa.ChangeType:
		return u.isRuneCount(x.X, depth+1)
	case *ssa.Phi:
		any := false
		for _, e := range x.Edges {
			if u.isRuneCount(e, depth+1) {
				any = true
			}
		}
		return any
	case *ssa.BinOp:
		if x.Op == token.ADD || x.Op == token.SUB {
			if _, ok := x.Y.(*ssa.Const); ok {
				return u.isRuneCount(x.X, depth+1)
			}
			if _, ok := x.X.(*ssa.Const); ok && x.Op == token.ADD {
				return u.isRuneCount(x.Y, depth+1)
			}
		}
	}
	return false
}

func isByteLen(v ssa.Value, depth int) bool {
	if depth > 4 {
		return false
	}
	switch x := v.(type) {
	case *ssa.Call:
		if bi, ok := x.Call.Value.(*ssa.Builtin); ok && bi.Name() == "len" && len(x.Call.Args) == 1 {
			return isBytesOrString(x.Call.Args[0].Type())
		}
	case *ssa.Convert:
		return isByteLen(x.X, depth+1)
	}
	return false
}

func fieldOfAddr(a ssa.Value) *types.Var {
	fa, ok := a.(*ssa.FieldAddr)
	if !ok {
		return nil
	}
	pt, ok := fa.X.Type().Underlying().(*types.Pointer)
	if !ok {
		return nil
	}
	st, ok := pt.Elem().Underlying().(*types.Struct)
	if !ok {
		return nil
	}
	return st.Field(fa.Field)
}

func loadedField(v ssa.Value) *types.Var {
	switch x := v.(type) {
	case *ssa.UnOp:
		if x.Op == token.MUL {
			return fieldOfAddr(x.X)
		}
	case *ssa.Field:
		if st, ok := x.X.Type().Underlying().(*types.Struct); ok {
			return st.Field(x.Field)
		}
	case *ssa.Convert:
		return loadedField(x.X)
	}
	return nil
}

func newUnits(c *core.Ctx) *unitsInfo {
	u := &unitsInfo{c: c, retCount: map[*ssa.Function]bool{}, byteFld: map[*types.Var]bool{}}
	fns := c.ModuleFuncs()
	_, u.runeFld = runeFields(fns)
	// functions that return a character count
	for round := 0; round < 3; round++ {
		for _, fn := range fns {
			if u.retCount[fn] || len(fn.Blocks) == 0 || fn.Signature.Results().Len() != 1 {
				continue
			}
			if b, ok := fn.Signature.Results().At(0).Type().Underlying().(*types.Basic); !ok || b.Info()&types.IsInteger == 0 {
				continue
			}
			all, n := true, 0
			for _, b := range fn.Blocks {
				if ret, ok := b.Instrs[len(b.Instrs)-1].(*ssa.Return); ok {
					n++
					if len(ret.Results) != 1 || !u.isRuneCount(ret.Results[0], 0) {
						all = false
					}
				}
			}
			if all && n > 0 {
				u.retCount[fn] = true
			}
		}
	}
	// byte-offset fields
	indexOperands := func(in ssa.Instruction) []ssa.Value {
		switch x := in.(type) {
		case *ssa.IndexAddr:
			if isBytesOrString(x.X.Type()) {
				return []ssa.Value{x.Index}
			}
		case *ssa.Index:
			if isBytesOrString(x.X.Type()) {
				return []ssa.Value{x.Index}
			}
		case *ssa.Lookup:
			if isBytesOrString(x.X.Type()) {
				return []ssa.Value{x.Index}
			}
		case *ssa.Slice:
			if isBytesOrString(x.X.Type()) {
				var out []ssa.Value
				for _, v := range []ssa.Value{x.Low, x.High} {
					if v != nil {
						out = append(out, v)
					}
				}
				return out
			}
		}
		return nil
	}
	for _, fn := range fns {
		for _, b := range fn.Blocks {
			for _, in := range b.Instrs {
				if st, ok := in.(*ssa.Store); ok && isByteLen(st.Val, 0) {
					if f := fieldOfAddr(st.Addr); f != nil {
						u.byteFld[f] = true
					}
				}
				for _, op := range indexOperands(in) {
					if f := loadedField(op); f != nil {
						u.byteFld[f] = true
					}
				}
			}
		}
	}
	// one closure round: a field compared with a byte-offset field of the same struct is one too
	for round := 0; round < 2; round++ {
		for _, fn := range fns {
			for _, b := range fn.Blocks {
				for _, in := range b.Instrs {
					bo, ok := in.(*ssa.BinOp)
					if !ok {
						continue
					}
					switch bo.Op {
					case token.LSS, token.LEQ, token.GTR, token.GEQ, token.EQL, token.NEQ:
					default:
						continue
					}
					fx, fy := loadedField(bo.X), loadedField(bo.Y)
					if fx != nil && fy != nil {
						if u.byteFld[fx] {
							u.byteFld[fy] = true
						} else if u.byteFld[fy] {
							u.byteFld[fx] = true
						}
					}
				}
			}
		}
	}
	return u
}

// unitSites enumerates every index/slice bound on bytes and every store into a byte-offset field, in the
// functions accepted by scope.
func (u *unitsInfo) sites(scope func(*ssa.Function) bool) []unitSite {
	var out []unitSite
	for _, fn := range u.c.ModuleFuncs() {
		if !scope(fn) {
			continue
		}
		n := map[string]int{}
		add := func(pos token.Pos, what, k string, bad bool, why string) {
			n[k]++
			key := fmt.Sprintf("%s|%s", core.SSAName(fn), k)
			if n[k] > 1 {
				key = fmt.Sprintf("%s#%d", key, n[k])
			}
			out = append(out, unitSite{fn: fn, pos: pos, what: what, key: key, bad: bad, why: why})
		}
		for _, b := range fn.Blocks {
			for _, in := range b.Instrs {
				switch x := in.(type) {
				case *ssa.Store:
					if f := fieldOfAddr(x.Addr); f != nil && u.byteFld[f] {
						bad := u.isRuneCount(x.Val, 0)
						if bad && u.runeFld[f] {
							// unit-polymorphic field: judged by its role in this function
							byteRole, _ := localRole(fn, f)
							bad = byteRole
						}
						add(x.Pos(), "store into byte-offset field "+f.Name(), "store "+f.Name(), bad, "a character count is stored into "+f.Name()+", which holds a byte offset")
					}
				case *ssa.IndexAddr:
					if isBytesOrString(x.X.Type()) {
						add(x.Pos(), "index of bytes", "index", u.isRuneCount(x.Index, 0), "a character count indexes bytes")
					}
				case *ssa.Index:
					if isBytesOrString(x.X.Type()) {
						add(x.Pos(), "index of bytes", "index", u.isRuneCount(x.Index, 0), "a character count indexes bytes")
					}
				case *ssa.Lookup:
					if isBytesOrString(x.X.Type()) {
						add(x.Pos(), "index of bytes", "index", u.isRuneCount(x.Index, 0), "a character count indexes bytes")
					}
				case *ssa.Slice:
					if isBytesOrString(x.X.Type()) && (x.Low != nil || x.High != nil) {
						bad := (x.Low != nil && u.isRuneCount(x.Low, 0)) || (x.High != nil && u.isRuneCount(x.High, 0))
						add(x.Pos(), "slice of bytes", "slice", bad, "a character count bounds a slice of bytes")
					}
				}
			}
		}
	}
	sort.Slice(out, func(i, j int) bool { return out[i].key < out[j].key })
	return out
}

func runUnits(c *core.Ctx, r *core.Reporter, rule string, floor int, text string, scope func(*ssa.Function) bool) {
	r.Rule(rule, text, floor)
	u := newUnits(c)
	var flds []string
	for f := range u.byteFld {
		if f.Pkg() != nil && core.InModule(f.Pkg()) {
			flds = append(flds, f.Pkg().Name()+"."+f.Name())
		}
	}
	sort.Strings(flds)
	var rc []string
	for f := range u.retCount {
		rc = append(rc, core.SSAName(f))
	}
	sort.Strings(rc)
	r.Infof("%s: byte-offset fields found by use: %d; module functions returning a character count: %v", rule, len(flds), rc)
	for _, s := range u.sites(scope) {
		if s.bad {
			r.Violate(rule, s.key, c.Pos(s.pos), s.why)
		} else {
			r.Hold(rule, s.key, c.Pos(s.pos), s.what+": no character count reaches it")
		}
	}
}

// ---- the dual: a byte length is not a character position ----
//
// A []rune made from a string has one element per character. The byte length of the string (len(s) of a string
// value) is larger as soon as the text is not ASCII, so it must never bound an index into the []rune: not
// directly, not through a comparison with the index variable, and not through a struct field that carries
// character positions (a field whose value indexes a []rune or is compared with such an index, found by use:
// seqFunVars.start/end ...). (count #\l "héllo") died with "index out of range [5] with length 5".

func isRuneSlice(t types.Type) bool {
	sl, ok := t.Underlying().(*types.Slice)
	if !ok {
		return false
	}
	b, ok := sl.Elem().Underlying().(*types.Basic)
	return ok && b.Kind() == types.Int32
}

func isStringLen(v ssa.Value, depth int) bool {
	if depth > 4 {
		return false
	}
	switch x := v.(type) {
	case *ssa.Call:
		if bi, ok := x.Call.Value.(*ssa.Builtin); ok && bi.Name() == "len" && len(x.Call.Args) == 1 {
			b, ok := x.Call.Args[0].Type().Underlying().(*types.Basic)
			return ok && b.Info()&types.IsString != 0
		}
	case *ssa.Convert:
		return isStringLen(x.X, depth+1)
	case *ssa.Phi:
		for _, e := range x.Edges {
			if isStringLen(e, depth+1) {
				return true
			}
		}
	}
	return false
}

// runeFields: the values that index a []rune and the struct fields that carry character positions (their
// value indexes a []rune or is compared with such an index).
func runeFields(fns []*ssa.Function) (map[ssa.Value]bool, map[*types.Var]bool) {
	runeIdx := map[ssa.Value]bool{}
	runeFld := map[*types.Var]bool{}
	noteIdx := func(v ssa.Value) {
		if v == nil {
			return
		}
		runeIdx[v] = true
		if f := loadedField(v); f != nil {
			runeFld[f] = true
		}
	}
	for _, fn := range fns {
		for _, b := range fn.Blocks {
			for _, in := range b.Instrs {
				switch x := in.(type) {
				case *ssa.IndexAddr:
					if isRuneSlice(x.X.Type()) {
						noteIdx(x.Index)
					}
				case *ssa.Index:
					if isRuneSlice(x.X.Type()) {
						noteIdx(x.Index)
					}
				case *ssa.Slice:
					if isRuneSlice(x.X.Type()) {
						noteIdx(x.Low)
						noteIdx(x.High)
					}
				}
			}
		}
	}
	for round := 0; round < 2; round++ {
		for _, fn := range fns {
			for _, b := range fn.Blocks {
				for _, in := range b.Instrs {
					bo, ok := in.(*ssa.BinOp)
					if !ok {
						continue
					}
					switch bo.Op {
					case token.LSS, token.LEQ, token.GTR, token.GEQ:
					default:
						continue
					}
					for _, pr := range [][2]ssa.Value{{bo.X, bo.Y}, {bo.Y, bo.X}} {
						if runeIdx[pr[0]] || (loadedField(pr[0]) != nil && runeFld[loadedField(pr[0])]) {
							if f := loadedField(pr[1]); f != nil {
								runeFld[f] = true
							}
						}
					}
				}
			}
		}
	}
	return runeIdx, runeFld
}

func runRuneUnits(c *core.Ctx, r *core.Reporter, rule string, floor int) {
	r.Rule(rule, "a byte length is not a character position: the length of a string value (len(s)) never bounds an index into a []rune - not as the index or slice bound itself, not in a comparison with a value that indexes a []rune, and not through a struct field that carries character positions (a field whose value indexes a []rune or is compared with such an index, found by use)", floor)
	fns := c.ModuleFuncs()
	runeIdx, runeFld := runeFields(fns)
	bu := newUnits(c)
	var names []string
	for f := range runeFld {
		names = append(names, f.Name())
	}
	sort.Strings(names)
	r.Infof("%s: fields carrying character positions (found by use): %v", rule, names)
	for _, fn := range fns {
		if fn.Blocks == nil || takesTestingT(fn) {
			continue
		}
		cnt := map[string]int{}
		emit := func(kind string, pos token.Pos, bad bool, why string) {
			cnt[kind]++
			key := fmt.Sprintf("%s|%s", core.SSAName(fn), kind)
			if cnt[kind] > 1 {
				key = fmt.Sprintf("%s#%d", key, cnt[kind])
			}
			if bad {
				r.Violate(rule, key, c.Pos(pos), why)
			} else {
				r.Hold(rule, key, c.Pos(pos), "no byte length of a string reaches it")
			}
		}
		for _, b := range fn.Blocks {
			for _, in := range b.Instrs {
				switch x := in.(type) {
				case *ssa.Store:
					if f := fieldOfAddr(x.Addr); f != nil && runeFld[f] {
						bad := isStringLen(x.Val, 0)
						if bad && bu.byteFld[f] {
							_, runeRole := localRole(fn, f)
							bad = runeRole
						}
						emit("store "+f.Name(), x.Pos(), bad, "the byte length of a string is stored into "+f.Name()+", which carries a character position (it bounds an index into a []rune): non-ASCII text indexes past the end")
					}
				case *ssa.IndexAddr:
					if isRuneSlice(x.X.Type()) {
						emit("rune index", x.Pos(), isStringLen(x.Index, 0), "the byte length of a string indexes a []rune")
					}
				case *ssa.Slice:
					if isRuneSlice(x.X.Type()) && (x.Low != nil || x.High != nil) {
						bad := (x.Low != nil && isStringLen(x.Low, 0)) || (x.High != nil && isStringLen(x.High, 0))
						emit("rune slice", x.Pos(), bad, "the byte length of a string bounds a slice of a []rune")
					}
				case *ssa.BinOp:
					switch x.Op {
					case token.LSS, token.LEQ, token.GTR, token.GEQ:
						for _, pr := range [][2]ssa.Value{{x.X, x.Y}, {x.Y, x.X}} {
							if runeIdx[pr[0]] {
								emit("rune index comparison", x.Pos(), isStringLen(pr[1], 0), "a value that indexes a []rune is bounded by the byte length of a string")
							}
						}
					}
				}
			}
		}
	}
}
