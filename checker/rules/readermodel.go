package rules

import (
	"go/ast"
	"go/constant"
	"go/token"
	"go/types"
	"sort"

	"golang.org/x/tools/go/ssa"

	"slipcheck/core"
)

// readerModel is the reader's byte machine read off its constants: the mode
// tables (strings flowing into reader.mode), and per action byte of the
// dispatch switch the modes its arm may store and whether the arm re-dispatches
// the same byte (goto Retry).
type readerModel struct {
	read    *ssa.Function
	initial string
	tables  map[string]bool
	names   map[string]string
	labels  map[byte]bool
	arms    map[byte]*armInfo
	errAct  byte
}

type armInfo struct {
	stores []string // mode tables the arm may store into r.mode
	retry  bool     // the arm jumps back to the dispatch (same byte again)
	raises bool     // the arm may call the reader's raise
	nextM  bool     // the arm stores r.nextMode into r.mode (returns to the mode an escape came from)
}

func buildReaderModel(c *core.Ctx) *readerModel {
	c.BuildSSA()
	m := &readerModel{tables: map[string]bool{}, names: constNames(c, ""), arms: map[byte]*armInfo{}}
	readObj := c.LookupFunc("", "reader.read")
	if readObj == nil {
		return nil
	}
	m.read = c.SSAFunc(readObj)
	initCount := map[string]int{}
	for _, fn := range c.ModuleFuncs() {
		for _, b := range fn.Blocks {
			for _, in := range b.Instrs {
				st, ok := in.(*ssa.Store)
				if !ok {
					continue
				}
				fa, ok := st.Addr.(*ssa.FieldAddr)
				if !ok || !(isFieldOf(fa, core.SlipPath, "reader", "mode") || isFieldOf(fa, core.SlipPath, "reader", "nextMode")) {
					continue
				}
				if s, ok := core.StringConst(st.Val); ok {
					m.tables[s] = true
					if fn != m.read && fieldName(fa) == "mode" {
						initCount[s]++
					}
				}
			}
		}
	}
	// the initial mode is the one the reader constructors store
	best := 0
	for s, n := range initCount {
		if n > best || (n == best && s < m.initial) {
			best, m.initial = n, s
		}
	}
	m.labels, _ = dispatchLabels(m.read)
	// dispatch block = block holding the r.mode[b] index
	var dispatch *ssa.BasicBlock
	for _, b := range m.read.Blocks {
		for _, in := range b.Instrs {
			if v, ok := in.(ssa.Value); ok && isModeIndex(v) {
				dispatch = b
			}
		}
	}
	if dispatch == nil {
		return nil
	}
	// arms: true successor of `idx == const`
	bodies := map[*ssa.BasicBlock][]byte{}
	for _, b := range m.read.Blocks {
		ifi, ok := b.Instrs[len(b.Instrs)-1].(*ssa.If)
		if !ok {
			continue
		}
		bo, ok := ifi.Cond.(*ssa.BinOp)
		if !ok || bo.Op != token.EQL {
			continue
		}
		var k *ssa.Const
		if isModeIndex(bo.X) {
			k, _ = bo.Y.(*ssa.Const)
		} else if isModeIndex(bo.Y) {
			k, _ = bo.X.(*ssa.Const)
		}
		if k == nil || k.Value == nil {
			continue
		}
		v, ok := constant.Int64Val(k.Value)
		if !ok {
			continue
		}
		bodies[b.Succs[0]] = append(bodies[b.Succs[0]], byte(v))
	}
	for body, acts := range bodies {
		ai := &armInfo{}
		seen := map[*ssa.BasicBlock]bool{}
		stack := []*ssa.BasicBlock{body}
		for len(stack) > 0 {
			x := stack[len(stack)-1]
			stack = stack[:len(stack)-1]
			if seen[x] {
				continue
			}
			if x == dispatch {
				ai.retry = true
				continue
			}
			if !body.Dominates(x) {
				continue // left the arm (switch.done)
			}
			seen[x] = true
			for _, in := range x.Instrs {
				switch y := in.(type) {
				case *ssa.Store:
					if fa, ok := y.Addr.(*ssa.FieldAddr); ok && isFieldOf(fa, core.SlipPath, "reader", "mode") {
						if s, ok := core.StringConst(y.Val); ok {
							ai.stores = append(ai.stores, s)
						} else if loadsField(y.Val, core.SlipPath, "reader", "nextMode") {
							ai.nextM = true
						}
					}
				case *ssa.Call:
					if g := y.Call.StaticCallee(); g != nil {
						if g.Name() == "raise" || g.Name() == "partial" {
							ai.raises = true
						}
						// callees that set the mode (runeAppendByte returns to nextMode)
						if g.Signature.Recv() != nil && core.IsNamed(g.Signature.Recv().Type(), core.SlipPath, "reader") {
							for _, cb := range g.Blocks {
								for _, cin := range cb.Instrs {
									if st, ok := cin.(*ssa.Store); ok {
										if fa, ok := st.Addr.(*ssa.FieldAddr); ok && isFieldOf(fa, core.SlipPath, "reader", "mode") {
											if s, ok := core.StringConst(st.Val); ok {
												ai.stores = append(ai.stores, s)
											} else if loadsField(st.Val, core.SlipPath, "reader", "nextMode") {
												ai.nextM = true
											}
										}
									}
								}
							}
						}
					}
				}
			}
			stack = append(stack, x.Succs...)
		}
		sort.Strings(ai.stores)
		for _, a := range acts {
			m.arms[a] = ai
		}
	}
	// error action: most frequent non-label byte
	cnt := map[byte]int{}
	for t := range m.tables {
		for i := 0; i < len(t) && i < 256; i++ {
			if !m.labels[t[i]] {
				cnt[t[i]]++
			}
		}
	}
	bestN := -1
	for a, n := range cnt {
		if n > bestN || (n == bestN && a < m.errAct) {
			bestN, m.errAct = n, a
		}
	}
	return m
}

func (m *readerModel) name(t string) string { return tableName(m.names, t) }

// step feeds byte b in mode t: returns the possible next modes, or ok=false
// if the byte is rejected (error action / no handler) on some possibility.
func (m *readerModel) step(t string, b byte, depth int) (next []string, ok bool) {
	if int(b) >= len(t) || depth > 3 {
		return nil, false
	}
	a := t[b]
	if !m.labels[a] {
		return nil, false
	}
	arm := m.arms[a]
	if arm == nil {
		return []string{t}, true
	}
	var cands []string
	if len(arm.stores) == 0 && !arm.nextM {
		cands = []string{t}
	} else {
		cands = append(cands, arm.stores...)
		if arm.nextM {
			// return from an escape: back to a string-like mode; callers treat it as opaque
			cands = append(cands, t)
		}
	}
	if !arm.retry {
		return cands, true
	}
	// the same byte is dispatched again in the new mode(s)
	var out []string
	for _, c := range cands {
		if c == t {
			continue
		}
		n2, ok := m.step(c, b, depth+1)
		if !ok {
			return nil, false
		}
		out = append(out, n2...)
	}
	if len(out) == 0 {
		return cands, true
	}
	return out, true
}

// accepts feeds the bytes of s starting in the initial mode and reports
// whether no step is rejected and the machine can be back in the initial
// mode at the end (the construct is complete).
func (m *readerModel) accepts(s string) (bool, string) {
	cur := map[string]bool{m.initial: true}
	for i := 0; i < len(s); i++ {
		nxt := map[string]bool{}
		for t := range cur {
			n, ok := m.step(t, s[i], 0)
			if !ok {
				continue // this possibility dies; others may live
			}
			for _, x := range n {
				nxt[x] = true
			}
		}
		if len(nxt) == 0 {
			var in []string
			for t := range cur {
				in = append(in, m.name(t))
			}
			sort.Strings(in)
			return false, "byte " + quoteByte(s[i]) + " rejected in mode " + joinS(in)
		}
		cur = nxt
	}
	if !cur[m.initial] {
		var in []string
		for t := range cur {
			in = append(in, m.name(t))
		}
		sort.Strings(in)
		return false, "ends in mode " + joinS(in)
	}
	return true, ""
}

func joinS(s []string) string {
	out := ""
	for i, x := range s {
		if i > 0 {
			out += "/"
		}
		out += x
	}
	return out
}

func quoteByte(b byte) string {
	if b >= 0x20 && b < 0x7f {
		return "'" + string(rune(b)) + "'"
	}
	const hex = "0123456789abcdef"
	return "0x" + string(hex[b>>4]) + string(hex[b&15])
}

// globalOf returns the package-level variable a value is loaded from.
func globalOf(v ssa.Value) *ssa.Global {
	if u, ok := v.(*ssa.UnOp); ok && u.Op == token.MUL {
		if g, ok := u.X.(*ssa.Global); ok {
			return g
		}
	}
	return nil
}

// globalInit finds the initialiser expression of a package-level variable or
// constant in the syntax.
func globalInit(c *core.Ctx, obj types.Object) (ast.Expr, *types.Info) {
	if obj == nil || obj.Pkg() == nil {
		return nil, nil
	}
	p := c.All[obj.Pkg().Path()]
	if p == nil {
		return nil, nil
	}
	for _, f := range p.Syntax {
		for _, d := range f.Decls {
			gd, ok := d.(*ast.GenDecl)
			if !ok {
				continue
			}
			for _, sp := range gd.Specs {
				vs, ok := sp.(*ast.ValueSpec)
				if !ok {
					continue
				}
				for i, nm := range vs.Names {
					if p.TypesInfo.Defs[nm] == obj && i < len(vs.Values) {
						return vs.Values[i], p.TypesInfo
					}
				}
			}
		}
	}
	return nil, nil
}

// mapLiteral evaluates a composite literal of constant keys and values.
func mapLiteral(e ast.Expr, info *types.Info) (keys, vals []constant.Value) {
	cl, ok := ast.Unparen(e).(*ast.CompositeLit)
	if !ok {
		return
	}
	for _, el := range cl.Elts {
		kv, ok := el.(*ast.KeyValueExpr)
		if !ok {
			continue
		}
		k := info.Types[kv.Key].Value
		v := info.Types[kv.Value].Value
		if k == nil || v == nil {
			// conversions like rune(' ') / Character('\b') are constant expressions and have values; anything else is skipped
			continue
		}
		keys = append(keys, k)
		vals = append(vals, v)
	}
	return
}

// after returns the modes the machine can be in after consuming s ("" on rejection).
func (m *readerModel) after(s string) []string {
	cur := map[string]bool{m.initial: true}
	for i := 0; i < len(s); i++ {
		nxt := map[string]bool{}
		for t := range cur {
			if n, ok := m.step(t, s[i], 0); ok {
				for _, x := range n {
					nxt[x] = true
				}
			}
		}
		cur = nxt
	}
	var out []string
	for t := range cur {
		out = append(out, t)
	}
	sort.Strings(out)
	return out
}
