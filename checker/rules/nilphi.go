package rules

import (
	"fmt"
	"go/token"
	"go/types"

	"golang.org/x/tools/go/ssa"

	"slipcheck/core"
)

// nilPhi: a pointer that is the constant nil on some incoming edge of a phi (a variable that a branch may
// leave unassigned: `var vv *T; if cond { vv = ... }; vv.f`) is dereferenced only where the facts that hold
// there exclude that edge. The check is per edge: an edge from a raising block does not count, and an edge
// guarded by the opposite outcome of a nil test is excluded.
func nilPhi(c *core.Ctx, r *core.Reporter, rule string, scope func(*ssa.Function) bool, noReturn func(*ssa.Function) bool) int {
	n := 0
	seen := map[string]int{}
	for _, fn := range c.ModuleFuncs() {
		if fn.Pkg == nil || fn.Blocks == nil || takesTestingT(fn) || !scope(fn) {
			continue
		}
		var g *core.Guards
		for _, b := range fn.Blocks {
			for _, in := range b.Instrs {
				phi, ok := in.(*ssa.Phi)
				if !ok {
					continue
				}
				if _, isPtr := phi.Type().Underlying().(*types.Pointer); !isPtr {
					continue
				}
				if g == nil {
					g = core.ComputeGuards(fn, noReturn)
				}
				if !phiMayBeNil(g, phi, 0) || phi.Referrers() == nil {
					continue
				}
				for _, rf := range *phi.Referrers() {
					deref := false
					switch x := rf.(type) {
					case *ssa.FieldAddr:
						deref = x.X == ssa.Value(phi)
					case *ssa.UnOp:
						deref = x.Op == token.MUL && x.X == ssa.Value(phi)
					}
					if !deref {
						continue
					}
					if g == nil {
						g = core.ComputeGuards(fn, noReturn)
					}
					if !g.Reachable(rf.Block()) {
						continue
					}
					n++
					key := fmt.Sprintf("%s|%s", core.SSAName(fn), phi.Comment)
					if phi.Comment == "" {
						key = fmt.Sprintf("%s|pointer", core.SSAName(fn))
					}
					seen[key]++
					if seen[key] > 1 {
						key = fmt.Sprintf("%s#%d", key, seen[key])
					}
					if why, ok := nilPhiExceptions[key]; ok {
						r.Hold(rule, key, c.Pos(rf.Pos()), "exception by reading: "+why)
						continue
					}
					ok2 := nonNilAt(g, phi, rf.Block(), nil, 0)
					r.Decide(ok2, rule, key, c.Pos(rf.Pos()), fmt.Sprintf("the pointer is nil on some path into %s and is dereferenced here; excluded by the facts that hold here: %v", c.Pos(phi.Pos()), ok2))
				}
			}
		}
	}
	return n
}

// nilPhiExceptions: one construct each, with the reason the nil path cannot be taken.
var nilPhiExceptions = map[string]string{
	"pkg/bag.SetCompileScript$1|doc": "the script ojg hands over is always a parenthesised list, for which slip.Compile returns a Dynamic, Lambda or Funky or raises (\"5 is not a function\"): the type switch has no other outcome (tried [(5)], [((nosuch 1))], [((lambda (x) 1))])",
}

// phiMayBeNil: some incoming edge carries the constant nil, a value the facts on that edge show to be nil
// (`if v == nil { ... }` and v flows on unchanged), or a phi of which the same holds.
func phiMayBeNil(g *core.Guards, phi *ssa.Phi, depth int) bool {
	if depth > 3 {
		return false
	}
	pb := phi.Block()
	for i, e := range phi.Edges {
		if i >= len(pb.Preds) {
			break
		}
		pred := pb.Preds[i]
		if g.Facts(pred) == nil || g.Dead[pred] {
			continue
		}
		if k, ok := e.(*ssa.Const); ok && k.IsNil() {
			return true
		}
		facts := map[core.EdgeFact]bool{}
		for f := range g.Facts(pred) {
			facts[f] = true
		}
		if ifi, ok := pred.Instrs[len(pred.Instrs)-1].(*ssa.If); ok && len(pred.Succs) == 2 && pred.Succs[0] != pred.Succs[1] {
			facts[core.EdgeFact{If: ifi, Branch: pred.Succs[0] == pb}] = true
		}
		for f := range facts {
			bo, ok := f.If.Cond.(*ssa.BinOp)
			if !ok {
				continue
			}
			var other ssa.Value
			if bo.X == e {
				other = bo.Y
			} else if bo.Y == e {
				other = bo.X
			} else {
				continue
			}
			if k, ok := other.(*ssa.Const); !ok || !k.IsNil() {
				continue
			}
			if (bo.Op == token.EQL && f.Branch) || (bo.Op == token.NEQ && !f.Branch) {
				return true
			}
		}
		if p2, ok := e.(*ssa.Phi); ok && p2 != phi && phiMayBeNil(g, p2, depth+1) {
			return true
		}
	}
	return false
}
