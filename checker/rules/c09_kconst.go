package rules

import (
	"fmt"
	"go/types"
	"sort"

	"golang.org/x/tools/go/ssa"

	"slipcheck/core"
	"slipcheck/lenflow"
)

// c09kconst: constant positions in byte slices built from Lisp-controlled text. In the format interpreter
// (methods of pkg/cl.control and the helpers they call in pkg/cl) every x[k], x[k:] and x[:k] with a constant
// k >= 1 on a []byte is reached only with len(x) >= k (k+1 for x[k]) proven by the length engine. The digits
// of a float given to ~F are such a slice: strconv prints 1.0 as "1e+00", and `copy(d[1:], d[2:])` faulted
// ("slice bounds out of range [2:1]") for every float with a one-digit mantissa (repaired by caea669).
func c09kconst(c *core.Ctx, r *core.Reporter) {
	const rule = "C09.kconst"
	r.Rule(rule, "in the format interpreter every constant index or slice bound k >= 1 on a byte slice is reached only with a proven length (same engine as C09.idx)", 3)
	an := lenflow.New(c)
	type site struct {
		fn   *ssa.Function
		in   ssa.Instruction
		need int
		have int
		root ssa.Value
		kind string
	}
	var sites []*site
	isBytes := func(t types.Type) bool {
		sl, ok := t.Underlying().(*types.Slice)
		if !ok {
			return false
		}
		b, ok := sl.Elem().Underlying().(*types.Basic)
		return ok && b.Kind() == types.Uint8
	}
	for _, fn := range c.ModuleFuncs() {
		if fn.Pkg == nil || core.RelPkg(fn.Pkg.Pkg.Path()) != "pkg/cl" || takesTestingT(fn) {
			continue
		}
		// the format interpreter: methods of control, and functions in control.go
		pos := c.Prog.Fset.Position(fn.Pos())
		if baseName(pos.Filename) != "control.go" {
			continue
		}
		has := false
		for _, b := range fn.Blocks {
			for _, in := range b.Instrs {
				switch x := in.(type) {
				case *ssa.IndexAddr:
					if isBytes(x.X.Type()) {
						if k, ok := x.Index.(*ssa.Const); ok && k.Int64() >= 1 {
							has = true
						}
					}
				case *ssa.Slice:
					if isBytes(x.X.Type()) {
						has = true
					}
				}
			}
		}
		if !has {
			continue
		}
		res := an.Analyze(fn, nil, nil, 0)
		res.Visit(func(in ssa.Instruction, st lenflow.State) {
			switch x := in.(type) {
			case *ssa.IndexAddr:
				if !isBytes(x.X.Type()) {
					return
				}
				k, ok := x.Index.(*ssa.Const)
				if !ok || k.Int64() < 1 {
					return
				}
				ref := res.ResolveSlice(x.X)
				sites = append(sites, &site{fn: fn, in: in, need: int(k.Int64()) + 1 + ref.Off, have: res.LBRoot(st, ref.Root), root: ref.Root, kind: fmt.Sprintf("[%d]", k.Int64())})
			case *ssa.Slice:
				if !isBytes(x.X.Type()) {
					return
				}
				ref := res.ResolveSlice(x.X)
				for _, bnd := range []struct {
					v    ssa.Value
					kind string
				}{{x.Low, "[%d:]"}, {x.High, "[:%d]"}} {
					k, ok := bnd.v.(*ssa.Const)
					if !ok || k.Value == nil || k.Int64() < 1 {
						continue
					}
					sites = append(sites, &site{fn: fn, in: in, need: int(k.Int64()) + ref.Off, have: res.LBRoot(st, ref.Root), root: ref.Root, kind: fmt.Sprintf(bnd.kind, k.Int64())})
				}
			}
		})
	}
	sort.SliceStable(sites, func(i, j int) bool {
		if core.SSAName(sites[i].fn) != core.SSAName(sites[j].fn) {
			return core.SSAName(sites[i].fn) < core.SSAName(sites[j].fn)
		}
		return sites[i].in.Pos() < sites[j].in.Pos()
	})
	seen := map[string]int{}
	for _, s := range sites {
		key := fmt.Sprintf("%s|%s%s", core.SSAName(s.fn), rootDesc(s.root), s.kind)
		seen[key]++
		if seen[key] > 1 {
			key = fmt.Sprintf("%s#%d", key, seen[key])
		}
		detail := fmt.Sprintf("need len>=%d, proven len>=%d", s.need, s.have)
		if why, ok := kconstExceptions[key]; ok && s.have < s.need {
			r.Hold(rule, key, c.Pos(s.in.Pos()), detail+"; accepted by reading: "+why)
			continue
		}
		r.Decide(s.have >= s.need, rule, key, c.Pos(s.in.Pos()), detail)
	}
}

var kconstExceptions = map[string]string{
	"pkg/cl.(control).dirC|call:Append[2:]":   "Character.Append writes the two bytes #\\ before anything else, for every character",
	"pkg/cl.(control).dirC|call:Append[2:]#2": "Character.Append writes the two bytes #\\ before anything else, for every character",
}
