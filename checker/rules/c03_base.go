package rules

import (
	"fmt"
	"go/token"

	"golang.org/x/tools/go/ssa"

	"slipcheck/core"
	"slipcheck/lenflow"
)

// c03base: an integer is printed in the base the printer it is given says (*print-base*), with or without the
// radix prefix. In every Readably(b, p *Printer) each conversion of the number to digits (strconv.AppendInt,
// AppendUint, FormatInt, FormatUint, (*big.Int).Append, Text) takes its base from p.Base, or uses a constant k
// only where every path crosses the outcome p.Base == k. (The base itself, written in the #36r prefix, is printed
// in decimal: a conversion whose value is p.Base is not judged.) A fast path with a literal 10 prints 2^63..2^64-1
// in decimal under (let ((*print-base* 16)) ...), in the middle of a list printed in hexadecimal.
func c03base(c *core.Ctx, r *core.Reporter) { c03baseAs(c, r, "C03.base") }

func c03baseAs(c *core.Ctx, r *core.Reporter, rule string) {
	r.Rule(rule, "in every Readably(b, p *Printer) each conversion of the printed number to digits takes its base from p.Base, or a constant k only where p.Base == k holds on every path to it", 8)
	an := lenflow.New(c)
	fromBase := func(v ssa.Value) bool {
		for i := 0; i < 4; i++ {
			switch x := v.(type) {
			case *ssa.Convert:
				v = x.X
			case *ssa.ChangeType:
				v = x.X
			case *ssa.UnOp:
				fa, ok := x.X.(*ssa.FieldAddr)
				return ok && fieldName(fa) == "Base" && core.IsNamed(fa.X.Type(), core.SlipPath, "Printer")
			default:
				return false
			}
		}
		return false
	}
	for _, fn := range c.ModuleFuncs() {
		if fn.Name() != "Readably" || fn.Signature.Recv() == nil || fn.Parent() != nil || fn.Blocks == nil {
			continue
		}
		hasP := false
		for _, p := range fn.Params {
			if core.IsNamed(p.Type(), core.SlipPath, "Printer") {
				hasP = true
			}
		}
		if !hasP {
			continue
		}
		n := 0
		for _, b := range fn.Blocks {
			for _, in := range b.Instrs {
				call, ok := in.(*ssa.Call)
				if !ok {
					continue
				}
				g := call.Call.StaticCallee()
				if g == nil || g.Pkg == nil {
					continue
				}
				var val, base ssa.Value
				switch {
				case g.Pkg.Pkg.Path() == "strconv" && (g.Name() == "AppendInt" || g.Name() == "AppendUint") && len(call.Call.Args) == 3:
					val, base = call.Call.Args[1], call.Call.Args[2]
				case g.Pkg.Pkg.Path() == "strconv" && (g.Name() == "FormatInt" || g.Name() == "FormatUint") && len(call.Call.Args) == 2:
					val, base = call.Call.Args[0], call.Call.Args[1]
				case g.Pkg.Pkg.Path() == "math/big" && g.Name() == "Append" && len(call.Call.Args) == 3:
					val, base = call.Call.Args[0], call.Call.Args[2]
				case g.Pkg.Pkg.Path() == "math/big" && g.Name() == "Text" && len(call.Call.Args) == 2:
					val, base = call.Call.Args[0], call.Call.Args[1]
				default:
					continue
				}
				if fromBase(val) {
					continue // the base itself, written in decimal in the #nnr prefix
				}
				n++
				key := fmt.Sprintf("%s|digits #%d", core.SSAName(fn), n)
				ok2 := fromBase(base)
				why := "the base is p.Base"
				if !ok2 {
					if k, isC := base.(*ssa.Const); isC && k.Value != nil {
						kv := k.Int64()
						ok2 = core.Separates(fn, b, an.NoReturn, func(ifi *ssa.If, br bool) bool {
							bo, ok := ifi.Cond.(*ssa.BinOp)
							if !ok || (bo.Op != token.EQL && bo.Op != token.NEQ) {
								return false
							}
							var other ssa.Value
							if fromBase(bo.X) {
								other = bo.Y
							} else if fromBase(bo.Y) {
								other = bo.X
							} else {
								return false
							}
							ck, ok := other.(*ssa.Const)
							if !ok || ck.Value == nil || ck.Int64() != kv {
								return false
							}
							return (bo.Op == token.EQL) == br
						})
						why = fmt.Sprintf("constant base %d; p.Base == %d on every path: %v", kv, kv, ok2)
					} else {
						why = "the base is neither p.Base nor a constant"
					}
				}
				r.Decide(ok2, rule, key, c.Pos(call.Pos()), why)
			}
		}
	}
}
