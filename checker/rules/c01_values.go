package rules

import (
	"fmt"

	"golang.org/x/tools/go/ssa"

	"slipcheck/core"
)

// c01values: a form that returns several values hands the evaluator a slip.Values object; the argument loop of
// Function.Eval reduces it to the primary value, but a special form that evaluates an argument itself (EvalArg)
// gets the Values object as it is. Where such a result is then *evaluated again* as a form (eval), it has to be
// reduced first: a Values object evaluates to itself, so (eval (read-from-string "(+ 1 2)")) returned the form,
// not 3. Every evaluation whose form operand is the result of another evaluation in the same function is an
// instance: the first result is type-tested against slip.Values before the second evaluation.
func c01values(c *core.Ctx, r *core.Reporter) {
	const rule = "C01.values"
	r.Rule(rule, "where a built-in evaluates, as a form, the result of an evaluation it made itself, that result is type-tested against slip.Values first (the primary value is the form): a Values object evaluates to itself", 1)
	for _, b := range c.Registry() {
		if b.Call == nil || b.Name == "" {
			continue
		}
		fn := c.SSAFunc(b.Call)
		if fn == nil {
			continue
		}
		sites := evalSitesOf(fn)
		isSite := map[ssa.Value]bool{}
		for _, es := range sites {
			isSite[es.call] = true
		}
		n := 0
		for _, es := range sites {
			if es.form == nil {
				continue
			}
			// does the form operand come (through phis / interface changes) from another evaluation's result?
			var first ssa.Value
			seen := map[ssa.Value]bool{}
			var walk func(v ssa.Value, d int)
			walk = func(v ssa.Value, d int) {
				if v == nil || seen[v] || d > 5 {
					return
				}
				seen[v] = true
				if isSite[v] {
					first = v
					return
				}
				switch x := v.(type) {
				case *ssa.Phi:
					for _, e := range x.Edges {
						walk(e, d+1)
					}
				case *ssa.ChangeInterface:
					walk(x.X, d+1)
				}
			}
			walk(es.form, 0)
			if first == nil {
				continue
			}
			n++
			tested := false
			for _, v := range valueAliases(first, nil) {
				if v.Referrers() == nil {
					continue
				}
				for _, rf := range *v.Referrers() {
					if ta, ok := rf.(*ssa.TypeAssert); ok && core.IsNamed(ta.AssertedType, core.SlipPath, "Values") && ta.Block().Dominates(es.call.Block()) {
						tested = true
					}
				}
			}
			r.Decide(tested, rule, fmt.Sprintf("%s|evaluation of an evaluation #%d", b.Key(), n), c.Pos(es.call.Pos()), fmt.Sprintf("the first result is reduced to its primary value (type test against slip.Values) before it is evaluated: %v", tested))
		}
	}
}
