package rules

import (
	"go/types"
	"sort"

	"golang.org/x/tools/go/ssa"

	"slipcheck/core"
)

// c03symbol: two structural conditions for symbols to survive print and read, each violated on the pinned tree.
//
//	(render) Every rendering of a symbol by the printer goes through Symbol.Readably, the one function that decides
//	         about |bars|: no other function of package slip hands a string converted from a Symbol to
//	         Printer.caseName, and the pretty printer's tree builder (Printer.createTree), which has a Symbol arm of
//	         its own, calls Symbol.Readably. The tree builder wrote the bare name, so (prin1 '(|a b| c)) printed
//	         (a b c) under the default *print-pretty* t (repaired by 4919295).
//	(fold)   The printer folds the case of a name (*print-case*), so the reader must not distinguish names by case:
//	         every Symbol the reader (methods of slip.reader) builds from input bytes is built from the result of
//	         bytes.ToLower/strings.ToLower. resolveToken folded the token to classify it and then built the symbol
//	         from the letters as typed: (eq 'Foo 'foo) was nil and 'Foo did not survive print and read (repaired by
//	         c37575a and 1756a90).
func c03symbol(c *core.Ctx, r *core.Reporter) {
	const rule = "C03.symbol"
	r.Rule(rule, "symbols are rendered only through Symbol.Readably (also by the pretty printer's tree builder) and the reader builds every symbol from case-folded bytes", 4)
	readably := c.LookupFunc("", "Symbol.Readably")
	caseName := c.LookupFunc("", "Printer.caseName")
	createTree := c.LookupFunc("", "Printer.createTree")
	if readably == nil || caseName == nil || createTree == nil {
		r.Undecided(rule, "slip.(Symbol).Readably / (Printer).caseName / (Printer).createTree", "-", "anchor does not resolve")
		return
	}
	readablyFn, caseFn, treeFn := c.SSAFunc(readably), c.SSAFunc(caseName), c.SSAFunc(createTree)
	symT := c.LookupType("", "Symbol")
	isSym := func(t types.Type) bool {
		nt, ok := types.Unalias(t).(*types.Named)
		return ok && symT != nil && nt.Obj() == symT.Obj()
	}
	fromSymbol := func(v ssa.Value) bool {
		for i := 0; i < 4; i++ {
			switch x := v.(type) {
			case *ssa.ChangeType:
				if isSym(x.X.Type()) {
					return true
				}
				v = x.X
			case *ssa.Convert:
				if isSym(x.X.Type()) {
					return true
				}
				v = x.X
			default:
				return false
			}
		}
		return false
	}
	// (render)
	var fns []*ssa.Function
	for _, fn := range c.ModuleFuncs() {
		if fn.Blocks != nil && fn.Pkg != nil && fn.Pkg.Pkg.Path() == core.SlipPath && !takesTestingT(fn) {
			fns = append(fns, fn)
		}
	}
	sort.Slice(fns, func(i, j int) bool { return core.SSAName(fns[i]) < core.SSAName(fns[j]) })
	for _, fn := range fns {
		n := 0
		pos := ""
		for _, b := range fn.Blocks {
			for _, in := range b.Instrs {
				call, ok := in.(*ssa.Call)
				if !ok || call.Call.StaticCallee() != caseFn || len(call.Call.Args) < 2 {
					continue
				}
				if fromSymbol(call.Call.Args[1]) {
					n++
					if pos == "" {
						pos = c.Pos(call.Pos())
					}
				}
			}
		}
		if n == 0 {
			continue
		}
		r.Decide(fn == readablyFn, rule, "render|"+core.SSAName(fn), pos, "renders a symbol's name with Printer.caseName; only Symbol.Readably, which decides about bars, may")
	}
	callsReadably := false
	for _, b := range treeFn.Blocks {
		for _, in := range b.Instrs {
			if call, ok := in.(*ssa.Call); ok && call.Call.StaticCallee() == readablyFn {
				callsReadably = true
			}
		}
	}
	r.Decide(callsReadably, rule, "render|slip.(Printer).createTree calls Symbol.Readably", c.Pos(treeFn.Pos()), "the pretty printer's tree builder renders its Symbol arm with Symbol.Readably")
	// (numberlike) a name the reader would take for a number or a time must be written between bars: the printer
	// asks the reader's own token classifier, so Symbol.Readably reaches reader.resolveToken. (prin1 '|123|)
	// wrote 123, read back as a fixnum (cc448df).
	reachesClassifier := false
	for f := range staticReach(readablyFn) {
		if f.Name() == "resolveToken" && f.Signature.Recv() != nil {
			reachesClassifier = true
		}
	}
	r.Decide(reachesClassifier, rule, "numberlike|slip.(Symbol).Readably reaches reader.resolveToken", c.Pos(readablyFn.Pos()), "the decision to write a name bare consults the reader's token classifier: "+boolStr(reachesClassifier))
	// (fold)
	lower := func(v ssa.Value) bool {
		for i := 0; i < 4; i++ {
			switch x := v.(type) {
			case *ssa.Call:
				if f := x.Call.StaticCallee(); f != nil && f.Name() == "ToLower" && f.Pkg != nil && (f.Pkg.Pkg.Path() == "bytes" || f.Pkg.Pkg.Path() == "strings") {
					return true
				}
				return false
			case *ssa.Const:
				return true
			case *ssa.Slice:
				v = x.X // a slice of folded bytes is folded
			case *ssa.Phi:
				for _, e := range x.Edges {
					if e != ssa.Value(x) {
						if c, ok := e.(*ssa.Call); !ok || c.Call.StaticCallee() == nil || c.Call.StaticCallee().Name() != "ToLower" {
							if _, isC := e.(*ssa.Const); !isC {
								return false
							}
						}
					}
				}
				return true
			default:
				return false
			}
		}
		return false
	}
	for _, fn := range fns {
		if fn.Signature.Recv() == nil {
			continue
		}
		rt := fn.Signature.Recv().Type()
		if p, ok := rt.(*types.Pointer); ok {
			rt = p.Elem()
		}
		nt, ok := types.Unalias(rt).(*types.Named)
		if !ok || nt.Obj().Name() != "reader" {
			continue
		}
		seen := 0
		for _, b := range fn.Blocks {
			for _, in := range b.Instrs {
				cv, ok := in.(*ssa.Convert)
				if !ok || !isSym(cv.Type()) {
					continue
				}
				if _, isC := cv.X.(*ssa.Const); isC {
					continue
				}
				seen++
				key := "fold|" + core.SSAName(fn)
				if seen > 1 {
					key += "#" + string(rune('0'+seen))
				}
				r.Decide(lower(cv.X), rule, key, c.Pos(cv.Pos()), "the reader builds a Symbol from input bytes; they are the result of ToLower")
			}
		}
	}
}
