package rules

import (
	"fmt"
	"go/types"
	"sort"

	"golang.org/x/tools/go/ssa"

	"slipcheck/core"
	"slipcheck/lenflow"
)

// c09kany: constant positions in slices that are not lists of Objects (lists of lists, of ints, of strings, of
// bytes, ...). C09.idx decides them for lists of Objects and C09.strk for strings; the same obligation holds for
// every other slice built from the arguments: `seqs := make([]slip.List, len(args)-2); ... seqs[0]` faulted for
// (map nil #'car) (d09e626). The rule: x[k] with constant k >= 0 on such a slice is reached only with
// len(x) > k proven by the length engine.
func c09kany(c *core.Ctx, r *core.Reporter) {
	const rule = "C09.kany"
	r.Rule(rule, "every constant index x[k] on a slice the function makes itself (sized from the argument count) that is neither a list of Objects nor a string is reached only with a proven length (same engine as C09.idx)", 5)
	an := lenflow.New(c)
	type site struct {
		fn   *ssa.Function
		in   ssa.Instruction
		need int
		have int
		root ssa.Value
		kind string
	}
	var sites []*site
	want := func(t types.Type) bool {
		if _, ok := t.Underlying().(*types.Slice); !ok {
			return false
		}
		return !isObjectSlice(t)
	}
	for _, fn := range c.ModuleFuncs() {
		if fn.Pkg == nil || takesTestingT(fn) || fn.Blocks == nil {
			continue
		}
		rel := core.RelPkg(fn.Pkg.Pkg.Path())
		switch rel {
		case "slip", "pkg/cl", "pkg/clos", "pkg/generic", "pkg/flavors", "pkg/gi", "pkg/bag", "pkg/net", "pkg/csv", "pkg/xml":
			// the packages whose slices are shaped by Lisp-level input; the code writer (pp), the terminal
			// editor (pkg/repl) and the protocol servers (swank, watch) index structures of their own making
		default:
			continue
		}
		has := false
		for _, b := range fn.Blocks {
			for _, in := range b.Instrs {
				if x, ok := in.(*ssa.IndexAddr); ok && want(x.X.Type()) {
					if _, ok := x.Index.(*ssa.Const); ok {
						has = true
					}
				}
			}
		}
		if !has {
			continue
		}
		res := an.Analyze(fn, nil, nil, 0)
		res.Visit(func(in ssa.Instruction, st lenflow.State) {
			x, ok := in.(*ssa.IndexAddr)
			if !ok || !want(x.X.Type()) {
				return
			}
			k, ok := x.Index.(*ssa.Const)
			if !ok || k.Value == nil || k.Int64() < 0 {
				return
			}
			ref := res.ResolveSlice(x.X)
			if _, made := ref.Root.(*ssa.MakeSlice); !made {
				return // only slices this function sizes itself (from the argument count): the others index
				// structures with invariants of their own (Hierarchy(), byte representations, tables)
			}
			sites = append(sites, &site{fn: fn, in: in, need: int(k.Int64()) + 1 + ref.Off, have: res.LBRoot(st, ref.Root), root: ref.Root, kind: fmt.Sprintf("[%d]", k.Int64())})
		})
	}
	sort.SliceStable(sites, func(i, j int) bool {
		if core.SSAName(sites[i].fn) != core.SSAName(sites[j].fn) {
			return core.SSAName(sites[i].fn) < core.SSAName(sites[j].fn)
		}
		return sites[i].in.Pos() < sites[j].in.Pos()
	})
	seen := map[string]int{}
	for _, s := range sites {
		key := fmt.Sprintf("%s|%s%s", core.SSAName(s.fn), rootDesc(s.root), s.kind)
		seen[key]++
		if seen[key] > 1 {
			key = fmt.Sprintf("%s#%d", key, seen[key])
		}
		detail := fmt.Sprintf("need len>=%d, proven len>=%d", s.need, s.have)
		if why, ok := kanyExceptions[key]; ok && s.have < s.need {
			r.Hold(rule, key, c.Pos(s.in.Pos()), detail+"; accepted by reading: "+why)
			continue
		}
		r.Decide(s.have >= s.need, rule, key, c.Pos(s.in.Pos()), detail)
	}
}

var kanyExceptions = map[string]string{
	"pkg/cl.(control).dirMoney|make[0]": "the slice is made with len(buf)+n elements inside `if cnt < n { n -= cnt`, so n >= 1",
}
